(** Helpers shared by the correspondence evaluators (Check/*.v). *)
From Coq Require Import List NArith ZArith Bool.
Import ListNotations.

Fixpoint indices_where_from {A} (f : A -> bool) (i : N) (l : list A) : list N :=
  match l with
  | [] => []
  | x :: l' => if f x then i :: indices_where_from f (N.succ i) l'
               else indices_where_from f (N.succ i) l'
  end.
(** positions (from 0) of the elements satisfying [f] *)
Definition indices_where {A} (f : A -> bool) (l : list A) : list N := indices_where_from f 0%N l.

Fixpoint list_eqb {A} (eqb : A -> A -> bool) (l1 l2 : list A) : bool :=
  match l1, l2 with
  | [], [] => true
  | x :: l1', y :: l2' => eqb x y && list_eqb eqb l1' l2'
  | _, _ => false
  end.

Lemma list_eqb_eq {A} (eqb : A -> A -> bool) :
  (forall x y, eqb x y = true <-> x = y) ->
  forall l1 l2, list_eqb eqb l1 l2 = true <-> l1 = l2.
Proof.
  intros H; induction l1 as [|x l1 IH]; destruct l2 as [|y l2]; cbn; try (split; congruence).
  rewrite andb_true_iff, H, IH. split; [intros [-> ->]; reflexivity | intros [= -> ->]; auto].
Qed.

Definition zlist_eqb := list_eqb Z.eqb.
Definition zlistlist_eqb := list_eqb zlist_eqb.
