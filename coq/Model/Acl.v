(** * Model of the ACL decision of the data hub
      internal/web/middlewares/authorization.go  doAclCheck
      internal/security/manager.go               CheckGranted, FilterDatasets
    and the short spec it is compared with.  Strings are Coq [string]s (byte strings, as in Go).
    Definitions only; proofs are in Proofs/AclProofs.v. *)
From Coq Require Import List String Ascii Bool.
Import ListNotations.
Open Scope string_scope.

(** security.AccessControl *)
Record ac := { ac_resource : string; ac_action : string; ac_deny : bool }.

(** Variant flags.
    [MapPostDelete]: the pinned tree - only DELETE and POST need "write", every other method "read" (finding F16a).
    [MapSafeOnly]  : repaired - every method except GET and HEAD needs "write".
    [DenySkip]     : the pinned tree - a matching deny entry merely does not grant; the loop goes on and any
                     other entry (before or after it) can still grant (finding F16b).
    [DenyWins]     : repaired - a deny entry that applies to the request rejects it whatever else is listed. *)
Inductive method_map := MapPostDelete | MapSafeOnly.
Inductive deny_mode := DenySkip | DenyWins.

(** [action := "read"; if method == "DELETE" || method == "POST" { action = "write" }] *)
Definition needed (mm : method_map) (method : string) : string :=
  match mm with
  | MapPostDelete => if (method =? "DELETE") || (method =? "POST") then "write" else "read"
  | MapSafeOnly => if (method =? "GET") || (method =? "HEAD") then "read" else "write"
  end.

(** strings.HasPrefix *)
Fixpoint is_prefix (p s : string) : bool :=
  match p with
  | EmptyString => true
  | String a p' => match s with
                   | EmptyString => false
                   | String b s' => Ascii.eqb a b && is_prefix p' s'
                   end
  end.

(** [strings.HasSuffix(r, "*")] and [r[:len(r)-1]] in one: [Some pattern] iff r = pattern ++ "*" *)
Fixpoint strip_star (r : string) : option string :=
  match r with
  | EmptyString => None
  | String a EmptyString => if Ascii.eqb a "*"%char then Some EmptyString else None
  | String a r' => match strip_star r' with Some p => Some (String a p) | None => None end
  end.

(** the test both branches of CheckGranted apply to the actions:
    [action == "read" && (ac.Action == "read" || ac.Action == "write")] or else [action == ac.Action] *)
Definition action_covers (action acaction : string) : bool :=
  if (action =? "read") && ((acaction =? "read") || (acaction =? "write")) then true
  else action =? acaction.

(** ServiceCore.CheckGranted, statement by statement *)
Definition check_granted (a : ac) (resource action : string) : bool :=
  if (ac_resource a =? resource) && action_covers action (ac_action a) then negb (ac_deny a)
  else match strip_star (ac_resource a) with
       | Some pattern =>
           if is_prefix pattern resource && action_covers action (ac_action a) then negb (ac_deny a) else false
       | None => false
       end.

(** the entry speaks about this request (allowing or denying it): CheckGranted without the [!ac.Deny] *)
Definition entry_applies (a : ac) (resource action : string) : bool :=
  ((ac_resource a =? resource)
   || match strip_star (ac_resource a) with Some pattern => is_prefix pattern resource | None => false end)
  && action_covers action (ac_action a).

Definition is_admin (roles : list string) : bool := existsb (fun r => r =? "admin") roles.

(** the loop [for _, ac := range acl { if core.CheckGranted(ac, path, action) { return nil } }] *)
Definition grant_loop (acl : list ac) (path action : string) : bool :=
  existsb (fun a => check_granted a path action) acl.

Definition deny_hits (acl : list ac) (path action : string) : bool :=
  existsb (fun a => ac_deny a && entry_applies a path action) acl.

(** doAclCheck: [true] = nil error (request goes on), [false] = 403.
    [acl = None]: GetAccessControls returned nil (no entry for the subject). *)
Definition acl_check (mm : method_map) (dm : deny_mode) (method path : string)
           (roles : list string) (acl : option (list ac)) : bool :=
  if is_admin roles then true
  else match acl with
       | None => false
       | Some l =>
           let action := needed mm method in
           match dm with
           | DenySkip => grant_loop l path action
           | DenyWins => negb (deny_hits l path action) && grant_loop l path action
           end
       end.

(** ServiceCore.FilterDatasets: for every dataset, one copy per granting entry (the Go loop does not break);
    repaired: nothing for a dataset a deny entry applies to *)
Definition filter_datasets (dm : deny_mode) (acl : list ac) (names : list string) : list string :=
  flat_map (fun d =>
    let p := "/datasets/" ++ d in
    let copies := flat_map (fun a => if check_granted a p "read" then [d] else []) acl in
    match dm with
    | DenySkip => copies
    | DenyWins => if deny_hits acl p "read" then [] else copies
    end) names.

(** ** Spec *)

(** a resource pattern covers a path: exactly, or by trailing-* prefix *)
Definition res_matches (r path : string) : Prop :=
  r = path \/ exists p rest, r = p ++ "*" /\ path = p ++ rest.

(** what a request needs: every method that is not GET or HEAD changes state and needs write *)
Definition spec_needed (method : string) : string :=
  if (method =? "GET") || (method =? "HEAD") then "read" else "write".

(** a granted action covers a needed one: the same, or write for read; read never covers write *)
Definition covers (granted need : string) : Prop :=
  granted = need \/ (granted = "write" /\ need = "read").

(** the ACL grants [need] on [path]: some allow entry covers it and no deny entry for that action matches the path *)
Definition acl_grants (acl : list ac) (path need : string) : Prop :=
  (exists a, In a acl /\ ac_deny a = false /\ res_matches (ac_resource a) path /\ covers (ac_action a) need)
  /\ (forall d, In d acl -> ac_deny d = true -> res_matches (ac_resource d) path -> ac_action d = need -> False).

(** a request may pass the authorizer *)
Definition authorized (method path : string) (roles : list string) (acl : option (list ac)) : Prop :=
  In "admin" roles \/ exists l, acl = Some l /\ acl_grants l path (spec_needed method).

(** ** The spec again, executable (used by the check on the implementation's observations; reflected in Proofs/AclProofs.v) *)
Definition mem_str (s : string) (l : list string) : bool := existsb (fun x => x =? s) l.

Definition res_matches_b (r path : string) : bool :=
  (r =? path) || match strip_star r with Some p => is_prefix p path | None => false end.

Definition covers_b (granted need : string) : bool :=
  (granted =? need) || ((granted =? "write") && (need =? "read")).

Definition acl_grants_b (acl : list ac) (path need : string) : bool :=
  existsb (fun a => negb (ac_deny a) && res_matches_b (ac_resource a) path && covers_b (ac_action a) need) acl
  && negb (existsb (fun d => ac_deny d && res_matches_b (ac_resource d) path && (ac_action d =? need)) acl).

Definition authorized_b (method path : string) (roles : list string) (acl : option (list ac)) : bool :=
  mem_str "admin" roles
  || match acl with Some l => acl_grants_b l path (spec_needed method) | None => false end.
