(** * Model of the control flow of job.Run (internal/jobs/job.go) around an abstract pipeline,
    of the acceptance test Scheduler.verify / verifyErrorHandlers, and of what the wrappers
    installed by instrumentErrorHandling do to it, over the finite lattice of job building blocks
    the C11 driver enumerates.  Definitions only. *)
From Coq Require Import List Bool.
Import ListNotations.

Inductive src := SDataset | SSample | SSlow | SHttp | SHttpMid | SProxy | SUnion.
(* SProxy: DatasetSource on a proxy dataset (timeoutSeconds 1) whose remote accepts the request and stays silent;
   SUnion: UnionDatasetSource over [a; b] whose stored token comes from an earlier run of the same job id over
   [a; b; c] (the job was re-defined with fewer members) *)
(* SHttp / SHttpMid: HttpDatasetSource on a remote data layer; when the job is killed the remote is stalling before the
   response (SHttp) or in the middle of the body (SHttpMid) *)
Definition killable (s : src) : bool := match s with SSlow | SHttp | SHttpMid => true | _ => false end.
Inductive tr := TNone | TJs | TJsPar | TPanic | TEmpty | TNoCode.
(* TNoCode: a transform block {"Type": "JavascriptTransform"} without Code: parseTransform yields no transform at all *)
Definition has_transform (t : tr) : bool := match t with TNone | TNoCode => false | _ => true end.
(* TJsPar: identity JS transform with Parallelism 10 on pages of 15 entities (the partition arithmetic of C10);
   TEmpty: a filtering JS transform that returns no entity at all (the sink is then called with an empty batch) *)
(* TPanic: a transform stage that panics in the goroutine of the run (the driver injects the panic into the
   pipeline.transform.batch timing call, which both pipelines make right after the transform of a page;
   on the pinned tree the rounding defect of C10 is a real instance: makeslice: len out of range) *)
Inductive snk := KDevNull | KDataset | KMissing. (* KMissing: DatasetSink on a dataset that does not exist *)
Inductive trig := GCron | GOnChange.
Inductive jt := JIncr | JFull.
(** the source fails before anything is read: the proxy request times out; the union source refuses a token with a
    different number of members (an incremental run - a fullsync starts from an empty token) *)
Definition src_fails (s : src) (j : jt) : bool :=
  match s, j with SProxy, _ => true | SUnion, JIncr => true | _, _ => false end.
Inductive hset := HNone | HLog | HRerun | HLogRerun | HBad | HLogCap. (* HLogCap: "Log", HBad: unknown type *)

Record cfg := {
  c_src : src; c_tr : tr; c_snk : snk; c_trig : trig; c_jt : jt; c_h : hset;
  c_kill : bool      (* the job is killed while the (slow) source is reading *)
}.

(** known deviations of the pinned tree (true = repaired) *)
Record jvariant := {
  fix_endctx : bool;   (* F11a: wrappedTransform.EndStoreContext forwards to w.t instead of itself *)
  fix_verify : bool;   (* F11b: verify checks the error handlers of onchange triggers too *)
  fix_panic : bool;    (* F11c: a panic inside the run is turned into a recorded failure *)
  fix_chunk : bool;    (* F11d = F10b seen from here: the chunk arithmetic of the parallel transform does not panic *)
  fix_clone : bool     (* F11e: the parallel workers get their own clone of the JS runtime also when the transform is wrapped *)
}.
Definition jcurrent := {| fix_endctx := false; fix_verify := false; fix_panic := false; fix_chunk := false; fix_clone := false |}.
Definition jfixed := {| fix_endctx := true; fix_verify := true; fix_panic := true; fix_chunk := true; fix_clone := true |}.

(** Scheduler.verify: an onchange trigger with a monitored dataset returns before verifyErrorHandlers *)
Definition handlers_verified (v : jvariant) (c : cfg) : bool :=
  match c_trig c with GCron => true | GOnChange => fix_verify v end.

Definition accepted (v : jvariant) (c : cfg) : bool :=
  if handlers_verified v c then (match c_h c with HBad => false | _ => true end) else true.

(** instrumentErrorHandling wraps iff some handler has Type == "log" (verifyErrorHandlers lower-cases) *)
Definition has_log (v : jvariant) (c : cfg) : bool :=
  match c_h c with
  | HLog | HLogRerun => true
  | HLogCap => handlers_verified v c
  | _ => false
  end.
(** ... and the handler object exists only if verifyErrorHandlers created it *)
Definition handler_nil (v : jvariant) (c : cfg) : bool := has_log v c && negb (handlers_verified v c).

(** F11e: IncrementalPipeline.sync clones the JS runtime per worker only if the transform's dynamic type is
    *JavascriptTransform; wrapped by instrumentErrorHandling it is a *wrappedTransform, so with Parallelism > 1 the
    workers share one goja runtime - a data race.  The outcome of such a run is not determined (observed: index out of
    range / nil dereference in a worker goroutine, which kills the process; or no visible damage). *)
Definition racy (v : jvariant) (c : cfg) : bool :=
  negb (fix_clone v) && accepted v c && has_log v c && negb (c_kill c) && negb (src_fails (c_src c) (c_jt c))
  && (match c_tr c, c_jt c with TJsPar, JIncr => true | _, _ => false end).

Inductive sres := SOk | SErr | SInterrupt | SPanic | SDiverge.

(** pipeline.sync with the wrappers in place *)
Definition sync (v : jvariant) (c : cfg) : sres * bool (* wrappedSink.lastError set *) :=
  let wrapped := has_log v c in
    match c_jt c, c_snk c with
    | JFull, KMissing => (SErr, false)                       (* sink.startFullSync fails, before the source is read *)
    | _, _ =>
      if c_kill c
      then (match c_src c with
            | SHttp | SHttpMid => (SErr, false)   (* the cancelled request fails: "context canceled", an ordinary error *)
            | _ => (SInterrupt, false)
            end)
      else
      if src_fails (c_src c) (c_jt c) then (SErr, false) else
      (* transform stage of the first page *)
      if (match c_tr c, c_jt c with
          | TPanic, _ => true
          | TJsPar, JIncr => negb (fix_chunk v)          (* makeslice: len out of range *)
          | _, _ => false
          end)
      then (SPanic, false)
      else
        (* sink stage *)
        let '(stop, lasterr) :=
            match c_snk c with
            | KMissing =>
              (* every batch is rejected; with the wrapper each entity goes to the handler (nil handler: nil
                 dereference) - an empty batch has no entity to hand over, the error is only remembered *)
              if wrapped
              then (if handler_nil v c && negb (match c_tr c with TEmpty => true | _ => false end)
                    then (Some SPanic, false) else (None, true))
              else (Some SErr, false)
            | _ => (None, false)
            end in
        match stop with
        | Some r => (r, lasterr)
        | None =>
          (* transform.EndStoreContext after the last page *)
          if has_transform (c_tr c) && wrapped && negb (fix_endctx v) then (SDiverge, lasterr) else (SOk, lasterr)
        end
    end.

Inductive result := RSuccess | RFailure | RKill.

Record out := {
  o_accepted : bool;
  o_alive : bool;                 (* the hub process survives the run *)
  o_result : option result;       (* stored jobResult *)
  o_ticket : bool                 (* run slot released *)
}.

(** job.Run: borrow ticket; instrument; defer handleJobError; defer returnTicket; sync; store result.
    A panic skips the store, runs the defers and propagates: jobrunner's recover re-panics
    (log.Logger.Panic) for cron jobs, event jobs run in a bare goroutine - the process dies either way.
    A runaway recursion is fatal at once. *)
Definition run_once (v : jvariant) (c : cfg) : out :=
    match sync v c with
    | (SOk, lasterr) =>
      {| o_accepted := true; o_alive := true;
         o_result := Some (if has_log v c && lasterr then RFailure else RSuccess); o_ticket := true |}
    | (SErr, _) => {| o_accepted := true; o_alive := true; o_result := Some RFailure; o_ticket := true |}
    | (SInterrupt, _) => {| o_accepted := true; o_alive := true; o_result := Some RKill; o_ticket := true |}
    | (SPanic, _) =>
      if fix_panic v
      then {| o_accepted := true; o_alive := true; o_result := Some RFailure; o_ticket := true |}
      else {| o_accepted := true; o_alive := false; o_result := None; o_ticket := true |}
    | (SDiverge, _) => {| o_accepted := true; o_alive := false; o_result := None; o_ticket := false |}
    end.

Definition run_job (v : jvariant) (c : cfg) : out :=
  if negb (accepted v c) then {| o_accepted := false; o_alive := true; o_result := None; o_ticket := true |}
  else
    let o := run_once v c in
    (* a recorded failure makes handleJobError schedule the re-run; with unverified handlers RetryDelay is a few
       nanoseconds, the re-run starts at once, instrumentErrorHandling calls reset() on the nil handler: the
       process dies with the first run's failure already stored *)
    match o_result o with
    | Some RFailure =>
      if o_alive o && handler_nil v c && (match c_h c with HLogRerun => true | _ => false end)
      then {| o_accepted := true; o_alive := false; o_result := Some RFailure; o_ticket := true |}
      else o
    | _ => o
    end.

(** a job killed while the slow source sleeps must be recorded as killed (unless the fullsync sink failed before) *)
Definition must_kill (c : cfg) : bool :=
  c_kill c && (match c_src c with SSlow => true | _ => false end)
  && negb (match c_jt c, c_snk c with JFull, KMissing => true | _, _ => false end).

(** the lattice *)
Definition all_src := [SDataset; SSample; SSlow; SHttp; SHttpMid; SProxy; SUnion].
Definition all_tr := [TNone; TJs; TJsPar; TPanic; TEmpty; TNoCode].
Definition all_snk := [KDevNull; KDataset; KMissing].
Definition all_trig := [GCron; GOnChange].
Definition all_jt := [JIncr; JFull].
Definition all_h := [HNone; HLog; HRerun; HLogRerun; HBad; HLogCap].

Definition all_cfgs : list cfg :=
  flat_map (fun s => flat_map (fun t => flat_map (fun k => flat_map (fun g => flat_map (fun j =>
  flat_map (fun h => map (fun kl =>
    {| c_src := s; c_tr := t; c_snk := k; c_trig := g; c_jt := j; c_h := h; c_kill := kl |})
    (if killable s then [false; true] else [false]))
  all_h) all_jt) all_trig) all_snk) all_tr) all_src.

(** the property on one configuration: accepted => recorded outcome, slot released, process alive *)
Definition good_out (o : out) : bool :=
  negb (o_accepted o) || (o_alive o && (match o_result o with Some _ => true | None => false end) && o_ticket o).

(** wrappedTransform.EndStoreContext of the pinned tree is [return w.EndStoreContext(s)]: with any amount
    of stack it does not return ([None] = out of stack); repaired it forwards to the wrapped transform *)
Fixpoint wrapped_end_ctx (fixed : bool) (fuel : nat) : option unit :=
  match fuel with
  | O => None
  | S f => if fixed then Some tt else wrapped_end_ctx fixed f
  end.

(** exactly the accepted configurations on which a run of the pinned tree kills the hub process *)
Definition dies_current (c : cfg) : bool :=
  let tempty := match c_tr c with TEmpty => true | _ => false end in
  let nilrerun := match c_trig c, c_h c with GOnChange, HLogRerun => true | _, _ => false end in
  accepted jcurrent c
  && if (match c_jt c, c_snk c with JFull, KMissing => true | _, _ => false end)
     then nilrerun
     else if c_kill c
     then (match c_src c with SHttp | SHttpMid => nilrerun | _ => false end)
     else if src_fails (c_src c) (c_jt c) then nilrerun
     else ((match c_tr c, c_jt c with TPanic, _ => true | TJsPar, JIncr => true | _, _ => false end)
              || (has_log jcurrent c
                  && ((match c_snk c, c_trig c with KMissing, GOnChange => negb tempty || nilrerun | _, _ => false end)
                      || has_transform (c_tr c)))).

