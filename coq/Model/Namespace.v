(** * Model of the namespace manager of internal/server/store.go
      (NamespaceManager, getURLParts, GetNamespacedIdentifier*, ExpandCurie,
       GetContext / GetGlobalContext, Open's reload of "namespacestate").
    Strings are lists of byte codes.  Definitions only; proofs are in
    Proofs/NamespaceProofs.v. *)
From Coq Require Import List NArith Bool Arith.
From DH Require Import Lib.CheckLib.
Import ListNotations.
Open Scope N_scope.

Definition str := list N.
Definition str_eqb : str -> str -> bool := list_eqb N.eqb.

(** ** Go maps as association lists with unique keys ([set] = [m[k] = v]) *)
Section Assoc.
  Context {K V : Type} (eqb : K -> K -> bool).
  Fixpoint lookup (k : K) (m : list (K * V)) : option V :=
    match m with
    | [] => None
    | (k', v) :: m' => if eqb k k' then Some v else lookup k m'
    end.
  Fixpoint set (k : K) (v : V) (m : list (K * V)) : list (K * V) :=
    match m with
    | [] => [(k, v)]
    | (k', v') :: m' => if eqb k k' then (k, v) :: m' else (k', v') :: set k v m'
    end.
End Assoc.
Notation slookup := (@lookup str _ str_eqb).
Notation sset := (@set str _ str_eqb).

(** ** strconv.Itoa on a non-negative number *)
Fixpoint dec_rev (fuel : nat) (n : N) : str :=      (* least significant digit first *)
  match fuel with
  | O => []
  | S f => (48 + n mod 10) :: (if n <? 10 then [] else dec_rev f (n / 10))
  end.
Definition dec_fuel (n : N) : nat := S (N.to_nat (N.log2 n)).
Definition dec (n : N) : str := rev (dec_rev (dec_fuel n) n).
Fixpoint undec_rev (s : str) : N :=
  match s with [] => 0 | d :: s' => (d - 48) + 10 * undec_rev s' end.

(** character codes *)
Definition c_hash : N := 35.   (* # *)
Definition c_slash : N := 47.  (* / *)
Definition c_colon : N := 58.  (* : *)
Definition s_ns : str := [110; 115].                               (* "ns" *)
Definition s_http : str := [104; 116; 116; 112; 58; 47; 47].        (* "http://" *)
Definition s_https : str := [104; 116; 116; 112; 115; 58; 47; 47].  (* "https://" *)
Definition s_under : str := [95].                                   (* "_" *)

Fixpoint has_prefix (p s : str) : bool :=
  match p, s with
  | [], _ => true
  | a :: p', b :: s' => N.eqb a b && has_prefix p' s'
  | _ :: _, [] => false
  end.
Definition is_http (s : str) : bool := has_prefix s_http s || has_prefix s_https s.

(** strings.LastIndex(s, c) for a single byte *)
Fixpoint last_index (c : N) (s : str) : option nat :=
  match s with
  | [] => None
  | x :: s' =>
    match last_index c s' with
    | Some i => Some (S i)
    | None => if N.eqb x c then Some O else None
    end
  end.
Definition split_after (i : nat) (s : str) : str * str := (firstn (S i) s, skipn (S i) s).

(** getURLParts: split after the last '#', else after the last '/' *)
Definition url_parts (s : str) : option (str * str) :=
  match last_index c_hash s with
  | Some i => Some (split_after i s)
  | None =>
    match last_index c_slash s with
    | Some i => Some (split_after i s)
    | None => None
    end
  end.

(** strings.Index(s, c) and the two slices around it *)
Fixpoint split_first (c : N) (s : str) : option (str * str) :=
  match s with
  | [] => None
  | x :: s' =>
    if N.eqb x c then Some ([], s')
    else match split_first c s' with
         | Some (a, b) => Some (x :: a, b)
         | None => None
         end
  end.

(** ** The manager state: the two in-memory maps and the persisted object *)
Record nsmaps := { p2e : list (str * str); e2p : list (str * str) }.
Record nsstate := { mem : nsmaps; dsk : nsmaps }.
Definition ns_empty : nsmaps := {| p2e := []; e2p := [] |}.
Definition ns_init : nsstate := {| mem := ns_empty; dsk := ns_empty |}.

Definition ns_name (n : nat) : str := s_ns ++ dec (N.of_nat n).
Definition nonempty (s : str) : bool := match s with [] => false | _ => true end.

(** AssertPrefixMappingForExpansion: under the manager lock; the whole state
    is persisted (StoreObject = one Badger update) before the prefix is returned *)
Definition assert_prefix (e : str) (st : nsstate) : nsstate * str :=
  let fresh :=
    let p := ns_name (length (p2e (mem st))) in
    let m' := {| p2e := sset p e (p2e (mem st)); e2p := sset e p (e2p (mem st)) |} in
    ({| mem := m'; dsk := m' |}, p) in
  match slookup e (e2p (mem st)) with
  | Some p => if nonempty p then (st, p) else fresh
  | None => fresh
  end.

(** Close + NewStore (or a crash: the state object is written synchronously) *)
Definition ns_restart (st : nsstate) : nsstate := {| mem := dsk st; dsk := dsk st |}.

Definition get_prefix (e : str) (st : nsstate) : option str := slookup e (e2p (mem st)).

Definition expand_in (m : list (str * str)) (c : str) : option str :=
  match split_first c_colon c with
  | None => None
  | Some (p, post) =>
    match slookup p m with
    | Some e => Some (e ++ post)
    | None => None
    end
  end.
Definition expand_curie (c : str) (st : nsstate) : option str := expand_in (p2e (mem st)) c.

(** Store.GetNamespacedIdentifierFromURI *)
Definition compact (u : str) (st : nsstate) : nsstate * option str :=
  if is_http u then
    match url_parts u with
    | None => (st, None)
    | Some (e, l) => let '(st', p) := assert_prefix e st in (st', Some (p ++ c_colon :: l))
    end
  else (st, None).

(** Store.GetNamespacedIdentifier(val, localNamespaces) *)
Definition ns_identifier (v : str) (locals : list (str * str)) (st : nsstate) : nsstate * option str :=
  match v with
  | [] => (st, None)
  | _ =>
    if is_http v then compact v st
    else
      let via (e l : str) :=
        match e with
        | [] => (st, None)
        | _ => let '(st', p) := assert_prefix e st in (st', Some (p ++ c_colon :: l))
        end in
      match split_first c_colon v with
      | None => via (match slookup s_under locals with Some e => e | None => [] end) v
      | Some (lp, l) => via (match slookup lp locals with Some e => e | None => [] end) l
      end
  end.

(** ** Contexts handed to readers.
    [AliasLive]: the pinned tree - GetContext(nil) / GetGlobalContext(false)
    return the manager's own map.  [AliasCopy]: repaired - a copy. *)
Inductive alias_mode := AliasLive | AliasCopy.
Inductive handle := HLive (epoch : nat) | HSnap (m : list (str * str)).

Record nsworld := {
  nst : nsstate;
  epoch : nat;                          (* number of restarts so far *)
  olds : list (list (str * str));        (* the map objects of closed stores, by epoch *)
  handles : list handle
}.
Definition nsw_init : nsworld := {| nst := ns_init; epoch := 0; olds := []; handles := [] |}.

Inductive nsop :=
| NAssert (e : str)
| NCompact (u : str)
| NNsId (v : str) (locals : list (str * str))
| NExpand (c : str)
| NGetPrefix (e : str)
| NFetch                 (* GetGlobalContext(false): a new reader handle *)
| NRead (h : nat)        (* the reader serialises the context it was given *)
| NRestart
| NCtxAll                (* a context served to a request: GET /namespaces, @context of a page of a dataset without
                            publicNamespaces *)
| NDsCtx (exps : list str)  (* @context of a page of a dataset whose publicNamespaces are [exps]: GetContext(exps) *)
| NJsonLD.               (* a page rendered as JSON-LD: the handler adds the fixed prefixes core and rdf to ITS OWN
                            copy of the context - no reader may see them *)

Inductive nsout :=
| OStr (s : str)
| OErr
| OCtx (m : list (str * str))
| ONone.

Definition opt_out (o : option str) : nsout := match o with Some s => OStr s | None => OErr end.
Definition with_st (w : nsworld) (st : nsstate) : nsworld :=
  {| nst := st; epoch := epoch w; olds := olds w; handles := handles w |}.

Definition read_handle (w : nsworld) (h : handle) : list (str * str) :=
  match h with
  | HSnap m => m
  | HLive ep => if Nat.eqb ep (epoch w) then p2e (mem (nst w)) else nth ep (olds w) []
  end.

(** GetContext(includedNamespaces): [filtered[prefix] = expansion] for every declared expansion, the prefix being
    whatever the manager knows at this moment ("" when it knows none) *)
Definition ctx_key (e : str) (st : nsstate) : str := match get_prefix e st with Some p => p | None => [] end.
Definition ctx_of (exps : list str) (st : nsstate) : list (str * str) :=
  fold_left (fun m e => sset (ctx_key e st) e m) exps [].

Definition ns_step (a : alias_mode) (op : nsop) (w : nsworld) : nsworld * nsout :=
  match op with
  | NAssert e => let '(st, p) := assert_prefix e (nst w) in (with_st w st, OStr p)
  | NCompact u => let '(st, r) := compact u (nst w) in (with_st w st, opt_out r)
  | NNsId v locals => let '(st, r) := ns_identifier v locals (nst w) in (with_st w st, opt_out r)
  | NExpand c => (w, opt_out (expand_curie c (nst w)))
  | NGetPrefix e => (w, opt_out (get_prefix e (nst w)))
  | NFetch =>
    let h := match a with AliasLive => HLive (epoch w) | AliasCopy => HSnap (p2e (mem (nst w))) end in
    ({| nst := nst w; epoch := epoch w; olds := olds w; handles := handles w ++ [h] |},
     OCtx (p2e (mem (nst w))))
  | NRead h =>
    (w, match nth_error (handles w) h with Some hd => OCtx (read_handle w hd) | None => OErr end)
  | NRestart =>
    ({| nst := ns_restart (nst w); epoch := S (epoch w);
        olds := olds w ++ [p2e (mem (nst w))]; handles := handles w |}, ONone)
  | NCtxAll => (w, OCtx (p2e (mem (nst w))))
  | NDsCtx exps => (w, OCtx (ctx_of exps (nst w)))
  | NJsonLD => (w, ONone)
  end.

Fixpoint ns_run (a : alias_mode) (ops : list nsop) (w : nsworld) : nsworld * list nsout :=
  match ops with
  | [] => (w, [])
  | op :: ops' =>
    let '(w1, o) := ns_step a op w in
    let '(w2, os) := ns_run a ops' w1 in
    (w2, o :: os)
  end.

(** ** Spec: what a reader may rely on.  The h-th fetched context, whenever
    it is read later, shows what it showed when it was fetched. *)
Fixpoint snapshot_ok (fetched : list nsout) (evs : list (nsop * nsout)) : bool :=
  match evs with
  | [] => true
  | (NFetch, o) :: evs' => snapshot_ok (fetched ++ [o]) evs'
  | (NRead h, o) :: evs' =>
    (match nth_error fetched h, o with
     | Some (OCtx m), OCtx m' => list_eqb (fun x y => str_eqb (fst x) (fst y) && str_eqb (snd x) (snd y)) m m'
     | None, OErr => true
     | _, _ => false
     end) && snapshot_ok fetched evs'
  | _ :: evs' => snapshot_ok fetched evs'
  end.

(** no stale context: once a namespace has been given its prefix, every later context of a dataset that
    declares it shows it under that prefix *)
Definition has_mapping (m : list (str * str)) (p e : str) : bool :=
  match slookup p m with Some e' => str_eqb e' e | None => false end.
Fixpoint dsctx_ok (known : list (str * str)) (evs : list (nsop * nsout)) : bool :=
  match evs with
  | [] => true
  | (NAssert e, OStr p) :: r => dsctx_ok ((p, e) :: known) r
  | (NDsCtx exps, OCtx m) :: r =>
    forallb (fun pe => negb (existsb (str_eqb (snd pe)) exps) || has_mapping m (fst pe) (snd pe)) known
    && dsctx_ok known r
  | _ :: r => dsctx_ok known r
  end.

(** one identifier, one CURIE: whenever (and through whichever entry point) the same URI is compacted
    again, the answer is the CURIE it was given before *)
Fixpoint compact_fun_ok (known : list (str * str)) (evs : list (nsop * nsout)) : bool :=
  match evs with
  | [] => true
  | (NCompact u, OStr c) :: r =>
    (match slookup u known with Some c' => str_eqb c' c | None => true end) && compact_fun_ok ((u, c) :: known) r
  | _ :: r => compact_fun_ok known r
  end.

(** the other split rule (a seeded change used it in one entry point): cut after the last '#' OR '/' *)
Fixpoint last_index_any (s : str) : option nat :=
  match s with
  | [] => None
  | x :: s' =>
    match last_index_any s' with
    | Some i => Some (S i)
    | None => if N.eqb x c_hash || N.eqb x c_slash then Some O else None
    end
  end.
Definition url_parts_any (s : str) : option (str * str) :=
  match last_index_any s with Some i => Some (split_after i s) | None => None end.
