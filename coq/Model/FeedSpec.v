(** * The feed-level spec of the readers (what a client may assume of a change feed):
    positions are list indices, a page is the shortest prefix of the remaining feed
    containing [limit] selected entries, latest-only selects the last version of each id. *)
From Coq Require Import List ZArith Bool.
From DH Require Import Model.Store.
Import ListNotations.
Open Scope Z_scope.

Definition oent := (uri * content)%type.        (* an entity as a reader sees it: id, content *)

(** positions of a feed *)
Fixpoint is_last_occ (f : feed) (id : uri) : bool :=   (* no later version of id in f *)
  match f with [] => true | (i, _) :: f' => negb (Z.eqb i id) && is_last_occ f' id end.
Fixpoint flag_latest (f : feed) : list (oent * bool) :=
  match f with
  | [] => []
  | (i, c) :: f' => ((i, c), is_last_occ f' i) :: flag_latest f'
  end.

(** shortest prefix of [l] containing [limit] selected elements (all of [l] if limit <= 0 or fewer are selected) *)
Fixpoint take_sel (limit : Z) (l : list (oent * bool)) : list (oent * bool) :=
  match l with
  | [] => []
  | x :: l' =>
    if snd x then (if Z.eqb limit 1 then [x] else x :: take_sel (limit - 1) l')
    else x :: take_sel limit l'
  end.

(** [skipn] with a binary counter (tokens can be 2^40: never convert them to nat) *)
Fixpoint skipz {A} (n : Z) (l : list A) : list A :=
  match l with
  | [] => []
  | _ :: l' => if n <=? 0 then l else skipz (n - 1) l'
  end.

Definition spec_changes (f : feed) (since limit : Z) (latest : bool) : list oent * Z :=
  let flagged := if latest then flag_latest f else map (fun x => (x, true)) f in
  let rest := skipz since flagged in
  let scanned := take_sel limit rest in
  (map fst (filter snd scanned),
   match rest with [] => since | _ => since + Z.of_nat (length scanned) end).

(** latest view of a feed: last version per id *)
Fixpoint view_of (f : feed) : list oent :=
  match f with
  | [] => []
  | (i, c) :: f' => if is_last_occ f' i then (i, c) :: view_of f' else view_of f'
  end.

