(** * Model of the URI -> internal id assignment of internal/server/store.go
      (assertIDForURI, commitIDTxn, the shared rolling id transaction [idtxn],
       the leased Badger sequence [idseq], NewContextualStore, Open/Close) and of
      the two write paths that drive it (Dataset.StoreEntities,
      Store.ExecuteTransaction incl. the nested updateDataset write).
    Definitions only; proofs are in Proofs/IdsProofs.v. *)
From Coq Require Import List NArith Bool Arith.
From DH Require Import Lib.CheckLib Model.Namespace.
Import ListNotations.
Open Scope N_scope.

(** [CtxCopyPtr]: the pinned tree - NewContextualStore copies the *value* of the
    [idtxn] pointer; the copy's commitIDTxn commits whatever it captured.
    [CtxShared]: repaired - the copy shares the id-transaction cell of its parent. *)
Inductive ctx_mode := CtxCopyPtr | CtxShared.

(** what the main store's [idtxn] field points to *)
Inductive mainref :=
| MNone    (* nil *)
| MOpen    (* an open update transaction *)
| MDead.   (* a transaction with writes that somebody else already committed (discarded) *)

Record idstate := {
  disk : list (str * N);     (* committed URIToID / IDToURI pairs (both keys are written together) *)
  pend : list (str * N);     (* pending writes of the open id transaction *)
  mref : mainref;
  gen : nat;                 (* identity of the transaction [mref] refers to *)
  ctxs : list (option nat);  (* per contextual store: the transaction its [idtxn] field captured *)
  nxt : N; leased : N;       (* badger.Sequence in memory *)
  dseq : N;                  (* the persisted lease bound (key "uriids") *)
  wgens : list nat;          (* transactions that were committed with pending writes: committing one of
                                these again fails, committing a discarded *empty* one is a silent no-op *)
  hist : list (str * N)      (* ghost: every (uri, id) ever returned by assertIDForURI *)
}.

(** a fresh database, after Open (GetSequence persists the first lease) *)
Definition id_init (L : N) : idstate :=
  {| disk := []; pend := []; mref := MNone; gen := 0; ctxs := [];
     nxt := 0; leased := L; dseq := L; wgens := []; hist := [] |}.

(** what a lookup inside the id transaction sees (keys of [pend] and [disk] are disjoint) *)
Definition view (st : idstate) : list (str * N) := disk st ++ pend st.

(** Sequence.Next: renew the lease (persisted) when it is used up *)
Definition seq_next (L : N) (st : idstate) : N * idstate :=
  let '(n, l, d) := if leased st <=? nxt st then (dseq st, dseq st + L, dseq st + L)
                    else (nxt st, leased st, dseq st) in
  (n, {| disk := disk st; pend := pend st; mref := mref st; gen := gen st; ctxs := ctxs st;
         nxt := n + 1; leased := l; dseq := d; wgens := wgens st; hist := hist st |}).

Inductive idop :=
| IAssert (u : str)         (* assertIDForURI, atomic under idmux *)
| ICommitMain               (* main store's commitIDTxn *)
| INewCtx                   (* NewContextualStore(main) *)
| ICommitCtx (k : nat)      (* commitIDTxn of contextual store k *)
| IRestart (crash : bool).  (* Close (Release) + NewStore, or kill + NewStore *)

Inductive idout :=
| RId (i : N) (isnew : bool)
| ROk
| RErrEmpty        (* "URI cannot be empty" *)
| RErrDiscarded    (* "Trying to commit a discarded txn" *)
| RPanic.          (* panic("error with get key"): Get on a discarded transaction *)

Definition do_commit (st : idstate) (r : mainref) (cs : list (option nat)) : idstate :=
  {| disk := disk st ++ pend st; pend := []; mref := r; gen := gen st; ctxs := cs;
     nxt := nxt st; leased := leased st; dseq := dseq st;
     wgens := match pend st with [] => wgens st | _ => gen st :: wgens st end; hist := hist st |}.

Definition commit_main (st : idstate) : idstate * idout :=
  match mref st with
  | MNone => (st, ROk)
  | MOpen => (do_commit st MNone (ctxs st), ROk)
  | MDead => (st, RErrDiscarded)
  end.

Fixpoint replace_nth {A} (k : nat) (x : A) (l : list A) : list A :=
  match l, k with
  | [], _ => []
  | _ :: l', O => x :: l'
  | y :: l', S k' => y :: replace_nth k' x l'
  end.

Definition is_open (r : mainref) : bool := match r with MOpen => true | _ => false end.

Definition commit_ctx (m : ctx_mode) (k : nat) (st : idstate) : idstate * idout :=
  match m with
  | CtxShared => commit_main st
  | CtxCopyPtr =>
    match nth_error (ctxs st) k with
    | Some (Some g) =>
      let forget :=   (* Txn.Commit without pending writes returns nil and leaves the transaction usable *)
        ({| disk := disk st; pend := pend st; mref := mref st; gen := gen st; ctxs := replace_nth k None (ctxs st);
            nxt := nxt st; leased := leased st; dseq := dseq st; wgens := wgens st; hist := hist st |}, ROk) in
      if is_open (mref st) && Nat.eqb g (gen st)
      then match pend st with
           | [] => forget
           | _ => (do_commit st MDead (replace_nth k None (ctxs st)), ROk)   (* the parent keeps the dead pointer *)
           end
      else if existsb (Nat.eqb g) (wgens st) then (st, RErrDiscarded)
      else forget
    | _ => (st, ROk)                                                  (* nil: "nothing to commit" *)
    end
  end.

Definition assert_id (L : N) (u : str) (st : idstate) : idstate * idout :=
  match u with
  | [] => (st, RErrEmpty)
  | _ =>
    match mref st with
    | MDead => (st, RPanic)
    | r =>
      let g := match r with MNone => S (gen st) | _ => gen st end in
      match slookup u (view st) with
      | Some i =>
        ({| disk := disk st; pend := pend st; mref := MOpen; gen := g; ctxs := ctxs st;
            nxt := nxt st; leased := leased st; dseq := dseq st; wgens := wgens st; hist := hist st ++ [(u, i)] |},
         RId i false)
      | None =>
        let '(i, s1) := seq_next L st in
        ({| disk := disk s1; pend := pend s1 ++ [(u, i)]; mref := MOpen; gen := g; ctxs := ctxs s1;
            nxt := nxt s1; leased := leased s1; dseq := dseq s1; wgens := wgens s1; hist := hist s1 ++ [(u, i)] |},
         RId i true)
      end
    end
  end.

(** Close: idseq.Release() returns the unused part of the lease; a crash does not.
    Open: GetSequence takes a new lease starting at the persisted bound. *)
Definition id_restart (L : N) (crash : bool) (st : idstate) : idstate :=
  let d := if crash then dseq st else if dseq st =? leased st then nxt st else dseq st in
  {| disk := disk st; pend := []; mref := MNone; gen := gen st; ctxs := [];
     nxt := d; leased := d + L; dseq := d + L; wgens := wgens st; hist := hist st |}.

Definition id_step (m : ctx_mode) (L : N) (op : idop) (st : idstate) : idstate * idout :=
  match op with
  | IAssert u => assert_id L u st
  | ICommitMain => commit_main st
  | INewCtx =>
    ({| disk := disk st; pend := pend st; mref := mref st; gen := gen st;
        ctxs := ctxs st ++ [match mref st with MNone => None | _ => Some (gen st) end];
        nxt := nxt st; leased := leased st; dseq := dseq st; wgens := wgens st; hist := hist st |}, ROk)
  | ICommitCtx k => commit_ctx m k st
  | IRestart crash => (id_restart L crash st, ROk)
  end.

Fixpoint id_run (m : ctx_mode) (L : N) (ops : list idop) (st : idstate) : idstate * list idout :=
  match ops with
  | [] => (st, [])
  | op :: ops' =>
    let '(s1, o) := id_step m L op st in
    let '(s2, os) := id_run m L ops' s1 in
    (s2, o :: os)
  end.

(** the inverse index (IDToURI) *)
Fixpoint rlookup (i : N) (l : list (str * N)) : option str :=
  match l with
  | [] => None
  | (u, j) :: l' => if N.eqb i j then Some u else rlookup i l'
  end.

(** the read side (getIDForURI, behind GetEntity / relation queries / GetPredicateID): the id record of the
    identifier, whatever its value - the sequence starts at 0, so 0 is an id like any other.
    [read_id_nz] is the reading "an id of 0 means there is none" (a seeded change), kept only to refute it. *)
Definition read_id (st : idstate) (u : str) : option N := slookup u (disk st).
Definition read_id_nz (st : idstate) (u : str) : option N :=
  match read_id st u with Some 0 => None | r => r end.

(** ** The store as the driver sees it: namespaces + ids + which entities a
    dataset holds (with the one reference the driver's entities carry). *)
(** order of the two commits at the end of Store.ExecuteTransaction.  [IdsFirst] is what the code
    does (commitIDTxn, then the entity transaction); [DataFirst] is the swapped order, modelled only
    to refute it: it is not a variant the check accepts. *)
Inductive commit_order := IdsFirst | DataFirst.
Record variant := { v_alias : alias_mode; v_ctx : ctx_mode; v_order : commit_order }.
Definition v_current := {| v_alias := AliasLive; v_ctx := CtxCopyPtr; v_order := IdsFirst |}.
Definition v_fixed := {| v_alias := AliasCopy; v_ctx := CtxShared; v_order := IdsFirst |}.
Definition v_swapped := {| v_alias := AliasCopy; v_ctx := CtxShared; v_order := DataFirst |}.

Definition entity := (str * option (str * str))%type.   (* id, at most one (predicate, target) *)
(* the latest-version key of a dataset is built from the dataset and the INTERNAL id of the entity: a version
   stored under an id whose URI record was lost is not found again under the identifier's next id *)
Definition dkey_eqb (a b : str * N) : bool := str_eqb (fst a) (fst b) && N.eqb (snd a) (snd b).
Definition dlookup := @lookup (str * N) (option (str * str)) dkey_eqb.
Definition dset := @set (str * N) (option (str * str)) dkey_eqb.

Record world := {
  wns : nsworld;
  wid : idstate;
  wdata : list ((str * N) * option (str * str));  (* committed latest version per (dataset, internal id) *)
  wstored : list (str * N)   (* (identifier, internal id) pairs carried by durable entity versions and their
                                reference keys: entity id, predicate, target; sorted by id, no duplicates *)
}.

Inductive outcome := OcOk | OcErrEmpty | OcErrDiscarded | OcPanic.

Inductive hop :=
| HNs (o : nsop)
| HBatch (via_txn : bool) (ds : str) (ents : list entity)   (* main store: StoreEntities / ExecuteTransaction *)
| HCtxNew
| HCtxTxn (k : nat) (ds : str) (ents : list entity)         (* contextual store k: ExecuteTransaction *)
| HRestart (crash : bool)
| HCrashWrite (txn_path : bool) (k : option nat) (ds : str) (ents : list entity) (pt : nat)
    (* a write (StoreEntities, or ExecuteTransaction when [txn_path] or through contextual store k) during
       which the process dies at hook point pt: 0 = before the id commit, 1 = between the two commits,
       >= 2 = after both commits and before updateDataset; then a new process opens the store *)
| HDump.

Inductive hout :=
| HONs (o : nsout)
| HOBatch (oc : outcome) (ids : list N)   (* Entity.InternalID of the entities after the call *)
| HOUnit
| HODump (dp2e de2p : list (str * str)) (du2i : list (str * N)) (di2u : list (N * str)) (dstored : list (str * N)).

Definition refs_of (r : option (str * str)) : list str :=
  match r with Some (p, t) => [p; t] | None => [] end.

Fixpoint assert_all (L : N) (us : list str) (st : idstate) : idstate * outcome :=
  match us with
  | [] => (st, OcOk)
  | u :: us' =>
    match assert_id L u st with
    | (s1, RId _ _) => assert_all L us' s1
    | (s1, RErrEmpty) => (s1, OcErrEmpty)
    | (s1, _) => (s1, OcPanic)
    end
  end.

(** the loop of StoreEntitiesWithTransaction as far as ids are concerned; every
    entity of the driver differs from its stored predecessor, duplicates inside one
    batch are not generated.  Returns the ids put on the entities, the number of
    entities new to the dataset and the pending data writes. *)
Fixpoint run_ents (L : N) (ds : str) (data : list ((str * N) * option (str * str)))
         (ents : list entity) (st : idstate)
  : idstate * outcome * list N * nat * list ((str * N) * option (str * str)) :=
  match ents with
  | [] => (st, OcOk, [], O, [])
  | (id, r) :: ents' =>
    match assert_id L id st with
    | (s1, RId rid isnew) =>
      let prev := dlookup (ds, rid) data in
      let ni := if isnew then 1%nat else match prev with None => 1%nat | Some _ => 0%nat end in
      let us := if isnew then refs_of r
                else (match prev with Some pr => refs_of pr | None => [] end) ++ refs_of r in
      match assert_all L us s1 with
      | (s2, OcOk) =>
        let '(s3, oc, ids, n, pd) := run_ents L ds data ents' s2 in
        (s3, oc, rid :: ids, (ni + n)%nat, ((ds, rid), r) :: pd)
      | (s2, oc) => (s2, oc, [rid], O, [])
      end
    | (s1, RErrEmpty) => (s1, OcErrEmpty, [], O, [])
    | (s1, _) => (s1, OcPanic, [], O, [])
    end
  end.

Definition s_core : str := [99; 111; 114; 101; 46; 68; 97; 116; 97; 115; 101; 116].  (* "core.Dataset" *)
Definition s_ns0c : str := [110; 115; 48; 58].                                        (* "ns0:" *)
Definition s_type : str := [110; 115; 50; 58; 116; 121; 112; 101].                    (* "ns2:type" *)
Definition s_dsclass : str := [110; 115; 49; 58; 100; 97; 116; 97; 115; 101; 116].    (* "ns1:dataset" *)

(** updateDataset(newitems > 0) re-stores the dataset's meta entity through
    core.Dataset's StoreEntities: known URIs are asserted and the *main* store's id
    transaction is committed; its error is ignored, its panic is not. *)
Definition nested_update (L : N) (ds : str) (st : idstate) : idstate * outcome :=
  match assert_all L [s_ns0c ++ ds; s_type; s_dsclass; s_type; s_dsclass] st with
  | (s1, OcOk) => (fst (commit_main s1), OcOk)
  | (s1, oc) => (s1, oc)
  end.

(** the (identifier, id) pairs a batch's entity versions and reference keys carry *)
Definition uris_of (ents : list entity) : list str := flat_map (fun e => fst e :: refs_of (snd e)) ents.
Fixpoint pairs_in (us : list str) (vw : list (str * N)) : list (str * N) :=
  match us with
  | [] => []
  | u :: us' => match slookup u vw with Some i => (u, i) :: pairs_in us' vw | None => pairs_in us' vw end
  end.
Fixpoint ins (p : str * N) (l : list (str * N)) : list (str * N) :=
  match l with
  | [] => [p]
  | q :: l' =>
    if snd p <? snd q then p :: l
    else if N.eqb (snd p) (snd q) && str_eqb (fst p) (fst q) then l
    else q :: ins p l'
  end.
Definition add_stored (ents : list entity) (s : idstate) (stored : list (str * N)) : list (str * N) :=
  fold_left (fun l p => ins p l) (pairs_in (uris_of ents) (view s)) stored.

Definition write_path (v : variant) (L : N) (k : option nat) (ds : str) (ents : list entity) (w : world)
  : world * hout :=
  match ents with
  | [] => (w, HOBatch OcOk [])
  | _ =>
    let '(s1, oc, ids, ni, pd) := run_ents L ds (wdata w) ents (wid w) in
    let ids' := ids ++ repeat 0 (length ents - length ids) in
    match oc with
    | OcOk =>
      let '(s2, r) := match k with None => commit_main s1 | Some k => commit_ctx (v_ctx v) k s1 end in
      match r with
      | ROk =>
        let data' := fold_left (fun d kv => dset (fst kv) (snd kv) d) pd (wdata w) in
        if (0 <? ni)%nat && negb (str_eqb ds s_core) then
          let '(s3, oc') := nested_update L ds s2 in
          ({| wns := wns w; wid := s3; wdata := data'; wstored := add_stored ents s1 (wstored w) |}, HOBatch oc' ids')
        else ({| wns := wns w; wid := s2; wdata := data'; wstored := add_stored ents s1 (wstored w) |}, HOBatch OcOk ids')
      | _ => ({| wns := wns w; wid := s2; wdata := wdata w; wstored := wstored w |}, HOBatch OcErrDiscarded ids')
      end
    | _ => ({| wns := wns w; wid := s1; wdata := wdata w; wstored := wstored w |}, HOBatch oc ids')
    end
  end.

(** the same write, but the process dies at hook point [pt] (if the write gets that far) and a new
    process opens what is on disk *)
Definition crash_write (v : variant) (L : N) (txn_path : bool) (k : option nat) (ds : str) (ents : list entity)
           (pt : nat) (w : world) : world * hout :=
  match ents with
  | [] => (w, HOBatch OcOk [])
  | _ =>
    let '(s1, oc, ids, ni, pd) := run_ents L ds (wdata w) ents (wid w) in
    let ids' := ids ++ repeat 0 (length ents - length ids) in
    match oc with
    | OcOk =>
      let data' := fold_left (fun d kv => dset (fst kv) (snd kv) d) pd (wdata w) in
      let stored' := add_stored ents s1 (wstored w) in
      let dead (st : idstate) data stored :=
        ({| wns := fst (ns_step (v_alias v) NRestart (wns w)); wid := id_restart L true st;
            wdata := data; wstored := stored |}, HOBatch OcOk ids') in
      let commit (st : idstate) := match k with None => commit_main st | Some k => commit_ctx (v_ctx v) k st end in
      let is_txn := match k with None => txn_path | Some _ => true end in
      match pt with
      | O => dead s1 (wdata w) (wstored w)
      | S pt' =>
        match v_order v, is_txn with
        | DataFirst, true =>
          match pt' with
          | O => dead s1 data' stored'
          | S _ =>
            let '(s2, r) := commit s1 in
            match r with
            | ROk => dead s2 data' stored'
            | _ => ({| wns := wns w; wid := s2; wdata := data'; wstored := stored' |}, HOBatch OcErrDiscarded ids')
            end
          end
        | _, _ =>
          let '(s2, r) := commit s1 in
          match r with
          | ROk => match pt' with O => dead s2 (wdata w) (wstored w) | S _ => dead s2 data' stored' end
          | _ => ({| wns := wns w; wid := s2; wdata := wdata w; wstored := wstored w |}, HOBatch OcErrDiscarded ids')
          end
        end
      end
    | _ => ({| wns := wns w; wid := s1; wdata := wdata w; wstored := wstored w |}, HOBatch oc ids')
    end
  end.

Definition swap_pairs (l : list (str * N)) : list (N * str) := map (fun p => (snd p, fst p)) l.

Definition wstep (v : variant) (L : N) (op : hop) (w : world) : world * hout :=
  match op with
  | HNs o => let '(n, r) := ns_step (v_alias v) o (wns w) in
             ({| wns := n; wid := wid w; wdata := wdata w; wstored := wstored w |}, HONs r)
  | HBatch _ ds ents => write_path v L None ds ents w
  | HCtxNew => ({| wns := wns w; wid := fst (id_step (v_ctx v) L INewCtx (wid w)); wdata := wdata w;
                   wstored := wstored w |}, HOUnit)
  | HCtxTxn k ds ents => write_path v L (Some k) ds ents w
  | HRestart crash =>
    ({| wns := fst (ns_step (v_alias v) NRestart (wns w)); wid := id_restart L crash (wid w);
        wdata := wdata w; wstored := wstored w |}, HOUnit)
  | HCrashWrite txn_path k ds ents pt => crash_write v L txn_path k ds ents pt w
  | HDump =>
    (w, HODump (p2e (mem (nst (wns w)))) (e2p (mem (nst (wns w)))) (disk (wid w)) (swap_pairs (disk (wid w)))
               (wstored w))
  end.

Fixpoint wrun (v : variant) (L : N) (ops : list hop) (w : world) : world * list hout :=
  match ops with
  | [] => (w, [])
  | op :: ops' =>
    let '(w1, o) := wstep v L op w in
    let '(w2, os) := wrun v L ops' w1 in
    (w2, o :: os)
  end.

Definition w_empty (L : N) : world := {| wns := nsw_init; wid := id_init L; wdata := []; wstored := [] |}.

(** NewStore + NewDsManager on an empty directory and CreateDataset for each of the
    driver's datasets: three namespaces, then one meta entity per dataset *)
Definition s_ns_dataset : str :=   (* "http://data.mimiro.io/core/dataset/" *)
  [104;116;116;112;58;47;47;100;97;116;97;46;109;105;109;105;114;111;46;105;111;47;99;111;114;101;47;100;97;116;97;115;101;116;47].
Definition s_ns_core : str :=      (* "http://data.mimiro.io/core/" *)
  [104;116;116;112;58;47;47;100;97;116;97;46;109;105;109;105;114;111;46;105;111;47;99;111;114;101;47].
Definition s_ns_rdf : str :=       (* "http://www.w3.org/1999/02/22-rdf-syntax-ns#" *)
  [104;116;116;112;58;47;47;119;119;119;46;119;51;46;111;114;103;47;49;57;57;57;47;48;50;47;50;50;45;114;100;102;45;115;121;110;116;97;120;45;110;115;35].

Definition setup_ops (dss : list str) : list hop :=
  [HNs (NAssert s_ns_dataset); HNs (NAssert s_ns_core); HNs (NAssert s_ns_rdf)]
  ++ map (fun ds => HBatch false s_core [(s_ns0c ++ ds, Some (s_type, s_dsclass))]) (s_core :: dss).

Definition w_setup (v : variant) (L : N) (dss : list str) : world := fst (wrun v L (setup_ops dss) (w_empty L)).
