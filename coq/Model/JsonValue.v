(** * Numeric normalisation of property / reference values (internal/server/entity.go, toJsonValue):
    what IsEntityEqual compares.  Every Go integer and float kind becomes a float64, slices are normalised
    element by element, maps are returned AS THEY ARE (the map branch of toJsonValue is commented out).
    Floats are an abstract carrier [F] with the conversion [i2f] of an integer (Go's float64(v)): the theorems
    hold for every such carrier; the evaluator instantiates it with thousandths.  Definitions only. *)
From Coq Require Import List ZArith Bool.
Import ListNotations.
Open Scope Z_scope.

Inductive ikind := KInt | KInt8 | KInt16 | KInt32 | KInt64 | KUint | KUint8 | KUint16 | KUint32 | KUint64.

Section Carrier.
Variable F : Type.
Variable i2f : Z -> F.

(** a Go value found in Entity.Properties / Entity.References *)
Inductive gval :=
| GStr (code : Z)
| GBool (b : bool)
| GNil
| GInt (k : ikind) (n : Z)
| GF32 (f : F)
| GF64 (f : F)
| GSlice (l : list gval)                 (* []interface{}, []string, ... : any slice *)
| GMap (m : list (Z * gval)).            (* map[string]interface{} *)

(** the normalised value *)
Inductive jval :=
| JStr (code : Z)
| JBool (b : bool)
| JNil
| JNum (f : F)                           (* float64 *)
| JSlice (l : list jval)                 (* []interface{} of normalised elements *)
| JMap (m : list (Z * gval)).            (* the map itself, values untouched *)

Fixpoint to_json (v : gval) : jval :=
  match v with
  | GStr s => JStr s
  | GBool b => JBool b
  | GNil => JNil
  | GInt _ n => JNum (i2f n)
  | GF32 f => JNum f
  | GF64 f => JNum f
  | GSlice l => JSlice (map to_json l)
  | GMap m => JMap m
  end.

(** what a pass through a JavaScript transform may do to a stored value: goja exports an integer-valued
    float64 as int64 (and leaves everything else as it is), at any depth inside slices *)
Inductive jsimg : gval -> gval -> Prop :=
| js_same v : jsimg v v
| js_int n : jsimg (GF64 (i2f n)) (GInt KInt64 n)
| js_slice l l' : Forall2 jsimg l l' -> jsimg (GSlice l) (GSlice l').

(** inside a map the same conversion is NOT neutral for [to_json] (maps are not normalised) *)
Definition map_example (n : Z) : gval * gval :=
  (GMap [(1, GF64 (i2f n))], GMap [(1, GInt KInt64 n)]).

End Carrier.

Arguments GStr {F}. Arguments GBool {F}. Arguments GNil {F}. Arguments GInt {F}. Arguments GF32 {F}. Arguments GF64 {F}.
Arguments GSlice {F}. Arguments GMap {F}.
Arguments JStr {F}. Arguments JBool {F}. Arguments JNil {F}. Arguments JNum {F}. Arguments JSlice {F}. Arguments JMap {F}.
Arguments to_json {F}. Arguments jsimg {F}. Arguments map_example {F}.

(** ** executable instance: floats as thousandths *)
Definition Fz := Z.
Definition i2fz (n : Z) : Fz := n * 1000.

Fixpoint gval_eqb (a b : gval Fz) {struct a} : bool :=
  match a, b with
  | GStr x, GStr y => Z.eqb x y
  | GBool x, GBool y => Bool.eqb x y
  | GNil, GNil => true
  | GInt k n, GInt k' n' =>
    (match k, k' with
     | KInt, KInt | KInt8, KInt8 | KInt16, KInt16 | KInt32, KInt32 | KInt64, KInt64
     | KUint, KUint | KUint8, KUint8 | KUint16, KUint16 | KUint32, KUint32 | KUint64, KUint64 => true
     | _, _ => false end) && Z.eqb n n'
  | GF32 x, GF32 y => Z.eqb x y
  | GF64 x, GF64 y => Z.eqb x y
  | GSlice l, GSlice l' =>
    (fix go (l l' : list (gval Fz)) : bool :=
       match l, l' with
       | [], [] => true
       | x :: r, y :: r' => gval_eqb x y && go r r'
       | _, _ => false
       end) l l'
  | GMap m, GMap m' =>
    (fix go (m m' : list (Z * gval Fz)) : bool :=
       match m, m' with
       | [], [] => true
       | (k, x) :: r, (k', y) :: r' => Z.eqb k k' && gval_eqb x y && go r r'
       | _, _ => false
       end) m m'
  | _, _ => false
  end.

Fixpoint jval_eqb (a b : jval Fz) {struct a} : bool :=
  match a, b with
  | JStr x, JStr y => Z.eqb x y
  | JBool x, JBool y => Bool.eqb x y
  | JNil, JNil => true
  | JNum x, JNum y => Z.eqb x y
  | JSlice l, JSlice l' =>
    (fix go (l l' : list (jval Fz)) : bool :=
       match l, l' with
       | [], [] => true
       | x :: r, y :: r' => jval_eqb x y && go r r'
       | _, _ => false
       end) l l'
  | JMap m, JMap m' => gval_eqb (GMap m) (GMap m')
  | _, _ => false
  end.

(** a decidable sufficient condition for [jsimg] on the executable carrier *)
Fixpoint jsimgb (a b : gval Fz) {struct a} : bool :=
  match a, b with
  | GF64 f, GInt KInt64 n => Z.eqb f (i2fz n)
  | GSlice l, GSlice l' =>
    (fix go (l l' : list (gval Fz)) : bool :=
       match l, l' with
       | [], [] => true
       | x :: r, y :: r' => jsimgb x y && go r r'
       | _, _ => false
       end) l l'
  | _, _ => gval_eqb a b
  end.

(** the correspondence evaluator: indices of the (Go value, observed toJsonValue result) pairs the model does not predict *)
Definition json_mismatches (cs : list (gval Fz * jval Fz)) : list N :=
  (fix go (i : N) (cs : list (gval Fz * jval Fz)) : list N :=
     match cs with
     | [] => []
     | (g, o) :: r => if jval_eqb (to_json i2fz g) o then go (N.succ i) r else i :: go (N.succ i) r
     end) 0%N cs.
