(** * Model of internal/jobs/raffle.go: borrowTicket / returnTicket over
    (ticketsFull, ticketsIncr, runningJobs).  Definitions only. *)
From Coq Require Import List ZArith Bool.
Import ListNotations.
Open Scope Z_scope.

Record rstate := {
  r_full : Z;                       (* raffle.ticketsFull *)
  r_incr : Z;                       (* raffle.ticketsIncr *)
  r_running : list (Z * bool)       (* raffle.runningJobs: job id -> runState.isFull *)
}.

Definition r_init (capF capI : Z) : rstate := {| r_full := capF; r_incr := capI; r_running := [] |}.

Definition has_id (id : Z) (p : Z * bool) : bool := Z.eqb (fst p) id.
Definition is_running (id : Z) (st : rstate) : bool := existsb (has_id id) (r_running st).

(** borrowTicket: [None] = no ticket (same id already running, or pool empty) *)
Definition borrow (id : Z) (full : bool) (st : rstate) : option rstate :=
  if is_running id st then None
  else if full then
    (if 0 <? r_full st
     then Some {| r_full := r_full st - 1; r_incr := r_incr st; r_running := (id, true) :: r_running st |}
     else None)
  else
    (if 0 <? r_incr st
     then Some {| r_full := r_full st; r_incr := r_incr st - 1; r_running := (id, false) :: r_running st |}
     else None).

(** returnTicket of the ticket held by the run of [id] (job.Run returns exactly the ticket it borrowed):
    delete(runningJobs, id); the pool is chosen by ticket.runState.isFull *)
Definition give_back (id : Z) (st : rstate) : rstate :=
  match find (has_id id) (r_running st) with
  | Some (_, full) =>
    {| r_full := if full then r_full st + 1 else r_full st;
       r_incr := if full then r_incr st else r_incr st + 1;
       r_running := filter (fun p => negb (has_id id p)) (r_running st) |}
  | None => st
  end.

(** [reqs] simultaneous requests for the SAME job id (true = fullsync flavour), served in some order by the
    mutex: how many get a ticket *)
Fixpoint grant_count (id : Z) (reqs : list bool) (st : rstate) : nat :=
  match reqs with
  | [] => O
  | f :: reqs' =>
    match borrow id f st with
    | Some st' => S (grant_count id reqs' st')
    | None => grant_count id reqs' st
    end
  end.

(** simultaneous requests of ONE kind for DIFFERENT job ids: how many get a ticket *)
Fixpoint grant_pool (f : bool) (ids : list Z) (st : rstate) : nat :=
  match ids with
  | [] => O
  | id :: ids' =>
    match borrow id f st with
    | Some st' => S (grant_pool f ids' st')
    | None => grant_pool f ids' st
    end
  end.

Inductive rop := OBorrow (id : Z) (full : bool) | OReturn (id : Z).

Definition rstep (st : rstate) (o : rop) : rstate :=
  match o with
  | OBorrow id full => match borrow id full st with Some st' => st' | None => st end
  | OReturn id => give_back id st
  end.
Definition rexec (ops : list rop) (st : rstate) : rstate := fold_left rstep ops st.

Definition count_kind (full : bool) (l : list (Z * bool)) : Z :=
  Z.of_nat (length (filter (fun p => Bool.eqb (snd p) full) l)).

(** the invariant *)
Definition rinv (capF capI : Z) (st : rstate) : Prop :=
  NoDup (map fst (r_running st))
  /\ r_full st + count_kind true (r_running st) = capF
  /\ r_incr st + count_kind false (r_running st) = capI
  /\ 0 <= r_full st /\ 0 <= r_incr st.

(** replay of an observed log of run starts / run ends: every start must get a ticket in the model *)
Fixpoint replay (log : list rop) (st : rstate) : option rstate :=
  match log with
  | [] => Some st
  | OBorrow id full :: log' =>
    match borrow id full st with Some st' => replay log' st' | None => None end
  | OReturn id :: log' =>
    if is_running id st then replay log' (give_back id st) else None
  end.

(** the property on a log of run starts / ends: no two overlapping runs of one id, never more running
    jobs of a kind than its pool, every end matches a running job, nothing is left running *)
Fixpoint spec_log_prop (capF capI : Z) (active : list (Z * bool)) (log : list rop) : Prop :=
  match log with
  | [] => active = []
  | OBorrow id full :: log' =>
    existsb (has_id id) active = false
    /\ count_kind full active < (if full then capF else capI)
    /\ spec_log_prop capF capI ((id, full) :: active) log'
  | OReturn id :: log' =>
    existsb (has_id id) active = true
    /\ spec_log_prop capF capI (filter (fun p => negb (has_id id p)) active) log'
  end.
