(** * The reverse change reader (internal/service/dataset/iterator.go, Inverse(), as driven by
    web.getChangesHandler): entries with sequence number below [since] in descending order,
    at most [limit] of them; the token is the sequence number of the last entry returned.
    [since = 0] means "from the end".  Definitions only. *)
From Coq Require Import List ZArith Bool.
From DH Require Import Model.Store Model.FeedSpec.
Import ListNotations.
Open Scope Z_scope.

(** math.MaxUint64: the starting offset Inverse() substitutes for 0; reported as -1 by the driver *)
Definition from_end : Z := -1.

(** first [n] elements, binary counter *)
Fixpoint takez {A} (n : Z) (l : list A) : list A :=
  match l with
  | [] => []
  | x :: l' => if n <=? 0 then [] else x :: takez (n - 1) l'
  end.

Definition limitz {A} (limit : Z) (l : list A) : list A := if 0 <? limit then takez limit l else l.

(** model: over the change log with its explicit sequence numbers *)
Definition changes_rev (d : dstate) (since limit : Z) : list entry * Z :=
  let below := if (since =? 0) || (since =? from_end) then d_entries d
               else filter (fun e => en_seq e <? since) (d_entries d) in
  let out := limitz limit (rev below) in
  (out, match last (map Some out) None with
        | Some e => en_seq e
        | None => if since =? 0 then from_end else since
        end).

(** spec: positions are list indices *)
Definition spec_changes_rev (f : feed) (since limit : Z) : list oent * Z :=
  let below := if (since =? 0) || (since =? from_end) then f else takez since f in
  let out := limitz limit (rev below) in
  (out, if Nat.eqb (length out) 0 then (if since =? 0 then from_end else since)
        else Z.of_nat (length below) - Z.of_nat (length out)).
