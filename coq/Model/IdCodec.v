(** * The client id carried by the path segment of /security/clients/:clientid/acl
      net/http url.setPath    : the path is percent-decoded once; RawPath is kept only when the spelling sent is not
                                the canonical escaping (url.escape(path, encodePath)) of the decoded path
      echo GetPath / Param    : routes on RawPath when it is set (the parameter is then the raw segment), else on Path
      securityhandler.go      : set / get / delete ACL handlers all apply url.QueryUnescape to c.Param("clientid")
    so the id a handler acts on is a function of the spelling of the segment.  Definitions only; proofs in
    Proofs/IdCodecProofs.v.  Strings are byte strings. *)
From Coq Require Import List String Ascii Bool NArith.
Import ListNotations.
Open Scope string_scope.

Definition code (a : ascii) : N := N_of_ascii a.

Definition hexval (a : ascii) : option N :=
  let c := code a in
  if (48 <=? c)%N && (c <=? 57)%N then Some (c - 48)%N
  else if (65 <=? c)%N && (c <=? 70)%N then Some (c - 55)%N
  else if (97 <=? c)%N && (c <=? 102)%N then Some (c - 87)%N
  else None.

(** one percent-decoding step: %XX -> byte, everything else stays; [None] = invalid escape *)
Fixpoint pct_decode (s : string) : option string :=
  match s with
  | EmptyString => Some EmptyString
  | String "%"%char (String a (String b s')) =>
      match hexval a, hexval b, pct_decode s' with
      | Some x, Some y, Some r => Some (String (ascii_of_N (16 * x + y)) r)
      | _, _, _ => None
      end
  | String "%"%char _ => None
  | String c s' => match pct_decode s' with Some r => Some (String c r) | None => None end
  end.

Fixpoint plus_to_space (s : string) : string :=
  match s with
  | EmptyString => EmptyString
  | String c s' => String (if Ascii.eqb c "+"%char then " "%char else c) (plus_to_space s')
  end.

(** url.QueryUnescape *)
Definition query_unescape (s : string) : option string := pct_decode (plus_to_space s).

Definition hexdigit (v : N) : ascii := ascii_of_N (if (v <? 10)%N then 48 + v else 55 + v).

(** url.shouldEscape(c, encodePath): letters, digits, - _ . ~ and $ & + , / : ; = @ stay; the rest (with ?) is escaped *)
Definition path_plain (a : ascii) : bool :=
  let c := code a in
  ((48 <=? c)%N && (c <=? 57)%N) || ((65 <=? c)%N && (c <=? 90)%N) || ((97 <=? c)%N && (c <=? 122)%N)
  || existsb (Ascii.eqb a) ["-"; "_"; "."; "~"; "$"; "&"; "+"; ","; "/"; ":"; ";"; "="; "@"]%char.

Fixpoint path_escape (s : string) : string :=
  match s with
  | EmptyString => EmptyString
  | String a s' =>
      if path_plain a then String a (path_escape s')
      else String "%"%char (String (hexdigit (code a / 16)) (String (hexdigit (code a mod 16)) (path_escape s')))
  end.

(** what c.Param hands to the handler for the segment spelled [sp] (a segment: no "/" "?" "#" in the spelling) *)
Definition echo_param (sp : string) : option string :=
  match pct_decode sp with
  | None => None                                                  (* the request is refused before routing *)
  | Some d => Some (if path_escape d =? sp then d else sp)        (* canonical spelling: decoded; otherwise raw *)
  end.

(** how a handler turns the parameter into the client id *)
Inductive id_decode := IdUnescape (* url.QueryUnescape(c.Param(..)) - the three handlers of the pinned tree *)
                     | IdRaw.     (* c.Param(..) as it is *)

Definition resolve (m : id_decode) (sp : string) : option string :=
  match echo_param sp with
  | None => None
  | Some p => match m with IdUnescape => query_unescape p | IdRaw => Some p end
  end.

(** the id the pinned handlers act on; a spelling they refuse (400) denotes no id - [rid] then returns the spelling
    itself, the generator only uses spellings that resolve *)
Definition rid (sp : string) : string := match resolve IdUnescape sp with Some id => id | None => sp end.

(** ** the three handlers of one path, each with its own way of reading the id *)
Record decoders := { d_set : id_decode; d_get : id_decode; d_del : id_decode }.
Definition uniform (d : decoders) : Prop := d_set d = d_get d /\ d_get d = d_del d.
Definition pinned_decoders : decoders := {| d_set := IdUnescape; d_get := IdUnescape; d_del := IdUnescape |}.
