(** * Point-in-time reads (C06): entity lookup as of an instant and the bodies attached to
    relationship results (store.go GetEntityAtPointInTimeWithInternalID, getRelatedEntitiesAtTime).
    Definitions only. *)
From Coq Require Import List ZArith Bool.
From DH Require Import Model.Store Model.Refs Model.Query.
Import ListNotations.
Open Scope Z_scope.

(** GetEntityAtPointInTimeWithInternalID with a resolved scope: per in-scope dataset (in dataset-id order)
    the (time, batch index)-greatest version recorded at or before [at_]; the non-deleted ones are the
    partials, [hasDeleted] is set when one is deleted.  (Model/Store.v [entity_at] with [scope].) *)
Definition lookup_at (st : store) (id : uri) (at_ : Z) (sc : scope) : list (Z * content) * bool :=
  fold_left (fun (acc : list (Z * content) * bool) (p : Z * dstate) =>
               if scope_ok sc (fst p) then
                 match best_version id at_ (d_entries (snd p)) None with
                 | None => acc
                 | Some e => if c_del (en_c e) then (fst acc, true) else (fst acc ++ [(fst p, en_c e)], snd acc)
                 end
               else acc)
            (s_ds st) ([], false).

(** the instant at which the body of a related entity is read: [body_now] = the pinned tree
    (GetEntityWithInternalID = time.Now(), F06a); repaired: the query's own instant *)
Definition body_at (body_now : bool) (st : store) (fr : rfrom) : Z :=
  if body_now then s_clock st else f_at fr.

Definition related_id (inverse : bool) (k : rk) : uri := if inverse then r_src k else r_tgt k.

Definition body_of (body_now : bool) (st : store) (fr : rfrom) (k : rk) : list (Z * content) * bool :=
  lookup_at st (related_id (f_inv fr) k) (body_at body_now st fr) (f_scope fr).
