(** * Model of the deduplicating compaction
    (internal/service/dataset/compact.go CompactionWorker.compact / forEntity / flushDeletes,
     compact_stategy_deduplicate.go deduplicationStrategy.eval / flush, compact_strategy.go)
    on top of the store model (Model/Store.v).  Definitions only.

    The compactor opens ONE read snapshot, walks the entities of the dataset in the order of
    their latest-pointer keys, and for each entity its versions in key order (time, batch index).
    The strategy decides per version; its decisions are appended to an instruction list that is
    flushed (own update transaction) whenever it holds at least [threshold] delete keys, and once
    more at the end.  A flush deletes version keys, the change-log entries naming them and
    reference keys, and rewrites latest pointers. *)
From Coq Require Import List ZArith Bool.
From DH Require Import Model.Store.
Import ListNotations.
Open Scope Z_scope.

(** ** variant flags: one per deviation of the pinned tree *)
Record cflags := {
  cf_stale_prev : bool;     (* true (pinned, F12a): after the "only repeated reference keys" branch the strategy
                               returns early and does NOT advance its comparison base [prev] *)
  cf_blind_repoint : bool;  (* true (pinned, F12b): a flush sets the latest pointer unconditionally;
                               false (repaired): only if it still names the version being removed *)
  cf_shared_refs : bool     (* true (pinned, F12c): reference keys of a version are scheduled for deletion also when another
                               version of the entity has the same recorded time (reference keys carry no batch index, so
                               they are that version's keys too: live keys or tombstones); false (repaired): such keys are
                               skipped *)
}.
Definition cf_current : cflags := {| cf_stale_prev := true; cf_blind_repoint := true; cf_shared_refs := true |}.
Definition cf_fixed : cflags := {| cf_stale_prev := false; cf_blind_repoint := false; cf_shared_refs := false |}.

(** the strategy calls server.IsEntityEqual on two entities BOTH decoded from stored JSON, so nested
    entities are plain maps on both sides (the F02b pointer comparison cannot occur); the F01a
    shortcut (same length + old keys only) is the same function as on the write path. *)
Definition compact_eqb (fl : eqflags) : content -> content -> bool :=
  content_eqb {| f_lenkeys := f_lenkeys fl; f_objneq := false |}.

Definition vkey := (uri * (Z * Z))%type.            (* entity, (time, batch index) *)
Definition key_of (e : entry) : vkey := (en_id e, (en_time e, en_bidx e)).
Definition vkey_eqb (a b : vkey) : bool :=
  Z.eqb (fst a) (fst b) && Z.eqb (fst (snd a)) (fst (snd b)) && Z.eqb (snd (snd a)) (snd (snd b)).
Definition kmem (k : vkey) (l : list vkey) : bool := existsb (vkey_eqb k) l.

(** one compactionInstruction as returned by eval *)
Record instr := {
  i_del : option vkey;            (* version key to delete (with its change-log entry) *)
  i_weight : Z;                   (* len(DeleteKeys): version key + reference keys (2 per target) *)
  i_repoint : option vkey;        (* latest pointer of the entity := this version key *)
  i_shared : bool                 (* the scheduled reference keys are also the keys of the kept version (F12c) *)
}.

Definition ref_targets (c : content) : Z :=
  fold_right (fun (kv : Z * rval) n => Z.of_nat (length (rv_tgts (snd kv))) + n) 0 (c_refs c).

(** reference keys scheduled by the second branch: predicates whose value is DeepEqual to prev's,
    unless the keys coincide with prev's (same recorded time) *)
Definition common_ref_weight (prev this : entry) : Z :=
  if Z.eqb (en_time prev) (en_time this) then 0 else
  fold_right (fun (kv : Z * rval) n =>
                match assoc (fst kv) (c_refs (en_c prev)) with
                | Some rv' => if rval_eqb rv' (snd kv) then 2 * Z.of_nat (length (rv_tgts (snd kv))) + n else n
                | None => n
                end) 0 (c_refs (en_c this)).

(** deduplicationStrategy.eval over the versions after the first one; [prev] is the strategy memory.
    [same v] = another version of the entity carries v's recorded time (several versions of one entity written by one
    batch): reference keys carry no batch index, so v's reference keys are then also keys (live ones or tombstones) of
    that other version. *)
Fixpoint entity_pass (cf : cflags) (eqb : content -> content -> bool) (same : entry -> bool) (prev : entry) (vs : list entry) : list instr :=
  match vs with
  | [] => []
  | v :: vs' =>
    let is_last := match vs' with [] => true | _ => false end in
    if eqb (en_c prev) (en_c v) then
      {| i_del := Some (key_of v);
         i_weight := if cf_shared_refs cf || negb (same v) then 1 + 2 * ref_targets (en_c v) else 1;
         i_repoint := if is_last then Some (key_of prev) else None;
         i_shared := cf_shared_refs cf && same v && (0 <? ref_targets (en_c v)) |}
      :: entity_pass cf eqb same prev vs'
    else
      let w0 := if Bool.eqb (c_del (en_c prev)) (c_del (en_c v)) then common_ref_weight prev v else 0 in
      let w := if cf_shared_refs cf || negb (same v) then w0 else 0 in
      if 0 <? w then
        {| i_del := None; i_weight := w; i_repoint := None; i_shared := cf_shared_refs cf && same v |}
        :: entity_pass cf eqb same (if cf_stale_prev cf then prev else v) vs'
      else entity_pass cf eqb same v vs'
  end.

(** versions of an entity in the snapshot.  Go iterates the JSON keys of (entity, dataset) in key
    order; in every reachable state the change log lists an entity's versions in that order
    (StoreProofs.dinv_sorted, preserved by compaction: CompactProofs.cinv_flush). *)
Definition versions_of (d : dstate) (id : uri) : list entry :=
  filter (fun e => Z.eqb (en_id e) id) (d_entries d).

Definition shares_time (all : list entry) (v : entry) : bool :=
  1 <? Z.of_nat (length (filter (fun e => Z.eqb (en_time e) (en_time v)) all)).

Definition entity_instrs (cf : cflags) (eqb : content -> content -> bool) (d : dstate) (id : uri) : list instr :=
  match versions_of d id with
  | [] => []
  | v :: vs => entity_pass cf eqb (shares_time (v :: vs)) v vs
  end.

(** [order] = the entities in the order of their latest-pointer keys (internal ids; an input of the model) *)
Definition all_instrs (cf : cflags) (eqb : content -> content -> bool) (d : dstate) (order : list uri) : list instr :=
  flat_map (entity_instrs cf eqb d) order.

Definition eff_threshold (thr : Z) : Z := if 0 <? thr then thr else 100000.

(** flushDeletes: after every appended instruction flush if the delete keys reached the threshold; a final
    flush always happens (possibly empty) *)
Fixpoint batches (thr : Z) (acc : list instr) (w : Z) (l : list instr) : list (list instr) :=
  match l with
  | [] => [acc]
  | i :: l' =>
    let acc' := acc ++ [i] in
    let w' := w + i_weight i in
    if w' <? thr then batches thr acc' w' l' else acc' :: batches thr [] 0 l'
  end.

Definition plan (cf : cflags) (fl : eqflags) (thr : Z) (d : dstate) (order : list uri) : list (list instr) :=
  batches (eff_threshold thr) [] 0 (all_instrs cf (compact_eqb fl) d order).

(** ** one flush = one update transaction on the CURRENT state *)
Definition del_keys (g : list instr) : list vkey :=
  flat_map (fun i => match i_del i with Some k => [k] | None => [] end) g.

Definition key_opt_eqb (a : option (Z * Z)) (k : Z * Z) : bool :=
  match a with Some x => Z.eqb (fst x) (fst k) && Z.eqb (snd x) (snd k) | None => false end.

Definition repoint (cf : cflags) (lt : list (uri * (Z * Z))) (i : instr) : list (uri * (Z * Z)) :=
  match i_repoint i with
  | None => lt
  | Some (id, k) =>
    if cf_blind_repoint cf then (id, k) :: lt
    else match i_del i with
         | Some (_, old) => if key_opt_eqb (assoc id lt) old then (id, k) :: lt else lt
         | None => lt
         end
  end.

Definition apply_flush (cf : cflags) (d : dstate) (g : list instr) : dstate :=
  {| d_entries := filter (fun e => negb (kmem (key_of e) (del_keys g))) (d_entries d);
     d_latest := fold_left (repoint cf) g (d_latest d);
     d_next := d_next d |}.

Definition apply_flushes (cf : cflags) (d : dstate) (gs : list (list instr)) : dstate :=
  fold_left (apply_flush cf) gs d.

(** the whole compaction, nothing else happening *)
Definition compact_ds (cf : cflags) (fl : eqflags) (thr : Z) (order : list uri) (d : dstate) : dstate :=
  apply_flushes cf d (plan cf fl thr d order).

(** the process dies at the [k]-th compact.beforeFlush (1-based): k-1 flushes were committed *)
Definition compact_crash (cf : cflags) (fl : eqflags) (thr : Z) (order : list uri) (k : nat) (d : dstate) : dstate :=
  apply_flushes cf d (firstn k (plan cf fl thr d order)).

(** A flush is ONE transaction.  If it were split (deletes committed, re-points in a later transaction) a process dying
    between the two would leave this state: *)
Definition apply_flush_deletes_only (d : dstate) (g : list instr) : dstate :=
  {| d_entries := filter (fun e => negb (kmem (key_of e) (del_keys g))) (d_entries d);
     d_latest := d_latest d; d_next := d_next d |}.

(** a latest pointer that names no existing version *)
Definition dangling (d : dstate) (id : uri) : bool :=
  match assoc id (d_latest d) with
  | Some (t, b) => match find_entry id t b (d_entries d) with Some _ => false | None => true end
  | None => false
  end.

(** a writer commits a batch (time [t]) between the snapshot and the [k]-th flush (k < number of flushes,
    0-based: after [k] flushes); the plan is computed from the snapshot [d] *)
Definition compact_race (cf : cflags) (fl : eqflags) (dm : dup_mode) (thr : Z) (order : list uri)
           (k : nat) (t : Z) (ents : list ent) (d : dstate) : dstate :=
  let p := plan cf fl thr d order in
  let d1 := apply_flushes cf d (firstn k p) in
  let d2 := store_batch_ds fl dm t ents d1 in
  apply_flushes cf d2 (skipn k p).

(** ** Spec: the feed minus the versions identical to their immediate predecessor (of the same entity) *)
Fixpoint dedup_from (pre f : feed) : feed :=
  match f with
  | [] => []
  | (i, c) :: f' =>
    let rest := dedup_from (pre ++ [(i, c)]) f' in
    match current_of pre i with
    | Some p => if identical p c then rest else (i, c) :: rest
    | None => (i, c) :: rest
    end
  end.
Definition spec_compact (f : feed) : feed := dedup_from [] f.

(** two optional contents a reader cannot tell apart *)
Definition oc_same (a b : option content) : bool :=
  match a, b with
  | Some x, Some y => identical x y
  | None, None => true
  | _, _ => false
  end.
