(** * The reference-index layer of the entity store
    (internal/server/dataset.go StoreEntitiesWithTransaction, "Process references").
    Definitions only.  Builds on Model/Store.v: the version/change-log part of the batch
    loop is Store.v's [batch_step]; this file threads the two things the reference
    part needs in addition - the global set of asserted URIs ([known]: [isnew] = first
    use of the URI anywhere, as entity id, predicate or reference target) and the
    reference keys - through the same loop.

    URIs are integer codes; the check instantiates them with the INTERNAL IDS the
    implementation assigned (observed), so that the order of the codes is the order
    Badger iterates in.  All theorems are over arbitrary codes.

    A reference key is a record; the outgoing index holds it under the field order
    [src; time; pred; tgt; del; ds], the incoming index under [tgt; src; time; pred; del; ds]
    (dataset.go writes / deletes the two encodings of the same record always together,
    so one set of records with two sort orders is exact).  Badger iterates in bytewise
    order of the big-endian fixed-width encoding = lexicographic order of the field lists. *)
From Coq Require Import List ZArith Bool.
From DH Require Import Model.Store.
Import ListNotations.
Open Scope Z_scope.

Record rk := { r_src : uri; r_time : Z; r_pred : Z; r_tgt : uri; r_del : bool; r_ds : Z }.

Definition b2z (b : bool) : Z := if b then 1 else 0.
Definition okey (k : rk) : list Z := [r_src k; r_time k; r_pred k; r_tgt k; b2z (r_del k); r_ds k].
Definition ikey (k : rk) : list Z := [r_tgt k; r_src k; r_time k; r_pred k; b2z (r_del k); r_ds k].

Fixpoint lex_ltb (a b : list Z) : bool :=
  match a, b with
  | x :: a', y :: b' => (x <? y) || (Z.eqb x y && lex_ltb a' b')
  | [], _ :: _ => true
  | _, _ => false
  end.

Definition rk_eqb (a b : rk) : bool :=
  Z.eqb (r_src a) (r_src b) && Z.eqb (r_time a) (r_time b) && Z.eqb (r_pred a) (r_pred b)
  && Z.eqb (r_tgt a) (r_tgt b) && Bool.eqb (r_del a) (r_del b) && Z.eqb (r_ds a) (r_ds b).

(** the key families as a duplicate-free set of records *)
Definition kmem (k : rk) (l : list rk) : bool := existsb (rk_eqb k) l.
Definition kset_add (k : rk) (l : list rk) : list rk := if kmem k l then l else k :: l.
Definition kset_del (k : rk) (l : list rk) : list rk := filter (fun x => negb (rk_eqb k x)) l.

(** pending writes of the badger transaction on the two reference families *)
Inductive rop := RSet (k : rk) | RDel (k : rk).
Definition apply_rop (l : list rk) (o : rop) : list rk :=
  match o with RSet k => kset_add k l | RDel k => kset_del k l end.

(** (predicate, target) pairs of a version, single and array values alike *)
Definition flat_refs (c : content) : list (Z * uri) :=
  flat_map (fun pr => map (fun t => (fst pr, t)) (rv_tgts (snd pr))) (c_refs c).

Definition pair_eqb (a b : Z * Z) : bool := Z.eqb (fst a) (fst b) && Z.eqb (snd a) (snd b).
Definition pmem (f : Z * Z) (l : list (Z * Z)) : bool := existsb (pair_eqb f) l.

Definition mkk (src t ds : Z) (del : bool) (f : Z * uri) : rk :=
  {| r_src := src; r_time := t; r_pred := fst f; r_tgt := snd f; r_del := del; r_ds := ds |}.

(** The reference part of one loop iteration for a KEPT element [id, c]:
    - [isnew]: keys for the element's own references, flagged with its deleted flag;
    - otherwise [old] = references of [prev] (stored latest overridden by the in-batch predecessor);
      deleted element: tombstones for [old];
      live element: a live key per own reference, the same-time tombstone of that key removed
      when [difflocal] (isDifferentLocally), tombstones for what remains of [old]. *)
Definition ref_ops (ds t : Z) (isnew : bool) (prev : option content) (difflocal : bool)
           (id : uri) (c : content) : list rop :=
  if isnew then map (fun f => RSet (mkk id t ds (c_del c) f)) (flat_refs c)
  else
    let old := match prev with Some p => flat_refs p | None => [] end in
    if c_del c then map (fun f => RSet (mkk id t ds true f)) old
    else
      flat_map (fun f => RSet (mkk id t ds false f)
                         :: (if difflocal then [RDel (mkk id t ds true f)] else []))
               (flat_refs c)
      ++ map (fun f => RSet (mkk id t ds true f))
             (filter (fun f => negb (pmem f (flat_refs c))) old).

Definition zmem (x : Z) (l : list Z) : bool := existsb (Z.eqb x) l.
Definition known_add (l : list uri) (x : uri) : list uri := if zmem x l then l else x :: l.
Definition ref_uris (c : content) : list uri := flat_map (fun f => [fst f; snd f]) (flat_refs c).

(** accumulator: Store.v's [bacc] + asserted URIs + reference keys *)
Record racc := { ra_b : bacc; ra_known : list uri; ra_keys : list rk }.

Definition rbatch_step (fl : eqflags) (dm : dup_mode) (ds : Z) (snap : dstate) (t : Z)
           (acc : racc) (ie : Z * ent) : racc :=
  let id := e_id (snd ie) in
  let c := e_c (snd ie) in
  let isnew := negb (zmem id (ra_known acc)) in                 (* assertIDForURI(e.ID) *)
  let stored := stored_latest snap id in
  let loc := assoc id (a_loc (ra_b acc)) in
  let known1 := known_add (ra_known acc) id in
  if keep_decision fl dm stored loc c then
    let prev := match loc with Some l => Some l | None => stored end in
    let difflocal := if isnew then true
                     else match loc with Some l => negb (content_eqb fl l c) | None => false end in
    {| ra_b := batch_step fl dm snap t (ra_b acc) ie;
       (* assertIDForURI on predicates and targets: own references in the isnew branch; otherwise the
          previous version's references (oldRefs) and, for a live element, its own *)
       ra_known :=
         (let known2 := if isnew then known1
                        else fold_left known_add (match prev with Some p => ref_uris p | None => [] end) known1 in
          if isnew || negb (c_del c) then fold_left known_add (ref_uris c) known2 else known2);
       ra_keys := fold_left apply_rop (ref_ops ds t isnew prev difflocal id c) (ra_keys acc) |}
  else
    {| ra_b := batch_step fl dm snap t (ra_b acc) ie; ra_known := known1; ra_keys := ra_keys acc |}.

(** the store with its reference index *)
Record rstore := { rs_st : store; rs_known : list uri; rs_keys : list rk }.
Definition rstore0 : rstore := {| rs_st := store0; rs_known := []; rs_keys := [] |}.

(** one dataset's share of a batch / transaction at time [t] *)
Definition rstore_batch_ds (fl : eqflags) (dm : dup_mode) (t : Z) (ds : Z) (ents : list ent) (rs : rstore) : rstore :=
  let d := get_ds (rs_st rs) ds in
  let acc0 := {| ra_b := {| a_loc := []; a_pend := []; a_latest := d_latest d; a_next := d_next d |};
                 ra_known := rs_known rs; ra_keys := rs_keys rs |} in
  let acc := fold_left (rbatch_step fl dm ds d t) (number_from 0 ents) acc0 in
  {| rs_st := set_ds (rs_st rs) ds
                {| d_entries := d_entries d ++ a_pend (ra_b acc); d_latest := a_latest (ra_b acc); d_next := a_next (ra_b acc) |};
     rs_known := ra_known acc;
     rs_keys := ra_keys acc |}.

Definition rtick (rs : rstore) : rstore :=
  {| rs_st := tick (rs_st rs); rs_known := rs_known rs; rs_keys := rs_keys rs |}.

Definition rapply (fl : eqflags) (dm : dup_mode) (rs : rstore) (o : wop) : rstore :=
  let rs1 := rtick rs in
  let t := s_clock (rs_st rs1) in
  match o with
  | WBatch ds ents => rstore_batch_ds fl dm t ds ents rs1
  | WTxn sets => fold_left (fun s (p : Z * list ent) => rstore_batch_ds fl dm t (fst p) (snd p) s) sets rs1
  end.

Definition rrun (fl : eqflags) (dm : dup_mode) (ops : list wop) (rs : rstore) : rstore :=
  fold_left (rapply fl dm) ops rs.

(** ** sorted views (what a Badger iterator over a 10-byte prefix yields) *)
Fixpoint insert_by (ltb : rk -> rk -> bool) (k : rk) (l : list rk) : list rk :=
  match l with
  | [] => [k]
  | x :: l' => if ltb k x then k :: l else x :: insert_by ltb k l'
  end.
Definition isort (ltb : rk -> rk -> bool) (l : list rk) : list rk := fold_right (insert_by ltb) [] l.

Definition okey_ltb (a b : rk) : bool := lex_ltb (okey a) (okey b).
Definition ikey_ltb (a b : rk) : bool := lex_ltb (ikey a) (ikey b).

(** outgoing family under prefix [src], in REVERSE iteration order (Reverse = true, Seek(prefix ++ 0xFF)) *)
Definition out_view (keys : list rk) (src : uri) : list rk :=
  isort (fun a b => okey_ltb b a) (filter (fun k => Z.eqb (r_src k) src) keys).
(** incoming family under prefix [tgt], forward order *)
Definition in_view (keys : list rk) (tgt : uri) : list rk :=
  isort ikey_ltb (filter (fun k => Z.eqb (r_tgt k) tgt) keys).
