(** * Model of the write path as a sequence of DURABLE steps, crash and reopen (property C04)
    (internal/server/dataset.go StoreEntities / StoreEntitiesWithTransaction / updateDataset,
     internal/server/store.go ExecuteTransaction / assertIDForURI / commitIDTxn / Open / Close,
     badger v4 Sequence: GetSequence / Next / Release with bandwidth 1000).
    Built on Model/Store.v (the data state and the batch loop).  Definitions only.

    What survives a process death is the badger database; everything the process holds in memory
    (the id sequence object, the per-batch dataset sequence object, the rolling id transaction, the
    uncommitted data transaction) is lost.  A write is therefore modelled as the list of its durable
    steps, in the order the code performs them:

      for each dataset of the batch / transaction (StoreEntitiesWithTransaction):
        GetSequence(datasetSeqKey, 1000)   -> [SLeaseDs]   persisted position += 1000
        logseq.Next() on an exhausted lease -> [SLeaseDs]   (again, every 1000 kept entities)
        idseq.Next() on an exhausted lease  -> [SLeaseId]   persisted id sequence += 1000
        deferred logseq.Release()           -> [SReleaseDs] persisted position := first unused one
      commitIDTxn()                         -> [SCommitIds] URI<->id keys of all URIs first seen by this write
      txn.Commit()                          -> [SCommitData] version, change-log, latest and reference keys of
                                               every dataset of the write, in ONE badger transaction
      for each dataset: updateDataset()     -> [SCounter]   a SECOND, separate write (StoreEntities on
                                               core.Dataset) adding newitems to the items counter

    Note the order the code really has: the sequence is RELEASED before the data is committed (the
    release is deferred inside StoreEntitiesWithTransaction, the commit happens in the caller), and the
    id transaction is committed BEFORE the data transaction.

    Trusted (DESIGN.md section 2): a committed badger transaction is atomic and durable, i.e. one
    [dstep] is applied entirely or not at all.  A crash is process death between two steps. *)
From Coq Require Import List ZArith Bool.
From DH Require Import Model.Store.
Import ListNotations.
Open Scope Z_scope.

Definition bandwidth : Z := 1000.

(** where the items counter is written: [CounterSeparate] = the pinned tree (second commit, after the
    data); [CounterInData] = repaired (counter written by the data transaction itself) *)
Inductive counter_mode := CounterSeparate | CounterInData.

(** ** State *)
Record cstate := {
  cs_store : store;           (* durable data; [d_next] of a dataset = durable value of its sequence key *)
  cs_ids : list (uri * Z);    (* durable id table URI -> internal id, newest first *)
  cs_idp : Z;                 (* durable value of the id sequence key "uriids" (= end of the running process's lease) *)
  cs_items : list (Z * Z);    (* durable items counter per dataset (core.Dataset meta entity) *)
  cs_next : Z                 (* VOLATILE: next id the running process hands out *)
}.

Definition items_of (c : cstate) (ds : Z) : Z :=
  match assoc ds (cs_items c) with Some n => n | None => 0 end.
Definition id_of (c : cstate) (u : uri) : option Z := assoc u (cs_ids c).

(** a fresh store as the driver sees it after setup: [base] ids are taken by the system (core.Dataset ...) *)
Definition cstate0 (next idp : Z) : cstate :=
  {| cs_store := store0; cs_ids := []; cs_idp := idp; cs_items := []; cs_next := next |}.

(** ** Durable steps *)
Inductive dstep :=
| SLeaseDs (ds : Z)
| SLeaseId
| SReleaseDs (ds : Z) (first_unused : Z)
| SCommitIds (asg : list (uri * Z))
| SCommitData (clock : Z) (sets : list (Z * dstate)) (cnt : list (Z * Z))
| SCounter (ds : Z) (n : Z).

Definition with_next (d : dstate) (n : Z) : dstate :=
  {| d_entries := d_entries d; d_latest := d_latest d; d_next := n |}.
Definition with_data (d new : dstate) : dstate :=
  {| d_entries := d_entries new; d_latest := d_latest new; d_next := d_next d |}.

Definition add_items (items : list (Z * Z)) (ds n : Z) : list (Z * Z) :=
  set_assoc ds ((match assoc ds items with Some m => m | None => 0 end) + n) items.

Definition with_store (c : cstate) (st : store) : cstate :=
  {| cs_store := st; cs_ids := cs_ids c; cs_idp := cs_idp c; cs_items := cs_items c; cs_next := cs_next c |}.

(** effect of one durable step on the durable part of the state (the volatile [cs_next] is untouched) *)
Definition apply_step (c : cstate) (s : dstep) : cstate :=
  match s with
  | SLeaseDs ds =>
    with_store c (set_ds (cs_store c) ds (with_next (get_ds (cs_store c) ds) (d_next (get_ds (cs_store c) ds) + bandwidth)))
  | SLeaseId =>
    {| cs_store := cs_store c; cs_ids := cs_ids c; cs_idp := cs_idp c + bandwidth; cs_items := cs_items c; cs_next := cs_next c |}
  | SReleaseDs ds n =>
    with_store c (set_ds (cs_store c) ds (with_next (get_ds (cs_store c) ds) n))
  | SCommitIds asg =>
    {| cs_store := cs_store c; cs_ids := asg ++ cs_ids c; cs_idp := cs_idp c; cs_items := cs_items c; cs_next := cs_next c |}
  | SCommitData clk sets cnt =>
    let st := fold_left (fun s (p : Z * dstate) => set_ds s (fst p) (with_data (get_ds s (fst p)) (snd p))) sets (cs_store c) in
    {| cs_store := {| s_ds := s_ds st; s_clock := clk |}; cs_ids := cs_ids c; cs_idp := cs_idp c;
       cs_items := fold_left (fun it (p : Z * Z) => add_items it (fst p) (snd p)) cnt (cs_items c); cs_next := cs_next c |}
  | SCounter ds n =>
    {| cs_store := cs_store c; cs_ids := cs_ids c; cs_idp := cs_idp c; cs_items := add_items (cs_items c) ds n; cs_next := cs_next c |}
  end.

Definition apply_steps (c : cstate) (l : list dstep) : cstate := fold_left apply_step l c.

(** ** The steps of one write *)
Definition op_sets (o : wop) : list (Z * list ent) :=
  match o with WBatch ds ents => [(ds, ents)] | WTxn sets => sets end.

(** predicates and targets of the references of a version *)
Definition content_uris (c : content) : list uri :=
  flat_map (fun kv => fst kv :: rv_tgts (snd kv)) (c_refs c).

Fixpoint dedup (l : list uri) (seen : list uri) : list uri :=
  match l with
  | [] => []
  | x :: l' => if existsb (Z.eqb x) seen then dedup l' seen else x :: dedup l' (x :: seen)
  end.

Definition known (ids : list (uri * Z)) (u : uri) : bool :=
  match assoc u ids with Some _ => true | None => false end.

Fixpoint zseq_from (a : Z) (n : nat) : list Z :=
  match n with O => [] | S n' => a :: zseq_from (a + 1) n' end.

(** number of lease renewals needed to hand out [n] numbers when [avail] are left *)
Definition renewals (avail n : Z) : nat :=
  if n <=? avail then O else Z.to_nat ((n - avail + bandwidth - 1) / bandwidth).

(** distinct ids of the share that have no version in the dataset yet ([newitems]) *)
Definition new_items (d : dstate) (ents : list ent) : Z :=
  Z.of_nat (length (dedup (filter (fun id => match assoc id (d_latest d) with None => true | Some _ => false end)
                                  (map e_id ents)) [])).

(** the pending part of one dataset's share: the entries [store_batch_ds] appends *)
Definition pending (d d' : dstate) : list entry := skipn (length (d_entries d)) (d_entries d').

(** volatile state threaded through the datasets of one write *)
Record vst := { v_next : Z; v_leased : Z; v_asg : list (uri * Z) }.

(** the URIs entity number [i] of a share asserts, mirroring the loop body:
    - its own id, always (assertIDForURI(e.ID));
    - [isnew] (the id was unknown to the id table AND not asserted earlier in this write, e.g. as the
      target of an earlier entity): predicates and targets of its references, deleted or not;
    - not new and stored: the references of the PREVIOUS version (in-batch predecessor, else the stored
      latest) are asserted while building [oldRefs], then those of the new version unless it is deleted
      (a deleted version only writes tombstones for the old references);
    - skipped (identical): nothing else. *)
Definition local_prev (pend : list entry) (id : uri) (i : Z) : option content :=
  fold_left (fun acc en => if Z.eqb (en_id en) id && (en_bidx en <? i) then Some (en_c en) else acc) pend None.

Definition ent_uris (ids : list (uri * Z)) (d : dstate) (pend : list entry) (seen : list uri) (ie : Z * ent) : list uri :=
  let id := e_id (snd ie) in
  let isnew := negb (known ids id) && negb (existsb (Z.eqb id) seen) in
  match find (fun en => Z.eqb (en_bidx en) (fst ie)) pend with
  | None => [id]
  | Some en =>
    if isnew then id :: content_uris (en_c en)
    else id :: (match (match local_prev pend id (fst ie) with Some p => Some p | None => stored_latest d id end) with
                 | Some p => content_uris p
                 | None => []
                 end)
            ++ (if c_del (en_c en) then [] else content_uris (en_c en))
  end.

Definition share_uris (ids : list (uri * Z)) (d : dstate) (pend : list entry) (ents : list ent) (seen : list uri) : list uri :=
  fold_left (fun acc ie => acc ++ ent_uris ids d pend (seen ++ acc) ie) (number_from 0 ents) [].

(** one dataset's share: lease, in-loop renewals, release *)
Definition share_steps (ids : list (uri * Z)) (d d' : dstate) (ds : Z) (ents : list ent) (v : vst)
  : list dstep * vst :=
  let used := d_next d' - d_next d in
  let uris := share_uris ids d (pending d d') ents (map fst (v_asg v)) in
  let fresh := dedup (filter (fun u => negb (known ids u)) uris) (map fst (v_asg v)) in
  let n := Z.of_nat (length fresh) in
  let r := renewals (v_leased v - v_next v) n in
  (repeat (SLeaseDs ds) (S (renewals bandwidth used)) ++ repeat SLeaseId r ++ [SReleaseDs ds (d_next d + used)],
   {| v_next := v_next v + n;
      v_leased := v_leased v + bandwidth * Z.of_nat r;
      v_asg := v_asg v ++ combine fresh (zseq_from (v_next v) (length fresh)) |}).

Fixpoint pre_steps (ids : list (uri * Z)) (st st' : store) (sets : list (Z * list ent)) (v : vst)
  : list dstep * vst :=
  match sets with
  | [] => ([], v)
  | (ds, ents) :: sets' =>
    let '(l1, v1) := share_steps ids (get_ds st ds) (get_ds st' ds) ds ents v in
    let '(l2, v2) := pre_steps ids st st' sets' v1 in
    (l1 ++ l2, v2)
  end.

Definition counts (st : store) (sets : list (Z * list ent)) : list (Z * Z) :=
  flat_map (fun p : Z * list ent =>
              let n := new_items (get_ds st (fst p)) (snd p) in
              if 0 <? n then [(fst p, n)] else []) sets.

(** the durable steps of write [o] started in state [c]:  pre ++ [ids; data] ++ counters,
    together with the volatile id counter after the write *)
Definition steps (cm : counter_mode) (fl : eqflags) (dm : dup_mode) (c : cstate) (o : wop) : list dstep * Z :=
  let st := cs_store c in
  let st' := apply_wop fl dm st o in
  let sets := op_sets o in
  let '(pre, v) := pre_steps (cs_ids c) st st' sets {| v_next := cs_next c; v_leased := cs_idp c; v_asg := [] |} in
  let data := map (fun p : Z * list ent => (fst p, get_ds st' (fst p))) sets in
  let cnt := counts st sets in
  (pre ++ [SCommitIds (v_asg v);
           SCommitData (s_clock st') data (match cm with CounterInData => cnt | CounterSeparate => [] end)]
       ++ (match cm with CounterSeparate => map (fun p : Z * Z => SCounter (fst p) (snd p)) cnt | CounterInData => [] end),
   v_next v).

(** index of the data commit in the step list = number of steps before it *)
Definition commit_index (cm : counter_mode) (fl : eqflags) (dm : dup_mode) (c : cstate) (o : wop) : nat :=
  let st := cs_store c in
  let '(pre, _) := pre_steps (cs_ids c) st (apply_wop fl dm st o) (op_sets o)
                             {| v_next := cs_next c; v_leased := cs_idp c; v_asg := [] |} in
  S (length pre).

(** ** Acknowledged write, crash, reopen, clean restart *)
Definition set_vnext (c : cstate) (n : Z) : cstate :=
  {| cs_store := cs_store c; cs_ids := cs_ids c; cs_idp := cs_idp c; cs_items := cs_items c; cs_next := n |}.

(** the write runs to the end and is acknowledged *)
Definition exec_op (cm : counter_mode) (fl : eqflags) (dm : dup_mode) (c : cstate) (o : wop) : cstate :=
  let '(l, n) := steps cm fl dm c o in set_vnext (apply_steps c l) n.

(** Open: the id sequence takes a new lease starting at the persisted value *)
Definition reopen (c : cstate) : cstate :=
  {| cs_store := cs_store c; cs_ids := cs_ids c; cs_idp := cs_idp c + bandwidth; cs_items := cs_items c;
     cs_next := cs_idp c |}.

(** Close: idseq.Release() returns the unused part of the lease *)
Definition close (c : cstate) : cstate :=
  {| cs_store := cs_store c; cs_ids := cs_ids c; cs_idp := cs_next c; cs_items := cs_items c; cs_next := cs_next c |}.

(** the process dies after the first [k] durable steps of write [o]; then the store is opened again *)
Definition crash_at (cm : counter_mode) (fl : eqflags) (dm : dup_mode) (k : nat) (c : cstate) (o : wop) : cstate :=
  reopen (apply_steps c (firstn k (fst (steps cm fl dm c o)))).

Inductive event :=
| EOp (o : wop)                (* acknowledged write *)
| ECrash (o : wop) (k : nat)   (* write interrupted after k durable steps, then reopen *)
| ERestart.                    (* Close, Open *)

Definition run_event (cm : counter_mode) (fl : eqflags) (dm : dup_mode) (c : cstate) (e : event) : cstate :=
  match e with
  | EOp o => exec_op cm fl dm c o
  | ECrash o k => crash_at cm fl dm k c o
  | ERestart => reopen (close c)
  end.

Definition run_events (cm : counter_mode) (fl : eqflags) (dm : dup_mode) (es : list event) (c : cstate) : cstate :=
  fold_left (run_event cm fl dm) es c.

(** ** Observables of a (recovered) state *)
Definition data_of (d : dstate) : list entry * list (uri * (Z * Z)) := (d_entries d, d_latest d).

(** same version records, change entries and latest pointers in every dataset *)
Definition data_eq (a b : store) : Prop := forall ds, data_of (get_ds a ds) = data_of (get_ds b ds).

Definition max_seq (d : dstate) : Z := fold_left (fun m e => Z.max m (en_seq e)) (d_entries d) (-1).
Definition max_id (c : cstate) : Z := fold_left (fun m (p : uri * Z) => Z.max m (snd p)) (cs_ids c) (-1).

(** number of entities of a dataset (distinct ids that have a version) *)
Definition distinct_ids (d : dstate) : Z := Z.of_nat (length (dedup (map en_id (d_entries d)) [])).
