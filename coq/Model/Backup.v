(** * Model of internal/server/backup.go (BackupManager: NewBackupManager, Run,
      validLocation, DoNativeBackup, StoreLastID, LoadLastID) on top of a trusted
      model of Badger's versioned key-value log ([DB.Backup], [DB.Load]) and of
      the handful of os calls the code makes.  Definitions only; proofs are in
      Proofs/BackupProofs.v so the model still runs when a proof breaks. *)
From Coq Require Import List NArith Bool.
From DH Require Import Lib.CheckLib.
Import ListNotations.
Open Scope N_scope.

(** file contents that are compared verbatim (the storage id files): byte strings *)
Definition bytes := list N.
Definition bytes_eqb : bytes -> bytes -> bool := list_eqb N.eqb.

(** ** 1. The source store as a versioned log (TRUSTED model of Badger)

    One [entry] stands for everything one hub operation committed (the version
    keys, change-log key, latest pointer, reference keys, dataset counter ... of
    one StoreEntities call, or the sequence lease written by a restart).  It is
    stamped with the Badger version the store had reached when the operation
    returned.  Backups do not run concurrently with operations in this model, so
    only the order of stamps relative to the backup cursor matters. *)
Record entry := { e_ver : N; e_ds : N; e_id : N; e_val : N; e_del : bool }.

Definition entry_eqb (a b : entry) : bool :=
  (e_ver a =? e_ver b) && (e_ds a =? e_ds b) && (e_id a =? e_id b) && (e_val a =? e_val b)
  && Bool.eqb (e_del a) (e_del b).

(** highest version in a log; 0 for the empty log (Badger: MaxVersion) *)
Fixpoint maxv (l : list entry) : N :=
  match l with [] => 0 | e :: l' => N.max (e_ver e) (maxv l') end.

(** a commit stamped [m]: versions only move forward; an operation that did not
    advance the store's version committed nothing *)
Definition src_put (src : list entry) (m : N) (ds k v : N) (del : bool) : list entry :=
  if maxv src <? m then src ++ [{| e_ver := m; e_ds := ds; e_id := k; e_val := v; e_del := del |}]
  else src.

(** Deleting a dataset (DsManager.DeleteDataset) is a commit like any other - the dataset record is
    deleted in Badger (a delete marker), the deleted-datasets set and the core.Dataset entity are
    rewritten.  It is the entry [OWrite m ds drop_id 0 true]: the entities of the dataset written
    before it are no longer listed, a later write re-creates the dataset (new internal id) and only
    lists what is written after it ([visible]). *)
Definition drop_id : N := 1000.

(** dataset number used for the entries that are not hub data (sequence leases) *)
Definition sys_ds : N := 1000.

(** HYPOTHESIS about Badger (v4.2.0 backup.go + iterator.go:640, `version <= SinceTs` is skipped):
    [DB.Backup(w, since)] sends every entry with version > since to [w] and returns the highest
    version it sent - 0 when it sent nothing. *)
Definition badger_backup (src : list entry) (since : N) : list entry * N :=
  let d := filter (fun e => since <? e_ver e) src in (d, maxv d).

(** HYPOTHESIS about Badger: [DB.Load] replays the entries of the stream, with their versions,
    into the (empty) target; reading the target returns, per key, the entry with the highest
    version ([latest] below), whatever the order or multiplicity in the stream. *)
Definition badger_load (stream : list entry) : list entry := stream.

(** the read view of a log: per (dataset, id) the entry with the highest version *)
Fixpoint latest (ds k : N) (l : list entry) : option entry :=
  match l with
  | [] => None
  | e :: l' =>
    let r := latest ds k l' in
    if (e_ds e =? ds) && (e_id e =? k) then
      match r with
      | Some a => if e_ver e <? e_ver a then Some a else Some e
      | None => Some e
      end
    else r
  end.

(** what the hub lists for (ds, k): the latest entry, unless the dataset was deleted after it *)
Definition visible (ds k : N) (l : list entry) : option entry :=
  match latest ds k l with
  | Some e => match latest ds drop_id l with
              | Some d => if e_ver d <? e_ver e then Some e else None
              | None => Some e
              end
  | None => None
  end.

(** ** 2. The backup location as a map  file name -> content, with open modes *)
Inductive fname :=
  | FKv          (* datahub-backup.kv *)
  | FSeen        (* datahub-backup.lastseen         - the name StoreLastID writes *)
  | FSeenMgr     (* datahub-backupManager.lastseen  - the name LoadLastID reads in the pinned tree *)
  | FStorageId   (* DATAHUB_BACKUPID *)
  | FCopy.       (* rsync mode: the copy of the store directory below the location *)

Definition fname_eqb (a b : fname) : bool :=
  match a, b with
  | FKv, FKv | FSeen, FSeen | FSeenMgr, FSeenMgr | FStorageId, FStorageId | FCopy, FCopy => true
  | _, _ => false
  end.

Inductive fdata := DEntries (l : list entry) | DNum (n : N) | DBytes (b : bytes).

Definition fs := list (fname * fdata).

Fixpoint fs_get (f : fs) (n : fname) : option fdata :=
  match f with
  | [] => None
  | (n', d) :: f' => if fname_eqb n' n then Some d else fs_get f' n
  end.

Fixpoint fs_set (f : fs) (n : fname) (d : fdata) : fs :=
  match f with
  | [] => [(n, d)]
  | (n', d') :: f' => if fname_eqb n' n then (n, d) :: f' else (n', d') :: fs_set f' n d
  end.

Fixpoint fs_remove (f : fs) (n : fname) : fs :=
  match f with
  | [] => []
  | (n', d') :: f' => if fname_eqb n' n then f' else (n', d') :: fs_remove f' n
  end.

Definition fdata_eqb (a b : fdata) : bool :=
  match a, b with
  | DEntries x, DEntries y => list_eqb entry_eqb x y
  | DNum x, DNum y => x =? y
  | DBytes x, DBytes y => bytes_eqb x y
  | _, _ => false
  end.
Definition fs_eqb : fs -> fs -> bool :=
  list_eqb (fun a b => fname_eqb (fst a) (fst b) && fdata_eqb (snd a) (snd b)).

(** os.Open (read-only) | os.Create (O_RDWR|O_CREATE|O_TRUNC) | os.OpenFile(O_APPEND|O_WRONLY) *)
Inductive omode := MRead | MCreate | MAppend.

(** effect of opening on the file system *)
Definition fs_open (f : fs) (n : fname) (m : omode) : fs :=
  match m with MCreate => fs_set f n (DEntries []) | _ => f end.

(** write through a handle opened with mode [m]: [None] = the write fails (EBADF on a
    read-only descriptor), file unchanged *)
Definition fs_write_entries (f : fs) (n : fname) (m : omode) (d : list entry) : option fs :=
  match m with
  | MRead => None
  | _ => match fs_get f n with
         | Some (DEntries l) => Some (fs_set f n (DEntries (l ++ d)))
         | _ => Some (fs_set f n (DEntries d))
         end
  end.

(** ** 3. Variants *)
(** which file LoadLastID reads *)
Inductive cursor_name := NameMgr (* pinned tree: datahub-backupManager.lastseen *) | NameSame.

Record variant := {
  v_reopen : omode;        (* how DoNativeBackup opens an EXISTING datahub-backup.kv *)
  v_name : cursor_name
}.

Definition current : variant := {| v_reopen := MRead; v_name := NameMgr |}.     (* F20a + F20b *)
Definition append_only : variant := {| v_reopen := MAppend; v_name := NameMgr |}. (* F20b left *)
Definition name_only : variant := {| v_reopen := MRead; v_name := NameSame |}.    (* F20a left *)
Definition fixed : variant := {| v_reopen := MAppend; v_name := NameSame |}.

Definition read_name (v : variant) : fname :=
  match v_name v with NameMgr => FSeenMgr | NameSame => FSeen end.

(** ** 4. The hub + backup manager *)
Record state := {
  s_src : list entry;        (* the store (Badger log) *)
  s_store_id : bytes;        (* content of <store>/DATAHUB_BACKUPID (Store.Open writes it only when missing) *)
  s_fs : fs;                 (* the backup location *)
  s_cursor : N;              (* BackupManager.lastID *)
  s_running : bool;          (* BackupManager.isRunning *)
  s_snap : option (list entry)  (* ghost: the store as it was when the last backup run that RETURNED started *)
}.

Definition with_fs (st : state) (f : fs) : state :=
  {| s_src := s_src st; s_store_id := s_store_id st; s_fs := f; s_cursor := s_cursor st;
     s_running := s_running st; s_snap := s_snap st |}.

(** LoadLastID: open fails -> (0, nil) *)
Definition load_last_id (v : variant) (f : fs) : N :=
  match fs_get f (read_name v) with Some (DNum n) => n | _ => 0 end.

(** StoreLastID: os.Create(datahub-backup.lastseen); write 8 bytes *)
Definition store_last_id (f : fs) (c : N) : fs := fs_set f FSeen (DNum c).

(** validLocation, evaluated afresh on EVERY run: the store's id file is always readable here.
    No id file at the location -> copy ours there (io.Copy), valid.  Otherwise valid iff the two
    files have the same content, byte for byte (`dhID == buDhID` on strings: no trimming, no parsing). *)
Definition valid_location (st : state) : bool * fs :=
  match fs_get (s_fs st) FStorageId with
  | None => (true, fs_set (s_fs st) FStorageId (DBytes (s_store_id st)))
  | Some (DBytes b) => (bytes_eqb (s_store_id st) b, s_fs st)
  | Some _ => (false, s_fs st)
  end.

Definition file_exists (f : fs) (n : fname) : bool :=
  match fs_get f n with Some _ => true | None => false end.

(** DoNativeBackup, statement by statement *)
Definition do_native_backup (v : variant) (st : state) : state :=
  let f0 := s_fs st in                                            (* MkdirAll: no-op *)
  let mode := if file_exists f0 FKv then v_reopen v else MCreate in (* fileExists ? os.Open : os.Create *)
  let f1 := fs_open f0 FKv mode in
  let '(dump, mx) := badger_backup (s_src st) (s_cursor st) in     (* database.Backup(file, lastID) *)
  let '(f2, since) :=
    match dump with
    | [] => (f1, 0)                                                (* nothing sent, maxVersion = 0 *)
    | _ => match fs_write_entries f1 FKv mode dump with
           | Some f' => (f', mx)
           | None => (f1, 0)                                       (* `since, _ :=` : (0, err), error dropped *)
           end
    end in
  let f3 := store_last_id f2 since in                              (* lastID = since; StoreLastID() *)
  {| s_src := s_src st; s_store_id := s_store_id st; s_fs := f3; s_cursor := since;
     s_running := s_running st; s_snap := s_snap st |}.

(** result of one scheduler tick *)
Definition R_NONE : N := 0.     (* the step was not a backup *)
Definition R_RETURNED : N := 1. (* Run returned after DoNativeBackup returned nil *)
Definition R_REFUSED : N := 2.  (* logger.Panicf("invalid backup location ...") *)
Definition R_SKIPPED : N := 4.  (* isRunning was still set *)
Definition R_FAILED : N := 5.   (* rsync mode: rsync exited non-zero, the error is logged, Run returns *)

(** Run *)
Definition run_backup (v : variant) (st : state) : state * N :=
  if s_running st then (st, R_SKIPPED)
  else
    let '(ok, f1) := valid_location st in
    if ok then
      let st1 := do_native_backup v (with_fs st f1) in
      ({| s_src := s_src st1; s_store_id := s_store_id st1; s_fs := s_fs st1; s_cursor := s_cursor st1;
          s_running := false; s_snap := Some (s_src st) |}, R_RETURNED)
    else
      (* panics between `isRunning = true` and `isRunning = false` *)
      ({| s_src := s_src st; s_store_id := s_store_id st; s_fs := f1; s_cursor := s_cursor st;
          s_running := true; s_snap := s_snap st |}, R_REFUSED).

(** Run in rsync mode (useRsync): DoRsyncBackup = MkdirAll + `rsync -avz --delete <store> <location>`.
    [ok] = rsync exits 0 (the copy then is the store directory as it is); a non-zero exit is
    logged, nothing is assumed about the copy (the stand-in of the driver leaves it alone) and -
    unlike after the panics - the function goes on to `isRunning = false`. *)
Definition run_backup_rsync (st : state) (ok : bool) : state * N :=
  if s_running st then (st, R_SKIPPED)
  else
    let '(valid, f1) := valid_location st in
    if valid then
      if ok then
        ({| s_src := s_src st; s_store_id := s_store_id st; s_fs := fs_set f1 FCopy (DEntries (s_src st));
            s_cursor := s_cursor st; s_running := false; s_snap := Some (s_src st) |}, R_RETURNED)
      else
        ({| s_src := s_src st; s_store_id := s_store_id st; s_fs := f1; s_cursor := s_cursor st;
            s_running := false; s_snap := s_snap st |}, R_FAILED)
    else
      ({| s_src := s_src st; s_store_id := s_store_id st; s_fs := f1; s_cursor := s_cursor st;
          s_running := true; s_snap := s_snap st |}, R_REFUSED).

(** a hub write with its stamp: (store version afterwards, dataset, entity, value, deleted) *)
Definition wr := (N * N * N * N * bool)%type.
Definition apply_writes (src : list entry) (ws : list wr) : list entry :=
  fold_left (fun s w => let '(m, ds, k, x, del) := w in src_put s m ds k x del) ws src.

(** histories *)
Inductive op :=
  | OWrite (m ds k v : N) (del : bool)  (* one StoreEntities; [m] = store version afterwards *)
  | OBackup                             (* one scheduler tick of the backup job *)
  | ORestart (m : N)                    (* Store.Close (sequence release) + NewStore (new lease) + NewBackupManager *)
  (* the environment: somebody else changes what is found at the backup location *)
  | OSetLocId (b : bytes)               (* the location's DATAHUB_BACKUPID is replaced (another store's id, emptied, ...) *)
  | ODelLocId                           (* ... or removed *)
  (* a native run during which a writer commits [post]: Badger's dump reads a snapshot, so these
     commits come after what the run dumps and before the run ends (the driver forces exactly this
     schedule from the stream's last log line); they only happen if the run gets as far as the dump *)
  | OBackupConc (post : list wr)
  | OBackupRsync (ok : bool)            (* one tick in rsync mode; [ok] = rsync's exit status is 0 *)
  (* Store.Delete ("delete all datasets"): Close, RemoveAll(store location), Open - a NEW Badger
     (version [m] afterwards) and a NEW DATAHUB_BACKUPID [sid]; the BackupManager object lives on *)
  | ODeleteAll (m : N) (sid : bytes).

Definition is_env (o : op) : bool := match o with OSetLocId _ | ODelLocId => true | _ => false end.
Definition is_delete (o : op) : bool := match o with ODeleteAll _ _ => true | _ => false end.
Definition is_rsync (o : op) : bool := match o with OBackupRsync _ => true | _ => false end.
Definition is_native (o : op) : bool := match o with OBackup | OBackupConc _ => true | _ => false end.

Definition step (v : variant) (st : state) (o : op) : state * N :=
  match o with
  | OWrite m ds k x del =>
    ({| s_src := src_put (s_src st) m ds k x del; s_store_id := s_store_id st; s_fs := s_fs st;
        s_cursor := s_cursor st; s_running := s_running st; s_snap := s_snap st |}, R_NONE)
  | OBackup => run_backup v st
  | ORestart m =>
    ({| s_src := src_put (s_src st) m sys_ds 0 m false; s_store_id := s_store_id st; s_fs := s_fs st;
        s_cursor := load_last_id v (s_fs st); s_running := false; s_snap := s_snap st |}, R_NONE)
  | OSetLocId b => (with_fs st (fs_set (s_fs st) FStorageId (DBytes b)), R_NONE)
  | ODelLocId => (with_fs st (fs_remove (s_fs st) FStorageId), R_NONE)
  | OBackupConc post =>
    let '(st1, r) := run_backup v st in
    if r =? R_RETURNED then
      ({| s_src := apply_writes (s_src st1) post; s_store_id := s_store_id st1; s_fs := s_fs st1;
          s_cursor := s_cursor st1; s_running := s_running st1; s_snap := s_snap st1 |}, r)
    else (st1, r)
  | OBackupRsync ok => run_backup_rsync st ok
  | ODeleteAll m sid =>
    ({| s_src := src_put [] m sys_ds 0 m false; s_store_id := sid; s_fs := s_fs st;
        s_cursor := s_cursor st; s_running := s_running st; s_snap := s_snap st |}, R_NONE)
  end.

Fixpoint run (v : variant) (ops : list op) (st : state) : state :=
  match ops with
  | [] => st
  | o :: ops' => run v ops' (fst (step v st o))
  end.

(** a new store (version [m0] after NewStore) and a backup location with content [f];
    NewBackupManager loads the cursor *)
Definition init (v : variant) (m0 : N) (sid : bytes) (f : fs) : state :=
  {| s_src := src_put [] m0 sys_ds 0 m0 false; s_store_id := sid; s_fs := f;
     s_cursor := load_last_id v f; s_running := false; s_snap := None |}.

(** the backup file as a stream *)
Definition kvfile (f : fs) : list entry :=
  match fs_get f FKv with Some (DEntries l) => l | _ => [] end.

(** ** 5. Spec
    The restored hub reads, for every key, what the source read when the last
    returned backup run started. *)
Definition restore_ok (st : state) : Prop :=
  forall s, s_snap st = Some s ->
    exists file, fs_get (s_fs st) FKv = Some (DEntries file) /\
                 forall ds k, latest ds k (badger_load file) = latest ds k s.

(** rsync mode: the restored hub is the copy *)
Definition restore_ok_rsync (st : state) : Prop :=
  forall s, s_snap st = Some s -> fs_get (s_fs st) FCopy = Some (DEntries s).

(** ** 6. The cursor file's encoding: StoreLastID writes binary.LittleEndian.PutUint64, LoadLastID
    reads binary.LittleEndian.Uint64 (the model keeps the number; Proofs: round trip below 2^64) *)
Fixpoint le_enc (k : nat) (n : N) : bytes :=
  match k with O => [] | S k' => (n mod 256) :: le_enc k' (n / 256) end.
Fixpoint le_dec (b : bytes) : N :=
  match b with [] => 0 | x :: b' => x + 256 * le_dec b' end.
Definition le64_enc (n : N) : bytes := le_enc 8 n.

(** the location belongs to somebody else: it carries an id file whose content is not ours *)
Definition loc_id (f : fs) : option bytes :=
  match fs_get f FStorageId with Some (DBytes b) => Some b | _ => None end.
Definition is_foreign (sid : bytes) (loc : option bytes) : bool :=
  match loc with Some b => negb (bytes_eqb sid b) | None => false end.

(** what a per-step trace of the model shows: cursor, cursor file, result, kv file changed,
    the location's id file afterwards, any file of the location changed *)
Definition seen_file (f : fs) : option N :=
  match fs_get f FSeen with Some (DNum n) => Some n | _ => None end.
Definition kv_len (f : fs) : option nat :=
  match fs_get f FKv with Some (DEntries l) => Some (length l) | Some _ => Some O | None => None end.
Definition optnat_eqb (a b : option nat) : bool :=
  match a, b with Some x, Some y => Nat.eqb x y | None, None => true | _, _ => false end.

Record obs_step := { x_cursor : N; x_disk : option N; x_res : N; x_grew : bool;
                     x_locid : option bytes; x_touched : bool;
                     x_sid : bytes;        (* the store's own id file afterwards *)
                     x_running : bool }.   (* BackupManager.isRunning afterwards *)

Fixpoint trace (v : variant) (ops : list op) (st : state) : list obs_step * state :=
  match ops with
  | [] => ([], st)
  | o :: ops' =>
    let '(st1, r) := step v st o in
    let x := {| x_cursor := s_cursor st1; x_disk := seen_file (s_fs st1); x_res := r;
                x_grew := negb (optnat_eqb (kv_len (s_fs st)) (kv_len (s_fs st1)));
                x_locid := loc_id (s_fs st1); x_touched := negb (fs_eqb (s_fs st) (s_fs st1));
                x_sid := s_store_id st1; x_running := s_running st1 |} in
    let '(xs, stn) := trace v ops' st1 in
    (x :: xs, stn)
  end.
