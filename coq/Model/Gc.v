(** * Key / byte level model of the garbage collector (internal/server/garbagecollector.go Cleandeleted)
    Definitions only.

    The five data families as records, their big-endian fixed-width byte layout as the code
    writes it (dataset.go StoreEntitiesWithTransaction), the collector as the code runs it on raw
    keys (prefix scans; the dataset id read at byte offset 10 for version keys, 36 for both
    reference families, prefix [family|dataset id] for change-log and latest keys), and the key set /
    key census of a modelled store. *)
From Coq Require Import List ZArith Bool.
From DH Require Import Lib.CheckLib Model.Store Model.DsManager.
Import ListNotations.
Open Scope Z_scope.

Inductive key :=
| KVer (eid ds time bidx : Z)            (* EntityIDToJSONIndexID  = 1:  2|8|4|8|2       = 24 bytes *)
| KChg (ds seq eid : Z)                  (* DatasetEntityChangeLog = 4:  2|4|8|8         = 22 bytes *)
| KLat (ds eid : Z)                      (* DatasetLatestEntities  = 8:  2|4|8           = 14 bytes *)
| KOut (src time pred tgt del ds : Z)    (* OutgoingRefIndex       = 3:  2|8|8|8|8|2|4   = 40 bytes *)
| KIn (tgt src time pred del ds : Z).    (* IncomingRefIndex       = 2:  2|8|8|8|8|2|4   = 40 bytes *)

Definition key_ds (k : key) : Z :=
  match k with
  | KVer _ ds _ _ => ds | KChg ds _ _ => ds | KLat ds _ => ds
  | KOut _ _ _ _ _ ds => ds | KIn _ _ _ _ _ ds => ds
  end.
Definition key_fam (k : key) : Z :=
  match k with KVer _ _ _ _ => 1 | KChg _ _ _ => 4 | KLat _ _ => 8 | KOut _ _ _ _ _ _ => 3 | KIn _ _ _ _ _ _ => 2 end.

(** big-endian, [w] bytes *)
Fixpoint be (w : nat) (x : Z) : list Z :=
  match w with O => [] | S w' => be w' (x / 256) ++ [x mod 256] end.
Fixpoint dec (l : list Z) (acc : Z) : Z :=
  match l with [] => acc | b :: l' => dec l' (acc * 256 + b) end.

Definition encode (k : key) : list Z :=
  match k with
  | KVer eid ds time bidx => be 2 1 ++ be 8 eid ++ be 4 ds ++ be 8 time ++ be 2 bidx
  | KChg ds seq eid => be 2 4 ++ be 4 ds ++ be 8 seq ++ be 8 eid
  | KLat ds eid => be 2 8 ++ be 4 ds ++ be 8 eid
  | KOut src time pred tgt del ds => be 2 3 ++ be 8 src ++ be 8 time ++ be 8 pred ++ be 8 tgt ++ be 2 del ++ be 4 ds
  | KIn tgt src time pred del ds => be 2 2 ++ be 8 tgt ++ be 8 src ++ be 8 time ++ be 8 pred ++ be 2 del ++ be 4 ds
  end.

Definition in_range (w : nat) (x : Z) : Prop := 0 <= x < 256 ^ Z.of_nat w.
Definition key_wf (k : key) : Prop :=
  match k with
  | KVer eid ds time bidx => in_range 8 eid /\ in_range 4 ds /\ in_range 8 time /\ in_range 2 bidx
  | KChg ds seq eid => in_range 4 ds /\ in_range 8 seq /\ in_range 8 eid
  | KLat ds eid => in_range 4 ds /\ in_range 8 eid
  | KOut a b c d e ds | KIn a b c d e ds =>
    in_range 8 a /\ in_range 8 b /\ in_range 8 c /\ in_range 8 d /\ in_range 2 e /\ in_range 4 ds
  end.

(** binary.BigEndian.Uint32(key[off:]) / Uint16(key[0:]) *)
Definition u32_at (off : nat) (b : list Z) : Z := dec (firstn 4 (skipn off b)) 0.
Definition u16_at (off : nat) (b : list Z) : Z := dec (firstn 2 (skipn off b)) 0.

(** the offset at which the collector (and every reader) finds the dataset id of a key of that family *)
Definition ds_offset (fam : Z) : nat :=
  if Z.eqb fam 1 then 10%nat else if Z.eqb fam 3 || Z.eqb fam 2 then 36%nat else 2%nat.

(** does Cleandeleted delete this raw key?  ([del] = Store.deletedDatasets)
    - family 1: prefix scan [0,1], selector reads key[10:14];
    - families 4 and 8: for every deleted id a prefix scan [family|id], selector true;
    - families 3 and 2: prefix scan, selector reads key[36:40];
    - every other family is never scanned. *)
Definition gc_raw_select (del : list Z) (b : list Z) : bool :=
  let f := u16_at 0 b in
  if Z.eqb f 1 then zmem (u32_at 10 b) del
  else if Z.eqb f 4 || Z.eqb f 8 then existsb (fun d => zlist_eqb (firstn 6 b) (be 2 f ++ be 4 d)) del
  else if Z.eqb f 3 || Z.eqb f 2 then zmem (u32_at 36 b) del
  else false.
Definition gc_raw (del : list Z) (raw : list (list Z)) : list (list Z) :=
  filter (fun b => negb (gc_raw_select del b)) raw.

(** the collector on key records: exactly the keys whose dataset field is in the deleted set go *)
Definition gc_keys (del : list Z) (ks : list key) : list key :=
  filter (fun k => negb (zmem (key_ds k) del)) ks.

(** ** the keys of the three per-dataset families held by a modelled store *)
Definition keys_of_ds (i : Z) (d : dstate) : list key :=
  map (fun e => KVer (en_id e) i (en_time e) (en_bidx e)) (d_entries d)
  ++ map (fun e => KChg i (en_seq e) (en_id e)) (d_entries d)
  ++ map (fun u => KLat i u) (latest_keys d).
Definition keys_of (data : list (Z * dstate)) : list key :=
  flat_map (fun p => keys_of_ds (fst p) (snd p)) data.

(** ** census: number of keys per (family, dataset id), as the driver reports it from a raw scan *)
Definition crow := (Z * Z * Z)%type.     (* family, dataset id, count *)
Definition census_of (data : list (Z * dstate)) : list crow :=
  flat_map (fun p =>
              let n := Z.of_nat (length (d_entries (snd p))) in
              let l := Z.of_nat (length (latest_keys (snd p))) in
              (if 0 <? n then [(1, fst p, n); (4, fst p, n)] else [])
              ++ (if 0 <? l then [(8, fst p, l)] else [])) data.
Definition crow_eqb (a b : crow) : bool :=
  Z.eqb (fst (fst a)) (fst (fst b)) && Z.eqb (snd (fst a)) (snd (fst b)) && Z.eqb (snd a) (snd b).
Definition crow_ltb (a b : crow) : bool :=
  (fst (fst a) <? fst (fst b)) || (Z.eqb (fst (fst a)) (fst (fst b)) && (snd (fst a) <? snd (fst b))).
Fixpoint cinsert (x : crow) (l : list crow) : list crow :=
  match l with [] => [x] | y :: l' => if crow_ltb x y then x :: l else y :: cinsert x l' end.
Definition csort (l : list crow) : list crow := fold_right cinsert [] l.
(** what the collector leaves of an observed census: the rows of the five data families whose dataset is deleted go *)
Definition is_data_fam (f : Z) : bool := Z.eqb f 1 || Z.eqb f 2 || Z.eqb f 3 || Z.eqb f 4 || Z.eqb f 8.
Definition gc_census (del : list Z) (rows : list crow) : list crow :=
  filter (fun r => negb (is_data_fam (fst (fst r)) && zmem (snd (fst r)) del)) rows.
