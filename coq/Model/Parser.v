(** * Model of the UDA entity stream parser and of what the hub serialises
      internal/server/streamparser.go  (ParseStream, ParseTransaction, parseEntity,
        parseProperties, parseReferences, parseRefValue, parseRefArray, parseArray, parseValue)
      internal/server/store.go         (GetNamespacedIdentifier, getURLParts)
      internal/web/datasethandler.go   (getEntitiesHandler / getChangesHandler: "[" context
        ("," stored entity JSON)* ", {"id":"@continuation","token":...}]")
      internal/server/entity.go        (Entity JSON field order and omitempty rules)

    The model starts at the TOKEN stream of encoding/json's Decoder.Token (the
    byte -> token layer is trusted).  Every call of decoder.Token() is one list
    element; running off the end of the list is "Token() returned an error"
    ([eof] says whether that error is io.EOF or a syntax error - ParseStream is
    the only place that can tell).  decoder.Decode(&context) is modelled as
    reading one generic JSON value from the tokens.

    Definitions only; proofs are in Proofs/ParserProofs.v. *)
From Coq Require Import List String Ascii NArith Bool.
Import ListNotations.
Open Scope string_scope.

(** ** Tokens *)
Inductive delim := DArrO | DArrC | DObjO | DObjC.
(** a JSON number as Decoder.Token delivers it (float64): its shortest decimal
    rendering and Go's [uint64(f)] (only used by the "recorded" key) *)
Record num := { n_repr : string; n_u64 : N }.
Inductive token := TDelim (d : delim) | TStr (s : string) | TNum (n : num) | TBool (b : bool) | TNull.

Definition delim_eqb (a b : delim) : bool :=
  match a, b with DArrO, DArrO | DArrC, DArrC | DObjO, DObjO | DObjC, DObjC => true | _, _ => false end.
Definition num_eqb (a b : num) : bool := String.eqb (n_repr a) (n_repr b) && N.eqb (n_u64 a) (n_u64 b).
Definition token_eqb (a b : token) : bool :=
  match a, b with
  | TDelim x, TDelim y => delim_eqb x y
  | TStr x, TStr y => String.eqb x y
  | TNum x, TNum y => num_eqb x y
  | TBool x, TBool y => Bool.eqb x y
  | TNull, TNull => true
  | _, _ => false
  end.

(** ** Variant flags
    [chk_types]    : Go type assertions [x.(string)], [x.(bool)], [x.(float64)],
                     [x.(map[string]interface{})] are checked (error) instead of panicking   (F15a)
    [skip_unknown] : the value of an unknown key is skipped as a whole JSON value; the
                     pinned tree reads exactly one token                                     (F15b)
    [strict]       : structure is checked: "props"/"refs" must open with an object, stray
                     delimiters are errors, nothing but objects inside the entity array,
                     nothing after the closing bracket, a transaction's dataset value must
                     be an array, a continuation token is a scalar                           (F15c) *)
Record variant := { chk_types : bool; skip_unknown : bool; strict : bool }.
Definition current : variant := {| chk_types := false; skip_unknown := false; strict := false |}.
Definition fixed : variant := {| chk_types := true; skip_unknown := true; strict := true |}.

(** ** Outcomes *)
Inductive res (A : Type) := Ok (a : A) | Err | Panic | Fuel.
Arguments Ok {A} a. Arguments Err {A}. Arguments Panic {A}. Arguments Fuel {A}.
Definition assert_fail {A} (v : variant) : res A := if chk_types v then Err else Panic.

(** ** Identifiers
    A namespaced identifier "nsK:local" of the store is modelled by the pair
    (expansion of nsK, local) - the store's prefix table is a bijection (property C13)
    and the driver reports identifiers through it.  [NRaw] is a string that did not go
    through GetNamespacedIdentifier: "" (no id), "@continuation", the key "token". *)
Inductive name := NQ (expansion local : string) | NRaw (s : string).
Definition name_eqb (a b : name) : bool :=
  match a, b with
  | NQ e l, NQ e' l' => String.eqb e e' && String.eqb l l'
  | NRaw s, NRaw s' => String.eqb s s'
  | _, _ => false
  end.

Definition nsmap := list (string * string).
Fixpoint lookup {B} (k : string) (m : list (string * B)) : option B :=
  match m with [] => None | (k', x) :: m' => if String.eqb k k' then Some x else lookup k m' end.
(** Go map assignment m[k] = x on an association list without duplicate keys *)
Fixpoint upsert {K B} (eqb : K -> K -> bool) (k : K) (x : B) (m : list (K * B)) : list (K * B) :=
  match m with
  | [] => [(k, x)]
  | (k', y) :: m' => if eqb k k' then (k, x) :: m' else (k', y) :: upsert eqb k x m'
  end.

(** strings.Index(val, ":") split: (before, after) *)
Fixpoint split_colon (s : string) : option (string * string) :=
  match s with
  | EmptyString => None
  | String c s' =>
    if Ascii.eqb c ":" then Some (EmptyString, s')
    else match split_colon s' with Some (a, b) => Some (String c a, b) | None => None end
  end.
(** strings.LastIndex(url, c) split: (up to and including c, after) *)
Fixpoint split_last (c : ascii) (s : string) : option (string * string) :=
  match s with
  | EmptyString => None
  | String a s' =>
    match split_last c s' with
    | Some (x, y) => Some (String a x, y)
    | None => if Ascii.eqb a c then Some (String a EmptyString, s') else None
    end
  end.
(** getURLParts *)
Definition url_parts (u : string) : option (string * string) :=
  match split_last "#" u with Some p => Some p | None => split_last "/" u end.

Definition ns_get (ns : nsmap) (p : string) : option string :=
  match lookup p ns with
  | Some e => if String.eqb e "" then None else Some e   (* localExpansion == "" -> error *)
  | None => None
  end.

(** Store.GetNamespacedIdentifier(val, localNamespaces); [None] = error *)
Definition resolve (ns : nsmap) (val : string) : option name :=
  if String.eqb val "" then None
  else if prefix "http://" val || prefix "https://" val then
    match url_parts val with Some (e, l) => Some (NQ e l) | None => None end
  else match split_colon val with
       | None => match ns_get ns "_" with Some e => Some (NQ e val) | None => None end
       | Some (p, l) => match ns_get ns p with Some e => Some (NQ e l) | None => None end
       end.

(** ** Parsed values (what ends up in Entity.Properties / References) *)
Inductive pval :=
| VStr (s : string) | VNum (n : num) | VBool (b : bool)
| VNull                       (* only as the raw continuation token value *)
| VDelim (d : delim)          (* idem: [e.Properties["token"] = val] stores any token *)
| VArr (l : list pval)
| VEnt (id : name) (recorded : N) (deleted : bool)
       (props : list (name * pval)) (refs : list (name * rval))
with rval := RStr (q : name) | RArr (l : list name).

Record ent := { e_id : name; e_rec : N; e_del : bool;
                e_props : list (name * pval); e_refs : list (name * rval) }.
Definition ent0 : ent := {| e_id := NRaw ""; e_rec := 0; e_del := false; e_props := []; e_refs := [] |}.
Definition val_of_ent (e : ent) : pval := VEnt (e_id e) (e_rec e) (e_del e) (e_props e) (e_refs e).
Definition set_id (e : ent) (q : name) := {| e_id := q; e_rec := e_rec e; e_del := e_del e; e_props := e_props e; e_refs := e_refs e |}.
Definition set_rec (e : ent) (r : N) := {| e_id := e_id e; e_rec := r; e_del := e_del e; e_props := e_props e; e_refs := e_refs e |}.
Definition set_del (e : ent) (d : bool) := {| e_id := e_id e; e_rec := e_rec e; e_del := d; e_props := e_props e; e_refs := e_refs e |}.
Definition set_props (e : ent) (p : list (name * pval)) := {| e_id := e_id e; e_rec := e_rec e; e_del := e_del e; e_props := p; e_refs := e_refs e |}.
Definition set_refs (e : ent) (r : list (name * rval)) := {| e_id := e_id e; e_rec := e_rec e; e_del := e_del e; e_props := e_props e; e_refs := r |}.

Definition val_of_token (t : token) : pval :=
  match t with TStr s => VStr s | TNum n => VNum n | TBool b => VBool b | TNull => VNull | TDelim d => VDelim d end.

(** ** Skipping one whole JSON value (repaired handling of unknown keys) *)
Fixpoint skip_n (depth : nat) (ts : list token) : option (list token) :=
  match ts with
  | [] => None
  | t :: ts' =>
    match t with
    | TDelim DArrO | TDelim DObjO => skip_n (S depth) ts'
    | TDelim DArrC | TDelim DObjC =>
      match depth with O => None | S O => Some ts' | S d => skip_n d ts' end
    | _ => match depth with O => Some ts' | _ => skip_n depth ts' end
    end
  end.
Definition skip_value := skip_n 0.

Definition is_delim (t : token) : bool := match t with TDelim _ => true | _ => false end.
Definition is_open_obj (t : token) : bool := match t with TDelim DObjO => true | _ => false end.

(** ** The recursive-descent functions; one unit of fuel per call, every call
    consumes at least one token, so [S (length ts)] fuel is enough. *)
Section Parser.
  Variable v : variant.
  Variable ns : nsmap.

  (** parseRefArray (after '[') *)
  Fixpoint parse_ref_array (fuel : nat) (acc : list name) (ts : list token) : res (list name * list token) :=
    match fuel with O => Fuel | S f =>
    match ts with
    | [] => Err
    | TDelim DArrC :: ts1 => Ok (acc, ts1)
    | TDelim _ :: ts1 => if strict v then Err else parse_ref_array f acc ts1
    | TStr s :: ts1 => match resolve ns s with None => Err | Some q => parse_ref_array f (acc ++ [q]) ts1 end
    | _ :: _ => Err
    end end.

  (** parseRefValue *)
  Fixpoint parse_ref_value (fuel : nat) (ts : list token) : res (rval * list token) :=
    match fuel with O => Fuel | S f =>
    match ts with
    | [] => Err
    | TDelim DArrO :: ts1 =>
      match parse_ref_array f [] ts1 with
      | Ok (l, ts2) => Ok (RArr l, ts2) | Err => Err | Panic => Panic | Fuel => Fuel end
    | TDelim _ :: ts1 => if strict v then Err else parse_ref_value f ts1
    | TStr s :: ts1 => match resolve ns s with None => Err | Some q => Ok (RStr q, ts1) end
    | _ :: _ => Err
    end end.

  (** parseReferences, loop after the opening token *)
  Fixpoint parse_refs (fuel : nat) (acc : list (name * rval)) (ts : list token) : res (list (name * rval) * list token) :=
    match fuel with O => Fuel | S f =>
    match ts with
    | [] => Err
    | TDelim DObjC :: ts1 => Ok (acc, ts1)
    | TDelim _ :: ts1 => if strict v then Err else parse_refs f acc ts1
    | TStr k :: ts1 =>
      match parse_ref_value f ts1 with
      | Ok (r, ts2) =>
        match resolve ns k with
        | None => Err
        | Some q => parse_refs f (upsert name_eqb q r acc) ts2
        end
      | Err => Err | Panic => Panic | Fuel => Fuel
      end
    | _ :: _ => Err
    end end.

  (** parseEntity / parseProperties / parseValue / parseArray.
      [parse_value] returns [None] for a JSON null (the caller drops the property).
      The loop bodies are written once, open in the recursive calls ([pe] = parseEntity,
      [pp] = the parseProperties loop, [pv] = parseValue, [pa] = parseArray), and tied
      together by the fuel-indexed mutual fixpoint below. *)
  Section Bodies.
    Variable pe : ent -> bool -> list token -> res (ent * list token).
    Variable pp : list (name * pval) -> list token -> res (list (name * pval) * list token).
    Variable pv : list token -> res (option pval * list token).
    Variable pa : list pval -> list token -> res (list pval * list token).
    Variable pr : list (name * rval) -> list token -> res (list (name * rval) * list token).

    Definition entity_body (e : ent) (isc : bool) (ts : list token) : res (ent * list token) :=
      match ts with
      | [] => Err
      | TDelim DObjC :: ts1 => Ok (e, ts1)
      | TDelim _ :: ts1 => if strict v then Err else pe e isc ts1
      | TStr k :: ts1 =>
        if String.eqb k "id" then
          match ts1 with
          | [] => Err
          | TStr s :: ts2 =>
            if String.eqb s "@continuation" then pe (set_id e (NRaw s)) true ts2
            else match resolve ns s with None => Err | Some q => pe (set_id e q) isc ts2 end
          | _ :: _ => assert_fail v
          end
        else if String.eqb k "recorded" then
          match ts1 with
          | [] => Err
          | TNum n :: ts2 => pe (set_rec e (n_u64 n)) isc ts2
          | _ :: _ => assert_fail v
          end
        else if String.eqb k "deleted" then
          match ts1 with
          | [] => Err
          | TBool b :: ts2 => pe (set_del e b) isc ts2
          | _ :: _ => assert_fail v
          end
        else if String.eqb k "props" then
          match ts1 with
          | [] => Err
          | o :: ts2 =>
            if strict v && negb (is_open_obj o) then Err else
            match pp [] ts2 with
            | Ok (ps, ts3) => pe (set_props e ps) isc ts3
            | Err => Err | Panic => Panic | Fuel => Fuel
            end
          end
        else if String.eqb k "refs" then
          match ts1 with
          | [] => Err
          | o :: ts2 =>
            if strict v && negb (is_open_obj o) then Err else
            match pr [] ts2 with
            | Ok (rs, ts3) => pe (set_refs e rs) isc ts3
            | Err => Err | Panic => Panic | Fuel => Fuel
            end
          end
        else if String.eqb k "token" then
          if negb isc then Err else
          match ts1 with
          | [] => Err
          | t :: ts2 =>
            if strict v && is_delim t then Err
            else pe (set_props e [(NRaw "token", val_of_token t)]) isc ts2
          end
        else
          if skip_unknown v then
            match skip_value ts1 with None => Err | Some ts2 => pe e isc ts2 end
          else
            match ts1 with [] => Err | _ :: ts2 => pe e isc ts2 end
      | _ :: _ => Err
      end.

    Definition props_body (acc : list (name * pval)) (ts : list token) : res (list (name * pval) * list token) :=
      match ts with
      | [] => Err
      | TDelim DObjC :: ts1 => Ok (acc, ts1)
      | TDelim _ :: ts1 => if strict v then Err else pp acc ts1
      | TStr k :: ts1 =>
        match pv ts1 with
        | Ok (None, ts2) => pp acc ts2
        | Ok (Some x, ts2) =>
          match resolve ns k with
          | None => Err
          | Some q => pp (upsert name_eqb q x acc) ts2
          end
        | Err => Err | Panic => Panic | Fuel => Fuel
        end
      | _ :: _ => Err
      end.

    Definition value_body (ts : list token) : res (option pval * list token) :=
      match ts with
      | [] => Err
      | TNull :: ts1 => Ok (None, ts1)
      | TDelim DObjO :: ts1 =>
        match pe ent0 false ts1 with
        | Ok (e, ts2) => Ok (Some (val_of_ent e), ts2)
        | Err => Err | Panic => Panic | Fuel => Fuel
        end
      | TDelim DArrO :: ts1 =>
        match pa [] ts1 with
        | Ok (l, ts2) => Ok (Some (VArr l), ts2)
        | Err => Err | Panic => Panic | Fuel => Fuel
        end
      | TDelim _ :: ts1 => if strict v then Err else pv ts1
      | TStr s :: ts1 => Ok (Some (VStr s), ts1)
      | TNum n :: ts1 => Ok (Some (VNum n), ts1)
      | TBool b :: ts1 => Ok (Some (VBool b), ts1)
      end.

    Definition array_body (acc : list pval) (ts : list token) : res (list pval * list token) :=
      match ts with
      | [] => Err
      | TDelim DObjO :: ts1 =>
        match pe ent0 false ts1 with
        | Ok (e, ts2) => pa (acc ++ [val_of_ent e]) ts2
        | Err => Err | Panic => Panic | Fuel => Fuel
        end
      | TDelim DArrC :: ts1 => Ok (acc, ts1)
      | TDelim DArrO :: ts1 =>
        match pa [] ts1 with
        | Ok (l, ts2) => pa (acc ++ [VArr l]) ts2
        | Err => Err | Panic => Panic | Fuel => Fuel
        end
      | TDelim DObjC :: ts1 => if strict v then Err else pa acc ts1
      | TStr s :: ts1 => pa (acc ++ [VStr s]) ts1
      | TNum n :: ts1 => pa (acc ++ [VNum n]) ts1
      | TBool b :: ts1 => pa (acc ++ [VBool b]) ts1
      | TNull :: _ => Err
      end.
  End Bodies.

  Fixpoint parse_entity (fuel : nat) (e : ent) (isc : bool) (ts : list token) {struct fuel} : res (ent * list token) :=
    match fuel with O => Fuel | S f =>
      entity_body (parse_entity f) (parse_props f) (parse_refs f) e isc ts end
  with parse_props (fuel : nat) (acc : list (name * pval)) (ts : list token) {struct fuel} : res (list (name * pval) * list token) :=
    match fuel with O => Fuel | S f => props_body (parse_props f) (parse_value f) acc ts end
  with parse_value (fuel : nat) (ts : list token) {struct fuel} : res (option pval * list token) :=
    match fuel with O => Fuel | S f => value_body (parse_entity f) (parse_value f) (parse_array f) ts end
  with parse_array (fuel : nat) (acc : list pval) (ts : list token) {struct fuel} : res (list pval * list token) :=
    match fuel with O => Fuel | S f => array_body (parse_entity f) (parse_array f) acc ts end.
End Parser.

(** ** decoder.Decode(&context): one generic JSON value read from the tokens *)
Inductive jv := JNull | JBool (b : bool) | JNum (n : num) | JStr (s : string)
              | JArr (l : list jv) | JObj (l : list (string * jv)).

Fixpoint parse_jv (fuel : nat) (ts : list token) {struct fuel} : option (jv * list token) :=
  match fuel with O => None | S f =>
  match ts with
  | [] => None
  | TNull :: ts1 => Some (JNull, ts1)
  | TBool b :: ts1 => Some (JBool b, ts1)
  | TNum n :: ts1 => Some (JNum n, ts1)
  | TStr s :: ts1 => Some (JStr s, ts1)
  | TDelim DArrO :: ts1 =>
    match parse_jarr f [] ts1 with Some (l, ts2) => Some (JArr l, ts2) | None => None end
  | TDelim DObjO :: ts1 =>
    match parse_jobj f [] ts1 with Some (l, ts2) => Some (JObj l, ts2) | None => None end
  | TDelim _ :: _ => None
  end end
with parse_jarr (fuel : nat) (acc : list jv) (ts : list token) {struct fuel} : option (list jv * list token) :=
  match fuel with O => None | S f =>
  match ts with
  | TDelim DArrC :: ts1 => Some (acc, ts1)
  | _ => match parse_jv f ts with Some (x, ts1) => parse_jarr f (acc ++ [x]) ts1 | None => None end
  end end
with parse_jobj (fuel : nat) (acc : list (string * jv)) (ts : list token) {struct fuel} : option (list (string * jv) * list token) :=
  match fuel with O => None | S f =>
  match ts with
  | TDelim DObjC :: ts1 => Some (acc, ts1)
  | TStr k :: ts1 =>
    (* map assignment: a repeated key overwrites *)
    match parse_jv f ts1 with Some (x, ts2) => parse_jobj f (upsert String.eqb k x acc) ts2 | None => None end
  | _ => None
  end end.

(** parse_jarr hands the same tokens on to parse_jv, so reading a value can spend two units of
    fuel per token *)
Definition jv_fuel (fuel : nat) : nat := fuel + fuel.

Fixpoint all_strings (l : list (string * jv)) : option nsmap :=
  match l with
  | [] => Some []
  | (k, JStr s) :: l' => match all_strings l' with Some m => Some ((k, s) :: m) | None => None end
  | _ :: _ => None
  end.

(** [for k, v := range context["namespaces"].(map[string]interface{}) { ns[k] = v.(string) }] *)
Definition namespaces_of (v : variant) (ctx : list (string * jv)) : res nsmap :=
  match lookup "namespaces" ctx with
  | Some (JObj l) => match all_strings l with Some m => Ok m | None => assert_fail v end
  | _ => assert_fail v
  end.

Definition is_context_id (ctx : list (string * jv)) : bool :=
  match lookup "id" ctx with Some (JStr s) => String.eqb s "@context" | _ => false end.

(** ** ParseStream.  Result: (entities handed to emitEntity, outcome, namespaces) *)
Inductive outcome := OOk | OErr | OPanic | OFuel.
Definition outcome_of {A} (r : res A) : outcome :=
  match r with Ok _ => OOk | Err => OErr | Panic => OPanic | Fuel => OFuel end.

Section Stream.
  Variable v : variant.
  Variable ns : nsmap.
  (** the [for] loop; [done] is the flag of the same name; note that the Go
      [break] under [case ']'] only leaves the [switch], so the loop goes on *)
  Fixpoint stream_loop (fuel : nat) (eof : bool) (done : bool) (ts : list token) : list ent * outcome :=
    match fuel with O => ([], OFuel) | S f =>
    match ts with
    | [] => if eof then ([], if done then OOk else OErr) else ([], OErr)
    | TDelim DObjO :: ts1 =>
      if strict v && done then ([], OErr) else
      match parse_entity v ns f ent0 false ts1 with
      | Ok (e, ts2) => let '(es, o) := stream_loop f eof done ts2 in (e :: es, o)
      | Err => ([], OErr) | Panic => ([], OPanic) | Fuel => ([], OFuel)
      end
    | TDelim DArrC :: ts1 =>
      if strict v && done then ([], OErr) else stream_loop f eof true ts1
    | TDelim _ :: ts1 => if strict v then ([], OErr) else stream_loop f eof done ts1
    | _ :: _ => ([], OErr)
    end end.
End Stream.

Definition parse_stream (v : variant) (fuel : nat) (eof : bool) (ts : list token) : list ent * outcome * nsmap :=
  match ts with
  | TDelim DArrO :: ts1 =>
    match parse_jv (jv_fuel fuel) ts1 with
    | None => ([], OErr, [])
    | Some (JObj ctx, ts2) =>
      if is_context_id ctx then
        match namespaces_of v ctx with
        | Ok ns => let '(es, o) := stream_loop v ns fuel eof false ts2 in (es, o, ns)
        | Err => ([], OErr, []) | Panic => ([], OPanic, []) | Fuel => ([], OFuel, [])
        end
      else ([], OErr, [])
    | Some (_, _) => ([], OErr, [])   (* null: empty map, no id; anything else: decode error *)
    end
  | _ => ([], OErr, [])
  end.

(** ** ParseTransaction.  Result: dataset name -> entities (Go map), outcome *)
Section Txn.
  Variable v : variant.
  Variable ns : nsmap.
  (** inner loop over one dataset's array *)
  Fixpoint txn_array (fuel : nat) (acc : list ent) (ts : list token) : res (list ent * list token) :=
    match fuel with O => Fuel | S f =>
    match ts with
    | [] => Err
    | TDelim DObjO :: ts1 =>
      match parse_entity v ns f ent0 false ts1 with
      | Ok (e, ts2) => txn_array f (acc ++ [e]) ts2
      | Err => Err | Panic => Panic | Fuel => Fuel
      end
    | TDelim DArrC :: ts1 => Ok (acc, ts1)
    | _ :: ts1 => if strict v then Err else txn_array f acc ts1
    end end.

  Fixpoint txn_loop (fuel : nat) (acc : list (string * list ent)) (ts : list token) : res (list (string * list ent)) :=
    match fuel with O => Fuel | S f =>
    match ts with
    | [] => assert_fail v                       (* [t, _ = decoder.Token()]: nil.(string) *)
    | TDelim DObjC :: _ => Ok acc
    | TDelim _ :: _ => Err
    | TStr name :: ts1 =>
      match ts1 with
      | [] => Err
      | TDelim d :: ts2 =>
        if strict v && negb (delim_eqb d DArrO) then Err else
        match txn_array f [] ts2 with
        | Ok (es, ts3) => txn_loop f (upsert String.eqb name es acc) ts3
        | Err => Err | Panic => Panic | Fuel => Fuel
        end
      | _ :: _ => Err
      end
    | _ :: _ => assert_fail v                   (* t.(string) on a number / bool / null *)
    end end.
End Txn.

Definition parse_txn (v : variant) (fuel : nat) (ts : list token) : res (list (string * list ent)) :=
  match ts with
  | TDelim DObjO :: _ :: ts1 =>          (* '{' and the (unchecked) "@context" key token *)
    match parse_jv (jv_fuel fuel) ts1 with
    | None => Err
    | Some (JObj ctx, ts2) =>
      match namespaces_of v ctx with
      | Ok ns => txn_loop v ns fuel [] ts2
      | Err => Err | Panic => Panic | Fuel => Fuel
      end
    | Some (JNull, _) => assert_fail v   (* nil map: context["namespaces"] is nil *)
    | Some (_, _) => Err
    end
  | _ => Err
  end.

(** ** What the hub serialises (token view of the bytes the handlers stream) *)
Definition sctx := list (string * string).   (* prefix -> expansion, as in the "namespaces" object *)
Fixpoint prefix_of (ctx : sctx) (e : string) : option string :=
  match ctx with [] => None | (p, e') :: c => if String.eqb e e' then Some p else prefix_of c e end.
(** the CURIE the store holds for a name; names outside the context render as "" (excluded by [wf]) *)
Definition curie (ctx : sctx) (q : name) : string :=
  match q with
  | NQ e l => match prefix_of ctx e with Some p => p ++ ":" ++ l | None => "" end
  | NRaw s => s
  end.

Definition ser_rval (ctx : sctx) (r : rval) : list token :=
  match r with
  | RStr q => [TStr (curie ctx q)]
  | RArr l => TDelim DArrO :: map (fun q => TStr (curie ctx q)) l ++ [TDelim DArrC]
  end.
Definition ser_refs (ctx : sctx) (rs : list (name * rval)) : list token :=
  TDelim DObjO :: flat_map (fun kr => TStr (curie ctx (fst kr)) :: ser_rval ctx (snd kr)) rs ++ [TDelim DObjC].

Definition num_of_N (n : N) : num := {| n_repr := ""; n_u64 := n |}.
Definition is_noid (q : name) : bool := match q with NRaw s => String.eqb s "" | _ => false end.

(** json.Marshal(Entity): refs, props, id (omitempty), internalId (omitempty),
    recorded (omitempty), deleted (omitempty).  [iid] is the internal id. *)
Fixpoint ser_val (ctx : sctx) (x : pval) : list token :=
  match x with
  | VStr s => [TStr s]
  | VNum n => [TNum n]
  | VBool b => [TBool b]
  | VNull => [TNull]
  | VDelim d => [TDelim d]
  | VArr l => TDelim DArrO :: flat_map (ser_val ctx) l ++ [TDelim DArrC]
  | VEnt id r d ps rs =>
    TDelim DObjO :: TStr "refs" :: ser_refs ctx rs
    ++ TStr "props" :: TDelim DObjO
       :: flat_map (fun kx => match kx with (k, y) => TStr (curie ctx k) :: ser_val ctx y end) ps
    ++ TDelim DObjC
    :: (if is_noid id then [] else [TStr "id"; TStr (curie ctx id)])
    ++ (if N.eqb r 0 then [] else [TStr "recorded"; TNum (num_of_N r)])
    ++ (if d then [TStr "deleted"; TBool true] else [])
    ++ [TDelim DObjC]
  end.

(** a stored top-level entity additionally carries "internalId" *)
Definition ser_top (ctx : sctx) (e : ent) (iid : N) : list token :=
  TDelim DObjO :: TStr "refs" :: ser_refs ctx (e_refs e)
  ++ TStr "props" :: TDelim DObjO
     :: flat_map (fun kx => match kx with (k, y) => TStr (curie ctx k) :: ser_val ctx y end) (e_props e)
  ++ TDelim DObjC
  :: (if is_noid (e_id e) then [] else [TStr "id"; TStr (curie ctx (e_id e))])
  ++ (if N.eqb iid 0 then [] else [TStr "internalId"; TNum (num_of_N iid)])
  ++ (if N.eqb (e_rec e) 0 then [] else [TStr "recorded"; TNum (num_of_N (e_rec e))])
  ++ (if e_del e then [TStr "deleted"; TBool true] else [])
  ++ [TDelim DObjC].

(** json.Marshal(Context{ID:"@context", Namespaces}) *)
Definition ser_context (ctx : sctx) : list token :=
  [TDelim DObjO; TStr "id"; TStr "@context"; TStr "namespaces"; TDelim DObjO]
  ++ flat_map (fun pe => [TStr (fst pe); TStr (snd pe)]) ctx
  ++ [TDelim DObjC; TDelim DObjC].

Definition cont_ent (tok : string) : ent :=
  {| e_id := NRaw "@continuation"; e_rec := 0; e_del := false;
     e_props := [(NRaw "token", VStr tok)]; e_refs := [] |}.

(** "[" context ("," entity)* ", {"id":"@continuation","token":tok}]" *)
Definition ser_stream (ctx : sctx) (es : list (ent * N)) (tok : string) : list token :=
  TDelim DArrO :: ser_context ctx
  ++ flat_map (fun ei => ser_top ctx (fst ei) (snd ei)) es
  ++ [TDelim DObjO; TStr "id"; TStr "@continuation"; TStr "token"; TStr tok; TDelim DObjC; TDelim DArrC].

(** ** The element-wise specification S of ParseStream
    The array is cut into elements by bracket matching alone ([skip_value]); an
    element denotes an entity when it is an object, the strict reading of its keys
    succeeds and ends exactly where the bracket-matched element ends.  Entities
    are emitted for the complete, well-formed elements that precede the first bad
    position, and the outcome is an error unless everything up to the closing
    bracket and the end of input is well formed.  Never a panic. *)
Definition denote_element (ns : nsmap) (f : nat) (ts : list token) : res (ent * list token) :=
  match ts with
  | TDelim DObjO :: body =>
    match parse_entity fixed ns f ent0 false body with
    | Ok (e, rest') =>
      match skip_value ts with
      | Some rest => if Nat.eqb (List.length rest) (List.length rest') then Ok (e, rest) else Err
      | None => Err
      end
    | Fuel => Fuel          (* model artefact, excluded by [fuel_enough] *)
    | _ => Err
    end
  | _ => Err
  end.

Fixpoint spec_elements (ns : nsmap) (fuel : nat) (eof : bool) (ts : list token) : list ent * outcome :=
  match fuel with O => ([], OFuel) | S f =>
  match ts with
  | [TDelim DArrC] => ([], if eof then OOk else OErr)
  | _ =>
    match denote_element ns f ts with
    | Ok (e, rest) => let '(es, o) := spec_elements ns f eof rest in (e :: es, o)
    | Fuel => ([], OFuel)
    | _ => ([], OErr)
    end
  end end.

Definition spec_stream (fuel : nat) (eof : bool) (ts : list token) : list ent * outcome * nsmap :=
  match ts with
  | TDelim DArrO :: ts1 =>
    match parse_jv (jv_fuel fuel) ts1 with
    | Some (JObj ctx, ts2) =>
      if is_context_id ctx then
        match namespaces_of fixed ctx with
        | Ok ns => let '(es, o) := spec_elements ns fuel eof ts2 in (es, o, ns)
        | _ => ([], OErr, [])
        end
      else ([], OErr, [])
    | _ => ([], OErr, [])
    end
  | _ => ([], OErr, [])
  end.

(** ** Vocabulary of the round-trip theorem *)
(** the documented nil-dropping: a property whose value is JSON null is not stored *)
Definition drop_nulls (f : pval -> pval) : list (name * pval) -> list (name * pval) :=
  fix cp (m : list (name * pval)) : list (name * pval) :=
    match m with
    | [] => []
    | (k, VNull) :: m' => cp m'
    | (k, y) :: m' => (k, f y) :: cp m'
    end.
Fixpoint clean (x : pval) : pval :=
  match x with
  | VArr l => VArr (map clean l)
  | VEnt id r d ps rs => VEnt id r d (drop_nulls clean ps) rs
  | _ => x
  end.
Definition clean_ent (e : ent) : ent :=
  {| e_id := e_id e; e_rec := e_rec e; e_del := e_del e; e_props := drop_nulls clean (e_props e); e_refs := e_refs e |}.

Definition is_url (s : string) : bool := prefix "http://" s || prefix "https://" s.
(** a serialised context: distinct prefixes without ':', non-empty expansions, and no CURIE
    "p:local" reads as an absolute URL (the store's prefixes are "ns<N>") *)
Definition wf_ctx (ctx : sctx) : Prop :=
  NoDup (map fst ctx) /\
  forall p e, In (p, e) ctx -> split_colon p = None /\ e <> "" /\ forall l, is_url (p ++ ":" ++ l) = false.
Definition wf_name (ctx : sctx) (q : name) : Prop :=
  match q with NQ e l => prefix_of ctx e <> None | NRaw _ => False end.
Definition wf_id (ctx : sctx) (q : name) : Prop := q = NRaw "" \/ wf_name ctx q.
Definition wf_rval (ctx : sctx) (r : rval) : Prop :=
  match r with RStr q => wf_name ctx q | RArr l => Forall (wf_name ctx) l end.
Definition wf_refs (ctx : sctx) (rs : list (name * rval)) : Prop :=
  NoDup (map fst rs) /\ Forall (fun kr => wf_name ctx (fst kr) /\ wf_rval ctx (snd kr)) rs.
(** the value grammar: strings, numbers, booleans, arrays without null elements, nested
    entities; null only directly as a property value *)
Inductive wf_val (ctx : sctx) : pval -> Prop :=
| wf_str s : wf_val ctx (VStr s)
| wf_num n : wf_val ctx (VNum n)
| wf_bool b : wf_val ctx (VBool b)
| wf_null : wf_val ctx VNull
| wf_arr l : Forall (fun y => wf_val ctx y /\ y <> VNull) l -> wf_val ctx (VArr l)
| wf_vent id r d ps rs :
    wf_id ctx id -> NoDup (map fst ps) ->
    Forall (fun kx => wf_name ctx (fst kx) /\ wf_val ctx (snd kx)) ps ->
    wf_refs ctx rs -> wf_val ctx (VEnt id r d ps rs).
Definition wf_ent (ctx : sctx) (e : ent) : Prop := wf_val ctx (val_of_ent e).

(** ** The parser's key cache (EntityStreamParser.localPropertyMappings), variant-free.
    parseProperties / parseReferences look a key up in the cache before resolving it against the
    payload's context, and store [cache[key] = resolved name] on a miss.  The functions above
    call [resolve] directly: the cache is transparent as long as every entry is keyed by the
    PAYLOAD key it was resolved from ([cache_ok], proved preserved in Proofs/ParserProofs.v);
    the correspondence run exercises it with payloads whose keys are textually equal to the
    receiving hub's own global names. *)
Definition kcache := list (string * name).
Definition cache_ok (ns : nsmap) (c : kcache) : Prop :=
  forall k q, lookup k c = Some q -> resolve ns k = Some q.
Definition resolve_cached (ns : nsmap) (c : kcache) (k : string) : option name * kcache :=
  match lookup k c with
  | Some q => (Some q, c)
  | None => match resolve ns k with Some q => (Some q, (k, q) :: c) | None => (None, c) end
  end.

(** ** Proxy datasets (internal/server/proxydataset.go): StreamChangesRaw / StreamChanges /
    StreamEntitiesRaw / StreamEntities fetch a page from the remote hub and run ParseStream over
    it; every entity that is not the continuation element goes to the callback as it comes, the
    last continuation element is kept, the parse error - wherever it occurs, before or after the
    continuation element - is the result, and only after a successful parse the token is read:
    [cont.Properties["token"].(string)], an unchecked assertion in the pinned tree
    ([tok_checked] = false: panic when the token is missing or not a string). *)
Definition is_cont_ent (e : ent) : bool := name_eqb (e_id e) (NRaw "@continuation").
Fixpoint find_prop (k : name) (ps : list (name * pval)) : option pval :=
  match ps with [] => None | (k', x) :: ps' => if name_eqb k k' then Some x else find_prop k ps' end.
Definition last_cont (es : list ent) : option ent := last (map Some (filter is_cont_ent es)) None.

Definition proxy_page (v : variant) (tok_checked : bool) (fuel : nat) (eof : bool) (ts : list token)
  : res string * list ent :=
  let '(es, o, _) := parse_stream v fuel eof ts in
  (match o with
   | OOk =>
     match last_cont es with
     | None => Ok ""
     | Some c =>
       match find_prop (NRaw "token") (e_props c) with
       | Some (VStr s) => Ok s
       | _ => if tok_checked then Err else Panic
       end
     end
   | OErr => Err | OPanic => Panic | OFuel => Fuel
   end, filter (fun e => negb (is_cont_ent e)) es).

(** ** The namespace table (NamespaceManager.AssertPrefixMappingForExpansion + restart).
    [nt_mem] = the in-memory table (prefix "ns<i>" = position i), [nt_disk] = what StoreObject
    persisted.  The pinned tree inserts, then persists ([persist_first] = false); persisting
    before inserting writes the table WITHOUT the new prefix. *)
Record nstab := { nt_mem : list string; nt_disk : list string }.
Inductive nsop := NsAssert (e : string) | NsRestart.
Fixpoint index_of (e : string) (l : list string) : option nat :=
  match l with
  | [] => None
  | x :: l' => if String.eqb e x then Some O else match index_of e l' with Some i => Some (S i) | None => None end
  end.
Definition ns_step (persist_first : bool) (t : nstab) (op : nsop) : nstab :=
  match op with
  | NsAssert e =>
    match index_of e (nt_mem t) with
    | Some _ => t
    | None => {| nt_mem := nt_mem t ++ [e]; nt_disk := if persist_first then nt_mem t else nt_mem t ++ [e] |}
    end
  | NsRestart => {| nt_mem := nt_disk t; nt_disk := nt_disk t |}
  end.
Definition ns_run (persist_first : bool) (t : nstab) (ops : list nsop) : nstab :=
  fold_left (ns_step persist_first) ops t.

(** ** A parser OBJECT reading several documents (jobs/source/http_dataset_source.go reads one page
    per ReadEntities call; proxy datasets one page per request).  The object's state is the
    namespace map: reading a context only ADDS / overwrites bindings ([ns_merge]), nothing clears
    it.  The pinned tree makes a fresh object per document ([reuse] = false), so every document is
    parsed against its own context only. *)
Definition ns_merge (old doc : nsmap) : nsmap :=
  (doc ++ filter (fun ke => match lookup (fst ke) doc with Some _ => false | None => true end) old)%list.

(** ParseStream on an object whose namespace map already holds [ns0]; returns the object's map *)
Definition parse_stream_in (v : variant) (ns0 : nsmap) (fuel : nat) (eof : bool) (ts : list token)
  : list ent * outcome * nsmap :=
  match ts with
  | TDelim DArrO :: ts1 =>
    match parse_jv (jv_fuel fuel) ts1 with
    | None => ([], OErr, ns0)
    | Some (JObj ctx, ts2) =>
      if is_context_id ctx then
        match namespaces_of v ctx with
        | Ok ns => let ns' := ns_merge ns0 ns in
                   let '(es, o) := stream_loop v ns' fuel eof false ts2 in (es, o, ns')
        | Err => ([], OErr, ns0) | Panic => ([], OPanic, ns0) | Fuel => ([], OFuel, ns0)
        end
      else ([], OErr, ns0)
    | Some (_, _) => ([], OErr, ns0)
    end
  | _ => ([], OErr, ns0)
  end.

Fixpoint read_pages (reuse : bool) (v : variant) (ns0 : nsmap) (pages : list (list token * bool))
  : list (list ent * outcome) :=
  match pages with
  | [] => []
  | (ts, eof) :: ps =>
    let '(es, o, ns') := parse_stream_in v ns0 (S (List.length ts)) eof ts in
    (es, o) :: read_pages reuse v (if reuse then ns' else []) ps
  end.
