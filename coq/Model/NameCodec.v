(** * The dataset name carried by the path segment of /datasets/:dataset
    (internal/web/datasethandler.go datasetCreate / datasetUpdate / deleteDatasetHandler read [c.Param("dataset")];
    net/http has percent-decoded the path once; for a segment in canonical escaped form echo hands that decoded
    value to the handler).  Definitions only.  Strings are lists of byte codes. *)
From Coq Require Import List ZArith Bool.
Import ListNotations.
Open Scope Z_scope.

Definition hexval (c : Z) : option Z :=
  if (48 <=? c) && (c <=? 57) then Some (c - 48)
  else if (65 <=? c) && (c <=? 70) then Some (c - 55)
  else if (97 <=? c) && (c <=? 102) then Some (c - 87)
  else None.

(** one percent-decoding step of a path segment: %XX -> byte; every other character, '+' included, stays *)
Fixpoint pct_decode (s : list Z) : option (list Z) :=
  match s with
  | [] => Some []
  | 37 :: a :: b :: s' =>
    match hexval a, hexval b, pct_decode s' with
    | Some x, Some y, Some r => Some (16 * x + y :: r)
    | _, _, _ => None
    end
  | 37 :: _ => None
  | c :: s' => option_map (cons c) (pct_decode s')
  end.

(** url.QueryUnescape: percent-decoding AND '+' -> space (what a handler must NOT apply to the already decoded name) *)
Definition query_unescape (s : list Z) : option (list Z) :=
  pct_decode (map (fun c => if Z.eqb c 43 then 32 else c) s).
(** the deviation the check must see: a second decoding *)
Definition decode_twice (s : list Z) : option (list Z) :=
  match pct_decode s with Some r => query_unescape r | None => None end.

Definition hexdigit (v : Z) : Z := if v <? 10 then 48 + v else 55 + v.
(** unreserved characters and '+' are written as they are, everything else as %XX (upper case) *)
Definition plain_char (c : Z) : bool :=
  ((48 <=? c) && (c <=? 57)) || ((65 <=? c) && (c <=? 90)) || ((97 <=? c) && (c <=? 122))
  || Z.eqb c 45 || Z.eqb c 46 || Z.eqb c 95 || Z.eqb c 126 || Z.eqb c 43.
Definition escape (s : list Z) : list Z :=
  flat_map (fun c => if plain_char c then [c] else [37; hexdigit (c / 16); hexdigit (c mod 16)]) s.

Fixpoint bytes_eqb (a b : list Z) : bool :=
  match a, b with
  | [], [] => true
  | x :: a', y :: b' => Z.eqb x y && bytes_eqb a' b'
  | _, _ => false
  end.
Fixpoint lookup_name (tbl : list (list Z * Z)) (s : list Z) (dflt : Z) : Z :=
  match tbl with
  | [] => dflt
  | (k, v) :: tbl' => if bytes_eqb k s then v else lookup_name tbl' s dflt
  end.
