(** * Model of the dataset manager on top of the store model
    (internal/server/dsmanager.go CreateDataset / UpdateDataset (= rename) / DeleteDataset,
    internal/server/store.go Open / loadDatasets, DatasetsToInternalIDs and the
    deleted-dataset / scope filter of GetEntityAtPointInTimeWithInternalID and GetRelatedAtTime,
    internal/server/garbagecollector.go Cleandeleted at the level of whole datasets;
    the key / byte level of the collector is in Model/Gc.v).
    Definitions only.

    A hub = the data keys (Model/Store.v [store], datasets indexed by their internal
    dataset id) + the state of the dataset entities in core.Dataset + the dataset registry,
    once as the process holds it in memory and once as it is persisted; a restart reloads
    the persisted copy.  Manager operations are sequences of durable steps; the hook points
    create.afterNextId|afterRecord|afterMeta, rename.afterMove|afterOldMeta|afterNewMeta,
    delete.afterRecord|afterDeletedSet|afterMeta of /repo sit after step 1|2|3. *)
From Coq Require Import List ZArith Bool.
From DH Require Import Model.Store.
Import ListNotations.
Open Scope Z_scope.

Definition name := Z.             (* code of a dataset name; 0 = "core.Dataset" *)
Definition core : name := 0.

Definition zmem (x : Z) (l : list Z) : bool := existsb (Z.eqb x) l.

(** ** Registry: Store.datasets (name -> Dataset{InternalID}), Store.deletedDatasets, Store.nextDatasetID;
    persisted as the SysDatasetsID records, StoreMetaIndex "deleteddatasets" and StoreNextDatasetID. *)
Record registry := { r_names : list (name * Z); r_deleted : list Z; r_next : Z }.

Fixpoint rassoc (i : Z) (l : list (name * Z)) : option name :=
  match l with
  | [] => None
  | (n, j) :: l' => if Z.eqb i j then Some n else rassoc i l'
  end.
Definition remove_name (n : name) (l : list (name * Z)) : list (name * Z) :=
  filter (fun p => negb (Z.eqb (fst p) n)) l.
Definition relabel (o n : name) (l : list (name * Z)) : list (name * Z) :=
  map (fun p => if Z.eqb (fst p) o then (n, snd p) else p) l.
Definition has_name {V} (n : name) (l : list (name * V)) : bool :=
  match assoc n l with Some _ => true | None => false end.

Record hub := {
  h_st : store;                  (* version / change-log / latest-pointer keys, by dataset id; created datasets have an entry *)
  h_meta : list (name * bool);   (* core.Dataset: the dataset entity of that name is live (true) / tombstoned (false); absent = never written *)
  h_mem : registry;              (* what the running process holds *)
  h_disk : registry              (* what Open() would load *)
}.

(** ** Variants.  [v_eq]/[v_dup] are the write-path flags of Model/Store.v (C01/C02);
    [v_del_atomic] = false: the pinned tree removes the dataset record and persists the
    deleted set in two separate durable steps (F07a);
    [v_reconcile] = false: the pinned tree never repairs the dataset entities of
    core.Dataset after a crash inside create / rename / delete (F19a). *)
Record variant := { v_eq : eqflags; v_dup : dup_mode; v_del_atomic : bool; v_reconcile : bool }.
Definition mkv (da rc : bool) : variant :=
  {| v_eq := eq_full; v_dup := DupLocalElseStored; v_del_atomic := da; v_reconcile := rc |}.
Definition v_current : variant := mkv false false.
Definition v_fixed : variant := mkv true true.

Definition reg0 : registry := {| r_names := [(core, 1)]; r_deleted := []; r_next := 2 |}.
(** a fresh store after NewStore + NewDsManager (which creates core.Dataset, internal id 1) *)
Definition hub0 : hub :=
  {| h_st := {| s_ds := [(1, dstate0)]; s_clock := 0 |}; h_meta := [(core, true)]; h_mem := reg0; h_disk := reg0 |}.

Definition set_meta (n : name) (b : bool) (m : list (name * bool)) : list (name * bool) :=
  (n, b) :: filter (fun p => negb (Z.eqb (fst p) n)) m.

Definition upd_mem (f : registry -> registry) (h : hub) : hub :=
  {| h_st := h_st h; h_meta := h_meta h; h_mem := f (h_mem h); h_disk := h_disk h |}.
Definition upd_disk (f : registry -> registry) (h : hub) : hub :=
  {| h_st := h_st h; h_meta := h_meta h; h_mem := h_mem h; h_disk := f (h_disk h) |}.
Definition upd_meta (f : list (name * bool) -> list (name * bool)) (h : hub) : hub :=
  {| h_st := h_st h; h_meta := f (h_meta h); h_mem := h_mem h; h_disk := h_disk h |}.
Definition upd_st (f : store -> store) (h : hub) : hub :=
  {| h_st := f (h_st h); h_meta := h_meta h; h_mem := h_mem h; h_disk := h_disk h |}.

Definition r_set_names (f : list (name * Z) -> list (name * Z)) (r : registry) : registry :=
  {| r_names := f (r_names r); r_deleted := r_deleted r; r_next := r_next r |}.
Definition r_add_deleted (i : Z) (r : registry) : registry :=
  {| r_names := r_names r; r_deleted := r_deleted r ++ [i]; r_next := r_next r |}.
Definition r_set_deleted (l : list Z) (r : registry) : registry :=
  {| r_names := r_names r; r_deleted := l; r_next := r_next r |}.
Definition r_set_next (x : Z) (r : registry) : registry :=
  {| r_names := r_names r; r_deleted := r_deleted r; r_next := x |}.

(** ** The durable steps of the three manager operations, in the order of the code *)

(** create 1: nextDatasetID++ in memory, then persisted (StoreNextDatasetID) *)
Definition create1 (h : hub) : hub :=
  let nx := r_next (h_mem h) + 1 in
  upd_disk (r_set_next nx) (upd_mem (r_set_next nx) h).
(** create 2: the dataset record is stored, then registered in the in-memory maps; the new dataset
    has no keys (modelled as an entry with the empty dataset state) *)
Definition create2 (n : name) (i : Z) (h : hub) : hub :=
  upd_st (fun st => {| s_ds := s_ds st ++ [(i, dstate0)]; s_clock := s_clock st |})
         (upd_mem (r_set_names (fun l => l ++ [(n, i)])) (upd_disk (r_set_names (fun l => l ++ [(n, i)])) h)).
(** create 3: the dataset entity is stored in core.Dataset *)
Definition create3 (n : name) (h : hub) : hub := upd_meta (set_meta n true) h.

(** delete 1: removed from the in-memory maps, then the record is deleted
    ([da] = repaired: the deleted set is persisted in the same durable step) *)
Definition delete1 (da : bool) (n : name) (i : Z) (h : hub) : hub :=
  let h1 := upd_disk (r_set_names (remove_name n)) (upd_mem (r_set_names (remove_name n)) h) in
  if da then upd_disk (r_add_deleted i) h1 else h1.
(** delete 2: copy-on-write swap of the in-memory deleted set, then persisted under "deleteddatasets" *)
Definition delete2 (da : bool) (i : Z) (h : hub) : hub :=
  let h1 := upd_mem (r_add_deleted i) h in
  if da then h1 else upd_disk (r_set_deleted (r_deleted (h_mem h1))) h1.
(** delete 3: the dataset entity is tombstoned in core.Dataset *)
Definition delete3 (n : name) (h : hub) : hub := upd_meta (set_meta n false) h.

(** rename 1: moveValue (one transaction), then the in-memory maps *)
Definition rename1 (o n : name) (h : hub) : hub :=
  upd_mem (r_set_names (relabel o n)) (upd_disk (r_set_names (relabel o n)) h).
Definition rename2 (o : name) (h : hub) : hub := upd_meta (set_meta o false) h.
Definition rename3 (n : name) (h : hub) : hub := upd_meta (set_meta n true) h.

Inductive mop := MCreate (n : name) | MDelete (n : name) | MRename (o n : name).
Inductive outcome := OOk | ORefused | OPanic.

(** the steps the operation will perform from state [h], and how the call ends.
    OPanic: GetEntity returns nil for a dataset entity that was never written and the code
    dereferences it (only reachable after a crash inside create / rename). *)
Definition plan (v : variant) (m : mop) (h : hub) : list (hub -> hub) * outcome :=
  let nm := r_names (h_mem h) in
  match m with
  | MCreate n =>
    if has_name n nm then ([], OOk)        (* returns the existing dataset; repairs nothing *)
    else ([create1; create2 n (r_next (h_mem h)); create3 n], OOk)
  | MDelete n =>
    if Z.eqb n core then ([], ORefused)
    else match assoc n nm with
         | None => ([], ORefused)
         | Some i =>
           match assoc n (h_meta h) with
           | None => ([delete1 (v_del_atomic v) n i; delete2 (v_del_atomic v) i], OPanic)
           | Some _ => ([delete1 (v_del_atomic v) n i; delete2 (v_del_atomic v) i; delete3 n], OOk)
           end
         end
  | MRename o n =>
    if Z.eqb o core then ([], ORefused)
    else match assoc o nm with
         | None => ([], ORefused)
         | Some _ =>
           if Z.eqb n o then ([], OOk)
           else if has_name n nm then ([], ORefused)
           else match assoc o (h_meta h) with
                | None => ([rename1 o n], OPanic)
                | Some _ => ([rename1 o n; rename2 o; rename3 n], OOk)
                end
         end
  end.

Definition run_steps (ss : list (hub -> hub)) (h : hub) : hub := fold_left (fun x s => s x) ss h.
Definition run_mop (v : variant) (m : mop) (h : hub) : hub * outcome :=
  let '(ss, oc) := plan v m h in (run_steps ss h, oc).

(** ** Restart: Open() reloads next id, records and deleted set; NewDsManager finds core.Dataset.
    [v_reconcile] (repaired behaviour): the dataset entities are brought in line with the records. *)
Definition reconcile (names : list name) (m : list (name * bool)) : list (name * bool) :=
  map (fun n => (n, true)) names ++
  map (fun p => (fst p, false)) (filter (fun p => negb (zmem (fst p) names)) m).
Definition restart (v : variant) (h : hub) : hub :=
  let h1 := {| h_st := h_st h; h_meta := h_meta h; h_mem := h_disk h; h_disk := h_disk h |} in
  if v_reconcile v then upd_meta (reconcile (map fst (r_names (h_disk h)))) h1 else h1.

(** the process dies at hook point [k] (1..3) of the operation and is restarted; if the
    operation ends before reaching the hook it simply completes (or panics) first *)
Definition crash_mop (v : variant) (m : mop) (k : nat) (h : hub) : hub :=
  restart v (run_steps (firstn k (fst (plan v m h))) h).

(** ** Garbage collection (Cleandeleted) at the level of datasets: every key whose dataset id is in
    the in-memory deleted set is removed; nothing else is touched (not even the deleted set). *)
Definition gc (h : hub) : hub :=
  upd_st (fun st => {| s_ds := filter (fun p => negb (zmem (fst p) (r_deleted (h_mem h)))) (s_ds st);
                       s_clock := s_clock st |}) h.

(** ** Writes go through the dataset found by name in the in-memory registry *)
Definition write (v : variant) (n : name) (ents : list ent) (h : hub) : hub * outcome :=
  match assoc n (r_names (h_mem h)) with
  | None => (h, ORefused)
  | Some i => (upd_st (fun st => apply_wop (v_eq v) (v_dup v) st (WBatch i ents)) h, OOk)
  end.

(** ** Histories *)
Inductive op :=
| OWrite (n : name) (ents : list ent)
| OMop (m : mop)
| OGc
| ORestart
| OCrash (m : mop) (k : nat).

Definition step (v : variant) (h : hub) (o : op) : hub :=
  match o with
  | OWrite n ents => fst (write v n ents h)
  | OMop m => fst (run_mop v m h)
  | OGc => gc h
  | ORestart => restart v h
  | OCrash m k => crash_mop v m k h
  end.
Definition run (v : variant) (ops : list op) (h : hub) : hub := fold_left (step v) ops h.

(** ** Readers.  Cross-dataset readers scan every key and skip those whose dataset id is in the
    deleted set or outside the scope, before looking at anything else
    ([if datasetDeleted || !datasetIncluded { continue }]). *)
Definition h_data (h : hub) : list (Z * dstate) := s_ds (h_st h).
Definition h_del (h : hub) : list Z := r_deleted (h_mem h).
Definition h_names (h : hub) : list (name * Z) := r_names (h_mem h).
Definition h_now (h : hub) : Z := s_clock (h_st h).

(** DatasetsToInternalIDs: unknown names are dropped; an empty result means "no restriction" *)
Definition scope_ids (nm : list (name * Z)) (scope : list name) : list Z :=
  flat_map (fun n => match assoc n nm with Some i => [i] | None => [] end) scope.
Definition pass (dl sc : list Z) (i : Z) : bool := negb (zmem i dl) && in_scope sc i.

Definition collect {K A} (ok : K -> bool) (f : dstate -> list A) (l : list (K * dstate)) : list (K * A) :=
  flat_map (fun p => if ok (fst p) then map (pair (fst p)) (f (snd p)) else []) l.

(** per-dataset contributions *)
Definition f_get (id : uri) (at_ : Z) (d : dstate) : list content :=
  match best_version id at_ (d_entries d) None with Some e => [en_c e] | None => [] end.
Definition out_refs (c : content) : list (Z * Z) :=
  flat_map (fun pr => map (pair (fst pr)) (rv_tgts (snd pr))) (c_refs c).
Definition pred_ok (pred : option Z) (p : Z) : bool :=
  match pred with None => true | Some q => Z.eqb p q end.
(** outgoing: (predicate, target) pairs of the latest version of [start], if it is not deleted *)
Definition f_out (start : uri) (pred : option Z) (d : dstate) : list (Z * Z) :=
  match stored_latest d start with
  | Some c => if c_del c then [] else filter (fun pt => pred_ok pred (fst pt)) (out_refs c)
  | None => []
  end.
(** incoming: (predicate, source) pairs over the latest, not deleted versions that refer to [tgt] *)
Definition f_in (tgt : uri) (pred : option Z) (d : dstate) : list (Z * Z) :=
  flat_map (fun src =>
              match stored_latest d src with
              | Some c => if c_del c then []
                          else map (fun pt => (fst pt, src))
                                   (filter (fun pt => pred_ok pred (fst pt) && Z.eqb (snd pt) tgt) (out_refs c))
              | None => []
              end) (latest_keys d).

(** canonical form of a result set of pairs: sorted, duplicate-free *)
Definition pair_ltb (a b : Z * Z) : bool := (fst a <? fst b) || (Z.eqb (fst a) (fst b) && (snd a <? snd b)).
Definition pair_eqb (a b : Z * Z) : bool := Z.eqb (fst a) (fst b) && Z.eqb (snd a) (snd b).
Fixpoint pinsert (x : Z * Z) (l : list (Z * Z)) : list (Z * Z) :=
  match l with
  | [] => [x]
  | y :: l' => if pair_ltb x y then x :: l else if pair_eqb x y then l else y :: pinsert x l'
  end.
Definition pcanon (l : list (Z * Z)) : list (Z * Z) := fold_right pinsert [] l.
Definition zcanon (l : list Z) : list Z := fold_right insert_sorted [] l.

Inductive gres {N : Type} :=
| GErr                                                      (* "dataset not found": a partial of a dataset that has no record *)
| GOk (parts : list (N * content)) (hasdel : bool).
Arguments gres : clear implicits.

Definition get_raw {K} (ok : K -> bool) (id : uri) (at_ : Z) (l : list (K * dstate)) : gres K :=
  let cs := collect ok (f_get id at_) l in
  GOk (filter (fun p => negb (c_del (snd p))) cs) (existsb (fun p => c_del (snd p)) cs).

Fixpoint name_parts {A} (nm : list (name * Z)) (l : list (Z * A)) : option (list (name * A)) :=
  match l with
  | [] => Some []
  | (i, c) :: l' =>
    match rassoc i nm, name_parts nm l' with
    | Some n, Some r => Some ((n, c) :: r)
    | _, _ => None
    end
  end.

Inductive query :=
| QNames                                                    (* GET /datasets *)
| QMetas                                                    (* live dataset entities of core.Dataset *)
| QChanges (n : name) (since limit : Z) (latest : bool)
| QEntities (n : name) (from : option uri) (count : Z)
| QGet (id : uri) (scope : list name)                       (* partials with dataset names, no merging *)
| QRelated (start : uri) (pred : option Z) (inverse : bool) (scope : list name).

Inductive answer :=
| ANames (l : list name)
| ANoDataset
| AChanges (es : list entry) (next : Z)
| APage (l : list (uri * option content))
| AGet (r : gres name)
| ARel (l : list (Z * Z)).

Definition live_metas (m : list (name * bool)) : list name :=
  zcanon (map fst (filter (fun p => snd p) m)).

Definition obs (h : hub) (q : query) : answer :=
  let nm := h_names h in
  match q with
  | QNames => ANames (zcanon (map fst nm))
  | QMetas => ANames (live_metas (h_meta h))
  | QChanges n since limit latest =>
    match assoc n nm with
    | None => ANoDataset
    | Some i => let '(es, nx) := changes (get_ds (h_st h) i) since limit latest in AChanges es nx
    end
  | QEntities n from count =>
    match assoc n nm with
    | None => ANoDataset
    | Some i => APage (listing_page (get_ds (h_st h) i) from count)
    end
  | QGet id scope =>
    match get_raw (pass (h_del h) (scope_ids nm scope)) id (h_now h) (h_data h) with
    | GErr => AGet GErr
    | GOk parts hd => match name_parts nm parts with
                      | Some ps => AGet (GOk ps hd)
                      | None => AGet GErr
                      end
    end
  | QRelated start pred inverse scope =>
    ARel (pcanon (map snd (collect (pass (h_del h) (scope_ids nm scope))
                                   (if inverse then f_in start pred else f_out start pred) (h_data h))))
  end.

(** the state with every key of the deleted datasets erased and the deleted set forgotten *)
Definition purge (h : hub) : hub :=
  upd_mem (r_set_deleted []) (gc h).

(** ** Spec S: a hub is a list of named datasets (in creation order); deleting drops the dataset,
    renaming relabels it, creating appends an empty one; garbage collection and restart do nothing;
    a crash inside a manager operation leaves either the state before or the state after it.
    No dataset ids, no deleted set, no persisted copy. *)
Record sstate := { ss_ds : list (name * dstate); ss_clock : Z }.
Definition sstate0 : sstate := {| ss_ds := [(core, dstate0)]; ss_clock := 0 |}.
Definition s_has (n : name) (s : sstate) : bool := has_name n (ss_ds s).

Definition s_mop (m : mop) (s : sstate) : sstate :=
  match m with
  | MCreate n => if s_has n s then s else {| ss_ds := ss_ds s ++ [(n, dstate0)]; ss_clock := ss_clock s |}
  | MDelete n => if Z.eqb n core then s
                 else {| ss_ds := filter (fun p => negb (Z.eqb (fst p) n)) (ss_ds s); ss_clock := ss_clock s |}
  | MRename o n =>
    if Z.eqb o core || negb (s_has o s) || Z.eqb n o || s_has n s then s
    else {| ss_ds := map (fun p => if Z.eqb (fst p) o then (n, snd p) else p) (ss_ds s); ss_clock := ss_clock s |}
  end.

Definition s_write (ef : eqflags) (dm : dup_mode) (n : name) (ents : list ent) (s : sstate) : sstate :=
  if s_has n s then
    let t := ss_clock s + 1 in
    {| ss_ds := map (fun p => if Z.eqb (fst p) n then (n, store_batch_ds ef dm t ents (snd p)) else p) (ss_ds s);
       ss_clock := t |}
  else s.

Definition s_scope (s : sstate) (scope : list name) : list name := filter (fun n => s_has n s) scope.

Definition sobs (s : sstate) (q : query) : answer :=
  match q with
  | QNames | QMetas => ANames (zcanon (map fst (ss_ds s)))
  | QChanges n since limit latest =>
    match assoc n (ss_ds s) with
    | None => ANoDataset
    | Some d => let '(es, nx) := changes d since limit latest in AChanges es nx
    end
  | QEntities n from count =>
    match assoc n (ss_ds s) with
    | None => ANoDataset
    | Some d => APage (listing_page d from count)
    end
  | QGet id scope => AGet (get_raw (in_scope (s_scope s scope)) id (ss_clock s) (ss_ds s))
  | QRelated start pred inverse scope =>
    ARel (pcanon (map snd (collect (in_scope (s_scope s scope))
                                   (if inverse then f_in start pred else f_out start pred) (ss_ds s))))
  end.

(** abstraction: the named, not deleted datasets of the hub, in dataset-id order *)
Definition abs_entry (nm : list (name * Z)) (dl : list Z) (p : Z * dstate) : list (name * dstate) :=
  if zmem (fst p) dl then []
  else match rassoc (fst p) nm with Some n => [(n, snd p)] | None => [] end.
Definition abs_of (r : registry) (st : store) : sstate :=
  {| ss_ds := flat_map (abs_entry (r_names r) (r_deleted r)) (s_ds st); ss_clock := s_clock st |}.
Definition habs (h : hub) : sstate := abs_of (h_mem h) (h_st h).
