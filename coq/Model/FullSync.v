(** * Model of the full-sync protocol of a dataset (property C09).

    Mirrors internal/server/dataset.go (StartFullSync, StartFullSyncWithLease,
    RefreshFullSyncLease + its timer goroutine, ReleaseFullSyncLease,
    CompleteFullSync, the fullSyncSeen marking in StoreEntitiesWithTransaction),
    internal/web/datasethandler.go processEntities (order of checks, status
    codes) and internal/jobs/sink.go datasetSink.{startFullSync,
    processEntities,endFullSync}.

    Definitions only.  Two variants: [Current] is the pinned tree, [Fixed] the
    minimal repair (completion by a job checks that the job still owns the
    active sync; a request without sync id does not put a lease on a sync
    started by a job). *)
From Coq Require Import List NArith Bool.
Import ListNotations.
Open Scope N_scope.

Inductive variant := Current | Fixed.

(** ** Dataset contents, at the level the property talks about *)

Record ent := mkEnt { e_id : N; e_c : N; e_del : bool }.

(** latest view: id -> (content code, deleted), in order of first write
    (= internal-id order, the order MapEntities walks) *)
Definition view := list (N * (N * bool)).
Record data := mkData { d_view : view; d_changes : N }.

Fixpoint lookup (v : view) (x : N) : option (N * bool) :=
  match v with
  | [] => None
  | (y, cd) :: r => if N.eqb x y then Some cd else lookup r x
  end.

Fixpoint upsert (v : view) (x : N) (cd : N * bool) : view :=
  match v with
  | [] => [(x, cd)]
  | (y, cd') :: r => if N.eqb x y then (y, cd) :: r else (y, cd') :: upsert r x cd
  end.

Definition cd_eqb (a b : N * bool) : bool := N.eqb (fst a) (fst b) && Bool.eqb (snd a) (snd b).

(** one element of a StoreEntities batch: an unchanged entity is skipped, anything
    else appends a version and a change-log entry *)
Definition store1 (d : data) (e : ent) : data :=
  let cd := (e_c e, e_del e) in
  match lookup (d_view d) (e_id e) with
  | Some old => if cd_eqb old cd then d
                else mkData (upsert (d_view d) (e_id e) cd) (d_changes d + 1)
  | None => mkData (upsert (d_view d) (e_id e) cd) (d_changes d + 1)
  end.
Definition store_data (ents : list ent) (d : data) : data := fold_left store1 ents d.

Definition mem (x : N) (l : list N) : bool := existsb (N.eqb x) l.

(** CompleteFullSync's walk: every live entity whose id is not in [seen] gets a
    deleted version (same content), one change each *)
Definition unseen_live (seen : list N) (p : N * (N * bool)) : bool :=
  negb (snd (snd p)) && negb (mem (fst p) seen).
Definition sweep_view (seen : list N) (v : view) : view :=
  map (fun p => if unseen_live seen p then (fst p, (fst (snd p), true)) else p) v.
Definition sweep_count (seen : list N) (v : view) : N :=
  N.of_nat (length (filter (unseen_live seen) v)).
Definition sweep (seen : list N) (d : data) : data :=
  mkData (sweep_view seen (d_view d)) (d_changes d + sweep_count seen (d_view d)).

(** ** Sync state of the dataset object *)

Inductive owner := OHttp | OJob (n : N).

(** [sid]: fullSyncID, 0 = "".  [lease]: fullSyncLease <> nil.  [timers]: the
    sync ids captured by the lease-timer goroutines that were started and not
    cancelled, oldest first (all leases have the same duration, so they fire in
    this order); when [lease] holds, the lease's own timer is the last one.
    The boolean of a timer is never read by a step: it marks timers that were
    already running at the last "time passes, less than a lease" point of a
    correspondence history ([age]), so that "the timers older than that fire, the
    younger ones do not" can be said as a number of [EExpire] events.
    [own]: who started the active sync - only read by the [Fixed] variant. *)
Record state := mkState {
  dat : data;
  started : bool;
  sid : N;
  lease : bool;
  timers : list (N * bool);
  seen : list N;
  own : option owner
}.

Definition init : state := mkState (mkData [] 0) false 0 false [] [] None.

Definition with_dat (s : state) (d : data) : state :=
  mkState d (started s) (sid s) (lease s) (timers s) (seen s) (own s).

(** ds.fullSyncLease.cancel() when a lease is present: its goroutine ends without effect *)
Definition cancelled_timers (s : state) : list (N * bool) :=
  if lease s then removelast (timers s) else timers s.

(** Dataset.StartFullSync *)
Definition start_full_sync (o : owner) (s : state) : state :=
  let s1 := if started s
            then mkState (dat s) (started s) 0 false (cancelled_timers s) (seen s) (own s)
            else s in
  mkState (dat s1) true (sid s1) (lease s1) (timers s1) [] (Some o).

Definition is_job (o : option owner) : bool :=
  match o with Some (OJob _) => true | _ => false end.

(** Dataset.RefreshFullSyncLease; None = error *)
Definition refresh (v : variant) (id : N) (s : state) : option state :=
  if started s then
    if N.eqb id (sid s) then
      match v, is_job (own s) with
      | Fixed, true => Some s
      | _, _ => Some (mkState (dat s) (started s) (sid s) true (cancelled_timers s ++ [(sid s, false)]) (seen s) (own s))
      end
    else None
  else if N.eqb id 0 then Some s else None.

(** Dataset.StartFullSyncWithLease *)
Definition start_with_lease (v : variant) (id : N) (s : state) : option state :=
  let s1 := start_full_sync OHttp s in
  refresh v id (mkState (dat s1) (started s1) id (lease s1) (timers s1) (seen s1) (own s1)).

(** Dataset.StoreEntities: every id of the batch is marked seen while a sync is started *)
Definition store (ents : list ent) (s : state) : state :=
  mkState (store_data ents (dat s)) (started s) (sid s) (lease s) (timers s)
          (if started s then fold_left (fun sn e => e_id e :: sn) ents (seen s) else seen s) (own s).

(** Dataset.CompleteFullSync (the deferred reset does not cancel anything) *)
Definition complete (s : state) : state :=
  mkState (sweep (seen s) (dat s)) false 0 false (timers s) [] None.

(** ReleaseFullSyncLease succeeded: the lease's timer is cancelled *)
Definition release (s : state) : state :=
  mkState (dat s) (started s) (sid s) (lease s) (cancelled_timers s) (seen s) (own s).

Inductive resp := ROk | RConflict | RGone | RJobErr | RNone | RFail (* 500 *).

Inductive event :=
| EHttp (start : bool) (id : N) (end_ : bool) (ents : list ent)  (* POST /datasets/d/entities *)
| EJobStart (n : N)                                               (* datasetSink.startFullSync of job run n *)
| EJobBatch (n : N) (ents : list ent)                             (* datasetSink.processEntities *)
| EJobEnd (n : N)                                                 (* datasetSink.endFullSync *)
| ETxn (ents : list ent)                                          (* Store.ExecuteTransaction (POST /transactions) on this dataset *)
| EExpire.                                                        (* the oldest outstanding lease timer fires *)

(** datasetHandler.processEntities *)
Definition http (v : variant) (start : bool) (id : N) (end_ : bool) (ents : list ent) (s : state)
  : resp * state :=
  let r1 := if start then start_with_lease v id s
            else if started s then refresh v id s
            else Some s in
  match r1 with
  | None => (RConflict, s)
  | Some s1 =>
      let s2 := store ents s1 in
      if end_ then
        if lease s2 then (ROk, complete (release s2)) else (RGone, s2)
      else (ROk, s2)
  end.

Definition owner_eqb (a : option owner) (n : N) : bool :=
  match a with Some (OJob m) => N.eqb m n | _ => false end.

Definition job_end (v : variant) (n : N) (s : state) : resp * state :=
  match v with
  | Current => (ROk, complete s)
  | Fixed => if started s && owner_eqb (own s) n then (ROk, complete s) else (RJobErr, s)
  end.

(** the goroutine of RefreshFullSyncLease after its deadline *)
Definition expire (s : state) : state :=
  match timers s with
  | [] => s
  | (t, _) :: r =>
      if N.eqb t (sid s) then mkState (dat s) false 0 false r [] None
      else mkState (dat s) (started s) (sid s) (lease s) r (seen s) (own s)
  end.

(** time passes, less than a lease: nothing fires, every running timer is now an old one *)
Definition age (s : state) : state :=
  mkState (dat s) (started s) (sid s) (lease s) (map (fun p => (fst p, true)) (timers s)) (seen s) (own s).

Definition step (v : variant) (e : event) (s : state) : resp * state :=
  match e with
  | EHttp start id end_ ents => http v start id end_ ents s
  | EJobStart n => (ROk, start_full_sync (OJob n) s)
  | EJobBatch n ents => (ROk, store ents s)
  | EJobEnd n => job_end v n s
  | ETxn ents => (ROk, store ents s)
  | EExpire => (RNone, expire s)
  end.

Fixpoint run (v : variant) (h : list event) (s : state) : list resp * state :=
  match h with
  | [] => ([], s)
  | e :: h' => let (r, s1) := step v e s in
               let (rs, s2) := run v h' s1 in (r :: rs, s2)
  end.

Definition final (v : variant) (h : list event) : state := snd (run v h init).

(** ** Specification S: what the property text says, as a machine over the same events.

    The only sync state is who holds the active sync and what was written since it
    started.  A sync stops being active when another one starts (superseded), when
    its lease expires (HTTP syncs only), or when its owner ends it (completed). *)

Inductive sowner := GHttp (id : N) | GJob (n : N).

Record spec := mkSpec {
  g_active : option sowner;
  g_written : list ent;      (* writes since the start of the active sync, newest first *)
  g_data : data
}.

Definition sinit : spec := mkSpec None [] (mkData [] 0).

(** does a request carrying sync id [id] belong to the active sync (or is there none)? *)
Definition accepted (a : option sowner) (id : N) : bool :=
  match a with
  | None => true
  | Some (GHttp x) => N.eqb id x
  | Some (GJob _) => N.eqb id 0
  end.

Definition swrite (ents : list ent) (g : spec) : spec :=
  mkSpec (g_active g)
         (match g_active g with Some _ => rev ents ++ g_written g | None => g_written g end)
         (store_data ents (g_data g)).

(** completion: exactly the live entities not written since the start become deleted *)
Definition scomplete (g : spec) : spec :=
  mkSpec None [] (sweep (map e_id (g_written g)) (g_data g)).

Definition is_ghttp (a : option sowner) : bool := match a with Some (GHttp _) => true | _ => false end.
Definition is_gjob (a : option sowner) (n : N) : bool :=
  match a with Some (GJob m) => N.eqb m n | _ => false end.

Definition sstep (e : event) (g : spec) : resp * spec :=
  match e with
  | EHttp start id end_ ents =>
      if negb start && negb (accepted (g_active g) id) then (RConflict, g)   (* foreign id: no effect *)
      else
        let g1 := if start then mkSpec (Some (GHttp id)) [] (g_data g) else g in
        let g2 := swrite ents g1 in
        if end_ then
          if is_ghttp (g_active g2) then (ROk, scomplete g2) else (RGone, g2)
        else (ROk, g2)
  | EJobStart n => (ROk, mkSpec (Some (GJob n)) [] (g_data g))
  | EJobBatch n ents => (ROk, swrite ents g)
  | EJobEnd n => if is_gjob (g_active g) n then (ROk, scomplete g) else (RJobErr, g)
  | ETxn ents => (ROk, swrite ents g)
  | EExpire => (RNone, if is_ghttp (g_active g) then mkSpec None [] (g_data g) else g)
  end.

Fixpoint srun (h : list event) (g : spec) : list resp * spec :=
  match h with
  | [] => ([], g)
  | e :: h' => let (r, g1) := sstep e g in
               let (rs, g2) := srun h' g1 in (r :: rs, g2)
  end.

(** ** The active sync, read off the history alone (no machine): the most recent start,
    provided nothing ended it since. *)

Definition start_of (e : event) : option sowner :=
  match e with
  | EHttp true id _ _ => Some (GHttp id)
  | EJobStart n => Some (GJob n)
  | _ => None
  end.

(** does [e], coming after the start of [o]'s sync, end that sync? *)
Definition ends_sync (o : sowner) (e : event) : bool :=
  match start_of e with
  | Some _ => true                                  (* superseded by any later start *)
  | None =>
      match o, e with
      | GHttp x, EHttp false id true _ => N.eqb id x   (* its own end request *)
      | GHttp _, EExpire => true                       (* lease expiry *)
      | GJob n, EJobEnd m => N.eqb m n                 (* its own end *)
      | _, _ => false
      end
  end.

(** a request that starts and ends in one go is complete at once *)
Definition one_shot (e : event) : bool :=
  match e with EHttp true _ true _ => true | _ => false end.

(** [active_of h]: scan the history, remembering the last start not yet ended *)
Fixpoint active_from (a : option sowner) (h : list event) : option sowner :=
  match h with
  | [] => a
  | e :: h' =>
      let a1 := match start_of e with
                | Some o => if one_shot e then None else Some o
                | None => match a with
                          | Some o => if ends_sync o e then None else a
                          | None => None
                          end
                end in
      active_from a1 h'
  end.
Definition active_of (h : list event) : option sowner := active_from None h.

Definition spec_after (h : list event) : spec := snd (srun h sinit).

(** ** Vocabulary of the theorems *)

Definition ecd (e : ent) : N * bool := (e_c e, e_del e).

(** a newest-first list of writes read as a map id -> last written (content, deleted) *)
Fixpoint wlookup (w : list ent) (y : N) : option (N * bool) :=
  match w with
  | [] => None
  | e :: r => if N.eqb y (e_id e) then Some (ecd e) else wlookup r y
  end.

(** a live entry becomes a deleted version of the same content; anything else stays *)
Definition tomb (o : option (N * bool)) : option (N * bool) :=
  match o with Some (c, false) => Some (c, true) | o => o end.

Definition ents_of (e : event) : list ent :=
  match e with EHttp _ _ _ ents => ents | EJobBatch _ ents => ents | ETxn ents => ents | _ => [] end.

(** is [e] the end request of the sync [a] that is active when it arrives (or a request
    that starts and ends a sync in one go)? *)
Definition completes (a : option sowner) (e : event) : bool :=
  match e with
  | EHttp true _ true _ => true
  | EHttp false id true _ => match a with Some (GHttp x) => N.eqb id x | _ => false end
  | EJobEnd n => is_gjob a n
  | _ => false
  end.

(** what the sync completed by [e] has written since its start, [e]'s own entities included *)
Definition written_by (g : spec) (e : event) : list ent :=
  match e with
  | EHttp true _ _ ents => rev ents
  | EHttp false _ _ ents => rev ents ++ g_written g
  | _ => g_written g
  end.

(** usage envelope of the pinned tree: while a job's sync runs nothing but that job's
    batches and transaction writes reach the dataset (lease timers may fire at any time) *)
Fixpoint job_exclusive (cur : option N) (h : list event) : bool :=
  match h with
  | [] => true
  | e :: h' =>
      match cur, e with
      | None, EJobStart n => job_exclusive (Some n) h'
      | None, EHttp _ _ _ _ => job_exclusive None h'
      | None, EExpire => job_exclusive None h'
      | None, ETxn _ => job_exclusive None h'
      | None, _ => false
      | Some n, EJobBatch m _ => N.eqb m n && job_exclusive cur h'
      | Some n, EJobEnd m => N.eqb m n && job_exclusive None h'
      | Some n, EExpire => job_exclusive cur h'
      | Some n, ETxn _ => job_exclusive cur h'
      | Some _, _ => false
      end
  end.

(** ** The statements of C09 at one point (history [h], next event [e]) of a run of variant [v] *)

(** a completing request succeeds, leaves everything written since the start with the
    written content/flag, turns every other live entity into a deleted version of the same
    content, and the change feed grows by exactly one entry per tombstoned entity *)
Definition exact_at (v : variant) (h : list event) (e : event) : Prop :=
  completes (active_of h) e = true ->
  let s := final v h in
  let s' := snd (step v e s) in
  let W := written_by (spec_after h) e in
  let d1 := store_data (ents_of e) (dat s) in
  fst (step v e s) = ROk
  /\ (forall y cd, wlookup W y = Some cd -> lookup (d_view (dat s')) y = Some cd)
  /\ (forall y, wlookup W y = None -> lookup (d_view (dat s')) y = tomb (lookup (d_view d1) y))
  /\ d_changes (dat s') = d_changes d1 + N.of_nat (length (filter (unseen_live (map e_id W)) (d_view d1)))
  /\ NoDup (map fst (d_view (dat s'))).

(** any other event - in particular the end request of a sync that is not (or no longer)
    the active one - changes the data by its own writes at most *)
Definition harmless_at (v : variant) (h : list event) (e : event) : Prop :=
  completes (active_of h) e = false ->
  let s := final v h in
  let s' := snd (step v e s) in
  dat s' = dat s \/ dat s' = store_data (ents_of e) (dat s).

(** a request (not a start) whose sync id is not the active sync's is answered 409 and
    changes nothing, neither data nor sync state *)
Definition foreign_rejected_at (v : variant) (h : list event) : Prop :=
  forall id end_ ents, accepted (active_of h) id = false ->
  step v (EHttp false id end_ ents) (final v h) = (RConflict, final v h).

(** ** Witness histories of the deviations of the pinned tree *)

Definition E (i c : N) : ent := mkEnt i c false.
Definition plain (ents : list ent) : event := EHttp false 0 false ents.

(** F09a: a request without sync id puts a lease on a job's sync; it expires; the job ends *)
Definition h_F09a : list event :=
  [plain [E 1 1; E 2 1; E 3 1]; EJobStart 1; EJobBatch 1 [E 1 2]; plain [E 4 1]; EExpire;
   EJobBatch 1 [E 2 2]; EJobEnd 1].
(** F09b: an HTTP start supersedes a running job sync; the job's end completes the HTTP sync *)
Definition h_F09b : list event :=
  [plain [E 1 1; E 2 1; E 3 1]; EJobStart 1; EJobBatch 1 [E 1 2]; EHttp true 7 false [E 4 1];
   EJobBatch 1 [E 2 2]; EJobEnd 1; EHttp false 7 false [E 3 5]; EHttp false 7 true []].
(** F09c: an end request without sync id completes a job's sync; the job's own end then
    deletes everything *)
Definition h_F09c : list event :=
  [plain [E 1 1; E 2 1; E 3 1]; EJobStart 1; EJobBatch 1 [E 1 2]; EHttp false 0 true [E 4 1];
   EJobBatch 1 [E 2 2]; EJobEnd 1].
(** F09d: the lease timer left behind by a completed job sync resets the next one *)
Definition h_F09d : list event :=
  [plain [E 1 1; E 2 1; E 3 1]; EJobStart 1; plain [E 1 1]; EJobEnd 1; EJobStart 2;
   EJobBatch 2 [E 1 2]; EExpire; EJobBatch 2 [E 2 2]; EJobEnd 2].
