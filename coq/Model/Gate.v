(** * Model of the request gate of the secured data hub: what happens to a request before a handler runs.
      internal/web/middleware.go   NewMiddleware (skipper), configure (logger, cors, jwt, recover)
      internal/web/web.go          NewWebService, NewStatusHandler  +  the Register*Handler functions (route table)
      internal/web/middlewares     JWTHandler, Authorizer
      echo v4.12 router            static / :param matching as far as the route table needs it
    Definitions only; proofs in Proofs/GateProofs.v. *)
From Coq Require Import List String Ascii Bool Arith.
From DH Require Import Model.Acl Model.Jwt.
Import ListNotations.
Open Scope string_scope.

(** ** Route table *)
Record route := { r_method : string; r_path : string; r_guarded : bool }.   (* guarded = mw.authorizer(...) attached *)

Definition R (m p : string) : route := {| r_method := m; r_path := p; r_guarded := true |}.
Definition Ropen (m p : string) : route := {| r_method := m; r_path := p; r_guarded := false |}.

(** the 50 routes NewWebService registers, sorted by (path, method) *)
Definition routes_current : list route := [
  Ropen "GET" "/";
  R "POST" "/compact";
  R "GET" "/content"; R "POST" "/content";
  R "DELETE" "/content/:contentId"; R "GET" "/content/:contentId"; R "PUT" "/content/:contentId";
  R "DELETE" "/datasets"; R "GET" "/datasets";
  R "DELETE" "/datasets/:dataset"; R "GET" "/datasets/:dataset"; R "PATCH" "/datasets/:dataset"; R "POST" "/datasets/:dataset";
  R "GET" "/datasets/:dataset/changes";
  R "GET" "/datasets/:dataset/entities"; R "POST" "/datasets/:dataset/entities";
  Ropen "GET" "/health";
  R "PUT" "/job/:jobid/kill"; R "PUT" "/job/:jobid/pause"; R "PUT" "/job/:jobid/reset"; R "PUT" "/job/:jobid/resume";
  R "PUT" "/job/:jobid/run"; R "GET" "/job/:jobid/status";
  R "GET" "/jobs"; R "POST" "/jobs";
  R "DELETE" "/jobs/:jobid"; R "GET" "/jobs/:jobid";
  R "GET" "/jobs/_/history"; R "GET" "/jobs/_/schedules"; R "GET" "/jobs/_/status";
  R "GET" "/lineage"; R "GET" "/lineage/:dataset";
  R "GET" "/namespaces";
  R "DELETE" "/provider/login/:providerName"; R "GET" "/provider/login/:providerName"; R "POST" "/provider/login/:providerName";
  R "GET" "/provider/logins"; R "POST" "/provider/logins";
  R "GET" "/query"; R "POST" "/query"; R "GET" "/query/namespace";
  R "GET" "/security/clients"; R "POST" "/security/clients";
  R "DELETE" "/security/clients/:clientid/acl"; R "GET" "/security/clients/:clientid/acl"; R "POST" "/security/clients/:clientid/acl";
  Ropen "POST" "/security/token";
  R "GET" "/statistics"; R "GET" "/statistics/:ds";
  R "POST" "/transactions" ].

(** ** Router *)

(** split "/a/b" into ["a";"b"]; "/" into [""]; [None] when the path does not start with "/" *)
Fixpoint split_acc (cur : string) (s : string) : list string :=
  match s with
  | EmptyString => [cur]
  | String a s' => if Ascii.eqb a "/"%char then cur :: split_acc EmptyString s'
                   else split_acc (cur ++ String a EmptyString) s'
  end.
Definition split_path (p : string) : option (list string) :=
  match p with
  | String a p' => if Ascii.eqb a "/"%char then Some (split_acc EmptyString p') else None
  | EmptyString => None
  end.

Definition is_param (seg : string) : bool :=
  match seg with String a _ => Ascii.eqb a ":"%char | EmptyString => false end.

(** [leaf]: the param is the last piece of its route and no registered route continues below it - echo then
    lets it swallow the whole (non-empty) rest of the path, slashes included.  A param in the middle matches
    any segment, even the empty one; a non-leaf param at the end needs one non-empty segment. *)
Fixpoint match_segs (leaf : bool) (pat segs : list string) : bool :=
  match pat, segs with
  | [], [] => true
  | [p], s :: rest =>
      if is_param p then
        if leaf then match rest with [] => negb (s =? "") | _ => true end
        else match rest with [] => negb (s =? "") | _ => false end
      else match rest with [] => p =? s | _ => false end
  | p :: pat', s :: segs' => (is_param p || (p =? s)) && match_segs leaf pat' segs'
  | _, _ => false
  end.

Definition has_param (pat : list string) : bool := existsb is_param pat.

Fixpoint list_is_prefix (a b : list string) : bool :=
  match a, b with
  | [], _ => true
  | x :: a', y :: b' => (x =? y) && list_is_prefix a' b'
  | _, [] => false
  end.

Definition pat_of (r : route) : list string :=
  match split_path (r_path r) with Some l => l | None => [] end.

(** some registered route (any method) continues below this pattern *)
Definition extended_in (rt : list route) (pat : list string) : bool :=
  existsb (fun r' => (List.length pat <? List.length (pat_of r'))%nat && list_is_prefix pat (pat_of r')) rt.

(** the table with the per-route facts the router needs, computed once *)
Record croute := { cr_route : route; cr_pat : list string; cr_param : bool; cr_leaf : bool }.

Definition compile (rt : list route) : list croute :=
  map (fun r => let pat := pat_of r in
                {| cr_route := r; cr_pat := pat; cr_param := has_param pat;
                   cr_leaf := negb (extended_in rt pat) |}) rt.

Definition routes_compiled : list croute := Eval vm_compute in compile routes_current.

Definition croute_matches (method path : string) (segs : option (list string)) (cr : croute) : bool :=
  if r_method (cr_route cr) =? method then
    if cr_param cr
    then match segs with
         | Some sg => match_segs (cr_leaf cr) (cr_pat cr) sg
         | None => false
         end
    else r_path (cr_route cr) =? path
  else false.

(** static routes win over param routes in echo; the order matters only for the reported pattern *)
Definition find_route (crt : list croute) (method path : string) : option route :=
  let segs := split_path path in
  match find (fun cr => if cr_param cr then false else croute_matches method path segs cr) crt with
  | Some cr => Some (cr_route cr)
  | None => match find (croute_matches method path segs) crt with
            | Some cr => Some (cr_route cr)
            | None => None
            end
  end.

(** ** Middlewares *)

(** NewMiddleware's skipper: no JWT for these prefixes *)
Definition skipper (path : string) : bool :=
  existsb (fun p => is_prefix p path)
          ["/health"; "/mimiro-favicon.png"; "/favicon.ico"; "/api"; "/static"; "/security/token"].

Inductive outcome :=
| Served       (* the route's handler runs *)
| Preflight    (* the CORS middleware answers an OPTIONS request with 204, nothing else runs *)
| Unauth       (* 401 from the JWT middleware *)
| Forbidden    (* 403 from the authorizer *)
| NoRoute      (* 404 / 405 from the router *)
| Crash.       (* authorizer on a skipped path: c.Get("user") is nil, type assertion panics -> 500 *)

Record variant := { v_method : method_map; v_deny : deny_mode; v_claims : claims_mode }.
Definition current : variant := {| v_method := MapPostDelete; v_deny := DenySkip; v_claims := ClaimsOptional |}.
Definition fixed : variant := {| v_method := MapSafeOnly; v_deny := DenyWins; v_claims := ClaimsRequired |}.

(** the world a request meets: configuration, route table, what the jwt library finds in a token string,
    the ACL store (client id -> entries) *)
Record world := {
  w_cfg : jwtcfg;
  w_routes : list croute;
  w_oracle : string -> tokfacts;
  w_acls : string -> option (list ac)
}.

Inductive authn := Skipped | Rejected | Accepted (f : tokfacts).

Definition authenticate (v : variant) (w : world) (auth path : string) : authn :=
  if skipper path then Skipped
  else match extract_token auth with
       | None => Rejected
       | Some t => let f := w_oracle w t in
                   if validate (v_claims v) (w_cfg w) f then Accepted f else Rejected
       end.

(** e.Use(logger); e.Use(cors); e.Use(jwt); e.Use(recover); then the route's own authorizer, then the handler.
    Returns the outcome and the pattern of the selected route ("" if none). *)
Definition decide (v : variant) (w : world) (auth method path : string) : outcome * string :=
  if method =? "OPTIONS" then (Preflight, "")
  else match authenticate v w auth path with
       | Rejected => (Unauth, match find_route (w_routes w) method path with Some r => r_path r | None => "" end)
       | a =>
           match find_route (w_routes w) method path with
           | None => (NoRoute, "")
           | Some r =>
               (if r_guarded r then
                  match a with
                  | Accepted f =>
                      if acl_check (v_method v) (v_deny v) method path (f_roles f) (w_acls w (f_sub f))
                      then Served else Forbidden
                  | _ => Crash
                  end
                else Served, r_path r)
           end
       end.

(** ** Spec *)

(** requests answered without any token: the health probe and the token endpoint *)
Definition open_request (method path : string) : Prop :=
  (method = "GET" /\ path = "/health") \/ (method = "POST" /\ path = "/security/token").

(** answered to every authenticated caller, whatever its ACL: the service-info document at "/" *)
Definition authn_only_request (method path : string) : Prop := method = "GET" /\ path = "/".

Definition table_ok (crt : list croute) : Prop :=
  forall cr, In cr crt -> r_guarded (cr_route cr) = false ->
    cr_param cr = false /\
    (open_request (r_method (cr_route cr)) (r_path (cr_route cr))
     \/ authn_only_request (r_method (cr_route cr)) (r_path (cr_route cr))).

(** C16 for one request: if a handler runs, the request was open, or it carried a token the hub may trust and
    (the route is the service-info document, or the caller is admin, or its ACL grants the path for what the
    method needs) *)
Definition gate_spec (w : world) (auth method path : string) (o : outcome) : Prop :=
  o = Served ->
  open_request method path
  \/ exists t, extract_token auth = Some t /\ token_ok (w_cfg w) (w_oracle w t)
       /\ (authn_only_request method path
           \/ authorized method path (f_roles (w_oracle w t)) (w_acls w (f_sub (w_oracle w t)))).

(** executable versions *)
Definition open_request_b (method path : string) : bool :=
  ((method =? "GET") && (path =? "/health")) || ((method =? "POST") && (path =? "/security/token")).

Definition authn_only_b (method path : string) : bool := (method =? "GET") && (path =? "/").

Definition gate_spec_b (w : world) (auth method path : string) : bool :=
  open_request_b method path
  || match extract_token auth with
     | Some t => let f := w_oracle w t in
                 token_ok_b (w_cfg w) f
                 && (authn_only_b method path || authorized_b method path (f_roles f) (w_acls w (f_sub f)))
     | None => false
     end.

Definition table_ok_b (crt : list croute) : bool :=
  forallb (fun cr => r_guarded (cr_route cr)
                     || (negb (cr_param cr)
                         && (open_request_b (r_method (cr_route cr)) (r_path (cr_route cr))
                             || authn_only_b (r_method (cr_route cr)) (r_path (cr_route cr))))) crt.
