(** * Model of the bearer-token check
      internal/web/middlewares/authentication.go  extractToken, JwtConfig.ValidateToken
    over abstract token facts: RSA signatures, base64 and JSON are not modelled - what the jwt library finds out
    about a token string (who signed it, with which algorithm, which claims it carries, whether its time
    window is open) is an input.  Definitions only; proofs in Proofs/JwtProofs.v. *)
From Coq Require Import List String Ascii Bool Arith.
From DH Require Import Model.Acl.
Import ListNotations.
Open Scope string_scope.

Inductive signer := KNode | KOauth | KOther.      (* whose private key made the signature *)
Inductive kid := KidNone | KidGood | KidBad.      (* "kid" header: absent / names a key of the JWKS / unknown *)

Record tokfacts := {
  f_wellformed : bool;          (* three segments, header and claims decode *)
  f_alg : string;               (* "alg" header *)
  f_signer : signer;
  f_kid : kid;
  f_expired : bool;             (* exp present and in the past *)
  f_notyet : bool;              (* nbf present and in the future *)
  f_aud : list string;          (* [] = claim absent *)
  f_iss : string;               (* "" = claim absent *)
  f_sub : string;
  f_roles : list string
}.

(** JwtConfig after setupJWT *)
Record jwtcfg := {
  cfg_oauth : bool;             (* Wellknown != "" && Issuer != nil && Audience != nil *)
  cfg_aud : list string;        (* append(config.Audience, config.NodeAudience...) *)
  cfg_iss : list string         (* append(config.Issuer, config.NodeIssuer...) *)
}.

(** Variant flag.
    [ClaimsOptional]: the pinned tree - VerifyAudience(aud, false) / VerifyIssuer(iss, false): a token without
                      the claim passes (finding F16d).
    [ClaimsRequired]: repaired - the claim must be present and accepted. *)
Inductive claims_mode := ClaimsOptional | ClaimsRequired.

(** extractToken: [len(auth) > len("Bearer")+1 && auth[:6] == "Bearer"] then [auth[7:]] *)
Fixpoint drop (n : nat) (s : string) : string :=
  match n, s with
  | O, _ => s
  | S n', String _ s' => drop n' s'
  | S _, EmptyString => EmptyString
  end.

Fixpoint take (n : nat) (s : string) : string :=
  match n, s with
  | O, _ => EmptyString
  | S n', String a s' => String a (take n' s')
  | S _, EmptyString => EmptyString
  end.

Definition extract_token (auth : string) : option string :=
  if (7 <? String.length auth)%nat && (take 6 auth =? "Bearer") then Some (drop 7 auth) else None.

(** the signing methods golang-jwt verifies with an *rsa.PublicKey; HS* reject the key type, "none" needs a
    special key, unknown names are a parse error *)
Definition rsa_family (alg : string) : bool :=
  existsb (fun a => a =? alg) ["RS256"; "RS384"; "RS512"; "PS256"; "PS384"; "PS512"].

(** jwt.ParseWithClaims(auth, claims, keyfunc -> key) returns no error *)
Definition parses_with (k : signer) (f : tokfacts) : bool :=
  f_wellformed f && rsa_family (f_alg f)
  && match k, f_signer f with KNode, KNode | KOauth, KOauth | KOther, KOther => true | _, _ => false end
  && negb (f_expired f) && negb (f_notyet f).

(** RegisteredClaims.VerifyAudience(cmp, required) of golang-jwt v4 *)
Definition verify_aud (required : bool) (aud : list string) (cmp : string) : bool :=
  match aud with
  | [] => negb required
  | _ => if String.concat "" aud =? "" then negb required else existsb (fun a => a =? cmp) aud
  end.

(** RegisteredClaims.VerifyIssuer(cmp, required) *)
Definition verify_iss (required : bool) (iss cmp : string) : bool :=
  if iss =? "" then negb required else iss =? cmp.

Definition required_of (cm : claims_mode) : bool :=
  match cm with ClaimsOptional => false | ClaimsRequired => true end.

(** ValidateToken: node key first, then (if configured) the external JWKS looked up by kid; then audience,
    issuer and signing method.  [true] = (token, nil). *)
Definition validate (cm : claims_mode) (cfg : jwtcfg) (f : tokfacts) : bool :=
  let node_ok := parses_with KNode f in
  let oauth_ok := cfg_oauth cfg && match f_kid f with KidGood => parses_with KOauth f | _ => false end in
  if negb (node_ok || oauth_ok) then false
  else existsb (verify_aud (required_of cm) (f_aud f)) (cfg_aud cfg)
       && existsb (verify_iss (required_of cm) (f_iss f)) (cfg_iss cfg)
       && (f_alg f =? "RS256").

(** ** Spec: a token the hub may trust *)
Definition token_ok (cfg : jwtcfg) (f : tokfacts) : Prop :=
  f_wellformed f = true
  /\ (f_signer f = KNode \/ (f_signer f = KOauth /\ cfg_oauth cfg = true /\ f_kid f = KidGood))
  /\ f_expired f = false /\ f_notyet f = false
  /\ f_alg f = "RS256"
  /\ (exists a, In a (f_aud f) /\ In a (cfg_aud cfg))
  /\ (f_iss f <> "" /\ In (f_iss f) (cfg_iss cfg)).

(** executable version *)
Definition token_ok_b (cfg : jwtcfg) (f : tokfacts) : bool :=
  f_wellformed f
  && (match f_signer f with
      | KNode => true
      | KOauth => cfg_oauth cfg && match f_kid f with KidGood => true | _ => false end
      | KOther => false
      end)
  && negb (f_expired f) && negb (f_notyet f)
  && (f_alg f =? "RS256")
  && existsb (fun a => mem_str a (cfg_aud cfg)) (f_aud f)
  && negb (f_iss f =? "") && mem_str (f_iss f) (cfg_iss cfg).
