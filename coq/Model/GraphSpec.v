(** * The graph implied by the latest versions (spec side of C03 / C06).
    Only versions are consulted - never the reference keys. *)
From Coq Require Import List ZArith Bool.
From DH Require Import Model.Store Model.Refs Model.Query.
Import ListNotations.
Open Scope Z_scope.

(** the version of [id] a reader pinned to instant [t] sees in one dataset:
    the (time, batch index)-greatest one recorded at or before [t] *)
Definition version_at (d : dstate) (id : uri) (t : Z) : option entry :=
  best_version id t (d_entries d) None.

(** its references, if it is not deleted *)
Definition live_refs_at (d : dstate) (id : uri) (t : Z) : list (Z * uri) :=
  match version_at d id t with
  | Some e => if c_del (en_c e) then [] else flat_refs (en_c e)
  | None => []
  end.

(** graph_at t scope: (src, p, tgt) such that some dataset in scope has, as of [t], a latest
    version of [src] that is not deleted and carries the reference *)
Definition in_graph (st : store) (t : Z) (sc : scope) (src p tgt : Z) : Prop :=
  exists ds, scope_ok sc ds = true /\ In (p, tgt) (live_refs_at (get_ds st ds) src t).

Definition pred_ok (pred p : Z) : Prop := pred = 0 \/ pred = p.

(** executable versions, for the check *)
Fixpoint dedup_pairs (l : list (Z * Z)) : list (Z * Z) :=
  match l with
  | [] => []
  | x :: l' => if pmem x l' then dedup_pairs l' else x :: dedup_pairs l'
  end.
Fixpoint dedup_z (l : list Z) : list Z :=
  match l with
  | [] => []
  | x :: l' => if zmem x l' then dedup_z l' else x :: dedup_z l'
  end.
Definition pred_okb (pred p : Z) : bool := Z.eqb pred 0 || Z.eqb pred p.

(** outgoing edges of [src]: (predicate, target) *)
Definition graph_out (st : store) (t : Z) (sc : scope) (src pred : Z) : list (Z * Z) :=
  dedup_pairs (filter (fun f => pred_okb pred (fst f))
    (flat_map (fun p : Z * dstate => if scope_ok sc (fst p) then live_refs_at (snd p) src t else []) (s_ds st))).

(** incoming edges of [tgt]: (predicate, source) *)
Definition graph_in (st : store) (t : Z) (sc : scope) (tgt pred : Z) : list (Z * Z) :=
  dedup_pairs (flat_map (fun p : Z * dstate =>
    if scope_ok sc (fst p) then
      flat_map (fun src => map (fun f => (fst f, src))
                  (filter (fun f => Z.eqb (snd f) tgt && pred_okb pred (fst f)) (live_refs_at (snd p) src t)))
               (dedup_z (map en_id (d_entries (snd p))))
    else []) (s_ds st)).

(** the spec's scope: the named datasets that exist; no name = every dataset *)
Definition spec_scope (existing req : list Z) : scope :=
  match req with [] => ScAll | _ => ScOnly (filter (fun d => zmem d existing) req) end.
