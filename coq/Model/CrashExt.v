(** * Three small models around the crash property C04 that Model/Crash.v does not hold
    (definitions only; proofs in Proofs/CrashExtProofs.v):

    1. the SHARED rolling identifier transaction (store.go: Store.idtxn / idmux, assertIDForURI, commitIDTxn) with several
       writers: ids asserted by one writer are pending until SOME writer commits; a refused batch
       (StoreEntitiesWithTransaction returns an error) leaves the pending assignments alone ([RefuseKeeps], the tree) or
       throws the whole shared transaction away ([RefuseDiscards], seeded change C04-r2-4);
    2. DeleteDataset's persistence steps (dsmanager.go) with the two orders of [record removal | deleted-set write]
       and of the in-memory map removal, and the side effect of the tombstone write on core.Dataset
       (dataset.go updateDataset, branch ds.ID == "core.Dataset": an entity carrying publicNamespaces REWRITES the record
       of the named dataset if it is still in the in-memory map);
    3. a long batch written in slices (seeded change C04-r2-3) is a sequence of writes of Model/Crash.v. *)
From Coq Require Import List ZArith Bool.
From DH Require Import Model.Store Model.Crash.
Import ListNotations.
Open Scope Z_scope.

(** ** 1. the shared identifier transaction *)
Record idst := { it_tab : list (uri * Z);    (* committed URI -> id *)
                 it_pend : list (uri * Z);   (* pending in the rolling transaction, visible to every writer *)
                 it_next : Z }.

Definition it_known (s : idst) (u : uri) : bool :=
  match assoc u (it_pend s ++ it_tab s) with Some _ => true | None => false end.

(** assertIDForURI for each URI of a writer's batch *)
Fixpoint it_assert (us : list uri) (s : idst) : idst :=
  match us with
  | [] => s
  | u :: us' =>
    it_assert us' (if it_known s u then s
                   else {| it_tab := it_tab s; it_pend := (u, it_next s) :: it_pend s; it_next := it_next s + 1 |})
  end.

(** commitIDTxn: by whichever writer gets there first *)
Definition it_commit (s : idst) : idst :=
  {| it_tab := it_pend s ++ it_tab s; it_pend := []; it_next := it_next s |}.

Inductive refuse_mode := RefuseKeeps | RefuseDiscards.

(** a batch that asserts [us] and is then refused *)
Definition it_refuse (m : refuse_mode) (us : list uri) (s : idst) : idst :=
  let s' := it_assert us s in
  match m with
  | RefuseKeeps => s'
  | RefuseDiscards => {| it_tab := it_tab s'; it_pend := []; it_next := it_next s' |}
  end.

(** writer one asserts [us1]; while it stands before its id commit, other writers' batches [rs] are refused;
    then writer one commits *)
Definition it_interleave (m : refuse_mode) (us1 : list uri) (rs : list (list uri)) (s : idst) : idst :=
  it_commit (fold_left (fun s' r => it_refuse m r s') rs (it_assert us1 s)).

(** ** 2. DeleteDataset *)
Record dreg := { dr_rec : list (Z * bool);   (* dataset records on disk: (dataset, created with publicNamespaces) *)
                 dr_mem : list Z;            (* in-memory map store.datasets *)
                 dr_del : list Z }.          (* persisted deleted-datasets set *)

Inductive dstepd := DMem | DRec | DSet | DTomb.

Definition without (n : Z) (l : list Z) : list Z := filter (fun x => negb (Z.eqb x n)) l.
Definition without_rec (n : Z) (l : list (Z * bool)) : list (Z * bool) := filter (fun p => negb (Z.eqb (fst p) n)) l.
Definition memz (n : Z) (l : list Z) : bool := existsb (Z.eqb n) l.

Definition apply_dstep (n : Z) (public : bool) (s : dreg) (st : dstepd) : dreg :=
  match st with
  | DMem => {| dr_rec := dr_rec s; dr_mem := without n (dr_mem s); dr_del := dr_del s |}
  | DRec => {| dr_rec := without_rec n (dr_rec s); dr_mem := dr_mem s; dr_del := dr_del s |}
  | DSet => {| dr_rec := dr_rec s; dr_mem := dr_mem s; dr_del := n :: dr_del s |}
  | DTomb => (* the tombstone still carries publicNamespaces: the record of a dataset found in the memory map is written again *)
    if public && memz n (dr_mem s)
    then {| dr_rec := (n, public) :: dr_rec s; dr_mem := dr_mem s; dr_del := dr_del s |}
    else s
  end.

(** the step orders: [mem_first] = the tree (map removal first), [rec_first] = the tree (record removal before the deleted set) *)
Definition delete_steps (mem_first rec_first : bool) : list dstepd :=
  (if mem_first then [DMem] else [])
  ++ (if rec_first then [DRec; DSet] else [DSet; DRec])
  ++ [DTomb]
  ++ (if mem_first then [] else [DMem]).

(** restart: the memory map is loaded from the records *)
Definition dreg_restart (s : dreg) : dreg := {| dr_rec := dr_rec s; dr_mem := map fst (dr_rec s); dr_del := dr_del s |}.

(** the process dies after [k] steps of the delete, then restarts *)
Definition delete_crash (mem_first rec_first : bool) (k : nat) (n : Z) (public : bool) (s : dreg) : dreg :=
  dreg_restart (fold_left (apply_dstep n public) (firstn k (delete_steps mem_first rec_first)) s).

(** a dataset that is loaded although its id is recorded as deleted: every read path hides its data, the GC erases it *)
Definition zombie (n : Z) (s : dreg) : bool := memz n (dr_mem s) && memz n (dr_del s).

(** ** 3. a long batch written in slices *)
Definition sliced (ds : Z) (slices : list (list ent)) : list event := map (fun s => EOp (WBatch ds s)) slices.
