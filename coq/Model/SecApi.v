(** * The ACL management routes, addressed by the spelling of the client id in the URL
      POST / GET / DELETE /security/clients/:clientid/acl  (internal/web/securityhandler.go)
    Each handler reads the id in its own way ([decoders]); the pinned tree uses url.QueryUnescape in all three.
    Definitions only; proofs in Proofs/IdCodecProofs.v. *)
From Coq Require Import List String Bool.
From DH Require Import Model.Acl Model.SecStore Model.IdCodec.
Import ListNotations.
Open Scope string_scope.

Inductive spop :=
| SpRegister (id : string) | SpUnregister (id : string)     (* the id travels in the JSON body *)
| SpSetAcl (sp : string) (l : list ac)                      (* the id travels in the path, spelled [sp] *)
| SpDelAcl (sp : string)
| SpRestart.

(** [None]: the handler answers 400 (the spelling does not decode), nothing happens *)
Definition sp_resolve (d : decoders) (o : spop) : option secop :=
  match o with
  | SpRegister id => Some (OpRegister id)
  | SpUnregister id => Some (OpUnregister id)
  | SpSetAcl sp l => match resolve (d_set d) sp with Some id => Some (OpSetAcl id l) | None => None end
  | SpDelAcl sp => match resolve (d_del d) sp with Some id => Some (OpDelAcl id) | None => None end
  | SpRestart => Some OpRestart
  end.

Definition api_step (d : decoders) (fm : aclfile_mode) (im : init_mode) (s : secstate) (o : spop) : secstate :=
  match sp_resolve d o with Some op => sec_step fm im s op | None => s end.

Definition api_run (d : decoders) (fm : aclfile_mode) (im : init_mode) (ops : list spop) : secstate :=
  fold_left (api_step d fm im) ops sec_init.

(** GET /security/clients/<sp>/acl *)
Definition api_get (d : decoders) (s : secstate) (sp : string) : option (list ac) :=
  match resolve (d_get d) sp with Some id => lookup id (mem_acls s) | None => None end.
