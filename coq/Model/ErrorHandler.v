(** * Model of the per-entity error handling of internal/jobs/error_handler.go
    (wrappedSink.processEntities, LogFailingEntityHandler, wrappedSink.reset,
    job.instrumentErrorHandling, job.handleJobError) and of the part of
    job.Run / IncrementalPipeline.sync that drives it (page loop, token, kill).
    Definitions only; proofs are in Proofs/ErrorHandlerProofs.v. *)
From Coq Require Import List ZArith Bool Arith.
Import ListNotations.

(** Variant flag.
    [VCurrent]     : the pinned tree - [wrappedSink.reset] keeps [lastError] (F17a) and a successful
                     unsplit batch (recursionDepth = 0) clears it (F17b).
    [VResetClears] : [reset] also clears [lastError]; the clearing on success is still there (F17b only).
    [VFixed]       : [reset] clears [lastError]; [processEntities] never clears it. *)
Inductive eh_variant := VCurrent | VResetClears | VFixed.
Definition reset_clears (v : eh_variant) : bool := match v with VCurrent => false | _ => true end.
Definition success_clears (v : eh_variant) : bool := match v with VFixed => false | _ => true end.

Section Sink.
  Context {E : Type}.

  (** what the inner sink / the handler saw, in order *)
  Inductive event := EDeliv (l : list E) | ERep (x : E).
  Definition ev_flat (e : event) : list E := match e with EDeliv l => l | ERep x => [x] end.
  Definition ev_deliv (e : event) : list E := match e with EDeliv l => l | ERep _ => [] end.
  Definition ev_rep (e : event) : list E := match e with EDeliv _ => [] | ERep x => [x] end.
  Definition flat (log : list event) : list E := flat_map ev_flat log.
  Definition delivered (log : list event) : list E := flat_map ev_deliv log.
  Definition reported (log : list event) : list E := flat_map ev_rep log.

  (** the inner sink as an oracle: call number and batch -> [Some code] (error) or [None] (accepted) *)
  Variable inner : nat -> list E -> option Z.

  (** wrappedSink + LogFailingEntityHandler.count + the scripted sink's call counter and log *)
  Record wstate := {
    ws_last : option Z;      (* wrappedSink.lastError (code of the inner error), None = nil *)
    ws_depth : nat;          (* wrappedSink.recursionDepth *)
    ws_count : nat;          (* LogFailingEntityHandler.count *)
    ws_calls : nat;          (* number of inner sink calls so far *)
    ws_log : list event
  }.

  Inductive wres := WNil | WMax.   (* return value: nil | MaxItemsExceededError *)

  (** LogFailingEntityHandler.handleFailingEntity: count++ ; MaxItems > 0 && count >= MaxItems *)
  Definition limit_hit (k c : nat) : bool := (0 <? k) && (k <=? c).

  (** wrappedSink.processEntities; [sc] = success at depth 0 clears lastError; [k] = MaxItems;
      fuel >= length l suffices (both halves of a batch of >= 2 are shorter) *)
  Fixpoint wsink (sc : bool) (k : nat) (fuel : nat) (l : list E) (st : wstate) : wres * wstate :=
    let call := ws_calls st in
    match inner call l with
    | None =>
      (WNil, {| ws_last := if sc && (ws_depth st =? 0) then None else ws_last st;
                ws_depth := ws_depth st; ws_count := ws_count st; ws_calls := S call;
                ws_log := ws_log st ++ [EDeliv l] |})
    | Some e =>
      match l with
      | [] => (WNil, {| ws_last := Some e; ws_depth := ws_depth st; ws_count := ws_count st;
                        ws_calls := S call; ws_log := ws_log st |})
      | [x] =>
        let c := S (ws_count st) in
        if limit_hit k c
        then (WMax, {| ws_last := match ws_last st with None => Some e | o => o end;
                       ws_depth := ws_depth st; ws_count := c; ws_calls := S call;
                       ws_log := ws_log st ++ [ERep x] |})
        else (WNil, {| ws_last := Some e; ws_depth := ws_depth st; ws_count := c; ws_calls := S call;
                       ws_log := ws_log st ++ [ERep x] |})
      | _ :: _ :: _ =>
        match fuel with
        | O => (WNil, st)
        | S f =>
          let st1 := {| ws_last := ws_last st; ws_depth := S (ws_depth st); ws_count := ws_count st;
                        ws_calls := S call; ws_log := ws_log st |} in
          let sp := Nat.div2 (length l) in
          match wsink sc k f (firstn sp l) st1 with
          | (WMax, st2) => (WMax, st2)
          | (WNil, st2) => wsink sc k f (skipn sp l) st2
          end
        end
      end
    end.

  (** wrappedSink.reset (called by instrumentErrorHandling on every run but the first) *)
  Definition ws_reset (v : eh_variant) (st : wstate) : wstate :=
    {| ws_last := if reset_clears v then None else ws_last st; ws_depth := 0; ws_count := 0;
       ws_calls := ws_calls st; ws_log := ws_log st |}.

  Definition ws_init : wstate :=
    {| ws_last := None; ws_depth := 0; ws_count := 0; ws_calls := 0; ws_log := [] |}.

  (** ** The job around it *)
  Record jcfg := {
    c_batch : nat;       (* batch size >= 1 *)
    c_log : bool;        (* a log handler is configured (sink gets wrapped) *)
    c_maxItems : nat;
    c_rerun : bool;      (* a reRun handler is configured *)
    c_kill : option nat  (* the job is killed during this inner sink call *)
  }.

  (** error of pipeline.sync / the stored LastError *)
  Inductive perr := POk | PInner (code : Z) | PMax | PInterrupt.

  Record jstate := {
    j_tok : nat;             (* stored continuation token = number of source entities consumed *)
    j_wrapped : bool;        (* pipeline.spec().sink is already a *wrappedSink *)
    j_ws : wstate;
    j_retries : Z;           (* ErrorHandler.MaxRetries of the reRun handler (decremented, never restored) *)
    j_lastProcessed : nat    (* wrappedSink.lastProcessed *)
  }.

  (** one sink call as the pipeline sees it *)
  Definition sink_call (v : eh_variant) (cfg : jcfg) (page : list E) (ws : wstate) : perr * wstate :=
    if c_log cfg then
      match wsink (success_clears v) (c_maxItems cfg) (length page) page ws with
      | (WNil, ws') => (POk, ws')
      | (WMax, ws') => (PMax, ws')
      end
    else
      match inner (ws_calls ws) page with
      | None => (POk, {| ws_last := ws_last ws; ws_depth := ws_depth ws; ws_count := ws_count ws;
                         ws_calls := S (ws_calls ws); ws_log := ws_log ws ++ [EDeliv page] |})
      | Some e => (PInner e, {| ws_last := ws_last ws; ws_depth := ws_depth ws; ws_count := ws_count ws;
                                ws_calls := S (ws_calls ws); ws_log := ws_log ws |})
      end.

  Definition kill_in (cfg : jcfg) (c0 c1 : nat) : bool :=
    match c_kill cfg with Some ka => (c0 <=? ka) && (ka <? c1) | None => false end.

  (** the [for keepReading] loop of IncrementalPipeline.sync over a DatasetSource:
      returns (error, entCnt, token, sink state) *)
  Fixpoint sync_pages (v : eh_variant) (cfg : jcfg) (fuel : nat) (src : list E)
           (tok : nat) (killed : bool) (cnt : nat) (ws : wstate) : perr * nat * nat * wstate :=
    match fuel with
    | O => (POk, cnt, tok, ws)
    | S f =>
      let page := firstn (c_batch cfg) (skipn tok src) in
      let cnt' := cnt + length page in
      if killed then (PInterrupt, cnt', tok, ws)
      else match page with
           | [] => (POk, cnt', tok, ws)
           | _ =>
             match sink_call v cfg page ws with
             | (POk, ws') =>
               sync_pages v cfg f src (tok + length page)
                          (kill_in cfg (ws_calls ws) (ws_calls ws')) cnt' ws'
             | (e, ws') => (e, cnt', tok, ws')
             end
           end
    end.

  Record runrec := {
    r_err : perr;           (* LastError of the stored job result after the run *)
    r_processed : nat;
    r_tok : nat;
    r_log : list event;     (* what happened during this run *)
    r_retries : Z;
    r_pending : bool;       (* a re-run was scheduled *)
    r_killed : bool;        (* the kill was issued during this run *)
    r_syncok : bool         (* pipeline.sync returned nil (before handleJobError looked at lastError) *)
  }.

  (** job.Run: instrumentErrorHandling, sync, store result, (return ticket), handleJobError *)
  Definition run (v : eh_variant) (cfg : jcfg) (src : list E) (st : jstate) : runrec * jstate :=
    let ws0 := if c_log cfg then (if j_wrapped st then ws_reset v (j_ws st) else j_ws st) else j_ws st in
    let wrapped := j_wrapped st || c_log cfg in
    let ws0 := {| ws_last := ws_last ws0; ws_depth := ws_depth ws0; ws_count := ws_count ws0;
                  ws_calls := ws_calls ws0; ws_log := [] |} in
    let '(e, cnt, tok, ws) := sync_pages v cfg (S (length src)) src (j_tok st) false 0 ws0 in
    (* handleJobError *)
    let '(e', processed, lastp, goes_on) :=
        match e with
        | POk | PMax =>
          if wrapped then
            match ws_last ws with
            | Some c => let lp := Nat.max cnt (j_lastProcessed st) in (PInner c, lp, lp, true)
            | None => (e, cnt, j_lastProcessed st, false)
            end
          else (e, cnt, j_lastProcessed st, false)
        | PInterrupt => (e, cnt, j_lastProcessed st, false)
        | PInner _ => (e, cnt, j_lastProcessed st, true)
        end in
    let pending := goes_on && c_rerun cfg && (0 <? j_retries st)%Z in
    let retries := if pending then (j_retries st - 1)%Z else j_retries st in
    ({| r_err := e'; r_processed := processed; r_tok := tok; r_log := ws_log ws;
        r_retries := retries; r_pending := pending;
        r_killed := kill_in cfg (ws_calls ws0) (ws_calls ws);
        r_syncok := match e with POk => true | _ => false end |},
     {| j_tok := tok; j_wrapped := wrapped; j_ws := ws; j_retries := retries; j_lastProcessed := lastp |}).

  (** a trigger with jobType fullsync runs FullSyncPipeline.sync: the same page loop, but it starts from an empty
      token every time and stores the token only when the whole sync returned nil *)
  Definition run_any (v : eh_variant) (cfg : jcfg) (full : bool) (src : list E) (st : jstate) : runrec * jstate :=
    if full then
      let '(r, st') := run v cfg src {| j_tok := 0; j_wrapped := j_wrapped st; j_ws := j_ws st;
                                        j_retries := j_retries st; j_lastProcessed := j_lastProcessed st |} in
      let stored := if r_syncok r then r_tok r else j_tok st in
      ({| r_err := r_err r; r_processed := r_processed r; r_tok := stored; r_log := r_log r;
          r_retries := r_retries r; r_pending := r_pending r; r_killed := r_killed r; r_syncok := r_syncok r |},
       {| j_tok := stored; j_wrapped := j_wrapped st'; j_ws := j_ws st'; j_retries := j_retries st';
          j_lastProcessed := j_lastProcessed st' |})
    else run v cfg src st.

  Definition j_init (retries : Z) : jstate :=
    {| j_tok := 0; j_wrapped := false; j_ws := ws_init; j_retries := retries; j_lastProcessed := 0 |}.
End Sink.

Arguments event : clear implicits.
Arguments wstate : clear implicits.
Arguments jstate : clear implicits.
Arguments runrec : clear implicits.

(** a permanently failing inner sink: rejects every batch that contains a [bad] entity, with the
    code of the first one *)
Definition perm {E : Type} (bad : E -> bool) (code : E -> Z) (call : nat) (l : list E) : option Z :=
  option_map code (find bad l).

(** verifyErrorHandlers' defaults for the reRun handler *)
Definition eff_retries (r : Z) : Z := if (r =? 0)%Z then 1%Z else r.
Definition eff_delay (d : Z) : Z := if (d =? 0)%Z then 30%Z else d.

(** ** A chain of runs of one job: a pending re-run fires next; otherwise [crons] further
    scheduled runs happen; [adds] = entities appended to the source before run 2, 3, ...
    (the source is the list of entity numbers 0..n-1). *)
Section Chain.
  Variable inner : nat -> list Z -> option Z.
  Fixpoint zseq (from : Z) (len : nat) : list Z :=
    match len with O => [] | S l => from :: zseq (from + 1) l end.

  Fixpoint chain (v : eh_variant) (cfg : jcfg) (full : bool) (fuel : nat) (n : nat) (adds : list nat) (crons : nat)
           (st : jstate Z) : list (runrec Z) :=
    match fuel with
    | O => []
    | S f =>
      let '(r, st') := run_any inner v cfg full (zseq 0 n) st in
      let n' := match adds with a :: _ => n + a | [] => n end in
      if r_pending r then r :: chain v cfg full f n' (tl adds) crons st'
      else match crons with
           | O => [r]
           | S c => r :: chain v cfg full f n' (tl adds) c st'
           end
    end.

  (** a burst of [ext] externally triggered runs (cron ticks, manual runs) that all happen while the
      re-runs they schedule are still pending (RetryDelay longer than the burst); afterwards the
      pending re-runs fire in the order they were scheduled, each may schedule another one *)
  Fixpoint burst (v : eh_variant) (cfg : jcfg) (full : bool) (fuel : nat) (n : nat) (ext queued : nat)
           (st : jstate Z) : list (runrec Z) :=
    match fuel with
    | O => []
    | S f =>
      match ext, queued with
      | O, O => []
      | S e, _ =>
        let '(r, st') := run_any inner v cfg full (zseq 0 n) st in
        r :: burst v cfg full f n e (if r_pending r then S queued else queued) st'
      | O, S q =>
        let '(r, st') := run_any inner v cfg full (zseq 0 n) st in
        r :: burst v cfg full f n O (if r_pending r then S q else q) st'
      end
    end.
End Chain.

(** the scripted sink of the driver: fails on the call numbers in [failcalls] (code 1000 + call),
    else on the first entity of the batch that is in [bad] (code = its number) *)
Definition zmem (x : Z) (l : list Z) : bool := existsb (Z.eqb x) l.
Definition scripted (bad failcalls : list Z) (call : nat) (l : list Z) : option Z :=
  if zmem (Z.of_nat call) failcalls then Some (1000 + Z.of_nat call)%Z
  else find (fun x => zmem x bad) l.
