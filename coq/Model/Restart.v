(** * The hub as (memory, disk) pairs: stopping and starting it  (property C14)
      internal/server/store.go      NewStore / Open / Close, NamespaceManager, StoreObject collections
      internal/server/dsmanager.go  NewDsManager, CreateDataset, UpdateDataset (rename), DeleteDataset
      internal/server/dataset.go    StartFullSyncWithLease / RefreshFullSyncLease / CompleteFullSync, updateDataset
      internal/web/datasethandler.go processEntities (the full-sync protocol around StoreEntities)
      internal/jobs/scheduler.go    NewScheduler / Start, AddJob, changeStatus, DeleteJob, verify (error handlers)
      internal/jobs/pipeline.go     IncrementalPipeline.sync (continuation token under JobDataIndex), job.Run
      internal/security/token.go    TokenProviders (live provider map) over ProviderManager (LoginProviderIndex)
      internal/security/manager.go  ServiceCore (imported from Model/SecStore.v)
      app.go                        NewDatahubInstance (order of construction), Stop
    Every operation is written as memory update + disk update exactly where the Go code persists;
    [reopen] builds the memory side from the disk side the way the constructors do.
    Entity data are durable by construction (Model/Store.v state lives on the disk side).
    Definitions only; proofs are in Proofs/RestartProofs.v. *)
From Coq Require Import List ZArith Bool String.
From DH Require Import Model.Store Model.Acl Model.SecStore.
Import ListNotations.
Open Scope list_scope.
Open Scope Z_scope.

(** ** Variant flags, one per deviation of the pinned tree (the security pair is SecStore's).
    [ProvRawKey]   : pinned - the live provider map is keyed by the lower-cased name, the stored objects by the
                     name as given, and DeleteProvider looks up and deletes under the name as given (F14c).
    [ProvLowerKey] : repaired - one key (the lower-cased name) for the map, the stored object and the delete.
    [FsVolatile]   : pinned - the full-sync state of a dataset (started, sync id, seen set) exists in memory only (F14d).
    [FsPersisted]  : repaired - it is written with every change and read back by Open.
    [DelayRescale] : pinned - verify() multiplies the retryDelay of a reRun handler by 10^9 in the configuration
                     object that AddJob then stores; Start / pause / resume feed the stored object back in (F14e).
    [DelayStable]  : repaired - the stored configuration keeps the value the user gave. *)
Inductive prov_mode := ProvRawKey | ProvLowerKey.
Inductive fs_mode := FsVolatile | FsPersisted.
Inductive delay_mode := DelayRescale | DelayStable.

Record rflags := {
  f_acl : aclfile_mode;   (* AclFileClients = pinned (F14a = F16e) *)
  f_init : init_mode;     (* InitAborts = pinned (F14b = F16f) *)
  f_prov : prov_mode;
  f_fs : fs_mode;
  f_delay : delay_mode;
  f_eq : eqflags;         (* write-time equality of the data layer (Model/Store.v); irrelevant for C14 *)
  f_dup : dup_mode
}.

(** ** Finite maps with integer keys: Store.v's [assoc] / [set_assoc] (sorted insert) plus removal *)
Fixpoint adel {V} (k : Z) (l : list (Z * V)) : list (Z * V) :=
  match l with
  | [] => []
  | (k', v) :: l' => if Z.eqb k k' then l' else (k', v) :: adel k l'
  end.
Definition amem {V} (k : Z) (l : list (Z * V)) : bool := match assoc k l with Some _ => true | None => false end.
Definition zmem (k : Z) (l : list Z) : bool := existsb (Z.eqb k) l.

(** ** badger.Sequence: a lease of [seq_bw] numbers is persisted before its first number is handed out;
    Release (Store.Close) gives the unused part back; Open takes a new lease at the persisted bound *)
Record seqst := { q_next : Z; q_leased : Z; q_disk : Z }.
Definition seq_bw : Z := 1000.
Definition seq_open (d : Z) : seqst := {| q_next := d; q_leased := d + seq_bw; q_disk := d + seq_bw |}.
Definition seq_next (q : seqst) : Z * seqst :=
  if q_leased q <=? q_next q then
    let n := q_disk q in (n, {| q_next := n + 1; q_leased := n + seq_bw; q_disk := n + seq_bw |})
  else (q_next q, {| q_next := q_next q + 1; q_leased := q_leased q; q_disk := q_disk q |}).
(** the persisted bound after Close (Release writes only when the stored value is the lease it took) or after a kill *)
Definition seq_stop (crash : bool) (q : seqst) : Z :=
  if crash then q_disk q else if Z.eqb (q_disk q) (q_leased q) then q_next q else q_disk q.

(** ** Store + dataset manager *)
(** a dataset record: internal id, public namespaces, kind (0 plain, 1 proxy, 2 virtual) and the kind's configuration
    (proxy: ProxyConfig, here its timeoutSeconds; virtual: VirtualDatasetConfig, here the number in its transform) *)
Record dsrec := { r_id : Z; r_pub : list Z; r_kind : Z; r_cfg : Z }.
(** CreateDatasetConfig *)
Record dscfg := { g_pub : list Z; g_kind : Z; g_cfg : Z }.
Definition plain_cfg : dscfg := {| g_pub := []; g_kind := 0; g_cfg := 0 |}.
Record fsst := { fs_id : Z; fs_seen : list uri }.

Record dmstate := {
  (* memory *)
  m_reg : list (Z * dsrec);      (* Store.datasets: name code -> record (core.Dataset = -1) *)
  m_del : list Z;                (* Store.deletedDatasets *)
  m_next : Z;                    (* Store.nextDatasetID *)
  m_ns : list Z;                 (* NamespaceManager maps: expansion codes, position = prefix number *)
  m_fs : list (Z * fsst);        (* per internal dataset id: fullSyncStarted / fullSyncID / fullSyncSeen *)
  m_seq : seqst;                 (* idseq *)
  (* disk *)
  d_reg : list (Z * dsrec);      (* SysDatasetsID records *)
  d_del : option (list Z);       (* StoreMetaIndex "deleteddatasets" *)
  d_next : option Z;             (* StoreNextDatasetID *)
  d_ns : option (list Z);        (* NamespacesIndex "namespacestate" *)
  d_fs : list (Z * fsst);        (* written only by the repaired variant *)
  d_ids : list (Z * Z);          (* URIToID index: URI code -> internal id, in order of assignment *)
  d_data : store                 (* every entity key family, by internal dataset id *)
}.

(** URI codes: entity e<k> = k (k < 800), the reference predicate = 800, the meta entity of dataset d<n> = 900 + n
    (core.Dataset = 899), rdf:type = 990, the dataset class = 991.  Expansion codes: http://v<k>/ = k,
    the three system namespaces = 9000, 9001, 9002. *)
Definition u_pred : Z := 800.
Definition u_meta (n : Z) : Z := 900 + n.
Definition u_type : Z := 990.
Definition u_class : Z := 991.
Definition u_proxy_class : Z := 992.
Definition u_virtual_class : Z := 993.
Definition sys_ns : list Z := [9000; 9001; 9002].
Definition core_name : Z := -1.

Record went := { w_e : Z; w_v : Z; w_t : Z; w_del : bool }.   (* entity code, value, reference target (-1 none), deleted *)

(** the content of a driver entity; [c_len] only has to separate what Go's serialized lengths separate
    (deleted flag: one character; the reference: many) *)
Definition mkc (v t : Z) (del : bool) : content :=
  {| c_del := del;
     c_props := [(1, {| pv_code := v; pv_obj := false |})];
     c_refs := if t <? 0 then [] else [(2, {| rv_arr := false; rv_tgts := [t] |})];
     c_len := 100 + (if del then 0 else 1) + (if t <? 0 then 0 else 30) |}.
Definition ent_of (w : went) : ent := {| e_id := w_e w; e_c := mkc (w_v w) (w_t w) (w_del w) |}.
Definition went_exps (w : went) : list Z :=
  [w_e w mod 3; 0] ++ (if w_t w <? 0 then [] else [0; w_t w mod 3]).

(** AssertPrefixMappingForExpansion: the whole state is stored with every new prefix *)
Definition assert_ns (e : Z) (s : dmstate) : dmstate :=
  if zmem e (m_ns s) then s
  else let m := m_ns s ++ [e] in
       {| m_reg := m_reg s; m_del := m_del s; m_next := m_next s; m_ns := m; m_fs := m_fs s; m_seq := m_seq s;
          d_reg := d_reg s; d_del := d_del s; d_next := d_next s; d_ns := Some m; d_fs := d_fs s;
          d_ids := d_ids s; d_data := d_data s |}.

(** assertIDForURI + commitIDTxn (the batch it belongs to commits) *)
Definition assert_uri (u : Z) (s : dmstate) : dmstate :=
  match assoc u (d_ids s) with
  | Some _ => s
  | None =>
    let '(n, q) := seq_next (m_seq s) in
    {| m_reg := m_reg s; m_del := m_del s; m_next := m_next s; m_ns := m_ns s; m_fs := m_fs s; m_seq := q;
       d_reg := d_reg s; d_del := d_del s; d_next := d_next s; d_ns := d_ns s; d_fs := d_fs s;
       d_ids := d_ids s ++ [(u, n)]; d_data := d_data s |}
  end.

Definition set_fs (fm : fs_mode) (fs : list (Z * fsst)) (s : dmstate) : dmstate :=
  {| m_reg := m_reg s; m_del := m_del s; m_next := m_next s; m_ns := m_ns s; m_fs := fs; m_seq := m_seq s;
     d_reg := d_reg s; d_del := d_del s; d_next := d_next s; d_ns := d_ns s;
     d_fs := match fm with FsPersisted => fs | FsVolatile => d_fs s end;
     d_ids := d_ids s; d_data := d_data s |}.

Definition set_data (st : store) (s : dmstate) : dmstate :=
  {| m_reg := m_reg s; m_del := m_del s; m_next := m_next s; m_ns := m_ns s; m_fs := m_fs s; m_seq := m_seq s;
     d_reg := d_reg s; d_del := d_del s; d_next := d_next s; d_ns := d_ns s; d_fs := d_fs s;
     d_ids := d_ids s; d_data := st |}.

(** the URIs StoreEntitiesWithTransaction asserts (assertIDForURI), in order, for a batch decided against the dataset
    snapshot [d]: per entity its id; then, for an id new to the store, the predicate and target of its reference;
    for a known id that is kept (not skipped as unchanged), first the reference of the version it replaces (the
    in-batch predecessor, else the stored latest - this is where the target of a reference that arrived on a deleted
    version gets its id), then its own reference unless it is deleted.  [known] = the URIs that have an id so far. *)
Definition ref_uris (c : content) : list Z :=
  match c_refs c with
  | (_, r) :: _ => match rv_tgts r with t :: _ => [u_pred; t] | [] => [] end
  | [] => []
  end.
Fixpoint batch_uris (fl : rflags) (d : dstate) (known : list Z) (loc : list (uri * content)) (es : list ent) : list Z :=
  match es with
  | [] => []
  | e :: es' =>
    let id := e_id e in
    let c := e_c e in
    let stored := stored_latest d id in
    let local := assoc id loc in
    let '(us, kept) :=
      if negb (zmem id known) then (ref_uris c, true)
      else if keep_decision (f_eq fl) (f_dup fl) stored local c then
        ((match local with
          | Some p => ref_uris p
          | None => match stored with Some p => ref_uris p | None => [] end
          end) ++ (if c_del c then [] else ref_uris c), true)
      else ([], false) in
    id :: us ++ batch_uris fl d (id :: us ++ known) (if kept then (id, c) :: loc else loc) es'
  end.

(** Dataset.StoreEntities on the dataset with internal id [id] (a non-empty batch): every entity of the batch is
    marked seen while a full sync is running, the URIs get their ids, then the batch is decided and written
    (Model/Store.v) *)
Definition dm_store (fl : rflags) (id : Z) (es : list ent) (s : dmstate) : dmstate :=
  match es with
  | [] => s
  | _ =>
    let s1 := match assoc id (m_fs s) with
              | Some f => set_fs (f_fs fl) (set_assoc id {| fs_id := fs_id f; fs_seen := fs_seen f ++ map e_id es |} (m_fs s)) s
              | None => s
              end in
    let s2 := fold_left (fun s u => assert_uri u s)
                        (batch_uris fl (get_ds (d_data s1) id) (map fst (d_ids s1)) [] es) s1 in
    set_data (apply_wop (f_eq fl) (f_dup fl) (d_data s2) (WBatch id es)) s2
  end.

(** the internal id of a URI (0 if unknown: not reachable for stored entities) *)
Definition id_of (s : dmstate) (u : Z) : Z := match assoc u (d_ids s) with Some i => i | None => 0 end.

Fixpoint insert_by (key : Z -> Z) (k : Z) (l : list Z) : list Z :=
  match l with
  | [] => [k]
  | x :: l' => if key k <? key x then k :: l else x :: insert_by key k l'
  end.
(** the latest-entity keys of a dataset in the order Go iterates them (by internal id) *)
Definition keys_by_id (s : dmstate) (d : dstate) : list uri :=
  fold_right (insert_by (id_of s)) [] (latest_keys d).

(** CompleteFullSync: every latest, non-deleted entity that was not seen is stored again as deleted *)
Definition unseen_deletes (s : dmstate) (id : Z) (seen : list uri) : list ent :=
  let d := get_ds (d_data s) id in
  flat_map (fun k => match stored_latest d k with
                     | Some c => if c_del c || zmem k seen then []
                                 else [{| e_id := k; e_c := {| c_del := true; c_props := c_props c; c_refs := c_refs c;
                                                               c_len := c_len c - 1 |} |}]
                     | None => []
                     end) (keys_by_id s d).

Inductive res := ROk | RErr | RConflict | RGone | RNoJob | RFailed.

Inductive dmop :=
| DCreate (n : Z) (pub : dscfg)
| DDelete (n : Z)
| DRename (n m : Z)
| DPubns (n : Z) (pub : list Z)
| DPubnsM (l : list (Z * list Z))   (* one batch into core.Dataset with the meta entities of several datasets *)
| DPost (n : Z) (start : bool) (fsid : Z) (fin : bool) (es : list went).   (* POST /datasets/n/entities *)

Definition set_reg (n : Z) (r : dsrec) (s : dmstate) : dmstate :=
  {| m_reg := set_assoc n r (m_reg s); m_del := m_del s; m_next := m_next s; m_ns := m_ns s; m_fs := m_fs s;
     m_seq := m_seq s;
     d_reg := set_assoc n r (d_reg s); d_del := d_del s; d_next := d_next s; d_ns := d_ns s; d_fs := d_fs s;
     d_ids := d_ids s; d_data := d_data s |}.

(** CreateDataset *)
Definition dm_create (n : Z) (pub : dscfg) (s : dmstate) : dmstate :=
  match assoc n (m_reg s) with
  | Some _ => s
  | None =>
    let id := m_next s in
    let r := {| r_id := id; r_pub := g_pub pub; r_kind := g_kind pub; r_cfg := g_cfg pub |} in
    (* nextDatasetID++ and storeValue; the record; the maps *)
    let s1 := {| m_reg := set_assoc n r (m_reg s); m_del := m_del s; m_next := id + 1; m_ns := m_ns s; m_fs := m_fs s;
                 m_seq := m_seq s;
                 d_reg := set_assoc n r (d_reg s); d_del := d_del s; d_next := Some (id + 1); d_ns := d_ns s;
                 d_fs := d_fs s; d_ids := d_ids s; d_data := d_data s |} in
    (* NewDatasetEntity asserts the three system namespaces; the meta entity is stored in core.Dataset *)
    let s2 := fold_left (fun s e => assert_ns e s) sys_ns s1 in
    fold_left (fun s u => assert_uri u s)
              [u_meta n; u_type; if Z.eqb (g_kind pub) 1 then u_proxy_class
                                 else if Z.eqb (g_kind pub) 2 then u_virtual_class else u_class] s2
  end.

(** DeleteDataset *)
Definition dm_delete (n : Z) (s : dmstate) : dmstate * res :=
  if Z.eqb n core_name then (s, RErr)
  else match assoc n (m_reg s) with
       | None => (s, RErr)
       | Some r =>
         let del := insert_sorted (r_id r) (m_del s) in
         ({| m_reg := adel n (m_reg s); m_del := del; m_next := m_next s; m_ns := m_ns s; m_fs := m_fs s;
             m_seq := m_seq s;
             d_reg := adel n (d_reg s); d_del := Some del; d_next := d_next s; d_ns := d_ns s; d_fs := d_fs s;
             d_ids := d_ids s; d_data := d_data s |}, ROk)
       end.

(** UpdateDataset with a new id: the record moves to the new key; the meta entity of the new name is stored *)
Definition dm_rename (n m : Z) (s : dmstate) : dmstate * res :=
  if Z.eqb n core_name then (s, RErr)
  else match assoc n (m_reg s) with
       | None => (s, RErr)
       | Some r =>
         if Z.eqb n m then (s, ROk)
         else match assoc m (m_reg s) with
              | Some _ => (s, RErr)
              | None =>
                let s1 := {| m_reg := set_assoc m r (adel n (m_reg s)); m_del := m_del s; m_next := m_next s;
                             m_ns := m_ns s; m_fs := m_fs s; m_seq := m_seq s;
                             d_reg := set_assoc m r (adel n (d_reg s)); d_del := d_del s; d_next := d_next s;
                             d_ns := d_ns s; d_fs := d_fs s; d_ids := d_ids s; d_data := d_data s |} in
                (assert_uri (u_meta m) s1, ROk)
              end
       end.

(** a client rewriting the publicNamespaces property of the meta entity: updateDataset stores the record again *)
Definition dm_pubns (n : Z) (pub : list Z) (s : dmstate) : dmstate * res :=
  match assoc n (m_reg s) with
  | None => (s, RErr)
  | Some r => (set_reg n {| r_id := r_id r; r_pub := pub; r_kind := r_kind r; r_cfg := r_cfg r |} s, ROk)
  end.

(** datasetHandler.processEntities *)
Definition dm_post (fl : rflags) (n : Z) (start : bool) (fsid : Z) (fin : bool) (es : list went)
           (s : dmstate) : dmstate * res :=
  match assoc n (m_reg s) with
  | None => (s, RErr)
  | Some r =>
    if negb (Z.eqb (r_kind r) 0) then (s, RErr)   (* proxy: forwarded to the (unreachable) remote; virtual: 501 *)
    else
    let id := r_id r in
    let chk :=
      if start then Some (set_fs (f_fs fl) (set_assoc id {| fs_id := fsid; fs_seen := [] |} (m_fs s)) s)
      else match assoc id (m_fs s) with
           | Some f => if Z.eqb (fs_id f) fsid then Some s else None
           | None => Some s
           end in
    match chk with
    | None => (s, RConflict)
    | Some s1 =>
      let s2 := fold_left (fun s e => assert_ns e s) (flat_map went_exps es) s1 in
      let s4 := dm_store fl id (map ent_of es) s2 in
      if fin then
        match assoc id (m_fs s4) with
        | None => (s4, RGone)
        | Some f =>
          let s5 := dm_store fl id (unseen_deletes s4 id (fs_seen f)) s4 in
          (set_fs (f_fs fl) (adel id (m_fs s5)) s5, ROk)
        end
      else (s4, ROk)
    end
  end.

Definition dm_step (fl : rflags) (o : dmop) (s : dmstate) : dmstate * res :=
  match o with
  | DCreate n pub => (dm_create n pub s, ROk)
  | DDelete n => dm_delete n s
  | DRename n m => dm_rename n m s
  | DPubns n pub => dm_pubns n pub s
  | DPubnsM l =>
    if forallb (fun p : Z * list Z => amem (fst p) (m_reg s)) l
    then (fold_left (fun s (p : Z * list Z) => fst (dm_pubns (fst p) (snd p) s)) l s, ROk)
    else (s, RErr)
  | DPost n start fsid fin es => dm_post fl n start fsid fin es s
  end.

Definition load_opt {A} (o : option (list A)) : list A := match o with Some l => l | None => [] end.

(** Close (or a kill) + NewStore + NewDsManager *)
Definition dm_reopen (fl : rflags) (crash : bool) (s : dmstate) : dmstate :=
  let s1 := {| m_reg := d_reg s; m_del := load_opt (d_del s);
               m_next := match d_next s with Some n => n | None => 1 end;
               m_ns := load_opt (d_ns s);
               m_fs := match f_fs fl with FsPersisted => d_fs s | FsVolatile => [] end;
               m_seq := seq_open (seq_stop crash (m_seq s));
               d_reg := d_reg s; d_del := d_del s; d_next := d_next s; d_ns := d_ns s; d_fs := d_fs s;
               d_ids := d_ids s; d_data := d_data s |} in
  dm_create core_name plain_cfg s1.

(** an empty directory, opened *)
Definition dm_init : dmstate :=
  dm_create core_name plain_cfg
    {| m_reg := []; m_del := []; m_next := 1; m_ns := []; m_fs := []; m_seq := seq_open 0;
       d_reg := []; d_del := None; d_next := None; d_ns := None; d_fs := []; d_ids := []; d_data := store0 |}.

(** ** Jobs.  Configurations, continuation tokens and last-run results live in the store only;
    memory holds the cron entries of the jobs that are not paused. *)
(** [j_trig]: -1 = a cron trigger; n >= 0 = an onchange trigger monitoring dataset n (the job then runs whenever
    "dataset.<n>" is emitted: by a POST to n, or by a job that wrote to n while n was not in a full sync) *)
Record jobcfg := { j_paused : bool; j_src : Z; j_sink : Z; j_delay : option Z; (* retryDelay of a reRun handler *)
                   j_trig : Z }.
Record jobstate := {
  m_sched : list (Z * bool);          (* Runner.scheduledJobs / event-bus handlers: true = the job has cron entries
                                         or a dataset subscription *)
  d_jcfg : list (Z * jobcfg);         (* JobConfigIndex *)
  d_jtok : list (Z * Z);              (* JobDataIndex: SyncJobState.ContinuationToken *)
  d_jhist : list (Z * (bool * Z))     (* JobResultIndex: failed?, processed *)
}.
Definition job_init : jobstate := {| m_sched := []; d_jcfg := []; d_jtok := []; d_jhist := [] |}.

Definition wrap64 (z : Z) : Z := (z + 2 ^ 63) mod 2 ^ 64 - 2 ^ 63.
(** verifyErrorHandlers on a reRun handler: default 30, then [int64(time.Second) * RetryDelay], in place *)
Definition rescale (d : Z) : Z := wrap64 (1000000000 * (if Z.eqb d 0 then 30 else d)).
Definition verify_cfg (dm : delay_mode) (c : jobcfg) : jobcfg :=
  match dm with
  | DelayStable => c
  | DelayRescale =>
    (* verify returns at an onchange trigger with a monitored dataset, before it reaches the error handlers *)
    if 0 <=? j_trig c then c
    else {| j_paused := j_paused c; j_src := j_src c; j_sink := j_sink c;
            j_delay := option_map rescale (j_delay c); j_trig := j_trig c |}
  end.

(** AddJob: verify (mutates), StoreObject, clearCrontab, schedule unless paused *)
Definition job_add (dm : delay_mode) (j : Z) (c : jobcfg) (s : jobstate) : jobstate :=
  let c' := verify_cfg dm c in
  {| m_sched := set_assoc j (negb (j_paused c')) (m_sched s);
     d_jcfg := set_assoc j c' (d_jcfg s); d_jtok := d_jtok s; d_jhist := d_jhist s |}.

Inductive jobop :=
| JAdd (j : Z) (c : jobcfg)
| JPause (j : Z) (p : bool)     (* PauseJob / UnpauseJob *)
| JDelete (j : Z)
| JRun (j : Z).                 (* RunJob, incremental *)

(** NewRunner + NewScheduler: Start loads the stored configurations and calls AddJob for each of them:
    every configuration goes through verify and is stored again; it is scheduled unless paused *)
Definition job_reopen (dm : delay_mode) (s : jobstate) : jobstate :=
  {| m_sched := map (fun p : Z * jobcfg => (fst p, negb (j_paused (verify_cfg dm (snd p))))) (d_jcfg s);
     d_jcfg := map (fun p : Z * jobcfg => (fst p, verify_cfg dm (snd p))) (d_jcfg s);
     d_jtok := d_jtok s; d_jhist := d_jhist s |}.

(** ** Login providers *)
Record provstate := {
  m_tp : list (Z * Z);     (* TokenProviders.Providers: lower-cased name -> provider (its user) *)
  d_prov : list (Z * Z)    (* LoginProviderIndex objects by name, in key order *)
}.
Definition prov_init : provstate := {| m_tp := []; d_prov := [] |}.
(** name codes: 0..9 capitalised ("Pa".."Pj"), 10..19 the same names in lower case; numeric order = byte order *)
Definition lower (n : Z) : Z := if (0 <=? n) && (n <? 10) then n + 10 else n.
Definition prov_key (pm : prov_mode) (n : Z) : Z := match pm with ProvRawKey => n | ProvLowerKey => lower n end.

Inductive provop := PAdd (n u : Z) | PDelete (n : Z).

Definition prov_step (pm : prov_mode) (o : provop) (s : provstate) : provstate * res :=
  match o with
  | PAdd n u => ({| m_tp := set_assoc (lower n) u (m_tp s); d_prov := set_assoc (prov_key pm n) u (d_prov s) |}, ROk)
  | PDelete n =>
    let k := prov_key pm n in
    match assoc k (m_tp s) with
    | None => (s, RErr)
    | Some _ => ({| m_tp := adel k (m_tp s); d_prov := adel k (d_prov s) |}, ROk)
    end
  end.

(** NewTokenProviders: one map entry per stored object, later objects overwrite earlier ones *)
Definition prov_reopen (s : provstate) : provstate :=
  {| m_tp := fold_left (fun m (p : Z * Z) => set_assoc (lower (fst p)) (snd p) m) (d_prov s) []; d_prov := d_prov s |}.

(** ** The hub *)
Record hub := { h_dm : dmstate; h_job : jobstate; h_sec : secstate; h_prov : provstate }.
Definition hub_init : hub := {| h_dm := dm_init; h_job := job_init; h_sec := sec_init; h_prov := prov_init |}.

Inductive hop :=
| HDm (o : dmop)
| HJob (o : jobop)
| HSec (o : secop)
| HProv (o : provop)
| HRestart (crash : bool).

Definition with_dm (h : hub) (d : dmstate) : hub := {| h_dm := d; h_job := h_job h; h_sec := h_sec h; h_prov := h_prov h |}.
Definition with_job (h : hub) (j : jobstate) : hub := {| h_dm := h_dm h; h_job := j; h_sec := h_sec h; h_prov := h_prov h |}.

(** one run of an incremental DatasetSource -> DatasetSink job (batch size above the number of changes):
    read the changes of the source since the stored token; write them to the sink; store the new token;
    read the (empty) next page; store the token again; record the result *)
(** a dataset a job can read from / write to locally: registered and not a proxy (a proxy source or sink goes to the
    remote hub, which the driver's environment does not have: the run fails) *)
Definition usable (dm : dmstate) (n : Z) : option dsrec :=
  match assoc n (m_reg dm) with
  | Some r => if Z.eqb (r_kind r) 1 then None else Some r
  | None => None
  end.

Definition job_run (fl : rflags) (j : Z) (h : hub) : hub * res :=
  let js := h_job h in
  match assoc j (d_jcfg js) with
  | None => (h, RNoJob)
  | Some c =>
    let dm := h_dm h in
    let finish (dm' : dmstate) (tok : option Z) (failed : bool) (n : Z) :=
      ({| h_dm := dm';
          h_job := {| m_sched := m_sched js; d_jcfg := d_jcfg js;
                      d_jtok := match tok with Some t => set_assoc j t (d_jtok js) | None => d_jtok js end;
                      d_jhist := set_assoc j (failed, n) (d_jhist js) |};
          h_sec := h_sec h; h_prov := h_prov h |}, if failed then RFailed else ROk) in
    match usable dm (j_src c) with
    | None => finish dm None true 0
    | Some rs =>
      let since := match assoc j (d_jtok js) with Some t => t | None => 0 end in
      let '(out, next) := changes (get_ds (d_data dm) (r_id rs)) since 0 false in
      match out with
      | [] => finish dm (Some next) false 0
      | _ =>
        let n := Z.of_nat (List.length out) in
        match usable dm (j_sink c) with
        | None => finish dm None true n
        | Some rk =>
          let es := map (fun e => {| e_id := en_id e; e_c := en_c e |}) out in
          finish (dm_store fl (r_id rk) es dm) (Some next) false n
        end
      end
    end
  end.

Definition job_step (fl : rflags) (o : jobop) (h : hub) : hub * res :=
  let js := h_job h in
  match o with
  | JAdd j c => (with_job h (job_add (f_delay fl) j c js), ROk)
  | JPause j p =>
    (* changeStatus: LoadJob (an empty configuration when absent: AddJob then fails in verify), set the flag, AddJob *)
    match assoc j (d_jcfg js) with
    | None => (h, RErr)
    | Some c => (with_job h (job_add (f_delay fl) j {| j_paused := p; j_src := j_src c; j_sink := j_sink c;
                                                        j_delay := j_delay c; j_trig := j_trig c |} js), ROk)
    end
  | JDelete j =>
    (* LoadJob, Runner.deleteJob: the configuration object and the cron entries go; token and result stay *)
    (with_job h {| m_sched := adel j (m_sched js); d_jcfg := adel j (d_jcfg js); d_jtok := d_jtok js;
                   d_jhist := d_jhist js |}, ROk)
  | JRun j => job_run fl j h
  end.

(** the jobs whose dataset subscription fires on "dataset.<n>" (ascending job ids) *)
Definition subscribers (js : jobstate) (n : Z) : list Z :=
  flat_map (fun p : Z * bool =>
              if snd p then match assoc (fst p) (d_jcfg js) with
                            | Some c => if Z.eqb (j_trig c) n then [fst p] else []
                            | None => []
                            end
              else []) (m_sched js).

(** the subscriptions a run of job [j] fires: datasetSink.processEntities emits "dataset.<sink>" after a successful
    write unless the sink is in a full sync *)
Definition job_emits (fl : rflags) (j : Z) (h : hub) : list Z :=
  let js := h_job h in
  let dm := h_dm h in
  match assoc j (d_jcfg js) with
  | None => []
  | Some c =>
    match usable dm (j_src c) with
    | None => []
    | Some rs =>
      let since := match assoc j (d_jtok js) with Some t => t | None => 0 end in
      match fst (changes (get_ds (d_data dm) (r_id rs)) since 0 false) with
      | [] => []
      | _ => match usable dm (j_sink c) with
             | None => []
             | Some rk => if amem (r_id rk) (m_fs dm) then [] else subscribers js (j_sink c)
             end
      end
    end
  end.

Fixpoint ins_dup (k : Z) (l : list Z) : list Z :=
  match l with [] => [k] | x :: l' => if k <? x then k :: l else x :: ins_dup k l' end.
Definition sortz (l : list Z) : list Z := fold_right ins_dup [] l.

(** event-triggered runs, delivered one at a time: the jobs triggered by one op run in job-id order; the jobs they
    trigger form the next round (at most [fuel] rounds) *)
Fixpoint drain (fl : rflags) (fuel : nat) (batch : list Z) (h : hub) : hub :=
  match fuel with
  | O => h
  | S fuel' =>
    match batch with
    | [] => h
    | _ =>
      let r := fold_left (fun (a : hub * list Z) j => (fst (job_run fl j (fst a)), snd a ++ job_emits fl j (fst a)))
                         (sortz batch) (h, []) in
      drain fl fuel' (snd r) (fst r)
    end
  end.
Definition drain_rounds : nat := 30.

(** DatahubInstance.Stop + NewDatahubInstance on the same directories *)
Definition reopen (fl : rflags) (crash : bool) (h : hub) : hub :=
  {| h_dm := dm_reopen fl crash (h_dm h);
     h_job := job_reopen (f_delay fl) (h_job h);
     h_sec := restart (f_init fl) (h_sec h);
     h_prov := prov_reopen (h_prov h) |}.

Definition step (fl : rflags) (h : hub) (o : hop) : hub * res :=
  match o with
  | HDm o => let '(d, r) := dm_step fl o (h_dm h) in (with_dm h d, r)
  | HJob o => job_step fl o h
  | HSec o => ({| h_dm := h_dm h; h_job := h_job h; h_sec := sec_step (f_acl fl) (f_init fl) (h_sec h) o;
                  h_prov := h_prov h |}, ROk)
  | HProv o => let '(p, r) := prov_step (f_prov fl) o (h_prov h) in
               ({| h_dm := h_dm h; h_job := h_job h; h_sec := h_sec h; h_prov := p |}, r)
  | HRestart crash => (reopen fl crash h, ROk)
  end.

(** the subscriptions an op fires: a POST that succeeded emits "dataset.<n>" (the handler does, after
    processEntities); a manual job run emits through its sink *)
Definition op_emits (fl : rflags) (h : hub) (o : hop) (h1 : hub) (r : res) : list Z :=
  match o with
  | HDm (DPost n _ _ _ _) => match r with ROk => subscribers (h_job h1) n | _ => [] end
  | HJob (JRun j) => job_emits fl j h
  | _ => []
  end.

(** an op followed by the event-triggered runs it causes, up to quiescence *)
Definition stepd (fl : rflags) (h : hub) (o : hop) : hub * res :=
  let hr := step fl h o in
  (drain fl drain_rounds (op_emits fl h o (fst hr) (snd hr)) (fst hr), snd hr).

Fixpoint run (fl : rflags) (ops : list hop) (h : hub) : hub * list res :=
  match ops with
  | [] => (h, [])
  | o :: ops' =>
    let '(h1, r) := stepd fl h o in
    let '(h2, rs) := run fl ops' h1 in
    (h2, r :: rs)
  end.

(** ** What a caller can see: every read API, canonicalised to lists of integer rows.
    Sections: datasets; next dataset id; deleted set; namespaces; URI ids; jobs; tokens; schedule; last results;
    clients/ACLs of the probed client names; stored providers; live providers; each stored provider as its consumers
    resolve it; full-sync flags;
    then per registered dataset (core.Dataset excepted) its listing, its change feed, its next token,
    its latest-only feed. *)
Definition snap := list (list (list Z)).

Definition bz (b : bool) : Z := if b then 1 else 0.
Definition ref_of (c : content) : Z :=
  match c_refs c with (_, r) :: _ => match rv_tgts r with t :: _ => t | [] => -1 end | [] => -1 end.
Definition val_of (c : content) : Z := match c_props c with (_, p) :: _ => pv_code p | [] => 0 end.
Definition row_of (s : dmstate) (u : uri) (c : content) : list Z :=
  [u; id_of s u; val_of c; ref_of c; bz (c_del c)].

(** the catalogue of ACL entries of the driver: code c = resource /r(c/4), write iff bit 1, deny iff bit 0 *)
Definition res_name (k : Z) : string :=
  (if Z.eqb k 0 then "/r0" else if Z.eqb k 1 then "/r1" else if Z.eqb k 2 then "/r2" else "/r3")%string.
Definition ac_of_code (c : Z) : ac :=
  {| ac_resource := res_name (c / 4);
     ac_action := (if Z.eqb ((c / 2) mod 2) 1 then "write" else "read")%string;
     ac_deny := Z.eqb (c mod 2) 1 |}.
Definition ac_eqb (a b : ac) : bool :=
  String.eqb (ac_resource a) (ac_resource b) && String.eqb (ac_action a) (ac_action b)
  && Bool.eqb (ac_deny a) (ac_deny b).
Definition ac_code (a : ac) : Z :=
  match find (fun c => ac_eqb a (ac_of_code c)) [0;1;2;3;4;5;6;7;8;9;10;11;12;13;14;15] with
  | Some c => c
  | None => -1
  end.

Definition obs_feed (s : dmstate) (id : Z) : list (list (list Z)) :=
  let d := get_ds (d_data s) id in
  let rows l := map (fun e => row_of s (en_id e) (en_c e)) l in
  let '(all, next) := changes d 0 0 false in
  let '(lat, lnext) := changes d 0 0 true in
  [ flat_map (fun k => match stored_latest d k with Some c => [row_of s k c] | None => [] end) (keys_by_id s d);
    rows all; [[next; lnext]]; rows lat ].

Definition obs (clients : list string) (h : hub) : snap :=
  let s := h_dm h in
  let js := h_job h in
  [ map (fun p : Z * dsrec => fst p :: r_id (snd p) :: r_kind (snd p) :: r_cfg (snd p) :: r_pub (snd p)) (m_reg s);
    [[m_next s]];
    [m_del s];
    [m_ns s];
    map (fun p : Z * Z => [fst p; snd p]) (d_ids s);
    map (fun p : Z * jobcfg =>
           [fst p; bz (j_paused (snd p)); j_src (snd p); j_sink (snd p);
            match j_delay (snd p) with Some _ => 1 | None => 0 end;
            match j_delay (snd p) with Some d => d | None => 0 end; j_trig (snd p)]) (d_jcfg js);
    map (fun p : Z * Z => [fst p; snd p]) (d_jtok js);
    [map fst (filter (fun p : Z * bool => snd p) (m_sched js))];
    map (fun p : Z * (bool * Z) => [fst p; bz (fst (snd p)); snd (snd p)]) (d_jhist js);
    map (fun c => bz (match lookup c (mem_clients (h_sec h)) with Some _ => true | None => false end)
                  :: match lookup c (mem_acls (h_sec h)) with
                     | Some l => 1 :: map ac_code l
                     | None => [0]
                     end) clients;
    map (fun p : Z * Z => [fst p; snd p]) (d_prov (h_prov h));
    map (fun p : Z * Z => [fst p; snd p]) (m_tp (h_prov h));
    (* every stored provider resolved the way its consumers do (job sources / sinks / transforms, proxy datasets):
       TokenProviders.Get(strings.ToLower(name)) - found?, the provider *)
    map (fun p : Z * Z => fst p :: match assoc (lower (fst p)) (m_tp (h_prov h)) with
                                   | Some u => [1; u]
                                   | None => [0; 0]
                                   end) (d_prov (h_prov h));
    map (fun p : Z * dsrec => [fst p; bz (amem (r_id (snd p)) (m_fs s))]) (m_reg s) ]
  ++ flat_map (fun p : Z * dsrec => if fst p <? 0 then [] else obs_feed s (r_id (snd p))) (m_reg s).

(** ** The flags *)
Definition eq_pinned : eqflags := {| f_lenkeys := true; f_objneq := true |}.
Definition fl_current : rflags :=
  {| f_acl := AclFileClients; f_init := InitAborts; f_prov := ProvRawKey; f_fs := FsVolatile; f_delay := DelayRescale;
     f_eq := eq_pinned; f_dup := DupStoredAndLocal |}.
Definition fl_fixed : rflags :=
  {| f_acl := AclFileAcls; f_init := InitIndependent; f_prov := ProvLowerKey; f_fs := FsPersisted; f_delay := DelayStable;
     f_eq := eq_pinned; f_dup := DupStoredAndLocal |}.
(** the flags C14 is about are repaired (the data-layer flags are free) *)
Definition sound (fl : rflags) : Prop :=
  f_acl fl = AclFileAcls /\ f_init fl = InitIndependent /\ f_prov fl = ProvLowerKey /\ f_fs fl = FsPersisted
  /\ f_delay fl = DelayStable.
