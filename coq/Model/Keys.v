(** * Byte-level layout of the index keys (internal/server/dataset.go, store.go):
    fixed-width big-endian fields.  Definitions only; Proofs/KeysProofs.v shows that the
    bytewise order Badger iterates in is the lexicographic order of the field values,
    that encoding is injective, and that the byte slices the code reads are the fields. *)
From Coq Require Import List NArith Bool.
Import ListNotations.
Open Scope N_scope.

(** big-endian encoding of [n] in [w] bytes (binary.BigEndian.PutUintXX) *)
Fixpoint be (w : nat) (n : N) : list N :=
  match w with
  | O => []
  | S w' => (n / 256 ^ N.of_nat w') mod 256 :: be w' (n mod 256 ^ N.of_nat w')
  end.

(** bytes.Compare (a < b): a proper prefix is smaller *)
Fixpoint lex_ltb (a b : list N) : bool :=
  match a, b with
  | [], [] => false
  | [], _ :: _ => true
  | _ :: _, [] => false
  | x :: a', y :: b' => (x <? y) || ((x =? y) && lex_ltb a' b')
  end.

(** a key = a list of (width in bytes, value) fields *)
Definition field := (nat * N)%type.
Fixpoint enc (fs : list field) : list N :=
  match fs with [] => [] | (w, v) :: fs' => be w v ++ enc fs' end.

(** decode a big-endian number *)
Definition be_val (bs : list N) : N := fold_left (fun acc b => acc * 256 + b) bs 0.

Fixpoint dec (ws : list nat) (bs : list N) : option (list N) :=
  match ws with
  | [] => match bs with [] => Some [] | _ => None end
  | w :: ws' =>
    if Nat.leb w (length bs) then
      match dec ws' (skipn w bs) with
      | Some vs => Some (be_val (firstn w bs) :: vs)
      | None => None
      end
    else None
  end.

(** lexicographic order of the field values *)
Fixpoint flt (f1 f2 : list field) : bool :=
  match f1, f2 with
  | (_, v1) :: r1, (_, v2) :: r2 => (v1 <? v2) || ((v1 =? v2) && flt r1 r2)
  | _, _ => false
  end.

Definition in_range (fs : list field) : Prop := Forall (fun f => snd f < 256 ^ N.of_nat (fst f)) fs.
Definition in_rangeb (fs : list field) : bool := forallb (fun f => snd f <? 256 ^ N.of_nat (fst f)) fs.

(** ** the five key families (index ids from internal/server/constants.go) *)
Definition widths_version := [2; 8; 4; 8; 2]%nat.     (* idx=1, rid, dataset, time, batch index       : 24 bytes *)
Definition widths_change := [2; 4; 8; 8]%nat.          (* idx=4, dataset, sequence, rid                : 22 bytes *)
Definition widths_latest := [2; 4; 8]%nat.             (* idx=8, dataset, rid                          : 14 bytes *)
Definition widths_ref := [2; 8; 8; 8; 8; 2; 4]%nat.    (* idx=3 outgoing: rid, time, pred, related, deleted, dataset
                                                          idx=2 incoming: related, rid, time, pred, deleted, dataset : 40 bytes *)

Definition vkey (rid ds time bidx : N) : list field := [(2%nat, 1); (8%nat, rid); (4%nat, ds); (8%nat, time); (2%nat, bidx)].
Definition ckey (ds seq rid : N) : list field := [(2%nat, 4); (4%nat, ds); (8%nat, seq); (8%nat, rid)].
Definition lkey (ds rid : N) : list field := [(2%nat, 8); (4%nat, ds); (8%nat, rid)].
Definition okey (rid time pred tgt del ds : N) : list field :=
  [(2%nat, 3); (8%nat, rid); (8%nat, time); (8%nat, pred); (8%nat, tgt); (2%nat, del); (4%nat, ds)].
Definition ikey (tgt rid time pred del ds : N) : list field :=
  [(2%nat, 2); (8%nat, tgt); (8%nat, rid); (8%nat, time); (8%nat, pred); (2%nat, del); (4%nat, ds)].

Definition widths_of_family (fam : N) : list nat :=
  if fam =? 1 then widths_version else if fam =? 4 then widths_change else if fam =? 8 then widths_latest
  else if (fam =? 2) || (fam =? 3) then widths_ref else [].

(** ** checks run on REAL raw keys dumped from Badger (in iteration order) *)
Definition with_widths (ws : list nat) (vs : list N) : list field := combine ws vs.

(** every key decodes with its family's layout, re-encodes to itself, and carries the family's index id *)
Definition raw_key_ok (fam : N) (k : list N) : bool :=
  let ws := widths_of_family fam in
  match dec ws k with
  | Some vs =>
    (match vs with v0 :: _ => v0 =? fam | [] => false end)
    && (fix eqb (a b : list N) := match a, b with
                                  | [], [] => true
                                  | x :: a', y :: b' => (x =? y) && eqb a' b'
                                  | _, _ => false end) (enc (with_widths ws vs)) k
  | None => false
  end.

(** consecutive keys of one family, as Badger returned them, are strictly increasing in the FIELD order *)
Fixpoint raw_sorted (fam : N) (ks : list (list N)) : bool :=
  match ks with
  | k1 :: ((k2 :: _) as rest) =>
    match dec (widths_of_family fam) k1, dec (widths_of_family fam) k2 with
    | Some v1, Some v2 => flt (with_widths (widths_of_family fam) v1) (with_widths (widths_of_family fam) v2)
                          && raw_sorted fam rest
    | _, _ => false
    end
  | _ => true
  end.

Definition raw_family_ok (fam : N) (ks : list (list N)) : bool :=
  forallb (raw_key_ok fam) ks && raw_sorted fam ks.
