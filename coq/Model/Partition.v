(** * Model of the parallel-transform partitioning in
      internal/jobs/pipeline.go, IncrementalPipeline.sync (lines 227-293)
    and of the page loop that feeds it.  Definitions only; proofs are in
    Proofs/PartitionProofs.v so the model still runs when a proof breaks. *)
From Coq Require Import List ZArith Bool.
Import ListNotations.
Open Scope Z_scope.

(** Variant flag: which chunk arithmetic the tree implements.
    [PRound]   : the pinned tree - psize = math.Round(n/p), only [to] is clipped.
    [PCeilClip]: repaired - psize = ceil(n/p), [from] and [to] both clipped to n. *)
Inductive part_mode := PRound | PCeilClip.

(** math.Round(float64 n / float64 p) for n >= 0, p >= 1: round half away
    from zero.  Exact on Z while n, p < 2^26 (DESIGN section 2). *)
Definition round_div (n p : Z) : Z := (2 * n + p) / (2 * p).
Definition ceil_div (n p : Z) : Z := (n + p - 1) / p.

Definition psize_of (m : part_mode) (n par : Z) : Z :=
  match m with PRound => round_div n par | PCeilClip => ceil_div n par end.

(** [parallelisms := getParallelism(); if len(entities) < parallelisms { parallelisms = 1 }] *)
Definition eff_par (n p : Z) : Z := if n <? p then 1 else p.

(** One chunk is the half-open index interval [from, to).  [None] = the Go
    runtime panics (makeslice: len out of range / slice bounds out of range). *)
Definition chunk_bounds (m : part_mode) (n index psize : Z) : option (Z * Z) :=
  let from := match m with
              | PRound => index
              | PCeilClip => if n <? index then n else index
              end in
  let to0 := index + psize in
  let to := if n <=? to0 then n else to0 in
  if (to <? from) || (n <? from) then None else Some (from, to).

(** the [for i := 0; i < parallelisms; i++] loop; [k] = remaining iterations *)
Fixpoint chunk_loop (m : part_mode) (n psize : Z) (k : nat) (index : Z)
  : option (list (Z * Z)) :=
  match k with
  | O => Some []
  | S k' =>
    match chunk_bounds m n index psize with
    | None => None
    | Some c =>
      match chunk_loop m n psize k' (index + psize) with
      | None => None
      | Some cs => Some (c :: cs)
      end
    end
  end.

(** chunks for a page of [n] entities (n >= 1) and configured parallelism [p] *)
Definition chunks (m : part_mode) (n p : Z) : option (list (Z * Z)) :=
  let par := eff_par n p in
  chunk_loop m n (psize_of m n par) (Z.to_nat par) 0.

(** the indices a chunk list hands to the transform, in worker order *)
Fixpoint zrange (from : Z) (len : nat) : list Z :=
  match len with O => [] | S l => from :: zrange (from + 1) l end.
Definition chunk_indices (c : Z * Z) : list Z := zrange (fst c) (Z.to_nat (snd c - fst c)).
Definition covered (cs : list (Z * Z)) : list Z := flat_map chunk_indices cs.

(** ** The transform step on a page of entities *)
Section Transform.
  Context {E : Type}.
  (** slice [l[from:to]] *)
  Definition slice (l : list E) (c : Z * Z) : list E :=
    firstn (Z.to_nat (snd c - fst c)) (skipn (Z.to_nat (fst c)) l).

  (** The transform is a function on a chunk; [None] = it returned an error. *)
  Variable f : list E -> option (list E).

  Fixpoint collect (rs : list (option (list E))) : option (list E) :=
    match rs with
    | [] => Some []
    | None :: _ => None
    | Some r :: rs' => match collect rs' with None => None | Some acc => Some (r ++ acc) end
    end.

  Inductive step_out := SOk (to_sink : list E) | SErr | SPanic.

  (** what the transform saw (list of chunks) and what goes to the sink *)
  Definition transform_page (m : part_mode) (p : Z) (page : list E)
    : list (list E) * step_out :=
    match chunks m (Z.of_nat (length page)) p with
    | None => ([], SPanic)
    | Some cs =>
      let ins := map (slice page) cs in
      (ins, match collect (map f ins) with None => SErr | Some out => SOk out end)
    end.

  (** ** The page loop: pages of at most [b] entities read from the source
      feed starting at the token; every page is transformed and sunk, then the
      token moves.  [sink] accumulates what the sink was given. *)
  Fixpoint pages (b : nat) (fuel : nat) (l : list E) : list (list E) :=
    match fuel with
    | O => []
    | S fuel' =>
      match l with
      | [] => []
      | _ => firstn b l :: pages b fuel' (skipn b l)
      end
    end.

  Inductive run_out := ROk | RErr | RPanic.

  (** returns (chunks seen by the transform, batches given to the sink,
      number of source entities consumed = new token - old token, outcome) *)
  Fixpoint run_pages (m : part_mode) (p : Z) (ps : list (list E))
    : list (list E) * list (list E) * nat * run_out :=
    match ps with
    | [] => ([], [], O, ROk)
    | pg :: rest =>
      match transform_page m p pg with
      | (ins, SOk out) =>
        let '(ins', out', tok, r) := run_pages m p rest in
        (ins ++ ins', out :: out', (length pg + tok)%nat, r)
      | (ins, SErr) => (ins, [], O, RErr)
      | (ins, SPanic) => (ins, [], O, RPanic)
      end
    end.

  Definition run_job (m : part_mode) (p : Z) (b : nat) (src : list E) :=
    run_pages m p (pages b (length src) src).
End Transform.
