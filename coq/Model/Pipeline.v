(** * Model of the copy-job pipelines (property C08)
      internal/jobs/pipeline.go   IncrementalPipeline.sync / FullSyncPipeline.sync
      internal/jobs/source/dataset_source.go, union_source.go (ReadEntities,
        UnionDatasetContinuation.Update)
      internal/jobs/sink.go       datasetSink (processEntities / startFullSync / endFullSync)
      internal/server/dataset.go  StoreEntitiesWithTransaction (skip rule), ProcessChangesRaw
        (+ latestOnlyWrapper), CompleteFullSync
      internal/server/entity.go   IsEntityEqual
    Definitions only; proofs are in Proofs/PipelineProofs.v. *)
From Coq Require Import List ZArith Bool Arith.
Import ListNotations.

(** ** Entities, feeds, latest view *)

(** One stored version of an entity.  The content is two optional string
    properties "ns0:p" and "ns0:q": value code 0 = property absent, code v > 0 =
    the string made of [(v-1)/3+1] copies of the letter 'a'+(v-1) mod 3. *)
Record version := mkV { v_id : Z; v_p : Z; v_q : Z; v_del : bool }.

(** change feed of a dataset, in sequence order (position = change sequence number) *)
Notation feed := (list version) (only parsing).

Definition version_eqb (a b : version) : bool :=
  Z.eqb (v_id a) (v_id b) && Z.eqb (v_p a) (v_p b) && Z.eqb (v_q a) (v_q b)
  && Bool.eqb (v_del a) (v_del b).

(** latest version of entity [i] (the last entry of the feed with that id) *)
Fixpoint cur (f : feed) (i : Z) : option version :=
  match f with
  | [] => None
  | v :: f' => match cur f' i with
               | Some w => Some w
               | None => if Z.eqb (v_id v) i then Some v else None
               end
  end.

Definition ids (f : feed) : list Z := map v_id f.
Definition zmem (i : Z) (l : list Z) : bool := existsb (Z.eqb i) l.

(** ** Variant flags *)

(** write-time equality of dataset.go:
    [EqLen]  the pinned tree (IsEntityEqual): equal JSON length and every key of the
             previous version present with the same value in the new one - the deleted
             flag and keys only in the new version are not compared;
    [EqFull] repaired: equal iff same content and same deleted flag. *)
Inductive eq_mode := EqLen | EqFull.

(** what a fullsync run does with the persisted continuation token:
    [FsKeep]  the pinned tree: the token is only reset in memory; a fullsync that fails
              after it has re-written historical versions leaves the old token;
    [FsReset] repaired: the empty token is persisted when the fullsync starts. *)
Inductive fs_mode := FsKeep | FsReset.

(** in-batch duplicate handling of StoreEntitiesWithTransaction (same flag as Model/Store.v):
    [DupStoredAndLocal]  the pinned tree: skip iff equal to the STORED version and (no in-batch
                         predecessor or equal to it) - a repeated element is stored twice;
    [DupLocalElseStored] repaired: the in-batch predecessor decides if there is one, else the
                         stored version. *)
Inductive dup_mode := DupStoredAndLocal | DupLocalElseStored.

Record variant := mkVar { vm_eq : eq_mode; vm_fs : fs_mode; vm_dup : dup_mode }.

Open Scope Z_scope.
Definition vlen (v : Z) : Z := if v =? 0 then 0 else (v - 1) / 3 + 1.
(** ["ns0:p":"<value>"] = 7 + 1 + (vlen + 2) bytes *)
Definition plen (v : Z) : Z := if v =? 0 then 0 else 10 + vlen v.
(** length of json.Marshal(entity) up to a constant (id, internalId, recorded have a
    fixed width for a given entity): ["deleted":true,] is 15 bytes (omitempty) *)
Definition jlen (x : version) : Z :=
  (if v_del x then 15 else 0) + plen (v_p x) + plen (v_q x)
  + (if (v_p x =? 0) || (v_q x =? 0) then 0 else 1).
(** key of the previous version absent, or present in the new one with the same value *)
Definition sub_prop (prev this : Z) : bool := (prev =? 0) || (prev =? this).

Definition weq (m : eq_mode) (prev this : version) : bool :=
  match m with
  | EqLen => (jlen prev =? jlen this) && sub_prop (v_p prev) (v_p this)
             && sub_prop (v_q prev) (v_q this)
  | EqFull => version_eqb prev this
  end.
Close Scope Z_scope.

(** ** Dataset write: the batch loop of StoreEntitiesWithTransaction *)
Section Write.
  (** the equality used by the skip rule *)
  Variable eqf : version -> version -> bool.

  Variable dm : dup_mode.

  (** pinned: [!isnew && !isDifferent && !isDifferentLocally]: the stored latest version (read
      snapshot taken before the batch) exists and is equal, and the in-batch predecessor
      (localLatests) is absent or equal.  Repaired: [isDifferent = isDifferentLocally] when an
      in-batch predecessor exists.  [w0] = versions already pending in this batch. *)
  Definition skip (snap w0 : feed) (e : version) : bool :=
    match dm with
    | DupStoredAndLocal =>
      match cur snap (v_id e) with Some s => eqf s e | None => false end
      && match cur w0 (v_id e) with Some l => eqf l e | None => true end
    | DupLocalElseStored =>
      match cur w0 (v_id e) with
      | Some l => eqf l e
      | None => match cur snap (v_id e) with Some s => eqf s e | None => false end
      end
    end.

  Fixpoint batch_loop (snap w0 : feed) (es : list version) : feed :=
    match es with
    | [] => w0
    | e :: es' => if skip snap w0 e then batch_loop snap w0 es'
                  else batch_loop snap (w0 ++ [e]) es'
    end.

  (** Dataset.StoreEntities: one change-log entry per kept element *)
  Definition ds_write (f : feed) (es : list version) : feed := f ++ batch_loop f [] es.
End Write.

(** ** Source read: ProcessChangesRaw from [since], at most [limit] emitted *)

(** [rest] = the change log from the current position to its end, [pos] the sequence
    number of its head, [left] = limit - processed (limit >= 1).  With latestOnly an
    entry is emitted only if it is the latest version of its entity, i.e. no later
    entry of the whole feed has the same id; the scan stops when [limit] entities were
    emitted or the log ends.  Returns (page, lastSeen+1), or [pos] if nothing was seen. *)
Fixpoint pc_loop (lo : bool) (rest : feed) (pos left : nat) : list version * nat :=
  match rest with
  | [] => ([], pos)
  | v :: rest' =>
    let emit := if lo then negb (zmem (v_id v) (ids rest')) else true in
    if emit then
      match left with
      | S (S l') => let '(pg, n) := pc_loop lo rest' (S pos) (S l') in (v :: pg, n)
      | _ => ([v], S pos)
      end
    else pc_loop lo rest' (S pos) left
  end.

Definition process_changes (lo : bool) (f : feed) (since limit : nat) : list version * nat :=
  pc_loop lo (skipn since f) since limit.

(** continuation tokens: [None] = the empty string, [Some n] = strconv.Itoa(n) *)
Notation token := (option nat) (only parsing).
Definition asincr (t : token) : nat := match t with Some n => n | None => 0 end.
Definition token_eqb (a b : token) : bool :=
  match a, b with
  | None, None => true
  | Some x, Some y => Nat.eqb x y
  | _, _ => false
  end.

(** ** Faults *)
(** [i] counts calls of the pipeline's processEntities callback in this run (= pages
    handed to the pipeline, the final empty page included), from 0.
    [FSinkFail i]  sink.processEntities returns an error on page i (nothing written);
    [FSinkPanic i] the sink commits page i and the process dies before it returns;
    [FKill i]      the job is cancelled right after the sink wrote page i;
    [FDieBefore i] process death at hook pipeline.beforeToken of page i;
    [FDieAfter i]  process death at hook pipeline.afterToken of page i;
    [FSrcFail i]   the i-th call of source.ReadEntities of this run returns an error before it
                   reads anything (DatasetSource: one call per page; UnionDatasetSource: one call
                   per run, so only i = 0 can fire). *)
Inductive fault := FNone | FSinkFail (i : nat) | FSinkPanic (i : nat) | FKill (i : nat)
                 | FDieBefore (i : nat) | FDieAfter (i : nat) | FSrcFail (i : nat)
                 | FSinkReject (x : Z)   (* the sink refuses every batch that contains entity x *)
                 | FNoSink.              (* the sink dataset does not exist during this run: the sink is
                                            resolved by NAME at every call (DsManager.IsDataset/GetDataset),
                                            never through a handle kept from an earlier run *)
Inductive outcome := OOk | OFailed | ODied.

Definition is_sinkfail (f : fault) (i : nat) := match f with FSinkFail j => Nat.eqb i j | _ => false end.
Definition is_sinkpanic (f : fault) (i : nat) := match f with FSinkPanic j => Nat.eqb i j | _ => false end.
Definition is_kill (f : fault) (i : nat) := match f with FKill j => Nat.eqb i j | _ => false end.
Definition is_diebefore (f : fault) (i : nat) := match f with FDieBefore j => Nat.eqb i j | _ => false end.
Definition is_dieafter (f : fault) (i : nat) := match f with FDieAfter j => Nat.eqb i j | _ => false end.

Definition is_srcfail (f : fault) (i : nat) := match f with FSrcFail j => Nat.eqb i j | _ => false end.

Definition is_nosink (f : fault) := match f with FNoSink => true | _ => false end.
Definition is_reject (f : fault) (page : list version) :=
  match f with FSinkReject x => zmem x (ids page) | _ => false end.
(** sink.processEntities returns an error for this page *)
Definition sink_fails (f : fault) (i : nat) (page : list version) : bool :=
  is_sinkfail f i || is_nosink f || is_reject f page.

Definition nonempty {A} (l : list A) : bool := match l with [] => false | _ => true end.

(** ** The processEntities callback of IncrementalPipeline.sync
    [T] = persisted token state.  Returns the sink, the persisted token and
    [Some o] if the run ends here with outcome [o], [None] if the loop goes on. *)
Definition proc_inc {T} (eqf : version -> version -> bool) (dm : dup_mode) (sink : feed) (stored : T)
    (page : list version) (newtok : T) (idx : nat) (flt : fault) : feed * T * option outcome :=
  if nonempty page && sink_fails flt idx page then (sink, stored, Some OFailed) else
  let sink1 := ds_write eqf dm sink page in                     (* sink.processEntities *)
  if nonempty page && is_sinkpanic flt idx then (sink1, stored, Some ODied) else
  if is_diebefore flt idx then (sink1, stored, Some ODied) else   (* pipeline.beforeToken *)
  (* StoreObject(JobDataIndex, job.id, syncJobState) *)
  if is_dieafter flt idx then (sink1, newtok, Some ODied) else    (* pipeline.afterToken *)
  if negb (nonempty page) then (sink1, newtok, Some OOk) else     (* keepReading = false *)
  if is_kill flt idx then (sink1, newtok, Some OFailed)           (* next callback: "got job interrupt" *)
  else (sink1, newtok, None).

(** the callback of FullSyncPipeline.sync: the token is only captured in memory *)
Definition proc_full (eqf : version -> version -> bool) (dm : dup_mode) (sink : feed)
    (page : list version) (idx : nat) (flt : fault) : feed * option outcome :=
  if nonempty page && sink_fails flt idx page then (sink, Some OFailed) else
  let sink1 := ds_write eqf dm sink page in
  if nonempty page && is_sinkpanic flt idx then (sink1, Some ODied) else
  if negb (nonempty page) then (sink1, Some OOk) else
  if is_kill flt idx then (sink1, Some OFailed)
  else (sink1, None).

(** ** DatasetSource: one ReadEntities = one page, the pipeline loops *)
Fixpoint inc_single (fuel : nat) (eqf : version -> version -> bool) (dm : dup_mode) (lo : bool) (b : nat)
    (src sink : feed) (stored : token) (idx : nat) (flt : fault) : feed * token * outcome :=
  match fuel with
  | O => (sink, stored, OFailed)
  | S fuel' =>
    if is_srcfail flt idx then (sink, stored, OFailed) else      (* ReadEntities returns an error *)
    let '(page, next) := process_changes lo src (asincr stored) b in
    match proc_inc eqf dm sink stored page (Some next) idx flt with
    | (s, t, Some o) => (s, t, o)
    | (s, t, None) => inc_single fuel' eqf dm lo b src s t (S idx) flt
    end
  end.

(** fullsync: [mem] = syncJobState.ContinuationToken in memory, [seen] = the ids the sink
    dataset recorded in fullSyncSeen (every element handed to StoreEntities) *)
Fixpoint full_single (fuel : nat) (eqf : version -> version -> bool) (dm : dup_mode) (lo : bool) (b : nat)
    (src sink : feed) (mem : token) (seen : list Z) (idx : nat) (flt : fault)
    : feed * token * list Z * outcome :=
  match fuel with
  | O => (sink, mem, seen, OFailed)
  | S fuel' =>
    if is_srcfail flt idx then (sink, mem, seen, OFailed) else
    let '(page, next) := process_changes lo src (asincr mem) b in
    match proc_full eqf dm sink page idx flt with
    | (s, Some OOk) => (s, Some next, seen ++ ids page, OOk)
    | (s, Some o) => (s, mem, seen, o)
    | (s, None) => full_single fuel' eqf dm lo b src s (Some next) (seen ++ ids page) (S idx) flt
    end
  end.

(** ** UnionDatasetSource: one ReadEntities walks all member datasets *)
Fixpoint upd {A} (k : nat) (x : A) (l : list A) : list A :=
  match l, k with
  | [], _ => []
  | _ :: l', O => x :: l'
  | y :: l', S k' => y :: upd k' x l'
  end.

(** UnionDatasetContinuation.Update on the in-memory continuation [mem] with active
    index [a]: returns (mem', keepGoing, a') *)
Definition union_update (mem : list token) (a : nat) (newtok : token) : list token * bool * nat :=
  let prev := nth a mem None in
  let mem' := upd a newtok mem in
  if token_eqb newtok prev then
    if S a <? length mem then (mem', true, S a) else (mem', false, a)
  else (mem', true, a).

Fixpoint inc_union (fuel : nat) (eqf : version -> version -> bool) (dm : dup_mode) (los : list bool) (b : nat)
    (srcs : list feed) (sink : feed) (stored mem : list token) (a idx : nat) (flt : fault)
    : feed * list token * outcome :=
  match fuel with
  | O => (sink, stored, OFailed)
  | S fuel' =>
    let '(page, next) := process_changes (nth a los false) (nth a srcs []) (asincr (nth a mem None)) b in
    let '(mem', keep, a') := union_update mem a (Some next) in
    if nonempty page || negb keep then
      match proc_inc eqf dm sink stored page mem' idx flt with
      | (s, t, Some o) => (s, t, o)
      | (s, t, None) => inc_union fuel' eqf dm los b srcs s t mem' a' (S idx) flt
      end
    else inc_union fuel' eqf dm los b srcs sink stored mem' a' idx flt
  end.

Fixpoint full_union (fuel : nat) (eqf : version -> version -> bool) (dm : dup_mode) (los : list bool) (b : nat)
    (srcs : list feed) (sink : feed) (mem : list token) (seen : list Z) (a idx : nat) (flt : fault)
    : feed * list token * list Z * outcome :=
  match fuel with
  | O => (sink, mem, seen, OFailed)
  | S fuel' =>
    let '(page, next) := process_changes (nth a los false) (nth a srcs []) (asincr (nth a mem None)) b in
    let '(mem', keep, a') := union_update mem a (Some next) in
    if nonempty page || negb keep then
      match proc_full eqf dm sink page idx flt with
      | (s, Some OOk) => (s, mem', seen ++ ids page, OOk)
      | (s, Some o) => (s, mem, seen, o)
      | (s, None) => full_union fuel' eqf dm los b srcs s mem' (seen ++ ids page) a' (S idx) flt
      end
    else full_union fuel' eqf dm los b srcs sink mem' seen a' idx flt
  end.

(** ** CompleteFullSync: every entity of the sink whose latest version is live and whose
    id was not seen during the sync is re-written with deleted = true *)
Fixpoint dedup (l : list Z) : list Z :=
  match l with
  | [] => []
  | x :: l' => if zmem x l' then dedup l' else x :: dedup l'
  end.
Definition set_del (v : version) : version := mkV (v_id v) (v_p v) (v_q v) true.
Definition unseen_live (sink : feed) (seen : list Z) : list version :=
  flat_map (fun i => match cur sink i with
                     | Some v => if negb (v_del v) && negb (zmem i seen) then [set_del v] else []
                     | None => []
                     end) (dedup (ids sink)).
Definition complete (eqf : version -> version -> bool) (dm : dup_mode) (sink : feed) (seen : list Z) : feed :=
  ds_write eqf dm sink (unseen_live sink seen).

(** ** One job run on the persisted state *)
Record state := mkSt { st_srcs : list feed; st_sink : feed; st_tok : list token }.
(** the onError handlers of the trigger.  Only [HLog] switches per-entity error handling on
    (instrumentErrorHandling: eh.Type == ErrorHandlerLog; that is property C17, not modelled
    here); [HReQueue] is accepted by the configuration but inert, [HReRun] only schedules another
    run later.  So a run of this model does not look at [r_handlers] at all. *)
Inductive handler := HLog | HReRun | HReQueue.
Record rcfg := mkR { r_full : bool; r_union : bool; r_b : nat; r_los : list bool; r_flt : fault;
                     r_handlers : list handler;
                     r_sinkhttp : bool  (* the sink is an HttpDatasetSink posting to a hub's dataset endpoint *) }.

Definition total_len (srcs : list feed) : nat := fold_right (fun f n => length f + n) 0 srcs.
Definition fuel_of (srcs : list feed) : nat := total_len srcs + 2 * length srcs + 2.
Definition none_tokens (srcs : list feed) : list token := map (fun _ => None) srcs.

Definition run_body (v : variant) (st : state) (r : rcfg) : state * outcome :=
  let eqf := weq (vm_eq v) in
  let dm := vm_dup v in
  let srcs := st_srcs st in
  let fuel := fuel_of srcs in
  if r_full r then
    let stored0 := match vm_fs v with FsKeep => st_tok st | FsReset => none_tokens srcs end in
    if r_union r then
      let '(s, mem, seen, o) :=
        full_union fuel eqf dm (r_los r) (r_b r) srcs (st_sink st) (none_tokens srcs) [] 0 0 (r_flt r) in
      match o with
      | OOk => (mkSt srcs (complete eqf dm s seen) mem, OOk)
      | _ => (mkSt srcs s stored0, o)
      end
    else
      let '(s, mem, seen, o) :=
        full_single fuel eqf dm (nth 0 (r_los r) false) (r_b r) (nth 0 srcs []) (st_sink st) None [] 0 (r_flt r) in
      match o with
      | OOk => (mkSt srcs (complete eqf dm s seen) (upd 0 mem (st_tok st)), OOk)
      | _ => (mkSt srcs s stored0, o)
      end
  else
    if r_union r then
      let '(s, t, o) :=
        inc_union fuel eqf dm (r_los r) (r_b r) srcs (st_sink st) (st_tok st) (st_tok st) 0 0 (r_flt r) in
      (mkSt srcs s t, o)
    else
      let '(s, t, o) :=
        inc_single fuel eqf dm (nth 0 (r_los r) false) (r_b r) (nth 0 srcs []) (st_sink st)
                   (nth 0 (st_tok st) None) 0 (r_flt r) in
      (mkSt srcs s (upd 0 t (st_tok st)), o).

(** the run ends before anything is read or written: the single ReadEntities call of a union
    source fails, or sink.startFullSync does not find the sink dataset.  A fullsync has already
    reset its token in memory / (repaired variant) persisted the empty token. *)
Definition early_fail (r : rcfg) : bool :=
  (r_union r && is_srcfail (r_flt r) 0) || (r_full r && is_nosink (r_flt r)).

Definition run_job (v : variant) (st : state) (r : rcfg) : state * outcome :=
  if early_fail r then
    (mkSt (st_srcs st) (st_sink st)
          (if r_full r then match vm_fs v with FsKeep => st_tok st | FsReset => none_tokens (st_srcs st) end
           else st_tok st), OFailed)
  else run_body v st r.

(** ** Fullsync in "entities mode"
    A fullsync to an HttpDatasetSink puts the source into fullsync mode (source.StartFullSync,
    unless it is a single LatestOnly DatasetSource): the source is then paged through
    Dataset.MapEntities - the latest version of every entity, one page of [batch] entities at a
    time - instead of through the change log; the receiving hub gets full-sync-start with the
    first request and full-sync-end after the last (StartFullSyncWithLease / CompleteFullSync),
    and the job's continuation token is NOT stored.  Modelled for runs that reach the end only:
    no fault, or a receiver that refuses one entity while a [log] handler is configured (the
    wrapped sink splits the refused batch, logs that entity and goes on; the run is recorded
    with the error).  Only the set of delivered versions matters (each entity occurs once). *)
Fixpoint latest (f : feed) : list version :=
  match f with
  | [] => []
  | v :: f' => if zmem (v_id v) (ids f') then latest f' else v :: latest f'
  end.

(** Dataset.MapEntities order = internal id order = order in which the entity URIs were first
    stored; an entity of a source member is first stored by a write to that member (the job copies
    it to the sink afterwards, other writers of the sink use other ids), so within one member
    this is the order of first appearance in its feed. *)
Fixpoint firsts (seen : list Z) (f : feed) : list Z :=
  match f with
  | [] => []
  | v :: f' => if zmem (v_id v) seen then firsts seen f' else v_id v :: firsts (v_id v :: seen) f'
  end.
Definition ents (f : feed) : list version :=
  flat_map (fun i => match cur f i with Some w => [w] | None => [] end) (firsts [] f).
(** the first request of the run: the first page of the first member that has entities *)
Definition first_page (b : nat) (srcs : list feed) : list version :=
  firstn b (hd [] (filter nonempty (map ents srcs))).

Definition entities_mode (r : rcfg) : bool :=
  r_full r && r_sinkhttp r && negb (negb (r_union r) && nth 0 (r_los r) false).

Definition is_log (h : handler) : bool := match h with HLog => true | _ => false end.
Definition rejected (r : rcfg) : option Z :=
  match r_flt r with
  | FSinkReject x => if existsb is_log (r_handlers r) then Some x else None
  | _ => None
  end.

Definition run_entities (v : variant) (st : state) (r : rcfg) : state * outcome :=
  let eqf := weq (vm_eq v) in
  let dm := vm_dup v in
  let all := flat_map latest (st_srcs st) in
  let deliv := match rejected r with
               | Some x => filter (fun w => negb (Z.eqb (v_id w) x)) all
               | None => all
               end in
  let s1 := ds_write eqf dm (st_sink st) deliv in
  (* if the receiver refuses the FIRST request it never sees full-sync-start (the sink has already
     cleared isFirstBatch): everything else is stored as plain batches and full-sync-end is
     answered 410 "no active fullsync lease" - the run fails at the end and nothing is deleted *)
  let refused_first := match rejected r with
                       | Some x => zmem x (ids (first_page (r_b r) (st_srcs st)))
                       | None => false
                       end in
  let s2 := if refused_first then s1 else complete eqf dm s1 (ids deliv) in
  (mkSt (st_srcs st) s2
        (match vm_fs v with FsKeep => st_tok st | FsReset => none_tokens (st_srcs st) end),
   match rejected r with
   | Some x => if zmem x (ids all) then OFailed else OOk
   | None => OOk
   end).

Definition run_any (v : variant) (st : state) (r : rcfg) : state * outcome :=
  if entities_mode r then run_entities v st r else run_job v st r.

(** ** Histories: source writes, foreign writes to the sink dataset, job runs *)
Inductive op :=
| OWrite (k : nat) (es : list version)      (* a batch stored into source dataset k *)
| OSinkWrite (es : list version)            (* somebody else writes into the sink dataset *)
| ODropSink                                 (* DsManager.DeleteDataset(sink): its content is gone for good *)
| OCreateSink                               (* the sink dataset is created (again, empty) under its name *)
| ORun (r : rcfg).

Definition step (v : variant) (st : state) (o : op) : state * option outcome :=
  match o with
  | OWrite k es =>
    (mkSt (upd k (ds_write (weq (vm_eq v)) (vm_dup v) (nth k (st_srcs st) []) es) (st_srcs st))
          (st_sink st) (st_tok st), None)
  | OSinkWrite es =>
    (mkSt (st_srcs st) (ds_write (weq (vm_eq v)) (vm_dup v) (st_sink st) es) (st_tok st), None)
  | ODropSink => (mkSt (st_srcs st) [] (st_tok st), None)
  | OCreateSink => (st, None)
  | ORun r => let '(st', o) := run_any v st r in (st', Some o)
  end.

(** all states along a history, one per operation, with the run outcomes *)
Fixpoint exec (v : variant) (st : state) (h : list op) : list (state * option outcome) :=
  match h with
  | [] => []
  | o :: h' => let '(st', out) := step v st o in (st', out) :: exec v st' h'
  end.

Definition final (v : variant) (st : state) (h : list op) : state :=
  fold_left (fun s o => fst (step v s o)) h st.

Definition init_state (n : nat) : state := mkSt (repeat [] n) [] (repeat None n).

(** ** The specification (what the property text says), as predicates on states *)

(** entity [i] has a change at or after position [t] of [src] *)
Definition pending (src : feed) (t : nat) (i : Z) : Prop := In i (ids (skipn t src)).

(** "the token never points past data that was not written to the sink": every entity of
    the source whose sink version is not the one the prefix [0,t) ends with still has a
    change at or after [t] *)
Definition safe1 (src : feed) (t : nat) (sink : feed) : Prop :=
  t <= length src /\
  forall i, In i (ids src) -> pending src t i \/ cur sink i = cur (firstn t src) i.

(** union sources: member datasets own disjoint id sets ([owner i] = index of the member
    that may contain entity [i]; ids owned by no member are foreign to the job) *)
Definition owned (owner : Z -> nat) (srcs : list feed) : Prop :=
  forall k v, In v (nth k srcs []) -> owner (v_id v) = k.

Definition token_safe (st : state) : Prop :=
  length (st_tok st) = length (st_srcs st) /\
  forall k, k < length (st_srcs st) ->
    safe1 (nth k (st_srcs st) []) (asincr (nth k (st_tok st) None)) (st_sink st).

(** sink = source on every entity the source(s) ever contained, tokens at the end *)
Definition converged (st : state) : Prop :=
  length (st_tok st) = length (st_srcs st) /\
  forall k, k < length (st_srcs st) ->
    nth k (st_tok st) None = Some (length (nth k (st_srcs st) [])) /\
    forall i, In i (ids (nth k (st_srcs st) [])) -> cur (st_sink st) i = cur (nth k (st_srcs st) []) i.

(** an entity of the sink that no source member contains is absent or deleted *)
Definition foreign_deleted (st : state) : Prop :=
  forall i, (forall k, ~ In i (ids (nth k (st_srcs st) []))) ->
    match cur (st_sink st) i with Some w => v_del w = true | None => True end.

(** well-formed histories for ownership function [owner] and [n] members *)
Definition wf_op (owner : Z -> nat) (n : nat) (o : op) : Prop :=
  match o with
  | OWrite k es => k < n /\ forall v, In v es -> owner (v_id v) = k
  | OSinkWrite es => forall v, In v es -> n <= owner (v_id v)
  | ODropSink => False       (* deleting the sink under a job is outside the guarantee: see nosink lemmas *)
  | OCreateSink => True
  | ORun r => 1 <= r_b r /\ 1 <= n /\ (r_union r = false -> n = 1) /\ ~ In HLog (r_handlers r)
              /\ entities_mode r = false   (* entities-mode fullsyncs: see run_entities lemmas *)   (* a DatasetSource job has one source dataset *)
  end.
