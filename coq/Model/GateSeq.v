(** * The gate over time: sequences of requests through one middleware instance.
      internal/web/middlewares/authentication.go  JWTHandler (one closure per echo instance, called once per request)
      golang-jwt v4  RegisteredClaims.Valid: expired iff now >= exp, not yet valid iff now < nbf (both optional)
    A token string denotes time-independent facts plus its exp / nbf instants; what the jwt library finds at the
    moment of a request is [facts_at now].  The pinned JWTHandler keeps nothing between requests ([CacheNone]);
    [CacheVerified] is the (hypothetical) handler that remembers bearer strings it accepted once - it is here so
    that the statelessness theorem says something.  Definitions only; proofs in Proofs/GateSeqProofs.v. *)
From Coq Require Import List String Bool NArith.
From DH Require Import Model.Acl Model.Jwt Model.Gate.
Import ListNotations.
Open Scope string_scope.

Record ttoken := {
  tt_facts : tokfacts;        (* signer, alg, kid, aud, iss, sub, roles; its f_expired / f_notyet are ignored *)
  tt_exp : option N;          (* exp claim *)
  tt_nbf : option N           (* nbf claim *)
}.

Definition facts_at (now : N) (tt : ttoken) : tokfacts :=
  let f := tt_facts tt in
  {| f_wellformed := f_wellformed f; f_alg := f_alg f; f_signer := f_signer f; f_kid := f_kid f;
     f_expired := match tt_exp tt with Some e => N.leb e now | None => false end;
     f_notyet := match tt_nbf tt with Some n => N.ltb now n | None => false end;
     f_aud := f_aud f; f_iss := f_iss f; f_sub := f_sub f; f_roles := f_roles f |}.

Record tworld := {
  tw_cfg : jwtcfg;
  tw_routes : list croute;
  tw_tokens : string -> ttoken;
  tw_acls : string -> option (list ac)
}.

Definition world_at (tw : tworld) (now : N) : world :=
  {| w_cfg := tw_cfg tw; w_routes := tw_routes tw; w_oracle := fun s => facts_at now (tw_tokens tw s);
     w_acls := tw_acls tw |}.

Record rq := { rq_time : N; rq_auth : string; rq_method : string; rq_path : string }.

Inductive cache_mode := CacheNone | CacheVerified.

Fixpoint cache_lookup (t : string) (cache : list (string * N)) : option N :=
  match cache with
  | [] => None
  | (k, t0) :: rest => if k =? t then Some t0 else cache_lookup t rest
  end.

(** one request: the answer and the handler's memory afterwards.  With [CacheVerified] a bearer string found in
    the memory is treated as at the instant it was first accepted; an accepted string is remembered. *)
Definition gate_step (cm : cache_mode) (v : variant) (tw : tworld) (cache : list (string * N)) (r : rq)
  : (outcome * string) * list (string * N) :=
  match cm with
  | CacheNone => (decide v (world_at tw (rq_time r)) (rq_auth r) (rq_method r) (rq_path r), cache)
  | CacheVerified =>
      match extract_token (rq_auth r) with
      | Some t =>
          match cache_lookup t cache with
          | Some t0 => (decide v (world_at tw t0) (rq_auth r) (rq_method r) (rq_path r), cache)
          | None =>
              let now := rq_time r in
              (decide v (world_at tw now) (rq_auth r) (rq_method r) (rq_path r),
               match authenticate v (world_at tw now) (rq_auth r) (rq_path r) with
               | Accepted _ => (t, now) :: cache
               | _ => cache
               end)
          end
      | None => (decide v (world_at tw (rq_time r)) (rq_auth r) (rq_method r) (rq_path r), cache)
      end
  end.

Fixpoint gate_run_from (cm : cache_mode) (v : variant) (tw : tworld) (cache : list (string * N)) (rs : list rq)
  : list (outcome * string) :=
  match rs with
  | [] => []
  | r :: rest => let '(o, cache') := gate_step cm v tw cache r in o :: gate_run_from cm v tw cache' rest
  end.

(** a fresh process *)
Definition gate_run (cm : cache_mode) (v : variant) (tw : tworld) (rs : list rq) : list (outcome * string) :=
  gate_run_from cm v tw [] rs.

(** ** Spec: the answer to a request depends on the request and the instant it arrives, on nothing before it *)
Definition stateless_answers (v : variant) (tw : tworld) (rs : list rq) : list (outcome * string) :=
  map (fun r => decide v (world_at tw (rq_time r)) (rq_auth r) (rq_method r) (rq_path r)) rs.
