(** * C19 - the dataset catalogue, core.Dataset and the datasets themselves
    (internal/server/dsmanager.go CreateDataset / UpdateDataset / DeleteDataset / GetDatasetDetails,
     internal/server/dataset.go StoreEntitiesWithTransaction [newitems] / updateDataset,
     internal/server/store.go ExecuteTransaction).
    Built on Model/Store.v: core.Dataset is an ordinary dataset of the store model (code 1) that
    holds one meta entity per dataset name.  Definitions only. *)
From Coq Require Import List ZArith Bool.
From DH Require Import Model.Store.
Import ListNotations.
Open Scope Z_scope.

(** ** the batch loop of Model/Store.v extended with [known] (URIs that already have an internal
    id: assertIDForURI) and the [newitems] counter, statement by statement:
      rid, isnew := assertIDForURI(e.ID)
      if !isnew { stored/local lookups; if prevEntity == nil { newitems++ } }
      if !isnew && !isDifferent && !isDifferentLocally { continue }
      ... store ...; if isnew { newitems++ }; assert ids of predicates and reference targets *)
Definition zmem (x : Z) (l : list Z) : bool := existsb (Z.eqb x) l.

Definition ref_uris (c : content) : list uri :=
  flat_map (fun kv => fst kv :: rv_tgts (snd kv)) (c_refs c).

Record cacc := { k_acc : bacc; k_kn : list uri; k_new : Z }.

Definition cstep (fl : eqflags) (dm : dup_mode) (snap : dstate) (t : Z)
           (a : cacc) (ie : Z * ent) : cacc :=
  let '(i, e) := ie in
  let id := e_id e in
  let c := e_c e in
  let acc := k_acc a in
  let isnew := negb (zmem id (k_kn a)) in
  let stored := if isnew then None else stored_latest snap id in
  let loc := if isnew then None else assoc id (a_loc acc) in
  let prev_nil := match stored, loc with None, None => true | _, _ => false end in
  let n1 := if negb isnew && prev_nil then k_new a + 1 else k_new a in
  if isnew || keep_decision fl dm stored loc c then
    let en := {| en_seq := a_next acc; en_id := id; en_time := t; en_bidx := i; en_c := c |} in
    {| k_acc := {| a_loc := (id, c) :: a_loc acc;
                   a_pend := a_pend acc ++ [en];
                   a_latest := (id, (t, i)) :: a_latest acc;
                   a_next := a_next acc + 1 |};
       k_kn := id :: ref_uris c ++ k_kn a;
       k_new := if isnew then n1 + 1 else n1 |}
  else {| k_acc := acc; k_kn := k_kn a; k_new := n1 |}.

(** one dataset's share of a batch / transaction: new dataset state, new [known], newitems *)
Definition cbatch (fl : eqflags) (dm : dup_mode) (t : Z) (ents : list ent) (d : dstate) (kn : list uri)
  : dstate * list uri * Z :=
  let acc0 := {| k_acc := {| a_loc := []; a_pend := []; a_latest := d_latest d; a_next := d_next d |};
                 k_kn := kn; k_new := 0 |} in
  let a := fold_left (cstep fl dm d t) (number_from 0 ents) acc0 in
  ({| d_entries := d_entries d ++ a_pend (k_acc a); d_latest := a_latest (k_acc a); d_next := a_next (k_acc a) |},
   k_kn a, k_new a).

(** distinct entity ids ever stored in a dataset = distinct ids of its change log *)
Definition dids (d : dstate) : list uri := map en_id (d_entries d).
Fixpoint ndistinct (l : list Z) : Z :=
  match l with
  | [] => 0
  | x :: l' => if zmem x l' then ndistinct l' else 1 + ndistinct l'
  end.

(** ** meta entities *)
Record settings := { s_kind : Z;          (* 0 = plain dataset; other codes: one proxy / virtual configuration each *)
                     s_pub : option Z }.  (* code of the public-namespaces list; None = none *)
Record meta := { m_name : Z; m_set : settings; m_items : Z; m_del : bool }.

Definition CORE_NAME : Z := 0.      (* "core.Dataset" *)
Definition CORE_DS : Z := 1.        (* its internal dataset id: the first one handed out *)
Definition meta_uri (n : Z) : uri := 100000 + n.   (* "<dataset-ns>:<name>"; user entity URIs are below 100000 *)
Definition K_NAME : Z := 1.
Definition K_ITEMS : Z := 2.
Definition K_KIND : Z := 3.         (* stands for the proxy / virtual configuration properties *)
Definition K_PUB : Z := 4.
Definition P_TYPE : uri := 200001.  (* rdf:type *)
Definition type_uri (kind : Z) : uri := 200100 + kind.

Definition pv (z : Z) : pval := {| pv_code := z; pv_obj := false |}.

Definition digits (z : Z) : Z :=
  if z <? 10 then 1 else if z <? 100 then 2 else if z <? 1000 then 3 else if z <? 10000 then 4
  else if z <? 100000 then 5 else if z <? 1000000 then 6 else 7.

(** serialized length, up to a constant per name: what IsEntityEqual's length shortcut can see of a
    meta entity (",\"deleted\":true" = 15 bytes; a publicNamespaces member is at least 29 bytes;
    kinds and list contents are told apart by the value comparison) *)
Definition meta_len (m : meta) : Z :=
  1000 + (if s_kind (m_set m) =? 0 then 0 else 100)
  + (match s_pub (m_set m) with Some _ => 40 | None => 0 end)
  + digits (m_items m) + (if m_del m then 15 else 0).

Definition meta_content (m : meta) : content :=
  {| c_del := m_del m;
     c_props := [(K_NAME, pv (m_name m)); (K_ITEMS, pv (m_items m))]
                ++ (if s_kind (m_set m) =? 0 then [] else [(K_KIND, pv (s_kind (m_set m)))])
                ++ (match s_pub (m_set m) with Some p => [(K_PUB, pv p)] | None => [] end);
     c_refs := [(P_TYPE, {| rv_arr := false; rv_tgts := [type_uri (s_kind (m_set m))] |})];
     c_len := meta_len m |}.

Definition prop_code (k : Z) (c : content) : option Z := option_map pv_code (assoc k (c_props c)).
Definition meta_parse (c : content) : meta :=
  {| m_name := match prop_code K_NAME c with Some z => z | None => -1 end;
     m_set := {| s_kind := match prop_code K_KIND c with Some z => z | None => 0 end;
                 s_pub := prop_code K_PUB c |};
     m_items := match prop_code K_ITEMS c with Some z => z | None => 0 end;   (* absent: count starts from 0 *)
     m_del := c_del c |}.

Definition with_items (m : meta) (i : Z) : meta := {| m_name := m_name m; m_set := m_set m; m_items := i; m_del := m_del m |}.
Definition with_del (m : meta) (b : bool) : meta := {| m_name := m_name m; m_set := m_set m; m_items := m_items m; m_del := b |}.
Definition with_name (m : meta) (n : Z) : meta := {| m_name := n; m_set := m_set m; m_items := m_items m; m_del := m_del m |}.
Definition with_pub (m : meta) (p : option Z) : meta :=
  {| m_name := m_name m; m_set := {| s_kind := s_kind (m_set m); s_pub := p |}; m_items := m_items m; m_del := m_del m |}.

(** ** variant flags: one per deviation of the pinned tree *)
Record cflags := {
  cf_eq : eqflags;          (* write-time equality (F01a, F02b of the store core) *)
  cf_dup : dup_mode;        (* in-batch duplicates (F02a) *)
  cf_count_core : bool;     (* true = repaired: core.Dataset's own items counter is maintained (F19c) *)
  cf_txn_pub : bool;        (* true = repaired: public namespaces written through a transaction on core.Dataset reach the dataset record (F19d) *)
  cf_rm_pub : bool;         (* true = repaired: removing the publicNamespaces property reaches the dataset record (F19e) *)
  cf_rmw_atomic : bool      (* true = repaired: the counter's read-modify-write cannot be interleaved with another actor's
                               operation on the same meta entity (F19b); only [do_pair] looks at it *)
}.

(** ** the catalogue *)
Record dsrec := { r_code : Z; r_set : settings }.
Record cat := {
  k_st : store;
  k_reg : list (Z * dsrec);   (* store.datasets: name -> dataset (internal id, configuration) *)
  k_next : Z;                 (* nextDatasetID *)
  k_known : list uri
}.
Definition cat0 : cat := {| k_st := store0; k_reg := []; k_next := 1; k_known := [] |}.

Definition reg_del (n : Z) (reg : list (Z * dsrec)) : list (Z * dsrec) :=
  filter (fun p => negb (Z.eqb (fst p) n)) reg.
Definition reg_set (n : Z) (r : dsrec) (reg : list (Z * dsrec)) : list (Z * dsrec) := (n, r) :: reg_del n reg.

Definition with_reg (k : cat) (reg : list (Z * dsrec)) : cat :=
  {| k_st := k_st k; k_reg := reg; k_next := k_next k; k_known := k_known k |}.

(** GetEntity(<meta uri>, [core.Dataset]): the latest version in core.Dataset *)
Definition read_meta (k : cat) (n : Z) : option meta :=
  option_map meta_parse (stored_latest (get_ds (k_st k) CORE_DS) (meta_uri n)).

(** core.Dataset.StoreEntities([meta entity]) without its updateDataset: returns newitems *)
Definition core_write (fl : cflags) (k : cat) (id : uri) (m : meta) : cat * Z :=
  let st1 := tick (k_st k) in
  let '(d', kn', ni) := cbatch (cf_eq fl) (cf_dup fl) (s_clock st1)
                               [{| e_id := id; e_c := meta_content m |}] (get_ds st1 CORE_DS) (k_known k) in
  ({| k_st := set_ds st1 CORE_DS d'; k_reg := k_reg k; k_next := k_next k; k_known := kn' |}, ni).

(** updateDataset on core.Dataset: the public namespaces of the written entity go to the dataset its
    name property names (looked up by name, whatever the entity's id or deleted flag) *)
Definition set_rec_pub (n : Z) (p : option Z) (reg : list (Z * dsrec)) : list (Z * dsrec) :=
  match assoc n reg with
  | Some r => reg_set n {| r_code := r_code r; r_set := {| s_kind := s_kind (r_set r); s_pub := p |} |} reg
  | None => reg
  end.
Definition writeback (fl : cflags) (via_txn : bool) (m : meta) (reg : list (Z * dsrec)) : list (Z * dsrec) :=
  if via_txn && negb (cf_txn_pub fl) then reg          (* ExecuteTransaction passes no entities to updateDataset *)
  else match s_pub (m_set m) with
       | Some p => set_rec_pub (m_name m) (Some p) reg
       | None => if cf_rm_pub fl then set_rec_pub (m_name m) None reg else reg   (* newNamespaces == nil: skipped *)
       end.

(** a complete write of one meta entity to core.Dataset (batch, or transaction naming only core.Dataset).
    Pinned tree: core.Dataset takes the public-namespaces branch of updateDataset and its own counter is
    skipped; repaired ([cf_count_core]): the counter branch runs as well. *)
Definition core_store (fl : cflags) (via_txn : bool) (k : cat) (id : uri) (m : meta) : cat :=
  let '(k1, ni) := core_write fl k id m in
  let k2 := with_reg k1 (writeback fl via_txn m (k_reg k1)) in
  if cf_count_core fl && (0 <? ni) then
    match read_meta k2 CORE_NAME with
    | Some mc => fst (core_write fl k2 (meta_uri CORE_NAME) (with_items mc (m_items mc + ni)))
    | None => k2
    end
  else k2.

(** updateDataset for an ordinary dataset: read-modify-write of its meta entity *)
Definition update_dataset (fl : cflags) (k : cat) (n : Z) (ni : Z) : cat :=
  if Z.eqb n CORE_NAME then k
  else if 0 <? ni then
    match read_meta k n with
    | Some m => core_store fl false k (meta_uri n) (with_items m (m_items m + ni))
    | None => k
    end
  else k.

Inductive cop :=
| OCreate (n : Z) (s : settings)
| ODelete (n : Z)
| ORename (n m : Z)
| OSetPub (n : Z) (p : option Z) (via_txn : bool)   (* a client rewrites the meta entity with other public namespaces *)
| OBatch (n : Z) (ents : list ent)
| OTxn (sets : list (Z * list ent)).

Definition fresh_meta (n : Z) (s : settings) : meta := {| m_name := n; m_set := s; m_items := 0; m_del := false |}.

Definition do_create (fl : cflags) (k : cat) (n : Z) (s : settings) : cat :=
  match assoc n (k_reg k) with
  | Some _ => k
  | None =>
    let k1 := {| k_st := k_st k; k_reg := reg_set n {| r_code := k_next k; r_set := s |} (k_reg k);
                 k_next := k_next k + 1; k_known := k_known k |} in
    core_store fl false k1 (meta_uri n) (fresh_meta n s)
  end.

Definition do_delete (fl : cflags) (k : cat) (n : Z) : cat :=
  if Z.eqb n CORE_NAME then k else
  match assoc n (k_reg k) with
  | None => k
  | Some _ =>
    let k1 := with_reg k (reg_del n (k_reg k)) in
    match read_meta k1 n with
    | Some m => core_store fl false k1 (meta_uri n) (with_del m true)
    | None => k1
    end
  end.

Definition do_rename (fl : cflags) (k : cat) (n n' : Z) : cat :=
  if Z.eqb n CORE_NAME then k else
  match assoc n (k_reg k) with
  | None => k
  | Some r =>
    if Z.eqb n' n then k else
    match assoc n' (k_reg k) with
    | Some _ => k
    | None =>
      let k1 := with_reg k (reg_set n' r (reg_del n (k_reg k))) in
      match read_meta k1 n with
      | Some m =>
        let k2 := core_store fl false k1 (meta_uri n) (with_del m true) in
        core_store fl false k2 (meta_uri n') (with_name (with_del m false) n')
      | None => k1
      end
    end
  end.

Definition do_setpub (fl : cflags) (k : cat) (n : Z) (p : option Z) (via_txn : bool) : cat :=
  match assoc n (k_reg k) with
  | None => k
  | Some _ =>
    match read_meta k n with
    | Some m => core_store fl via_txn k (meta_uri n) (with_pub m p)
    | None => k
    end
  end.

(** A client edits several meta entities of core.Dataset's latest view - of existing datasets, or tombstones of
    deleted ones - and posts them back in ONE batch to core.Dataset.  The posted ids are pairwise distinct, so the
    batch stores exactly the versions that one-entity batches in the same order would store (only commit times and
    batch indexes differ, which nothing here observes); the model writes them one after the other.  updateDataset
    then walks over ALL posted entities: each is synced on its own, an entity naming no dataset is skipped. *)
Definition setpub_any (fl : cflags) (k : cat) (n : Z) (p : option Z) : cat :=
  match read_meta k n with
  | Some m => core_store fl false k (meta_uri n) (with_pub m p)
  | None => k
  end.
Definition do_setpubm (fl : cflags) (k : cat) (l : list (Z * option Z)) : cat :=
  fold_left (fun k' (np : Z * option Z) => setpub_any fl k' (fst np) (snd np)) l k.

Definition with_st_kn (k : cat) (st : store) (kn : list uri) : cat :=
  {| k_st := st; k_reg := k_reg k; k_next := k_next k; k_known := kn |}.

(** StoreEntitiesWithTransaction on dataset [n] at time [t] *)
Definition write_ds (fl : cflags) (t : Z) (k : cat) (code : Z) (ents : list ent) : cat * Z :=
  let '(d', kn', ni) := cbatch (cf_eq fl) (cf_dup fl) t ents (get_ds (k_st k) code) (k_known k) in
  (with_st_kn k (set_ds (k_st k) code d') kn', ni).

Definition do_batch (fl : cflags) (k : cat) (n : Z) (ents : list ent) : cat :=
  if Z.eqb n CORE_NAME then k else     (* raw client writes to core.Dataset are outside this model *)
  match ents with [] => k | _ =>
  match assoc n (k_reg k) with
  | None => k
  | Some r =>
    let k1 := with_st_kn k (tick (k_st k)) (k_known k) in
    let '(k2, ni) := write_ds fl (s_clock (k_st k1)) k1 (r_code r) ents in
    update_dataset fl k2 n ni
  end end.

Definition do_txn (fl : cflags) (k : cat) (sets : list (Z * list ent)) : cat :=
  if existsb (fun p => Z.eqb (fst p) CORE_NAME) sets then k else
  if forallb (fun p => match assoc (fst p) (k_reg k) with Some _ => true | None => false end) sets then
    let k1 := with_st_kn k (tick (k_st k)) (k_known k) in
    let t := s_clock (k_st k1) in
    let '(k2, counts) :=
      fold_left (fun (a : cat * list (Z * Z)) (p : Z * list ent) =>
                   match assoc (fst p) (k_reg (fst a)) with
                   | Some r => let '(k', ni) := write_ds fl t (fst a) (r_code r) (snd p) in (k', snd a ++ [(fst p, ni)])
                   | None => a
                   end) sets (k1, []) in
    fold_left (fun k' (c : Z * Z) => update_dataset fl k' (fst c) (snd c)) counts k2
  else k.

Definition apply_cop (fl : cflags) (k : cat) (o : cop) : cat :=
  match o with
  | OCreate n s => do_create fl k n s
  | ODelete n => do_delete fl k n
  | ORename n m => do_rename fl k n m
  | OSetPub n p via => do_setpub fl k n p via
  | OBatch n ents => do_batch fl k n ents
  | OTxn sets => do_txn fl k sets
  end.

(** ** one forced two-actor schedule (the only concurrency in this model): actor 1 runs the batch
    [(n, ents)] and is stopped in updateDataset after it has read its meta entity (it holds the write
    lock of [n], nothing else); actor 2 runs [b] to completion; actor 1 stores its (now stale) copy.
    If [b] needs the write lock of [n] (a batch, transaction or rename on [n]) it waits: actor 1 first. *)
Definition needs_lock (n : Z) (b : cop) : bool :=
  match b with
  | OBatch n' _ => Z.eqb n' n
  | OTxn sets => existsb (fun p => Z.eqb (fst p) n) sets
  | ORename n' _ => Z.eqb n' n
  | _ => false
  end.

Definition do_pair (fl : cflags) (k : cat) (n : Z) (ents : list ent) (b : cop) : cat :=
  if cf_rmw_atomic fl || needs_lock n b then apply_cop fl (do_batch fl k n ents) b
  else if Z.eqb n CORE_NAME then apply_cop fl k b else
  match ents with [] => apply_cop fl k b | _ =>
  match assoc n (k_reg k) with
  | None => apply_cop fl k b
  | Some r =>
    let k1 := with_st_kn k (tick (k_st k)) (k_known k) in
    let '(k2, ni) := write_ds fl (s_clock (k_st k1)) k1 (r_code r) ents in
    if 0 <? ni then
      match read_meta k2 n with
      | Some m => core_store fl false (apply_cop fl k2 b) (meta_uri n) (with_items m (m_items m + ni))
      | None => apply_cop fl k2 b
      end
    else apply_cop fl k2 b
  end end.

(** NewDsManager: core.Dataset is created first *)
Definition plain : settings := {| s_kind := 0; s_pub := None |}.
Definition cat_init (fl : cflags) : cat := do_create fl cat0 CORE_NAME plain.
Definition run_cops (fl : cflags) (ops : list cop) : cat := fold_left (apply_cop fl) ops (cat_init fl).

(** ** what the property talks about *)
Definition exists_ds (k : cat) (n : Z) : bool := match assoc n (k_reg k) with Some _ => true | None => false end.
Definition items_of (k : cat) (n : Z) : option Z := option_map m_items (read_meta k n).
Definition distinct_of (k : cat) (n : Z) : Z :=
  match assoc n (k_reg k) with Some r => ndistinct (dids (get_ds (k_st k) (r_code r))) | None => 0 end.

(** live meta entities of core.Dataset's latest view: (entity id, name property) *)
Definition live_metas (k : cat) : list (uri * Z) :=
  let d := get_ds (k_st k) CORE_DS in
  flat_map (fun id => match stored_latest d id with
                      | Some c => if c_del c then [] else [(id, m_name (meta_parse c))]
                      | None => [] end) (latest_keys d).

(** every version of the name's meta entity, in the order of core.Dataset's change feed *)
Definition meta_versions (k : cat) (n : Z) : list meta :=
  map (fun e => meta_parse (en_c e))
      (filter (fun e => Z.eqb (en_id e) (meta_uri n)) (d_entries (get_ds (k_st k) CORE_DS))).

(** the variants *)
Definition mkflags (cc tp rp ra : bool) : cflags :=
  {| cf_eq := {| f_lenkeys := true; f_objneq := true |}; cf_dup := DupStoredAndLocal;
     cf_count_core := cc; cf_txn_pub := tp; cf_rm_pub := rp; cf_rmw_atomic := ra |}.
Definition fl_current : cflags := mkflags false false false false.
Definition fl_fixed : cflags :=
  {| cf_eq := eq_full; cf_dup := DupLocalElseStored; cf_count_core := true; cf_txn_pub := true; cf_rm_pub := true;
     cf_rmw_atomic := true |}.
