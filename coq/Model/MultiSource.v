(** * C18 - MultiSource: dependency tracking re-emits every affected main entity.

    Model M of internal/jobs/source/multi_source.go (ReadEntities, processDependency, findChanges,
    incrementalRead, grabWatermarks), multi_source_dep_builder.go (DedupAndTrackImplicitDependencies and
    the track_queries chain reversal) and of the pipeline loops of internal/jobs/pipeline.go that drive it,
    over an abstract graph store: per dataset a change feed of versions (id, references, deleted flag,
    commit time).  The relation queries (Store.GetRelatedAtTime) are specified directly as "the references
    of the latest non-deleted version at the query instant" (property C03 covers their implementation).
    Definitions only; proofs are in Proofs/MultiSourceProofs.v. *)
From Coq Require Import List ZArith NArith Bool Arith.
Import ListNotations.

(** ** The abstract graph store *)

Record ver := mkVer { v_id : N; v_refs : list (N * N) (* predicate, target *); v_del : bool; v_time : Z }.
Definition feed := list ver.
(** datasets are numbered in creation order (= order of Go's internal dataset ids) *)
Record hub := mkHub { h_feeds : list feed; h_clock : Z }.
Definition feed_of (h : hub) (k : nat) : feed := nth k (h_feeds h) [].
Definition lenz (f : feed) : Z := Z.of_nat (length f).

Definition vis (t : Z) (i : N) (v : ver) : bool := N.eqb (v_id v) i && Z.leb (v_time v) t.
(** the latest version of entity [i] committed at or before [t] (last one in feed order) *)
Fixpoint latest_at (f : feed) (t : Z) (i : N) : option ver :=
  match f with
  | [] => None
  | v :: f' => match latest_at f' t i with
               | Some w => Some w
               | None => if vis t i v then Some v else None
               end
  end.

(** the references of [e] that are live at [t] in one dataset: those of its latest version, none if deleted *)
Definition live_refs (f : feed) (t : Z) (e : N) : list (N * N) :=
  match latest_at f t e with
  | Some v => if v_del v then [] else v_refs v
  | None => []
  end.

Definition pair_eqb (p e : N) (r : N * N) : bool := N.eqb (fst r) p && N.eqb (snd r) e.

(** GetRelatedAtTime, outgoing: targets of [e]'s live [p]-references owned by a dataset of [scope] *)
Definition out_related (h : hub) (scope : list nat) (t : Z) (p e : N) : list N :=
  flat_map (fun k => map snd (filter (fun r => N.eqb (fst r) p) (live_refs (feed_of h k) t e))) scope.
(** GetRelatedAtTime, incoming: entities of a dataset of [scope] with a live [p]-reference to [e] *)
Definition in_related (h : hub) (scope : list nat) (t : Z) (p e : N) : list N :=
  flat_map (fun k => filter (fun r => existsb (pair_eqb p e) (live_refs (feed_of h k) t r))
                            (map v_id (feed_of h k))) scope.

Record join := mkJoin { j_ds : nat; j_pred : N; j_inv : bool }.
Record dep := mkDep { d_ds : nat; d_joins : list join }.
(** [c_deps] is the effective dependency list (explicit + implicit, deduplicated) *)
Record cfg := mkCfg { c_main : nat; c_deps : list dep; c_latest : bool }.

Definition related (h : hub) (scope : list nat) (t : Z) (j : join) (e : N) : list N :=
  if j_inv j then in_related h scope t (j_pred j) e else out_related h scope t (j_pred j) e.

Fixpoint memN (x : N) (l : list N) : bool :=
  match l with [] => false | y :: l' => N.eqb x y || memN x l' end.
Fixpoint dedup (l : list N) : list N :=
  match l with [] => [] | x :: l' => if memN x l' then dedup l' else x :: dedup l' end.

(** ** Variants *)
(** F18a: several dependencies on the same dataset share one token; the tree advances it when the FIRST of
    them is done ([SharedEager]): the later ones take their previous-run instant from the advanced token and
    the token is persisted before their results are delivered.  Repaired: positions are read from the token
    the call started with and the shared token moves when the LAST dependency of the dataset is done. *)
Inductive shared_mode := SharedEager | SharedSnapshot.
(** F18b: the previous-run state of the first outgoing hop is queried at the commit TIME of the last
    processed change ([PrevTime]); a page boundary inside one write batch (equal times) then sees the new
    versions.  Repaired: the dependency dataset as it stood at the token (feed prefix). *)
Inductive prev_mode := PrevTime | PrevFeed.
(** F18c: GetChangesWatermark of an EMPTY dataset returns the position of the neighbouring key in the
    change-log index (the feed length of the nearest non-empty dataset with a lower internal id, core.Dataset
    at the bottom) instead of 0. *)
Inductive wm_mode := WmNeighbour | WmOwn.
(** F18d: with LatestOnly, a superseded change is skipped entirely ([SkipDrop]); when a page boundary falls
    between it and the entity's latest change, the links the entity had at the previous run are never
    queried.  Repaired: skipped changes still get the previous-run query. *)
Inductive skip_mode := SkipDrop | SkipPrev.
Record variant := mkVar { f_shared : shared_mode; f_prev : prev_mode; f_wm : wm_mode; f_skip : skip_mode }.
Definition v_cur := mkVar SharedEager PrevTime WmNeighbour SkipDrop.
Definition v_fixed := mkVar SharedSnapshot PrevFeed WmOwn SkipPrev.

(** ** Tokens (MultiDatasetContinuation) *)
Record tokens := mkTok { t_main : Z; t_deps : list (nat * Z) }.
Fixpoint tok_get (l : list (nat * Z)) (k : nat) : Z :=
  match l with
  | [] => 0%Z
  | (k', z) :: l' => if Nat.eqb k k' then z else tok_get l' k
  end.
Fixpoint tok_set (l : list (nat * Z)) (k : nat) (z : Z) : list (nat * Z) :=
  match l with
  | [] => [(k, z)]
  | (k', z') :: l' => if Nat.eqb k k' then (k, z) :: l'
                      else if Nat.ltb k k' then (k, z) :: (k', z') :: l'
                      else (k', z') :: tok_set l' k z
  end.
Definition dtok (t : tokens) (k : nat) : Z := tok_get (t_deps t) k.

(** ** Dataset.ProcessChanges *)
Fixpoint dropz (n : Z) (l : feed) : feed :=
  match l with
  | [] => []
  | x :: l' => if Z.leb n 0 then l else dropz (n - 1) l'
  end.
Fixpoint firstz (n : Z) (l : feed) : feed :=
  match l with
  | [] => []
  | x :: l' => if Z.leb n 0 then [] else x :: firstz (n - 1) l'
  end.
Definition nthz (f : feed) (n : Z) : option ver :=
  if Z.ltb n 0 then None else match dropz n f with x :: _ => Some x | [] => None end.

Definition superseded (x : ver) (later : feed) : bool := existsb (fun w => N.eqb (v_id w) (v_id x)) later.

(** [l] = the entries from position [pos] on; [n] = processed so far.  Returns the processed entries, the
    entries skipped by latestOnlyWrapper, and the next token (lastSeen + 1). *)
Fixpoint scan (l : feed) (pos : Z) (limit n : nat) (latest : bool) : list ver * list ver * Z :=
  match l with
  | [] => ([], [], pos)
  | x :: l' =>
    if latest && superseded x l' then
      let '(r, s, c) := scan l' (pos + 1) limit n latest in (r, x :: s, c)
    else if Nat.eqb (S n) limit then ([x], [], (pos + 1)%Z)
    else let '(r, s, c) := scan l' (pos + 1) limit (S n) latest in (x :: r, s, c)
  end.
Definition changes (f : feed) (since : Z) (limit : nat) (latest : bool) : list ver * list ver * Z :=
  match dropz since f with
  | [] => ([], [], since)
  | l => scan l since limit 0 latest
  end.

(** ** processDependency: walking the joins *)
Fixpoint set_nth {A} (k : nat) (x : A) (l : list A) : list A :=
  match l, k with
  | [], _ => []
  | _ :: l', O => x :: l'
  | y :: l', S k' => y :: set_nth k' x l'
  end.
(** the hub with dataset [k] as it stood when its feed had [n] entries *)
Definition cut_hub (h : hub) (k : nat) (n : Z) : hub :=
  mkHub (set_nth k (firstz n (feed_of h k)) (h_feeds h)) (h_clock h).

Inductive prevview := PvNone | PvTime (t : Z) | PvHub (h : hub).
Definition prev_related (h : hub) (pv : prevview) (scope : list nat) (now : Z) (j : join) (e : N) : list N :=
  match pv with
  | PvNone => []
  | PvTime t => related h scope t j e
  | PvHub h' => related h' scope now j e
  end.

(** [cur]: start points queried at the query instant (and, on the first outgoing hop, at the previous-run
    view); [old]: start points queried at the previous-run view only (repair of F18d) *)
Fixpoint walk (h : hub) (now : Z) (pv : prevview) (first : bool) (prev : nat) (js : list join)
         (cur old : list N) : list N :=
  match js with
  | [] => cur
  | j :: js' =>
    let scope := [prev; j_ds j] in
    let back := first && negb (j_inv j) in
    let found := flat_map (fun e => related h scope now j e
                                    ++ (if back then prev_related h pv scope now j e else [])) cur
                 ++ (if back then flat_map (fun e => prev_related h pv scope now j e) old else []) in
    walk h now pv false (j_ds j) js' (dedup found) []
  end.

Definition main_live (h : hub) (main : nat) (m : N) : bool :=
  match latest_at (feed_of h main) (h_clock h) m with
  | Some v => negb (v_del v)
  | None => false
  end.

Definition prev_view (v : variant) (h : hub) (k : nat) (since : Z) : prevview :=
  if Z.leb since 0 then PvNone
  else match f_prev v with
       | PrevTime => match nthz (feed_of h k) (since - 1) with
                     | Some x => PvTime (v_time x)
                     | None => PvNone
                     end
       | PrevFeed => PvHub (cut_hub h k since)
       end.

Definition dep_targets (v : variant) (c : cfg) (h : hub) (dp : dep) (since : Z) (ids skipped : list N) : list N :=
  match d_joins dp with
  | [] => []
  | js => filter (main_live h (c_main c))
                 (walk h (h_clock h) (prev_view v h (d_ds dp) since) true (d_ds dp) js ids
                       (match f_skip v with SkipDrop => [] | SkipPrev => skipped end))
  end.

(** ** One ReadEntities call *)
(** one call of the pipeline's processEntities: entities handed to the sink (none = sink not invoked), then
    the token that is persisted *)
Record call := mkCall { k_ents : list N; k_tok : tokens }.

Fixpoint split_chunks (b : nat) (l : list N) (cur : list N) (k : nat) : list (list N) * list N :=
  match l with
  | [] => ([], rev cur)
  | x :: l' => if Nat.eqb (S k) b
               then let '(cs, r) := split_chunks b l' [] 0 in (rev (x :: cur) :: cs, r)
               else split_chunks b l' (x :: cur) (S k)
  end.

Definition same_ds (k : nat) (d : dep) : bool := Nat.eqb (d_ds d) k.

Definition dep_step (v : variant) (c : cfg) (h : hub) (tk0 : tokens) (b : nat) (d : tokens) (dp : dep)
           (later : list dep) : list call * tokens :=
  let k := d_ds dp in
  let since0 := dtok tk0 k in   (* findChanges is cached per call: the page is the one of the first dependency *)
  let since := match f_shared v with SharedEager => dtok d k | SharedSnapshot => since0 end in
  let '(vs, sk, cont) := changes (feed_of h k) since0 b (c_latest c) in
  let ts := dep_targets v c h dp since (map v_id vs) (map v_id sk) in
  let '(full, rem) := split_chunks b ts [] 0 in
  let hold := match f_shared v with SharedEager => false | SharedSnapshot => existsb (same_ds k) later end in
  let d' := if hold then d else mkTok (t_main d) (tok_set (t_deps d) k cont) in
  (map (fun es => mkCall es d) full ++ match rem with [] => [] | _ => [mkCall rem d'] end, d').

Fixpoint deps_steps (v : variant) (c : cfg) (h : hub) (tk0 : tokens) (b : nat) (d : tokens) (dps : list dep)
  : list call * tokens :=
  match dps with
  | [] => ([], d)
  | dp :: rest =>
    let '(cs, d1) := dep_step v c h tk0 b d dp rest in
    let '(cs', d2) := deps_steps v c h tk0 b d1 rest in
    (cs ++ cs', d2)
  end.

(** calls, token at the end, "the main page was not empty" (the pipeline reads another page) *)
Definition read_page (v : variant) (c : cfg) (h : hub) (tk0 : tokens) (b : nat) : list call * tokens * bool :=
  let '(cs, d) := deps_steps v c h tk0 b tk0 (c_deps c) in
  let '(vs, _, cont) := changes (feed_of h (c_main c)) (t_main tk0) b (c_latest c) in
  let d' := mkTok cont (t_deps d) in
  (cs ++ [mkCall (map v_id vs) d'], d', match vs with [] => false | _ => true end).

(** IncrementalPipeline.sync: ReadEntities is repeated while the main page is not empty *)
Fixpoint inc_pages (v : variant) (c : cfg) (h : hub) (b : nat) (fuel : nat) (tk : tokens) : list call :=
  match fuel with
  | O => []
  | S fuel' =>
    let '(cs, tk', more) := read_page v c h tk b in
    if more then cs ++ inc_pages v c h b fuel' tk' else cs
  end.

(** ** Full sync *)
Fixpoint wm_scan (l : list feed) (core : Z) : Z :=
  match l with
  | [] => core
  | [] :: l' => wm_scan l' core
  | f :: _ => lenz f
  end.
(** Dataset.GetChangesWatermark; [core] = length of core.Dataset's change feed (observed, tree variant only) *)
Definition watermark (v : variant) (h : hub) (core : Z) (k : nat) : Z :=
  match f_wm v with
  | WmOwn => lenz (feed_of h k)
  | WmNeighbour => wm_scan (rev (firstn (S k) (h_feeds h))) core
  end.
Definition wm_tokens (v : variant) (c : cfg) (h : hub) (core : Z) : list (nat * Z) :=
  fold_left (fun l dp => tok_set l (d_ds dp) (watermark v h core (d_ds dp))) (c_deps c) [].

(** the main dataset read from [pos] in pages of [b]: the non-empty pages and the final token *)
Fixpoint full_pages (c : cfg) (h : hub) (b : nat) (fuel : nat) (pos : Z) : list (list N) * Z :=
  match fuel with
  | O => ([], pos)
  | S fuel' =>
    let '(vs, _, cont) := changes (feed_of h (c_main c)) pos b (c_latest c) in
    match vs with
    | [] => ([], cont)
    | _ => let '(ps, fin) := full_pages c h b fuel' cont in (map v_id vs :: ps, fin)
    end
  end.

(** ** A job run as a list of events *)
Definition wver := (N * list (N * N) * bool)%type.
Inductive ev :=
| EvAppend (k : nat) (vs : list wver)                 (* versions appended to dataset k by one write *)
| EvCall (ents : list N) (tok : option tokens).       (* entities handed to the sink; token persisted after *)

(** the sink fails at its [fail]-th invocation (calls without entities do not invoke it) *)
Fixpoint cut_calls (cs : list (list N * option tokens)) (fail : option nat) (n : nat) : list ev * bool :=
  match cs with
  | [] => ([], true)
  | (es, tk) :: cs' =>
    match es with
    | [] => let '(r, ok) := cut_calls cs' fail n in (EvCall es tk :: r, ok)
    | _ => if match fail with Some i => Nat.eqb i n | None => false end then ([], false)
           else let '(r, ok) := cut_calls cs' fail (S n) in (EvCall es tk :: r, ok)
    end
  end.

Definition fuel_of (h : hub) (c : cfg) : nat := S (length (feed_of h (c_main c))).

Definition run_events (v : variant) (c : cfg) (h : hub) (job : option tokens) (full : bool) (b : nat)
           (fail : option nat) (core : Z) : list ev * bool :=
  match (if full then None else job) with
  | None =>
    (* FullSyncPipeline.sync (also taken by an incremental run without a token): watermarks first, then the
       main dataset from 0; the token is stored once, at the end *)
    let wm := wm_tokens v c h core in
    let '(ps, fin) := full_pages c h b (fuel_of h c) 0 in
    cut_calls (map (fun es => (es, None)) ps ++ [([], Some (mkTok fin wm))]) fail 0
  | Some tk =>
    cut_calls (map (fun k => (k_ents k, Some (k_tok k))) (inc_pages v c h b (fuel_of h c) tk)) fail 0
  end.

Fixpoint last_tok (evs : list ev) (job : option tokens) : option tokens :=
  match evs with
  | [] => job
  | EvCall _ (Some t) :: evs' => last_tok evs' (Some t)
  | _ :: evs' => last_tok evs' job
  end.

(** ** Histories *)
Inductive op :=
| OAppend (k : nat) (vs : list wver)
| ORun (full : bool) (b : nat) (fail : option nat) (core : Z)
(* a full sync DURING which, right after its [k]-th successful sink call, another writer appends [vs] to dataset
   [ds] (not the main dataset) *)
| ORunMid (b : nat) (fail : option nat) (core : Z) (k : nat) (ds : nat) (vs : list wver)
(* an incremental run DURING which, right after its [k]-th successful sink call (i.e. from inside the pipeline's
   batch callback), another writer appends [vs] to dataset [ds]; modelled for dependencies on pairwise distinct
   datasets and [ds] not the main dataset; a full sync when the job has no token yet *)
| ORunMidInc (b : nat) (fail : option nat) (core : Z) (k : nat) (ds : nat) (vs : list wver).

(** [e] placed right after the [k]-th call that invoked the sink; false when there is no such call *)
Fixpoint insert_mid (evs : list ev) (k : nat) (e : ev) : list ev * bool :=
  match evs with
  | [] => ([], false)
  | EvCall (x :: es) t :: r =>
    match k with
    | O => (EvCall (x :: es) t :: e :: r, true)
    | S k' => let '(r', i) := insert_mid r k' e in (EvCall (x :: es) t :: r', i)
    end
  | a :: r => let '(r', i) := insert_mid r k e in (a :: r', i)
  end.

(** *** an incremental run with a write from inside the batch callback *)
(** the calls of one step as events; [e] (the write) goes right after the call that is the [k]-th sink invocation
    of the run ([n] = invocations so far); returns the events, the new count, "the write happened in this step" *)
Fixpoint emit_calls (cs : list call) (n k : nat) (e : ev) : list ev * nat * bool :=
  match cs with
  | [] => ([], n, false)
  | c :: cs' =>
    let ec := EvCall (k_ents c) (Some (k_tok c)) in
    match k_ents c with
    | [] => let '(r, n', w) := emit_calls cs' n k e in (ec :: r, n', w)
    | _ => if Nat.eqb n k
           then let '(r, n', _) := emit_calls cs' (S n) k e in (ec :: e :: r, n', true)
           else let '(r, n', w) := emit_calls cs' (S n) k e in (ec :: r, n', w)
    end
  end.

(** the dependencies in turn: each one reads its changes and takes its query instant when its turn comes, so a
    dependency that is processed after the write sees it ([h1]); the results of the dependency during whose batch
    callback the write lands were computed before it ([h0]) *)
Fixpoint deps_steps_mid (v : variant) (c : cfg) (h0 h1 : hub) (tk0 : tokens) (b : nat) (d : tokens) (dps : list dep)
         (n k : nat) (e : ev) (w : bool) : list ev * tokens * nat * bool :=
  match dps with
  | [] => ([], d, n, w)
  | dp :: rest =>
    let '(cs, d1) := dep_step v c (if w then h1 else h0) tk0 b d dp rest in
    let '(es, n1, w1) := emit_calls cs n k e in
    let '(es', d2, n2, w2) := deps_steps_mid v c h0 h1 tk0 b d1 rest n1 k e (w || w1) in
    (es ++ es', d2, n2, w2)
  end.

Definition read_page_mid (v : variant) (c : cfg) (h0 h1 : hub) (tk0 : tokens) (b : nat) (n k : nat) (e : ev) (w : bool)
  : list ev * tokens * bool * nat * bool :=
  let '(es, d, n1, w1) := deps_steps_mid v c h0 h1 tk0 b tk0 (c_deps c) n k e w in
  let '(vs, _, cont) := changes (feed_of (if w1 then h1 else h0) (c_main c)) (t_main tk0) b (c_latest c) in
  let d' := mkTok cont (t_deps d) in
  let '(em, n2, w2) := emit_calls [mkCall (map v_id vs) d'] n1 k e in
  (es ++ em, d', match vs with [] => false | _ => true end, n2, w1 || w2).

Fixpoint inc_pages_mid (v : variant) (c : cfg) (h0 h1 : hub) (b : nat) (fuel : nat) (tk : tokens) (n k : nat) (e : ev)
         (w : bool) : list ev :=
  match fuel with
  | O => []
  | S fuel' =>
    let '(es, tk', more, n', w') := read_page_mid v c h0 h1 tk b n k e w in
    if more then es ++ inc_pages_mid v c h0 h1 b fuel' tk' n' k e w' else es
  end.

(** the sink fails at its [fail]-th invocation: everything from there on (a later write included) does not happen *)
Fixpoint cut_evs (evs : list ev) (fail : option nat) (n : nat) : list ev * bool :=
  match evs with
  | [] => ([], true)
  | EvCall (x :: es) t :: r =>
    if match fail with Some i => Nat.eqb i n | None => false end then ([], false)
    else let '(r', ok) := cut_evs r fail (S n) in (EvCall (x :: es) t :: r', ok)
  | a :: r => let '(r', ok) := cut_evs r fail n in (a :: r', ok)
  end.

Fixpoint has_append (evs : list ev) : bool :=
  match evs with [] => false | EvAppend _ _ :: _ => true | _ :: r => has_append r end.

Record state := mkSt { s_hub : hub; s_job : option tokens }.
Definition init_state (n : nat) : state := mkSt (mkHub (repeat [] n) 0) None.

Definition append_hub (h : hub) (k : nat) (vs : list wver) : hub :=
  let t := (h_clock h + 1)%Z in
  mkHub (set_nth k (feed_of h k ++ map (fun x => mkVer (fst (fst x)) (snd (fst x)) (snd x) t) vs) (h_feeds h)) t.

(** new state, events of the step, "the run ended without error" *)
Definition step (v : variant) (c : cfg) (s : state) (o : op) : state * list ev * bool :=
  match o with
  | OAppend k vs => (mkSt (append_hub (s_hub s) k vs) (s_job s), [EvAppend k vs], true)
  | ORun full b fail core =>
    let '(evs, ok) := run_events v c (s_hub s) (s_job s) full b fail core in
    (mkSt (s_hub s) (last_tok evs (s_job s)), evs, ok)
  | ORunMid b fail core k ds vs =>
    (* the main dataset is not written, so the pages are those of the hub the run started on; the watermarks were
       taken by StartFullSync *)
    let '(evs, ok) := run_events v c (s_hub s) (s_job s) true b fail core in
    let '(evs', ins) := insert_mid evs k (EvAppend ds vs) in
    (mkSt (if ins then append_hub (s_hub s) ds vs else s_hub s) (last_tok evs' (s_job s)), evs', ok)
  | ORunMidInc b fail core k ds vs =>
    match s_job s with
    | None =>
      let '(evs, ok) := run_events v c (s_hub s) None true b fail core in
      let '(evs', ins) := insert_mid evs k (EvAppend ds vs) in
      (mkSt (if ins then append_hub (s_hub s) ds vs else s_hub s) (last_tok evs' None), evs', ok)
    | Some tk =>
      let h1 := append_hub (s_hub s) ds vs in
      let '(evs, ok) := cut_evs (inc_pages_mid v c (s_hub s) h1 b (fuel_of (s_hub s) c) tk 0 k (EvAppend ds vs) false)
                                fail 0 in
      (mkSt (if has_append evs then h1 else s_hub s) (last_tok evs (Some tk)), evs, ok)
    end
  end.

Fixpoint exec (v : variant) (c : cfg) (s : state) (ops : list op) : state * list ev :=
  match ops with
  | [] => (s, [])
  | o :: ops' =>
    let '(s1, e1, _) := step v c s o in
    let '(s2, e2) := exec v c s1 ops' in
    (s2, e1 ++ e2)
  end.

(** ** The dependency list MultiSource builds (ParseDependencies / DedupAndTrackImplicitDependencies) *)
Definition join_eqb (a b : join) : bool :=
  Nat.eqb (j_ds a) (j_ds b) && N.eqb (j_pred a) (j_pred b) && Bool.eqb (j_inv a) (j_inv b).
Fixpoint joins_eqb (a b : list join) : bool :=
  match a, b with
  | [], [] => true
  | x :: a', y :: b' => join_eqb x y && joins_eqb a' b'
  | _, _ => false
  end.
Definition dep_eqb (a b : dep) : bool := Nat.eqb (d_ds a) (d_ds b) && joins_eqb (d_joins a) (d_joins b).

(** every proper suffix of a join path that does not start in the main dataset *)
Fixpoint suffix_deps (main : nat) (js : list join) : list dep :=
  match js with
  | [] => []
  | j :: js' => (if Nat.eqb (j_ds j) main then [] else [mkDep (j_ds j) js']) ++ suffix_deps main js'
  end.
(** keeps the first occurrence *)
Fixpoint dedup_deps (seen : list dep) (l : list dep) : list dep :=
  match l with
  | [] => []
  | d :: l' => if existsb (dep_eqb d) seen then dedup_deps seen l' else d :: dedup_deps (d :: seen) l'
  end.
Definition effective_deps (main : nat) (declared : list dep) : list dep :=
  dedup_deps [] (declared ++ flat_map (fun d => suffix_deps main (d_joins d)) declared).

(** track_queries: a chain of hops as written in the transform, from the main dataset outwards
    (dataset reached, predicate, inverse as in the query), turned into a dependency *)
Record thop := mkHop { th_ds : nat; th_pred : N; th_inv : bool }.
Fixpoint chain_joins (prev : nat) (chain : list thop) (acc : list join) : list join * nat :=
  match chain with
  | [] => (acc, prev)
  | s :: chain' => chain_joins (th_ds s) chain' (mkJoin prev (th_pred s) (negb (th_inv s)) :: acc)
  end.
Definition dep_of_chain (main : nat) (chain : list thop) : dep :=
  let '(js, last) := chain_joins main chain [] in mkDep last js.

(** ** Spec S: the graph as triples, join paths *)
Definition triple_at (h : hub) (k : nat) (t : Z) (s p o : N) : Prop :=
  exists v, latest_at (feed_of h k) t s = Some v /\ v_del v = false /\ In (p, o) (v_refs v).
(** one declared hop from [x] to [y]: a [p]-reference owned by one of the two datasets of the hop, from [x]
    to [y], or from [y] to [x] when the hop is inverse *)
Definition hop_rel (h : hub) (scope : list nat) (t : Z) (j : join) (x y : N) : Prop :=
  exists k, In k scope /\
            if j_inv j then triple_at h k t y (j_pred j) x else triple_at h k t x (j_pred j) y.
Fixpoint path (h : hub) (t : Z) (prev : nat) (js : list join) (x m : N) : Prop :=
  match js with
  | [] => x = m
  | j :: js' => exists y, hop_rel h [prev; j_ds j] t j x y /\ path h t (j_ds j) js' y m
  end.
(** connected as the graph stands now *)
Definition connected_now (h : hub) (dp : dep) (x m : N) : Prop :=
  d_joins dp <> [] /\ path h (h_clock h) (d_ds dp) (d_joins dp) x m.
(** connected through a first OUTGOING hop as the dependency dataset stood when its feed had [since]
    entries (the previous run), the rest of the path as the graph stands now *)
Definition connected_prev (h : hub) (dp : dep) (since : Z) (x m : N) : Prop :=
  match d_joins dp with
  | [] => False
  | j :: js' => j_inv j = false /\ 0 < since /\
                exists y, hop_rel (cut_hub h (d_ds dp) since) [d_ds dp; j_ds j] (h_clock h) j x y
                          /\ path h (h_clock h) (j_ds j) js' y m
  end%Z.
(** what the declared joins of [dp] require for a change of dependency entity [x]: main entity [m] is live and
    connected to [x] now, or through a first outgoing hop of the previous-run state ([since] = the position the
    job had reached in [dp]'s dataset) *)
Definition required (c : cfg) (h : hub) (dp : dep) (since : Z) (x m : N) : Prop :=
  (connected_now h dp x m \/ connected_prev h dp since x m) /\ main_live h (c_main c) m = true.

(** ** Traces *)
Fixpoint replay (evs : list ev) (h : hub) (job : option tokens) : hub * option tokens :=
  match evs with
  | [] => (h, job)
  | EvAppend k vs :: evs' => replay evs' (append_hub h k vs) job
  | EvCall _ (Some t) :: evs' => replay evs' h (Some t)
  | EvCall _ None :: evs' => replay evs' h job
  end.
Fixpoint ents_of (evs : list ev) : list N :=
  match evs with
  | [] => []
  | EvCall es _ :: evs' => es ++ ents_of evs'
  | _ :: evs' => ents_of evs'
  end.
Fixpoint no_append (evs : list ev) : Prop :=
  match evs with
  | [] => True
  | EvAppend _ _ :: _ => False
  | _ :: evs' => no_append evs'
  end.

(** The change at position [p] of [dp]'s dataset has been handled: at some moment of the history at which the
    change existed ([tr1] = the history up to that moment, [h1] the hub, [tk1] the persisted job token = the
    "previous run"), the job handed to the sink ([tr2])
    - before any further write, every main entity the declared joins require for it (graph as it stands at that
      moment; first outgoing hop also as the dependency dataset stood at the persisted position, which is not
      past [p]), or
    - every main entity that was live at that moment (a full sync). *)
Definition covered (c : cfg) (n : nat) (tr : list ev) (dp : dep) (p : Z) : Prop :=
  exists tr1 tr2 tr3 h1 job1 x,
    tr = tr1 ++ tr2 ++ tr3 /\ replay tr1 (s_hub (init_state n)) None = (h1, job1) /\
    nthz (feed_of h1 (d_ds dp)) p = Some x /\
    ((exists tk1, no_append tr2 /\ job1 = Some tk1 /\ (dtok tk1 (d_ds dp) <= p)%Z /\
                  forall m, required c h1 dp (dtok tk1 (d_ds dp)) (v_id x) m -> In m (ents_of tr2))
     \/ (forall m, main_live h1 (c_main c) m = true -> In m (ents_of tr2))).

(** the job has caught up with every dependency dataset *)
Definition caught_up (c : cfg) (s : state) : Prop :=
  exists tk, s_job s = Some tk /\
             forall dp, In dp (c_deps c) -> dtok tk (d_ds dp) = lenz (feed_of (s_hub s) (d_ds dp)).

Definition batch_ok (c : cfg) (o : op) : Prop :=
  match o with
  | ORun _ b _ _ => (1 <= b)%nat
  | ORunMid b _ _ _ ds _ => (1 <= b)%nat /\ ds <> c_main c
  | ORunMidInc _ _ _ _ _ _ => False    (* writes during incremental runs: modelled and checked, outside the theorems *)
  | OAppend _ _ => True
  end.
Definition sound (v : variant) : Prop := f_shared v = SharedSnapshot /\ f_prev v = PrevFeed /\ f_wm v = WmOwn.

(** ** LatestOnly: what is required for a change that LatestOnly skips *)
(** the entry [x] at position [p] of feed [f] is superseded by a later change of the same entity (LatestOnly
    sources do not process it) *)
Definition skipped (c : cfg) (f : feed) (p : Z) (x : ver) : bool :=
  c_latest c && superseded x (dropz (p + 1) f).
(** for a processed change everything of [required]; for a skipped one still the main entities its entity was
    connected to through a first outgoing hop at the previous run (what it is connected to NOW is required for the
    entity's latest change, which is not skipped) *)
Definition required_l (c : cfg) (h : hub) (dp : dep) (since p : Z) (x : ver) (m : N) : Prop :=
  ((skipped c (feed_of h (d_ds dp)) p x = false /\ connected_now h dp (v_id x) m)
   \/ connected_prev h dp since (v_id x) m)
  /\ main_live h (c_main c) m = true.
Definition covered_l (c : cfg) (n : nat) (tr : list ev) (dp : dep) (p : Z) : Prop :=
  exists tr1 tr2 tr3 h1 job1 x,
    tr = tr1 ++ tr2 ++ tr3 /\ replay tr1 (s_hub (init_state n)) None = (h1, job1) /\
    nthz (feed_of h1 (d_ds dp)) p = Some x /\
    ((exists tk1, no_append tr2 /\ job1 = Some tk1 /\ (dtok tk1 (d_ds dp) <= p)%Z /\
                  forall m, required_l c h1 dp (dtok tk1 (d_ds dp)) p x m -> In m (ents_of tr2))
     \/ (forall m, main_live h1 (c_main c) m = true -> In m (ents_of tr2))).
(** the three repairs, plus the fourth one when the source is LatestOnly *)
Definition sound_l (v : variant) (c : cfg) : Prop :=
  sound v /\ (c_latest c = true -> f_skip v = SkipPrev).
