(** * Model of the entity store write path and its readers
    (internal/server/dataset.go StoreEntitiesWithTransaction, ProcessChangesRaw,
    MapEntitiesRaw; internal/server/store.go GetEntityAtPointInTimeWithInternalID,
    ExecuteTransaction; internal/server/entity.go IsEntityEqual).
    Definitions only.  Reference-index keys are added on top in Model/Refs.v. *)
From Coq Require Import List ZArith Bool.
Import ListNotations.
Open Scope Z_scope.

(** ** Contents.  URIs, property keys and predicates are integer codes; a property
    value is the code of its canonical JSON plus "contains a nested entity";
    a reference value is single-or-array plus the target URIs in order. *)
Definition uri := Z.
Record pval := { pv_code : Z; pv_obj : bool }.
Record rval := { rv_arr : bool; rv_tgts : list uri }.
Record content := {
  c_del : bool;
  c_props : list (Z * pval);   (* sorted by key, keys unique *)
  c_refs : list (Z * rval);    (* sorted by key, keys unique *)
  c_len : Z                    (* len(json.Marshal(entity)) as computed by Go *)
}.
Record ent := { e_id : uri; e_c : content }.

(** ** The write-time equality, with one flag per deviation of the pinned tree. *)
Record eqflags := {
  f_lenkeys : bool;  (* true: IsEntityEqual = same serialized length /\ every key of the OLD version has an equal value in the new one (F01a) *)
  f_objneq : bool    (* true: a value containing a nested entity never compares equal (F02b) *)
}.

Definition pval_eqb (fl : eqflags) (a b : pval) : bool :=
  Z.eqb (pv_code a) (pv_code b) && (if f_objneq fl then negb (pv_obj a || pv_obj b) else true).

Fixpoint zlist_eqb (a b : list Z) : bool :=
  match a, b with
  | [], [] => true
  | x :: a', y :: b' => Z.eqb x y && zlist_eqb a' b'
  | _, _ => false
  end.
Definition rval_eqb (a b : rval) : bool :=
  Bool.eqb (rv_arr a) (rv_arr b) && zlist_eqb (rv_tgts a) (rv_tgts b).

Fixpoint assoc {V} (k : Z) (l : list (Z * V)) : option V :=
  match l with
  | [] => None
  | (k', v) :: l' => if Z.eqb k k' then Some v else assoc k l'
  end.

(** every key of [old] is present in [new] with an equal value *)
Definition old_keys_ok {V} (veq : V -> V -> bool) (old new : list (Z * V)) : bool :=
  forallb (fun kv => match assoc (fst kv) new with Some v' => veq (snd kv) v' | None => false end) old.

Fixpoint kvlist_eqb {V} (veq : V -> V -> bool) (a b : list (Z * V)) : bool :=
  match a, b with
  | [], [] => true
  | (k, v) :: a', (k', v') :: b' => Z.eqb k k' && veq v v' && kvlist_eqb veq a' b'
  | _, _ => false
  end.

(** [content_eqb fl prev this] *)
Definition content_eqb (fl : eqflags) (prev this : content) : bool :=
  if f_lenkeys fl then
    Z.eqb (c_len prev) (c_len this)
    && old_keys_ok rval_eqb (c_refs prev) (c_refs this)
    && old_keys_ok (pval_eqb fl) (c_props prev) (c_props this)
  else
    Bool.eqb (c_del prev) (c_del this)
    && kvlist_eqb rval_eqb (c_refs prev) (c_refs this)
    && kvlist_eqb (pval_eqb fl) (c_props prev) (c_props this).

(** "identical" in the sense of the properties: same deleted flag, properties and references *)
Definition eq_full : eqflags := {| f_lenkeys := false; f_objneq := false |}.
Definition identical (a b : content) : bool := content_eqb eq_full a b.

(** ** State *)
Record entry := { en_seq : Z; en_id : uri; en_time : Z; en_bidx : Z; en_c : content }.
Record dstate := {
  d_entries : list entry;            (* version records = change log, in sequence order *)
  d_latest : list (uri * (Z * Z));   (* latest pointer: eid -> (time, bidx); first match wins *)
  d_next : Z                         (* next change sequence number *)
}.
Definition dstate0 : dstate := {| d_entries := []; d_latest := []; d_next := 0 |}.

Fixpoint find_entry (id : uri) (t b : Z) (l : list entry) : option entry :=
  match l with
  | [] => None
  | e :: l' => if Z.eqb (en_id e) id && Z.eqb (en_time e) t && Z.eqb (en_bidx e) b then Some e
               else find_entry id t b l'
  end.

(** the version the latest pointer names *)
Definition stored_latest (d : dstate) (id : uri) : option content :=
  match assoc id (d_latest d) with
  | None => None
  | Some (t, b) => option_map en_c (find_entry id t b (d_entries d))
  end.

(** in-batch duplicate handling:
    [DupStoredAndLocal] (pinned tree): skip iff equal to the STORED version and (no in-batch predecessor or equal to it)
    [DupLocalElseStored] (repaired): compare with the in-batch predecessor if any, else with the stored version *)
Inductive dup_mode := DupStoredAndLocal | DupLocalElseStored.

Definition keep_decision (fl : eqflags) (dm : dup_mode)
           (stored loc : option content) (c : content) : bool :=
  match dm with
  | DupStoredAndLocal =>
    let is_different := match stored with Some p => negb (content_eqb fl p c) | None => true end in
    let is_different_locally := match loc with Some l => negb (content_eqb fl l c) | None => false end in
    is_different || is_different_locally
  | DupLocalElseStored =>
    match loc with
    | Some l => negb (content_eqb fl l c)
    | None => match stored with Some p => negb (content_eqb fl p c) | None => true end
    end
  end.

(** accumulator of the batch loop *)
Record bacc := {
  a_loc : list (uri * content);     (* localLatests *)
  a_pend : list entry;              (* entries written so far, in order *)
  a_latest : list (uri * (Z * Z));
  a_next : Z
}.

Definition batch_step (fl : eqflags) (dm : dup_mode) (snap : dstate) (t : Z)
           (acc : bacc) (ie : Z * ent) : bacc :=
  let '(i, e) := ie in
  let id := e_id e in
  let c := e_c e in
  if keep_decision fl dm (stored_latest snap id) (assoc id (a_loc acc)) c then
    let en := {| en_seq := a_next acc; en_id := id; en_time := t; en_bidx := i; en_c := c |} in
    {| a_loc := (id, c) :: a_loc acc;
       a_pend := a_pend acc ++ [en];
       a_latest := (id, (t, i)) :: a_latest acc;
       a_next := a_next acc + 1 |}
  else acc.

Fixpoint number_from {A} (i : Z) (l : list A) : list (Z * A) :=
  match l with [] => [] | x :: l' => (i, x) :: number_from (i + 1) l' end.

(** one dataset's share of a batch / transaction, decided against the snapshot [d] *)
Definition store_batch_ds (fl : eqflags) (dm : dup_mode) (t : Z) (ents : list ent) (d : dstate) : dstate :=
  let acc0 := {| a_loc := []; a_pend := []; a_latest := d_latest d; a_next := d_next d |} in
  let acc := fold_left (batch_step fl dm d t) (number_from 0 ents) acc0 in
  {| d_entries := d_entries d ++ a_pend acc; d_latest := a_latest acc; d_next := a_next acc |}.

(** ** the store: datasets by code *)
Record store := { s_ds : list (Z * dstate); s_clock : Z }.
Definition store0 : store := {| s_ds := []; s_clock := 0 |}.
Definition get_ds (st : store) (ds : Z) : dstate :=
  match assoc ds (s_ds st) with Some d => d | None => dstate0 end.
Fixpoint set_assoc {V} (k : Z) (v : V) (l : list (Z * V)) : list (Z * V) :=
  match l with
  | [] => [(k, v)]
  | (k', v') :: l' => if Z.eqb k k' then (k, v) :: l'
                      else if k <? k' then (k, v) :: l    (* kept sorted by dataset code = creation order *)
                      else (k', v') :: set_assoc k v l'
  end.
Definition set_ds (st : store) (ds : Z) (d : dstate) : store :=
  {| s_ds := set_assoc ds d (s_ds st); s_clock := s_clock st |}.

(** operations of a history; every write takes the next clock value as its time *)
Inductive wop :=
| WBatch (ds : Z) (ents : list ent)
| WTxn (sets : list (Z * list ent)).   (* one commit, one time, several datasets (dataset codes distinct) *)

Definition tick (st : store) : store := {| s_ds := s_ds st; s_clock := s_clock st + 1 |}.

Definition apply_wop (fl : eqflags) (dm : dup_mode) (st : store) (o : wop) : store :=
  let st1 := tick st in
  let t := s_clock st1 in
  match o with
  | WBatch ds ents => set_ds st1 ds (store_batch_ds fl dm t ents (get_ds st1 ds))
  | WTxn sets =>
    fold_left (fun s (p : Z * list ent) => set_ds s (fst p) (store_batch_ds fl dm t (snd p) (get_ds s (fst p)))) sets st1
  end.

Definition run_wops (fl : eqflags) (dm : dup_mode) (ops : list wop) (st : store) : store :=
  fold_left (apply_wop fl dm) ops st.

(** ** Readers *)

(** ProcessChangesRaw: returns (emitted entries, next token) *)
Fixpoint changes_loop (latest : list (uri * (Z * Z))) (latest_only : bool) (limit : Z)
         (l : list entry) (processed : Z) (last_seen : Z) (found : bool)
  : list entry * Z * bool :=
  match l with
  | [] => ([], last_seen, found)
  | e :: l' =>
    let emit := if latest_only
                then match assoc (en_id e) latest with
                     | Some (t, b) => Z.eqb t (en_time e) && Z.eqb b (en_bidx e)
                     | None => false
                     end
                else true in
    let processed' := if emit then processed + 1 else processed in
    if (0 <? limit) && Z.eqb processed' limit then
      ((if emit then [e] else []), en_seq e, true)
    else
      let '(out, ls, f) := changes_loop latest latest_only limit l' processed' (en_seq e) true in
      ((if emit then e :: out else out), ls, f)
  end.

Definition changes (d : dstate) (since limit : Z) (latest_only : bool) : list entry * Z :=
  let l := filter (fun e => since <=? en_seq e) (d_entries d) in
  let '(out, ls, found) := changes_loop (d_latest d) latest_only limit l 0 since false in
  (out, if found then ls + 1 else since).

(** MapEntitiesRaw over the latest pointers.  The model orders them by URI code
    (Go: by internal id); [from] = None or the last key of the previous page. *)
Fixpoint insert_sorted (k : Z) (l : list Z) : list Z :=
  match l with
  | [] => [k]
  | x :: l' => if k <? x then k :: l else if Z.eqb k x then l else x :: insert_sorted k l'
  end.
Definition latest_keys (d : dstate) : list uri :=
  fold_right insert_sorted [] (map fst (d_latest d)).

Fixpoint take_page (count : Z) (taken : Z) (l : list uri) : list uri :=
  match l with
  | [] => []
  | x :: l' => if Z.eqb (taken + 1) count then [x] else x :: take_page count (taken + 1) l'
  end.

Definition listing_page (d : dstate) (from : option uri) (count : Z) : list (uri * option content) :=
  let ks := latest_keys d in
  let ks' := match from with None => ks | Some f => filter (fun k => f <? k) ks end in
  map (fun k => (k, stored_latest d k)) (take_page count 0 ks').

(** follow the continuation tokens until an empty page (fuel = number of keys + 1) *)
Fixpoint listing_pages (d : dstate) (from : option uri) (count : Z) (fuel : nat)
  : list (list (uri * option content)) :=
  match fuel with
  | O => []
  | S fuel' =>
    let pg := listing_page d from count in
    match rev pg with
    | [] => [pg]
    | (k, _) :: _ => if count <=? 0 then [pg] else pg :: listing_pages d (Some k) count fuel'
    end
  end.

(** GetEntityAtPointInTimeWithInternalID: per dataset in scope (datasets in code order),
    the (time,bidx)-greatest version with time <= at *)
Fixpoint best_version (id : uri) (at_ : Z) (l : list entry) (best : option entry) : option entry :=
  match l with
  | [] => best
  | e :: l' =>
    if Z.eqb (en_id e) id && (en_time e <=? at_) then
      match best with
      | None => best_version id at_ l' (Some e)
      | Some b =>
        if (en_time b <? en_time e) || (Z.eqb (en_time b) (en_time e) && (en_bidx b <? en_bidx e))
        then best_version id at_ l' (Some e) else best_version id at_ l' best
      end
    else best_version id at_ l' best
  end.

Definition in_scope (scope : list Z) (ds : Z) : bool :=
  match scope with [] => true | _ => existsb (Z.eqb ds) scope end.

(** returns the non-deleted partials (dataset, content) in dataset order and the hasDeleted flag *)
Definition entity_at (st : store) (id : uri) (at_ : Z) (scope : list Z) : list (Z * content) * bool :=
  fold_left (fun (acc : list (Z * content) * bool) (p : Z * dstate) =>
               if in_scope scope (fst p) then
                 match best_version id at_ (d_entries (snd p)) None with
                 | None => acc
                 | Some e => if c_del (en_c e) then (fst acc, true) else (fst acc ++ [(fst p, en_c e)], snd acc)
                 end
               else acc)
            (s_ds st) ([], false).

(** ** Spec: a dataset is a feed of versions *)
Definition feed := list (uri * content).

Fixpoint current_of (f : feed) (id : uri) : option content :=
  match f with
  | [] => None
  | (i, c) :: f' => match current_of f' id with
                    | Some c' => Some c'
                    | None => if Z.eqb i id then Some c else None
                    end
  end.

(** a write identical (w.r.t. [eqb]) to the entity's current version adds nothing, any other adds exactly one *)
Definition spec_write (eqb : content -> content -> bool) (f : feed) (e : ent) : feed :=
  match current_of f (e_id e) with
  | Some c => if eqb c (e_c e) then f else f ++ [(e_id e, e_c e)]
  | None => f ++ [(e_id e, e_c e)]
  end.

Definition feed_of (d : dstate) : feed := map (fun e => (en_id e, en_c e)) (d_entries d).
