(** * Model of the lock protocol of the write path (property C05)
      internal/server/dataset.go   StoreEntities / updateDataset
      internal/server/store.go     ExecuteTransaction
      internal/server/dsmanager.go CreateDataset / UpdateDataset / DeleteDataset
    Threads are straight-line programs over [Acq l | Rel l | Read d | Commit ws];
    mutexes are non-re-entrant (Go sync.Mutex); the semantics is a small-step
    interleaving semantics over a finite list of threads.  The programs are
    generated from the operations exactly as the code nests its locks.
    Definitions only; the proofs are in Proofs/LocksProofs.v. *)
From Coq Require Import List NArith Bool Arith.
Import ListNotations.

(** ** Locks.  [LDsm] = DsManager.lock, [LDs n] = Dataset.WriteLock of the
    dataset whose name has code [n] (the harness names datasets so that the
    order of the names is the order of the codes), [LCore] = the WriteLock of
    core.Dataset.  A dataset lock also stands for the dataset it guards. *)
Inductive lock := LDsm | LDs (n : N) | LCore.

Definition lock_eqb (a b : lock) : bool :=
  match a, b with
  | LDsm, LDsm => true
  | LDs x, LDs y => N.eqb x y
  | LCore, LCore => true
  | _, _ => false
  end.

(** the lock order the repaired code respects: #dsm < datasets by name < core.Dataset *)
Definition lock_ltb (a b : lock) : bool :=
  match a, b with
  | LDsm, LDsm => false
  | LDsm, _ => true
  | LDs _, LDsm => false
  | LDs x, LDs y => N.ltb x y
  | LDs _, LCore => true
  | LCore, _ => false
  end.
Definition lock_lt (a b : lock) : Prop := lock_ltb a b = true.

Definition memb (l : lock) (ls : list lock) : bool := existsb (lock_eqb l) ls.
Fixpoint removeb (l : lock) (ls : list lock) : list lock :=
  match ls with
  | [] => []
  | x :: r => if lock_eqb l x then removeb l r else x :: removeb l r
  end.
Definition is_core (l : lock) : bool := match l with LCore => true | _ => false end.

(** ** Programs *)
Definition marker := N.
(** one atomic badger commit: for each dataset the change-feed entries it appends *)
Definition writes := list (lock * list marker).
Definition keys (ws : writes) : list lock := map fst ws.
Definition writes_to (d : lock) (ws : writes) : list marker :=
  flat_map (fun p => if lock_eqb (fst p) d then snd p else []) ws.

Inductive instr :=
| Acq (l : lock)        (* mutex.Lock()   - blocks while anybody (the caller included) holds l *)
| Rel (l : lock)        (* mutex.Unlock() *)
| Read (d : lock)       (* read-of-previous: snapshot of dataset d (sequence, latest versions) *)
| Commit (ws : writes). (* txn.Commit(): every dataset of ws becomes <the snapshot this thread read> ++ <its entries> *)

Record thread := { held : list lock; snap : lock -> list marker; prog : list instr }.
(** [clog]: the commits in the order they happened, tagged with the thread index *)
Record config := { threads : list thread; feeds : lock -> list marker; clog : list (nat * writes) }.

Definition upd (f : lock -> list marker) (l : lock) (v : list marker) : lock -> list marker :=
  fun x => if lock_eqb x l then v else f x.
Definition commit_feeds (sn fs : lock -> list marker) (ws : writes) : lock -> list marker :=
  fun d => if memb d (keys ws) then sn d ++ writes_to d ws else fs d.

Definition all_held (ts : list thread) : list lock := flat_map held ts.

(** one instruction of one thread; [busy] = every lock held by any thread *)
Definition tstep (busy : list lock) (fs : lock -> list marker) (t : thread)
  : option (thread * (lock -> list marker) * option writes) :=
  match prog t with
  | [] => None
  | Acq l :: p =>
      if memb l busy then None
      else Some ({| held := l :: held t; snap := snap t; prog := p |}, fs, None)
  | Rel l :: p =>
      if memb l (held t)
      then Some ({| held := removeb l (held t); snap := snap t; prog := p |}, fs, None)
      else None                                   (* unlock of an unlocked mutex: fatal in Go *)
  | Read d :: p => Some ({| held := held t; snap := upd (snap t) d (fs d); prog := p |}, fs, None)
  | Commit ws :: p =>
      Some ({| held := held t; snap := snap t; prog := p |}, commit_feeds (snap t) fs ws, Some ws)
  end.

Fixpoint set_nth {A} (i : nat) (x : A) (l : list A) : list A :=
  match l, i with
  | [], _ => []
  | _ :: r, O => x :: r
  | y :: r, S j => y :: set_nth j x r
  end.

Definition exec_at (i : nat) (c : config) : option config :=
  match nth_error (threads c) i with
  | None => None
  | Some t =>
      match tstep (all_held (threads c)) (feeds c) t with
      | None => None
      | Some (t', fs', w) =>
          Some {| threads := set_nth i t' (threads c); feeds := fs';
                  clog := match w with Some ws => clog c ++ [(i, ws)] | None => clog c end |}
      end
  end.

(** the interleaving semantics: any thread whose next instruction is enabled may move *)
Definition step (c c' : config) : Prop := exists i, exec_at i c = Some c'.
Inductive steps (c : config) : config -> Prop :=
| steps_refl : steps c c
| steps_step c' c'' : steps c c' -> step c' c'' -> steps c c''.

Definition finished (t : thread) : bool := match prog t with [] => true | _ => false end.
Definition terminal (c : config) : bool := forallb finished (threads c).
Definition disabled (i : nat) (c : config) : bool := match exec_at i c with None => true | Some _ => false end.
(** deadlock: somebody has work left and nobody can move *)
Definition stuck (c : config) : bool :=
  negb (terminal c) && forallb (fun i => disabled i c) (seq 0 (length (threads c))).

Definition no_snap : lock -> list marker := fun _ => [].
Definition init_thread (p : list instr) : thread := {| held := []; snap := no_snap; prog := p |}.
Definition init_config (ps : list (list instr)) : config :=
  {| threads := map init_thread ps; feeds := no_snap; clog := [] |}.

(** run a schedule (list of thread indices); [None] if a scheduled thread cannot move *)
Fixpoint run_sched (sched : list nat) (c : config) : option config :=
  match sched with
  | [] => Some c
  | i :: r => match exec_at i c with Some c' => run_sched r c' | None => None end
  end.

(** run a schedule, skipping a scheduled thread that cannot move *)
Fixpoint run_skip (sched : list nat) (c : config) : config :=
  match sched with
  | [] => c
  | i :: r => match exec_at i c with Some c' => run_skip r c' | None => run_skip r c end
  end.

(** ** Static disciplines of a program, relative to the set of locks held *)

(** lock order: a lock is only acquired when it is above everything held;
    a finished program holds nothing *)
Fixpoint ordered (H : list lock) (p : list instr) : Prop :=
  match p with
  | [] => H = []
  | Acq l :: r => (forall h, In h H -> lock_lt h l) /\ ordered (l :: H) r
  | Rel l :: r => In l H /\ ordered (removeb l H) r
  | Read _ :: r | Commit _ :: r => ordered H r
  end.

(** the same discipline for an arbitrary comparison of locks *)
Fixpoint ordered_by (lt : lock -> lock -> bool) (H : list lock) (p : list instr) : Prop :=
  match p with
  | [] => H = []
  | Acq l :: r => (forall h, In h H -> lt h l = true) /\ ordered_by lt (l :: H) r
  | Rel l :: r => In l H /\ ordered_by lt (removeb l H) r
  | Read _ :: r | Commit _ :: r => ordered_by lt H r
  end.

(** what a comparison sort with "less" function [cmp] guarantees about its output: no element is
    strictly less than an earlier one.  When [cmp] does not separate two distinct names (e.g. a
    case-insensitive comparison) both arrangements of them pass. *)
Fixpoint weak_sortedb (cmp : lock -> lock -> bool) (ls : list lock) : bool :=
  match ls with
  | [] => true
  | x :: r => forallb (fun y => negb (cmp y x)) r && weak_sortedb cmp r
  end.
Fixpoint strict_sortedb (cmp : lock -> lock -> bool) (ls : list lock) : bool :=
  match ls with
  | [] => true
  | x :: r => forallb (cmp x) r && strict_sortedb cmp r
  end.

(** a comparison that is NOT a total order on names: it ignores case.  The harness names the
    datasets 1000+j "dXjj" and 2000+j "dxjj"; folding maps both to one key. *)
Definition fold_case (l : lock) : lock :=
  match l with LDs n => if N.leb 2000 n then LDs (n - 1000) else LDs n | _ => l end.
Definition fold_ltb (a b : lock) : bool := lock_ltb (fold_case a) (fold_case b).

(** datasets whose snapshot the program still relies on (commits before re-reading) *)
Fixpoint needs (p : list instr) : list lock :=
  match p with
  | [] => []
  | Read d :: r => removeb d (needs r)
  | Commit ws :: r => keys ws ++ needs r
  | _ :: r => needs r
  end.

(** lock coverage: a dataset is read and committed only under its lock, the lock is
    held from the read to the commit, every commit is preceded by a fresh read *)
Fixpoint guarded (H : list lock) (p : list instr) : Prop :=
  match p with
  | [] => H = []
  | Acq l :: r => ~ In l (needs r) /\ guarded (l :: H) r
  | Rel l :: r => In l H /\ guarded (removeb l H) r
  | Read d :: r => In d H /\ guarded H r
  | Commit ws :: r => (forall d, In d (keys ws) -> In d H /\ ~ In d (needs r)) /\ guarded H r
  end.

(** the commits a program performs, in program order *)
Fixpoint commits (p : list instr) : list writes :=
  match p with
  | [] => []
  | Commit ws :: r => ws :: commits r
  | _ :: r => commits r
  end.

(** ** Operations and the programs the code runs for them *)

(** Variant flags.
    [v_order]: the order in which ExecuteTransaction locks its datasets:
      [Arbitrary] = Go map iteration order (pinned tree), [Sorted] = by name (repaired).
    [v_core]: a transaction that names core.Dataset:
      [CoreLocks] = its lock is taken like any other and updateDataset then locks it
      again (pinned tree), [CoreRejected] = refused before any lock is taken (repaired). *)
Inductive txn_order := Arbitrary | Sorted.
Inductive core_txn := CoreLocks | CoreRejected.
Record variant := { v_order : txn_order; v_core : core_txn }.
Definition current : variant := {| v_order := Arbitrary; v_core := CoreLocks |}.
Definition fixed : variant := {| v_order := Sorted; v_core := CoreRejected |}.
(** intermediate variants: only one of the two deviations repaired *)
Definition v_order_sorted_core_locks : variant := {| v_order := Sorted; v_core := CoreLocks |}.
Definition v_order_arbitrary_core_rejected : variant := {| v_order := Arbitrary; v_core := CoreRejected |}.

Inductive rename_mode :=
| RNoop                 (* name is core.Dataset or does not exist: only DsManager.lock *)
| RSame                 (* config.ID = name: DsManager.lock + the dataset's lock, nothing written *)
| RClash                (* the new name exists: same locks, returns an error *)
| RMove (d' : N).       (* rename to d': two meta-entity writes to core.Dataset *)

(** part of a batch/transaction that goes to one dataset: the feed entries it
    appends (one marker per entity) and whether updateDataset will write the
    counter (newitems > 0 and the meta entity exists) *)
Record part := { p_ds : lock; p_ms : list marker; p_new : bool }.

Inductive op :=
| OBatch (p : part)                                     (* Dataset.StoreEntities, non-empty batch *)
| OTxn (ks : list part) (aorder uorder : list lock)     (* Store.ExecuteTransaction; aorder = order in which the
                                                           datasets are locked, uorder = order of the updateDataset
                                                           loop: both are Go map iterations, observed not predicted *)
| OTxnFail (locked : list lock)                         (* ExecuteTransaction naming a dataset that does not exist: the datasets
                                                           visited before the missing one are locked (observed), then the error
                                                           return releases them (deferred unlocks); nothing is written *)
| OCreate (d : N) (isnew : bool)                        (* DsManager.CreateDataset *)
| ORename (d : N) (m : rename_mode)                     (* DsManager.UpdateDataset *)
| ODelete (d : N) (present : bool).                     (* DsManager.DeleteDataset *)

(** the marker a counter / meta-entity write leaves in core.Dataset's feed *)
Definition code (l : lock) : marker := match l with LDs n => n | _ => 0%N end.

(** updateDataset -> core.Dataset.StoreEntities: nested under whatever is held *)
Definition core_update (m : marker) : list instr :=
  [Acq LCore; Read LCore; Commit [(LCore, [m])]; Rel LCore].

Definition part_update (p : part) : list instr :=
  if p_new p && negb (is_core (p_ds p)) then core_update (code (p_ds p)) else [].

Definition part_writes (ks : list part) : writes := map (fun p => (p_ds p, p_ms p)) ks.
Definition part_keys (ks : list part) : list lock := map p_ds ks.

Fixpoint find_part (d : lock) (ks : list part) : option part :=
  match ks with
  | [] => None
  | p :: r => if lock_eqb (p_ds p) d then Some p else find_part d r
  end.

Definition batch_prog (p : part) : list instr :=
  [Acq (p_ds p); Read (p_ds p); Commit [(p_ds p, p_ms p)]] ++ part_update p ++ [Rel (p_ds p)].

Definition txn_prog (ks : list part) (aorder uorder : list lock) : list instr :=
  map Acq aorder ++ map Read aorder ++ [Commit (part_writes ks)]
  ++ flat_map (fun d => match find_part d ks with Some p => part_update p | None => [] end) uorder
  ++ map Rel (rev aorder).

Definition prog_of_op (v : variant) (o : op) : list instr :=
  match o with
  | OBatch p => batch_prog p
  | OTxn ks ao uo =>
      match v_core v with
      | CoreRejected => if memb LCore (part_keys ks) then [] else txn_prog ks ao uo
      | CoreLocks => txn_prog ks ao uo
      end
  | OTxnFail locked =>
      match v_core v with
      | CoreRejected => if memb LCore locked then [] else map Acq locked ++ map Rel (rev locked)
      | CoreLocks => map Acq locked ++ map Rel (rev locked)
      end
  | OCreate d isnew => [Acq LDsm] ++ (if isnew then core_update d else []) ++ [Rel LDsm]
  | ORename d RNoop => [Acq LDsm; Rel LDsm]
  | ORename d RSame | ORename d RClash => [Acq LDsm; Acq (LDs d); Rel (LDs d); Rel LDsm]
  | ORename d (RMove d') =>
      [Acq LDsm; Acq (LDs d)] ++ core_update d ++ core_update d' ++ [Rel (LDs d); Rel LDsm]
  | ODelete d present => [Acq LDsm] ++ (if present then core_update d else []) ++ [Rel LDsm]
  end.

(** a client = a sequence of operations, one after the other *)
Definition prog_of_ops (v : variant) (os : list op) : list instr := flat_map (prog_of_op v) os.

(** ** Well-formedness of the oracles of an operation (decidable) *)
Fixpoint nodupb (ls : list lock) : bool :=
  match ls with [] => true | x :: r => negb (memb x r) && nodupb r end.
Definition subsetb (a b : list lock) : bool := forallb (fun x => memb x b) a.
Definition permb (a b : list lock) : bool :=
  nodupb a && nodupb b && subsetb a b && subsetb b a.
Fixpoint sortedb (ls : list lock) : bool :=
  match ls with
  | [] => true
  | x :: r => forallb (lock_ltb x) r && sortedb r
  end.
Definition is_ds (l : lock) : bool := match l with LDs _ => true | _ => false end.
(** the order of the dataset NAMES (what a repaired ExecuteTransaction sorts by): the harness
    names datasets d001, d002, ... and "core.Dataset" sorts before all of them *)
Definition name_ltb (a b : lock) : bool :=
  match a, b with
  | LCore, LDs _ => true
  | LDs x, LDs y => N.ltb x y
  | _, _ => false
  end.
Fixpoint name_sortedb (ls : list lock) : bool :=
  match ls with
  | [] => true
  | x :: r => forallb (name_ltb x) r && name_sortedb r
  end.

Definition op_wf (v : variant) (o : op) : bool :=
  match o with
  | OBatch p => negb (lock_eqb (p_ds p) LDsm)
  | OTxn ks ao uo =>
      permb ao (part_keys ks) && permb uo (part_keys ks)
      && negb (memb LDsm (part_keys ks))
      && match v_order v with Sorted => name_sortedb ao | Arbitrary => true end
  | OTxnFail locked =>
      nodupb locked && negb (memb LDsm locked)
      && match v_order v with Sorted => name_sortedb locked | Arbitrary => true end
  | _ => true
  end.
(** the operation does not put core.Dataset into a transaction *)
Definition op_no_core_txn (o : op) : bool :=
  match o with
  | OTxn ks _ _ => negb (memb LCore (part_keys ks))
  | OTxnFail locked => negb (memb LCore locked)
  | _ => true
  end.

(** ** Executable replay of an observed global lock trace *)
Inductive ev := EA (l : lock) | ER (l : lock).

Definition next_instr (i : nat) (c : config) : option instr :=
  match nth_error (threads c) i with
  | Some t => match prog t with x :: _ => Some x | [] => None end
  | None => None
  end.

(** thread i performs its pending Read/Commit instructions (they are not
    lock events) until its next instruction is a lock instruction *)
Fixpoint run_to_lock (fuel : nat) (i : nat) (c : config) : option config :=
  match fuel with
  | O => None
  | S f =>
      match next_instr i c with
      | Some (Read _) | Some (Commit _) =>
          match exec_at i c with Some c' => run_to_lock f i c' | None => None end
      | _ => Some c
      end
  end.

Definition ev_matches (e : ev) (x : instr) : bool :=
  match e, x with
  | EA l, Acq l' => lock_eqb l l'
  | ER l, Rel l' => lock_eqb l l'
  | _, _ => false
  end.

Definition replay_event (fuel : nat) (ie : nat * ev) (c : config) : option config :=
  match run_to_lock fuel (fst ie) c with
  | None => None
  | Some c1 =>
      match next_instr (fst ie) c1 with
      | Some x => if ev_matches (snd ie) x then exec_at (fst ie) c1 else None
      | None => None
      end
  end.

(** replays as far as the trace is a trace of the model; returns the configuration
    reached and the number of events consumed *)
Fixpoint replay (fuel : nat) (tr : list (nat * ev)) (c : config) (k : nat) : config * nat * bool :=
  match tr with
  | [] => (c, k, true)
  | e :: r =>
      match replay_event fuel e c with
      | Some c' => replay fuel r c' (S k)
      | None => (c, k, false)
      end
  end.

(** greedy forced schedule used by the deadlock witnesses: run thread i as far as it can go *)
Fixpoint run_thread (fuel : nat) (i : nat) (c : config) : config :=
  match fuel with
  | O => c
  | S f => match exec_at i c with Some c' => run_thread f i c' | None => c end
  end.
(** thread i until it has performed its first [n] lock acquisitions *)
Fixpoint run_until_acqs (fuel n : nat) (i : nat) (c : config) : config :=
  match fuel, n with
  | O, _ | _, O => c
  | S f, S m =>
      match next_instr i c, exec_at i c with
      | Some (Acq _), Some c' => run_until_acqs f m i c'
      | Some _, Some c' => run_until_acqs f n i c'
      | _, _ => c
      end
  end.
(** "pause thread 0 after its first acquisition until thread 1 is blocked or done, then let both run" *)
Definition forced2 (fuel : nat) (c : config) : config :=
  let c1 := run_until_acqs fuel 1 0 c in
  let c2 := run_thread fuel 1 c1 in
  let c3 := run_thread fuel 0 c2 in
  let c4 := run_thread fuel 1 c3 in
  run_thread fuel 0 c4.
