(** * Model of the persistence of client registrations and ACLs
      internal/security/manager.go  Init, loadClients, loadAcls, RegisterClient, SetClientAccessControls,
                                    DeleteClientAccessControls
    In-memory maps and the two files clients.json / acls.json are kept apart so that a restart
    (a new ServiceCore initialised from the files) can be compared with the state before it.
    Definitions only; proofs in Proofs/SecStoreProofs.v. *)
From Coq Require Import List String Bool.
From DH Require Import Model.Acl.
Import ListNotations.
Open Scope string_scope.

(** finite maps as association lists, newest binding first, one binding per key *)
Fixpoint remove_key {A} (k : string) (m : list (string * A)) : list (string * A) :=
  match m with
  | [] => []
  | (k', x) :: m' => if k' =? k then remove_key k m' else (k', x) :: remove_key k m'
  end.
Definition set_key {A} (k : string) (x : A) (m : list (string * A)) : list (string * A) := (k, x) :: remove_key k m.
Fixpoint lookup {A} (k : string) (m : list (string * A)) : option A :=
  match m with
  | [] => None
  | (k', x) :: m' => if k' =? k then Some x else lookup k m'
  end.

(** Variant flags.
    [AclFileClients]: the pinned tree - DeleteClientAccessControls marshals GetClients() (the client registry)
                      into acls.json (finding F14a).
    [AclFileAcls]   : repaired - it writes the remaining access controls.
    [InitAborts]    : the pinned tree - Init returns at the first load error, so a missing clients.json (no
                      client ever registered) keeps acls.json from being read (finding F14b).
    [InitIndependent]: repaired - a missing file is an empty registry; the other file is still loaded. *)
Inductive aclfile_mode := AclFileClients | AclFileAcls.
Inductive init_mode := InitAborts | InitIndependent.

(** what acls.json holds *)
Inductive aclfile :=
| FAcls (m : list (string * list ac))     (* a client-id -> entries object *)
| FClients (ids : list string).           (* the client registry object *)

Record secstate := {
  mem_clients : list (string * unit);             (* ServiceCore.clients (keys; the key material is not modelled) *)
  mem_acls : list (string * list ac);             (* ServiceCore.accessControls *)
  disk_clients : option (list (string * unit));   (* clients.json, None = file absent *)
  disk_acls : option aclfile                      (* acls.json *)
}.

Definition sec_init : secstate :=
  {| mem_clients := []; mem_acls := []; disk_clients := None; disk_acls := None |}.

Inductive secop :=
| OpRegister (c : string)       (* POST /security/clients {ClientID: c, Deleted: false} *)
| OpUnregister (c : string)     (* POST /security/clients {ClientID: c, Deleted: true} *)
| OpSetAcl (c : string) (l : list ac)   (* POST /security/clients/c/acl *)
| OpDelAcl (c : string)         (* DELETE /security/clients/c/acl *)
| OpRestart.

(** DeleteClientAccessControls *)
Definition del_acl (fm : aclfile_mode) (c : string) (s : secstate) : secstate :=
  let acls' := remove_key c (mem_acls s) in
  {| mem_clients := mem_clients s; mem_acls := acls'; disk_clients := disk_clients s;
     disk_acls := Some (match fm with
                        | AclFileClients => FClients (map fst (mem_clients s))
                        | AclFileAcls => FAcls acls'
                        end) |}.

(** json.Unmarshal(acls.json, &map[string][]*AccessControl): the registry object only parses when it is {} *)
Definition load_acls (f : option aclfile) : list (string * list ac) :=
  match f with
  | Some (FAcls m) => m
  | Some (FClients _) => []      (* {} parses to the empty map; anything else is a type error: nothing stored *)
  | None => []
  end.

(** NewServiceCore -> Init on the files *)
Definition restart (im : init_mode) (s : secstate) : secstate :=
  match disk_clients s with
  | None =>
      {| mem_clients := [];
         mem_acls := match im with InitAborts => [] | InitIndependent => load_acls (disk_acls s) end;
         disk_clients := disk_clients s; disk_acls := disk_acls s |}
  | Some cl =>
      {| mem_clients := cl; mem_acls := load_acls (disk_acls s);
         disk_clients := disk_clients s; disk_acls := disk_acls s |}
  end.

Definition sec_step (fm : aclfile_mode) (im : init_mode) (s : secstate) (o : secop) : secstate :=
  match o with
  | OpRegister c =>
      let cl := set_key c tt (mem_clients s) in
      {| mem_clients := cl; mem_acls := mem_acls s; disk_clients := Some cl; disk_acls := disk_acls s |}
  | OpUnregister c =>
      (* clients.Delete; DeleteClientAccessControls (sees the registry without c); then clients.json *)
      let cl := remove_key c (mem_clients s) in
      let s1 := del_acl fm c {| mem_clients := cl; mem_acls := mem_acls s;
                                disk_clients := disk_clients s; disk_acls := disk_acls s |} in
      {| mem_clients := cl; mem_acls := mem_acls s1; disk_clients := Some cl; disk_acls := disk_acls s1 |}
  | OpSetAcl c l =>
      let acls' := set_key c l (mem_acls s) in
      {| mem_clients := mem_clients s; mem_acls := acls'; disk_clients := disk_clients s;
         disk_acls := Some (FAcls acls') |}
  | OpDelAcl c => del_acl fm c s
  | OpRestart => restart im s
  end.

Definition sec_run (fm : aclfile_mode) (im : init_mode) (ops : list secop) : secstate :=
  fold_left (sec_step fm im) ops sec_init.

(** ** Spec: a restart changes nothing a caller can see *)
Definition same_security (s s' : secstate) : Prop :=
  (forall c, lookup c (mem_clients s') = lookup c (mem_clients s))
  /\ (forall c, lookup c (mem_acls s') = lookup c (mem_acls s)).

(** ** The management API as callers see it: what the histories denote *)

(** the registry and the ACL store a history of management operations denotes (a restart denotes nothing) *)
Definition spec_step (st : list (string * unit) * list (string * list ac)) (o : secop)
  : list (string * unit) * list (string * list ac) :=
  let '(cl, acls) := st in
  match o with
  | OpRegister c => (set_key c tt cl, acls)
  | OpUnregister c => (remove_key c cl, remove_key c acls)
  | OpSetAcl c l => (cl, set_key c l acls)
  | OpDelAcl c => (cl, remove_key c acls)
  | OpRestart => (cl, acls)
  end.
Definition spec_store (ops : list secop) : list (string * unit) * list (string * list ac) :=
  fold_left spec_step ops ([], []).
Definition spec_state (ops : list secop) : secstate :=
  {| mem_clients := fst (spec_store ops); mem_acls := snd (spec_store ops); disk_clients := None; disk_acls := None |}.
