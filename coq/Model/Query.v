(** * Relationship queries over the reference index
    (internal/server/store.go GetRelatedAtTime, GetManyRelatedEntitiesAtTime, ToRelatedFrom,
    DatasetsToInternalIDs).  Definitions only.  The two scans are written loop for loop:
    same loop state, same order of tests.  Deleted datasets are not modelled (C07). *)
From Coq Require Import List ZArith Bool.
From DH Require Import Model.Store Model.Refs.
Import ListNotations.
Open Scope Z_scope.

(** RelatedFrom.Datasets: empty = no restriction.  [ScOnly []] (nothing is in scope) cannot be
    expressed by the pinned tree; only the repaired scope resolution produces it. *)
Inductive scope := ScAll | ScOnly (l : list Z).
Definition scope_ok (sc : scope) (ds : Z) : bool :=
  match sc with ScAll => true | ScOnly l => zmem ds l end.

Record rfrom := {
  f_start : uri;            (* RelationIndexFromKey[2:10] *)
  f_key : option rk;        (* the 40-byte continuation key; None = first page (10-byte prefix) *)
  f_pred : Z;               (* 0 = wildcard *)
  f_inv : bool;
  f_scope : scope;
  f_at : Z
}.
Definition with_key (fr : rfrom) (k : rk) : rfrom :=
  {| f_start := f_start fr; f_key := Some k; f_pred := f_pred fr; f_inv := f_inv fr;
     f_scope := f_scope fr; f_at := f_at fr |}.

(** the three [continue] tests every scan performs before touching its loop state:
    dataset scope, recorded time > At, predicate *)
Definition pass (fr : rfrom) (k : rk) : bool :=
  scope_ok (f_scope fr) (r_ds k)
  && (r_time k <=? f_at fr)
  && negb (negb (Z.eqb (f_pred fr) (r_pred k)) && (0 <? f_pred fr)).

Definition len {A} (l : list A) : Z := Z.of_nat (length l).
Definition at_limit {A} (limit : Z) (res : list A) : bool := negb (Z.eqb limit 0) && (limit <=? len res).

Definition trip_eqb (a b : Z * Z * Z) : bool := pair_eqb (fst a) (fst b) && Z.eqb (snd a) (snd b).
Definition tmem (x : Z * Z * Z) (l : list (Z * Z * Z)) : bool := existsb (trip_eqb x) l.

(** ** outgoing: reverse scan (newest first) with the seen / added bookkeeping.
    [proj] = what identifies a result next to the start point: (predicate, target) for the
    outgoing index; the repaired incoming scan below reuses the loop with (predicate, source).
    [noadd] = the pinned tree: [added] is only maintained once the continuation key has been
    passed (F03d); repaired: live first-seen keys before the continuation key are remembered
    as added too. *)
Definition ofact (k : rk) := (r_pred k, r_tgt k).
Definition ifact (k : rk) := (r_pred k, r_src k).

Fixpoint out_loop (proj : rk -> Z * Z) (noadd : bool) (fr : rfrom) (limit : Z) (ks : list rk)
         (seen : list (Z * Z * Z)) (added : list (Z * Z)) (reached : bool)
         (res : list rk) (cont : option rk) : list rk * option rk :=
  match ks with
  | [] => (res, None)                                    (* iterator exhausted: cont.RelationIndexFromKey = nil *)
  | k :: ks' =>
    if negb (pass fr k) then out_loop proj noadd fr limit ks' seen added reached res cont else
    let f := proj k in
    if tmem (f, r_ds k) seen || pmem f added then out_loop proj noadd fr limit ks' seen added reached res cont else
    let seen' := (f, r_ds k) :: seen in
    if negb (r_del k) && reached then
      if at_limit limit res then (res, cont)             (* break *)
      else out_loop proj noadd fr limit ks' seen' (f :: added) true (res ++ [k]) (Some k)
    else
      let added' := if negb noadd && negb (r_del k) then f :: added else added in
      let reached' := reached || match f_key fr with Some s => rk_eqb k s | None => false end in
      out_loop proj noadd fr limit ks' seen' added' reached' res cont
  end.

Definition related_out (noadd : bool) (keys : list rk) (fr : rfrom) (limit : Z) : list rk * option rk :=
  out_loop ofact noadd fr limit (out_view keys (f_start fr)) [] []
           (match f_key fr with None => true | Some _ => false end) [] None.

(** ** incoming: forward scan.  Results Go takes from [range map] with [break] are a choice. *)
Inductive res := RDef (k : rk) | RChoice (l : list rk).

Definition assoc_put {V} (k : Z) (v : V) (l : list (Z * V)) : list (Z * V) :=
  (k, v) :: filter (fun p => negb (Z.eqb (fst p) k)) l.
Definition assoc_del {V} (k : Z) (l : list (Z * V)) : list (Z * V) :=
  filter (fun p => negb (Z.eqb (fst p) k)) l.

Record istate := {
  i_cur : Z;                          (* currentRID, 0 = none yet *)
  i_prev : list (Z * rk);             (* prevResults: per predicate *)
  i_pdel : bool;                      (* prevDeleted: ONE flag *)
  i_pds : Z;                          (* prevDatasetID *)
  i_spill : list (Z * list rk);       (* dsSpillOver: per dataset, the candidates Go's map iteration may have left there *)
  i_res : list res;
  i_cont : option rk
}.
Definition istate0 : istate :=
  {| i_cur := 0; i_prev := []; i_pdel := false; i_pds := 0; i_spill := []; i_res := []; i_cont := None |}.

Definition spill_cands (sp : list (Z * list rk)) : list rk := flat_map snd sp.

Definition inv_step (st : istate) (k : rk) : istate :=
  let st1 :=
    if negb (Z.eqb (r_src k) (i_cur st)) then
      let res' :=
        if negb (Z.eqb (i_cur st) 0) && negb (i_pdel st) then i_res st ++ map RDef (map snd (i_prev st))
        else match spill_cands (i_spill st) with [] => i_res st | cs => i_res st ++ [RChoice cs] end in
      {| i_cur := i_cur st; i_prev := []; i_pdel := i_pdel st; i_pds := i_pds st; i_spill := [];
         i_res := res'; i_cont := i_cont st |}
    else if negb (Z.eqb (r_ds k) (i_pds st)) then
      let sp1 := if i_pdel st then assoc_del (i_pds st) (i_spill st) else i_spill st in
      let sp2 := if negb (Z.eqb (i_cur st) 0) && negb (i_pdel st) then
                   match filter (fun q => Z.eqb (r_ds q) (i_pds st)) (map snd (i_prev st)) with
                   | [] => sp1
                   | cs => assoc_put (i_pds st) cs sp1
                   end
                 else sp1 in
      {| i_cur := i_cur st; i_prev := i_prev st; i_pdel := i_pdel st; i_pds := i_pds st; i_spill := sp2;
         i_res := i_res st; i_cont := i_cont st |}
    else st in
  {| i_cur := r_src k; i_prev := assoc_put (r_pred k) k (i_prev st1); i_pdel := r_del k; i_pds := r_ds k;
     i_spill := i_spill st1; i_res := i_res st1; i_cont := Some k |}.

(** after the loop; [valid] = the iterator still points into the prefix (the loop ended by [break]) *)
Definition inv_finish (valid : bool) (limit : Z) (st : istate) : list res * option rk :=
  let opn := Z.eqb limit 0 || (len (i_res st) <? limit) in
  let '(res', added) :=
    if opn then
      if negb (Z.eqb (i_cur st) 0) && negb (i_pdel st) then (i_res st ++ map RDef (map snd (i_prev st)), true)
      else
        let sp := if i_pdel st then assoc_del (i_pds st) (i_spill st) else i_spill st in
        match spill_cands sp with [] => (i_res st, false) | cs => (i_res st ++ [RChoice cs], true) end
    else (i_res st, false) in
  (res', if negb valid && (Z.eqb (len res') 0 || added) then None else i_cont st).

Fixpoint inv_loop (fr : rfrom) (limit : Z) (ks : list rk) (st : istate) : list res * option rk :=
  match ks with
  | [] => inv_finish false limit st
  | k :: ks' =>
    if at_limit limit (i_res st) then inv_finish true limit st       (* break *)
    else if negb (pass fr k) then inv_loop fr limit ks' st
    else inv_loop fr limit ks' (inv_step st k)
  end.

(** the repaired incoming scan (our proposal): scan the incoming prefix the way the outgoing one
    is scanned - in reverse (newest first per source), first key per (predicate, source, dataset)
    decides, a (predicate, source) is returned once, continuation = last returned key *)
Definition in_view_desc (keys : list rk) (tgt : uri) : list rk :=
  isort (fun a b => ikey_ltb b a) (filter (fun k => Z.eqb (r_tgt k) tgt) keys).

Definition related_in_fixed (keys : list rk) (fr : rfrom) (limit : Z) : list rk * option rk :=
  out_loop ifact false fr limit (in_view_desc keys (f_start fr)) [] []
           (match f_key fr with None => true | Some _ => false end) [] None.

(** Seek(startBuffer): the first key >= the continuation key (inclusive) *)
Definition in_view_from (keys : list rk) (fr : rfrom) : list rk :=
  let v := in_view keys (f_start fr) in
  match f_key fr with None => v | Some s => filter (fun k => negb (ikey_ltb k s)) v end.

Definition related_in (inv1 : bool) (keys : list rk) (fr : rfrom) (limit : Z) : list res * option rk :=
  if inv1 then inv_loop fr limit (in_view_from keys fr) istate0
  else let '(rs, c) := related_in_fixed keys fr limit in (map RDef rs, c).

(** ** variant flags of the query side *)
Record qflags := {
  q_inv1 : bool;      (* F03a: incoming scan with ONE deleted flag per source *)
  q_scope_all : bool; (* F03b: a scope that resolves to no known dataset means "all datasets" *)
  q_noadd : bool      (* F03d: outgoing continuation pages forget what earlier pages returned *)
}.
Definition q_current : qflags := {| q_inv1 := true; q_scope_all := true; q_noadd := true |}.
Definition q_fixed : qflags := {| q_inv1 := false; q_scope_all := false; q_noadd := false |}.

(** GetRelatedAtTime *)
Definition related (q : qflags) (keys : list rk) (fr : rfrom) (limit : Z) : list res * option rfrom :=
  if f_inv fr then
    let '(rs, c) := related_in (q_inv1 q) keys fr limit in (rs, option_map (with_key fr) c)
  else
    let '(rs, c) := related_out (q_noadd q) keys fr limit in (map RDef rs, option_map (with_key fr) c).

(** GetManyRelatedEntitiesAtTime: limit accounting across start points + continuation list *)
Fixpoint many_related (q : qflags) (keys : list rk) (froms : list rfrom) (limit : Z) (unlimited : bool)
  : list res * list rfrom :=
  match froms with
  | [] => ([], [])
  | fr :: rest =>
    if (0 <? limit) || unlimited then
      let '(rs, c) := related q keys fr limit in
      let '(rs2, cs2) := many_related q keys rest (Z.max (limit - len rs) 0) unlimited in
      (rs ++ rs2, match c with Some c' => c' :: cs2 | None => cs2 end)
    else
      let '(rs2, cs2) := many_related q keys rest limit unlimited in
      (rs2, fr :: cs2)
  end.

(** DatasetsToInternalIDs: unknown names are dropped *)
Definition resolve_scope (q : qflags) (existing : list Z) (req : list Z) : scope :=
  let l := filter (fun d => zmem d existing) req in
  if q_scope_all q then match l with [] => ScAll | _ => ScOnly l end
  else match req with [] => ScAll | _ => ScOnly l end.

(** ToRelatedFrom: a start URI without an internal id makes the whole query empty *)
Definition to_related_from (q : qflags) (known : list uri) (existing : list Z)
           (starts : list uri) (pred : Z) (inverse : bool) (req : list Z) (at_ : Z) : option (list rfrom) :=
  if forallb (fun s => zmem s known) starts then
    Some (map (fun s => {| f_start := s; f_key := None; f_pred := pred; f_inv := inverse;
                           f_scope := resolve_scope q existing req; f_at := at_ |}) starts)
  else None.

Definition nth_limit (limits : list Z) (p : nat) : Z :=
  match limits with [] => 0 | _ => nth p limits (last limits 0) end.

(** a client following the continuations (limit per page, last one repeated) *)
Fixpoint follow (q : qflags) (keys : list rk) (froms : list rfrom) (limits : list Z) (p : nat) (fuel : nat)
  : list (list res) :=
  match fuel with
  | O => []
  | S fuel' =>
    let lim := nth_limit limits p in
    let '(rs, cs) := many_related q keys froms lim (Z.eqb lim 0) in
    match cs with
    | [] => [rs]
    | _ => if lim <=? 0 then [rs] else rs :: follow q keys cs limits (S p) fuel'
    end
  end.

(** None = the query is refused (GetPredicateID: "could not load predicate id") *)
Definition query_pages (q : qflags) (rs : rstore) (existing : list Z)
           (starts : list uri) (pred : Z) (inverse : bool) (req : list Z) (at_ : Z)
           (limits : list Z) (fuel : nat) : option (list (list res)) :=
  if negb (Z.eqb pred 0) && negb (zmem pred (rs_known rs)) then None
  else match to_related_from q (rs_known rs) existing starts pred inverse req at_ with
       | None => Some [[]]
       | Some froms => Some (follow q (rs_keys rs) froms limits 0 fuel)
       end.

(** what a client sees of a result: (start, predicate, related entity) *)
Definition obs_of (inverse : bool) (k : rk) : Z * Z * Z :=
  if inverse then (r_tgt k, r_pred k, r_src k) else (r_src k, r_pred k, r_tgt k).
