(** Correspondence evaluator for C03 (relationship queries = graph implied by the latest versions).
    A case is a history of writes interleaved with (a) dumps of the raw reference keys and
    (b) relationship queries with the pages the implementation returned.  URI codes are the
    internal ids the implementation assigned. *)
From Coq Require Import List ZArith NArith Bool.
From DH Require Import Lib.CheckLib Model.Store Model.Refs Model.Query Model.GraphSpec.
Import ListNotations.
Open Scope Z_scope.

Inductive qop :=
| QWrite (w : wop)
| QKeys (o_keys : list rk)                                  (* the store's reference keys right now *)
| QHide (ds : Z)                                            (* the dataset is deleted (not garbage collected) *)
| QSplit (starts : list uri) (pred : Z) (inverse : bool) (req : list Z) (limits : list Z)
         (n : nat) (hide : Z)                               (* a paged query (now): its first n pages, then dataset [hide] is deleted, *)
         (o_pages : option (list (list (Z * Z * Z))))       (* then the continuation list is followed to the end *)
| QRelated (starts : list uri) (pred : Z) (inverse : bool) (req : list Z) (at_ : Z) (limits : list Z)
           (o_pages : option (list (list (Z * Z * Z)))).   (* observed pages of (start, predicate, related); None = refused *)

Record tcase := { tc_ds : list Z; tc_ops : list qop }.

(** DsManager.DeleteDataset without garbage collection, as far as readers are concerned: the dataset's name no longer
    resolves and every reader skips its keys and versions (s.deletedDatasets).  C07 proves that hiding; here it only
    lets the correspondence ask relation queries after a delete (through the job entry point, whose store copy must
    carry the deleted set too). *)
Definition rhide (ds : Z) (rs : rstore) : rstore :=
  {| rs_st := {| s_ds := filter (fun p => negb (Z.eqb (fst p) ds)) (s_ds (rs_st rs)); s_clock := s_clock (rs_st rs) |};
     rs_known := rs_known rs;
     rs_keys := filter (fun k => negb (Z.eqb (r_ds k) ds)) (rs_keys rs) |}.
Definition dhide (ds : Z) (dss : list Z) : list Z := filter (fun d => negb (Z.eqb d ds)) dss.

Record variant := { v_eq : eqflags; v_dup : dup_mode; v_q : qflags }.

Definition mk_variant (lk : bool) (dm : dup_mode) (i1 sa na : bool) : variant :=
  {| v_eq := {| f_lenkeys := lk; f_objneq := true |}; v_dup := dm;
     v_q := {| q_inv1 := i1; q_scope_all := sa; q_noadd := na |} |}.

(** order = order of VARIANTS in lib/props/c03.py: lenkeys, dup, inv1, scope_all, noadd; pinned tree first, repaired last *)
Definition variants : list variant :=
  flat_map (fun lk => flat_map (fun dm => flat_map (fun i1 => flat_map (fun sa => map (fun na =>
    mk_variant lk dm i1 sa na) [true; false]) [true; false]) [true; false])
    [DupStoredAndLocal; DupLocalElseStored]) [true; false].
Definition v_current : variant := mk_variant true DupStoredAndLocal true true true.
Definition v_fixed : variant := mk_variant false DupLocalElseStored false false false.

(** ** comparing a predicted page with an observed one (multisets; a choice matches any of its candidates) *)
Definition trip3_eqb (a b : Z * Z * Z) : bool :=
  Z.eqb (fst (fst a)) (fst (fst b)) && Z.eqb (snd (fst a)) (snd (fst b)) && Z.eqb (snd a) (snd b).

Fixpoint remove_first {A} (p : A -> bool) (l : list A) : option (list A) :=
  match l with
  | [] => None
  | x :: l' => if p x then Some l' else option_map (cons x) (remove_first p l')
  end.

Fixpoint match_defs (inverse : bool) (mp : list res) (op : list (Z * Z * Z)) : option (list (Z * Z * Z)) :=
  match mp with
  | [] => Some op
  | RDef k :: mp' =>
    match remove_first (trip3_eqb (obs_of inverse k)) op with
    | Some op' => match_defs inverse mp' op'
    | None => None
    end
  | RChoice _ :: mp' => match_defs inverse mp' op
  end.
Fixpoint match_choices (inverse : bool) (mp : list res) (op : list (Z * Z * Z)) : option (list (Z * Z * Z)) :=
  match mp with
  | [] => Some op
  | RDef _ :: mp' => match_choices inverse mp' op
  | RChoice cs :: mp' =>
    match remove_first (fun o => existsb (fun k => trip3_eqb (obs_of inverse k) o) cs) op with
    | Some op' => match_choices inverse mp' op'
    | None => None
    end
  end.
Definition page_matches (inverse : bool) (mp : list res) (op : list (Z * Z * Z)) : bool :=
  match match_defs inverse mp op with
  | Some op1 => match match_choices inverse mp op1 with Some [] => true | _ => false end
  | None => false
  end.

Fixpoint pages_match (inverse : bool) (mps : list (list res)) (ops : list (list (Z * Z * Z))) : bool :=
  match mps, ops with
  | [], [] => true
  | mp :: mps', op :: ops' => page_matches inverse mp op && pages_match inverse mps' ops'
  | _, _ => false
  end.

(** a client following the continuations: the first [n] pages over the keys [K], the others over [K'] *)
Fixpoint follow_split (q : qflags) (K K' : list rk) (froms : list rfrom) (limits : list Z) (p n fuel : nat) : list (list res) :=
  match fuel with
  | O => []
  | S fuel' =>
    let lim := nth_limit limits p in
    let '(rs, cs) := many_related q (match n with O => K' | _ => K end) froms lim (Z.eqb lim 0) in
    match cs with
    | [] => [rs]
    | _ => if lim <=? 0 then [rs] else rs :: follow_split q K K' cs limits (S p) (Nat.pred n) fuel'
    end
  end.

(** ** key sets *)
Definition keys_subset (a b : list rk) : bool := forallb (fun k => kmem k b) a.
Definition keys_eq (a b : list rk) : bool :=
  keys_subset a b && keys_subset b a && Nat.eqb (length a) (length b).

Definition fuel0 : nat := 200.

(** does the model (variant v) predict the observation of [o] in state [rs]? *)
Definition agree_op (v : variant) (dss : list Z) (rs : rstore) (o : qop) : bool :=
  match o with
  | QWrite _ => true
  | QHide _ => true
  | QSplit starts pred inverse req limits n hide o_pages =>
    (* the continuation tokens keep the scope resolved at the first request (internal dataset ids) *)
    if negb (Z.eqb pred 0) && negb (zmem pred (rs_known rs)) then match o_pages with None => true | Some _ => false end
    else match to_related_from (v_q v) (rs_known rs) dss starts pred inverse req 4611686018427387904, o_pages with
         | Some froms, Some ops =>
           pages_match inverse (follow_split (v_q v) (rs_keys rs) (rs_keys (rhide hide rs)) froms limits 0 n fuel0) ops
         | None, Some ops => pages_match inverse [[]] ops
         | _, None => false
         end
  | QKeys ok => keys_eq (rs_keys rs) ok
  | QRelated starts pred inverse req at_ limits o_pages =>
    match query_pages (v_q v) rs dss starts pred inverse req at_ limits fuel0, o_pages with
    | Some mps, Some ops => pages_match inverse mps ops
    | None, None => true
    | _, _ => false
    end
  end.

Fixpoint agree_run (v : variant) (dss : list Z) (rs : rstore) (ops : list qop) : bool :=
  match ops with
  | [] => true
  | QWrite w :: ops' => agree_run v dss (rapply (v_eq v) (v_dup v) rs w) ops'
  | QHide d :: ops' => agree_run v (dhide d dss) (rhide d rs) ops'
  | o :: ops' => agree_op v dss rs o && agree_run v dss rs ops'
  end.

Definition agree (v : variant) (c : tcase) : bool := agree_run v (tc_ds c) rstore0 (tc_ops c).

(** ** the executable spec on the implementation's own observations: all pages of a query together
    are exactly the edges of the graph implied by the latest versions (as of [at_]) in the named
    datasets that exist, each once.  The versions are those of the repaired write path
    (a write identical to the current version adds nothing, any other adds one: C02). *)
Definition spec_edges (st : store) (known : list uri) (dss : list Z)
           (starts : list uri) (pred : Z) (inverse : bool) (req : list Z) (at_ : Z) : list (Z * Z * Z) :=
  if forallb (fun s => zmem s known) starts then
    flat_map (fun s => map (fun f => (s, fst f, snd f))
                (if inverse then graph_in st at_ (spec_scope dss req) s pred
                 else graph_out st at_ (spec_scope dss req) s pred)) starts
  else [].

Definition tmem3 (x : Z * Z * Z) (l : list (Z * Z * Z)) : bool := existsb (trip3_eqb x) l.
Definition sub3 (a b : list (Z * Z * Z)) : bool := forallb (fun x => tmem3 x b) a.
Fixpoint nodup3 (l : list (Z * Z * Z)) : bool :=
  match l with [] => true | x :: l' => negb (tmem3 x l') && nodup3 l' end.

(** everything returned is an edge of the graph, every edge is returned, nothing is returned twice *)
Definition spec_op_ok (dss : list Z) (rs : rstore) (o : qop) : bool :=
  match o with
  | QRelated starts pred inverse req at_ limits o_pages =>
    match o_pages with
    | Some ops =>
      let obs := concat ops in
      let exp := spec_edges (rs_st rs) (rs_known rs) dss starts pred inverse req at_ in
      sub3 obs exp && sub3 exp obs && nodup3 obs
    | None => negb (Z.eqb pred 0) && negb (zmem pred (rs_known rs))
    end
  | QSplit starts pred inverse req limits n hide o_pages =>
    match o_pages with
    | Some ops =>
      (* nothing twice; every row is an edge of the graph when the query started; rows of pages fetched after the delete
         are edges of the graph without the deleted dataset; every edge that survives the delete is returned *)
      let obs := concat ops in
      let before := spec_edges (rs_st rs) (rs_known rs) dss starts pred inverse req 4611686018427387904 in
      let hidden := rhide hide rs in
      let after := spec_edges (rs_st hidden) (rs_known rs) dss starts pred inverse req 4611686018427387904 in
      nodup3 obs && sub3 obs before && sub3 (concat (skipn n ops)) after && sub3 after obs
    | None => negb (Z.eqb pred 0) && negb (zmem pred (rs_known rs))
    end
  | _ => true
  end.

(** the versions are those of the write path with the repaired equality (F01a) and duplicate handling (F02a);
    F02b (a nested entity never compares equal) only adds versions with identical content and does not
    change any latest version, hence not the graph *)
Fixpoint spec_run (dss : list Z) (rs : rstore) (ops : list qop) : bool :=
  match ops with
  | [] => true
  | QWrite w :: ops' => spec_run dss (rapply (v_eq v_fixed) (v_dup v_fixed) rs w) ops'
  | QHide d :: ops' => spec_run (dhide d dss) (rhide d rs) ops'
  | o :: ops' => spec_op_ok dss rs o && spec_run dss rs ops'
  end.
Definition spec_ok (c : tcase) : bool := spec_run (tc_ds c) rstore0 (tc_ops c).

Definition evaluate (cs : list tcase) : list (list N) :=
  map (fun v => indices_where (fun c => negb (agree v c)) cs) variants
  ++ [ indices_where (fun c => negb (spec_ok c)) cs ].

(** is there an op on which the spec fails on the implementation's observation AND the pinned model does
    not predict that observation?  (a spec failure the known deviations do not explain) *)
Fixpoint unexplained_run (vc : variant) (dss : list Z) (rc rf : rstore) (ops : list qop) : bool :=
  match ops with
  | [] => false
  | QWrite w :: ops' =>
    unexplained_run vc dss (rapply (v_eq vc) (v_dup vc) rc w) (rapply (v_eq v_fixed) (v_dup v_fixed) rf w) ops'
  | QHide d :: ops' => unexplained_run vc (dhide d dss) (rhide d rc) (rhide d rf) ops'
  | o :: ops' => (negb (spec_op_ok dss rf o) && negb (agree_op vc dss rc o)) || unexplained_run vc dss rc rf ops'
  end.
(** "the pinned model" = the pinned scans with any of the four write-path variants (the write-path repairs F01a / F02a
    may or may not be in the tree) *)
Definition pinned_variants : list variant :=
  flat_map (fun lk => map (fun dm => mk_variant lk dm true true true) [DupStoredAndLocal; DupLocalElseStored]) [true; false].
Definition unexplained (c : tcase) : bool :=
  forallb (fun vc => unexplained_run vc (tc_ds c) rstore0 rstore0 (tc_ops c)) pinned_variants.
Definition unexplained_all (cs : list tcase) : list (list N) := [indices_where unexplained cs].

(** diagnostics: index of the first op the model (variant v) does not predict, and the model's pages for it *)
Fixpoint first_bad (v : variant) (dss : list Z) (rs : rstore) (ops : list qop) (i : N) : option N :=
  match ops with
  | [] => None
  | QWrite w :: ops' => first_bad v dss (rapply (v_eq v) (v_dup v) rs w) ops' (N.succ i)
  | QHide d :: ops' => first_bad v (dhide d dss) (rhide d rs) ops' (N.succ i)
  | o :: ops' => if agree_op v dss rs o then first_bad v dss rs ops' (N.succ i) else Some i
  end.
Definition res_obs (inverse : bool) (r : res) : list (Z * Z * Z) :=
  match r with RDef k => [obs_of inverse k] | RChoice cs => (-1, -1, -1) :: map (obs_of inverse) cs end.
Fixpoint predict (v : variant) (dss : list Z) (rs : rstore) (ops : list qop) : list (list (list (Z * Z * Z))) :=
  match ops with
  | [] => []
  | QWrite w :: ops' => predict v dss (rapply (v_eq v) (v_dup v) rs w) ops'
  | QHide d :: ops' => predict v (dhide d dss) (rhide d rs) ops'
  | QRelated starts pred inverse req at_ limits _ :: ops' =>
    match query_pages (v_q v) rs dss starts pred inverse req at_ limits fuel0 with
    | Some pgs => map (fun pg => flat_map (res_obs inverse) pg) pgs
    | None => [[(-2, -2, -2)]]
    end :: predict v dss rs ops'
  | QSplit starts pred inverse req limits n hide _ :: ops' =>
    match to_related_from (v_q v) (rs_known rs) dss starts pred inverse req 4611686018427387904 with
    | Some froms => map (fun pg => flat_map (res_obs inverse) pg)
                        (follow_split (v_q v) (rs_keys rs) (rs_keys (rhide hide rs)) froms limits 0 n fuel0)
    | None => [[]]
    end :: predict v dss rs ops'
  | QKeys _ :: ops' => map (fun k => [(r_src k, r_pred k, r_tgt k); (r_time k, b2z (r_del k), r_ds k)]) (rs_keys rs) :: predict v dss rs ops'
  end.
