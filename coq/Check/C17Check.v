(** Correspondence evaluator for C17.  Two kinds of cases:
    - sink level: one call of the real wrappedSink.processEntities from a chosen state;
    - job level: a chain of real job.Run's (first run, re-runs scheduled by handleJobError,
      further cron firings, entities appended in between, an optional kill).
    [evaluate] gives, per model variant, the cases whose observation differs from the model, and the
    cases where the executable spec fails on the implementation's own observation. *)
From Coq Require Import List ZArith NArith Bool Arith.
From DH Require Import Lib.CheckLib.
From DH Require Export Model.ErrorHandler.
Import ListNotations.
Open Scope Z_scope.

Record orun := {
  or_err : Z;            (* -1 ok | -2 max items | -3 interrupt | -4 other | -5 no result | >= 0 inner code *)
  or_processed : Z;
  or_tok : Z;
  or_ev : list (event Z);
  or_retries : Z;
  or_pending : bool;
  or_killed : bool       (* the kill was issued during this run *)
}.

Record tcase := {
  t_job : bool;          (* false: sink-level case *)
  t_n : Z; t_bad : list Z; t_failcalls : list Z; t_maxItems : Z;
  t_preLast : Z; t_preDepth : Z; t_preCount : Z;
  t_batch : Z; t_log : bool; t_rerun : bool; t_maxRetries : Z; t_retryDelay : Z;
  t_killAt : Z; t_adds : list Z; t_crons : Z; t_timer : bool;
  t_full : bool;         (* trigger with jobType fullsync *)
  t_transform : bool;    (* the job has an identity transform (it gets wrapped as well): no influence on the model *)
  t_pokeAt : Z;          (* a second start of the same job object during this inner sink call: it gets no ticket and is
                            skipped without any effect on the run in progress - no influence on the model *)
  t_burst : Z;           (* > 0: that many externally triggered runs while re-runs are pending; o_runs = [final state] *)
  (* observed *)
  o_outcome : Z;         (* 0 = the driver ran the case *)
  o_res : Z;             (* sink level: 0 nil | 1 MaxItemsExceededError | 2 other *)
  o_ev : list (event Z);
  o_last : Z; o_lastSet : bool; o_depth : Z; o_count : Z; o_calls : Z;
  o_delay : Z;
  o_runs : list orun;
  o_delayOk : bool;
  o_starts : Z           (* burst: executions of the pipeline *)
}.

Definition ev_eqb (a b : event Z) : bool :=
  match a, b with
  | EDeliv l1, EDeliv l2 => zlist_eqb l1 l2
  | ERep x, ERep y => Z.eqb x y
  | _, _ => false
  end.
Definition evlist_eqb := list_eqb ev_eqb.

Definition last_code (o : option Z) : Z := match o with None => -1 | Some c => c end.
Definition perr_code (e : perr) : Z :=
  match e with POk => -1 | PMax => -2 | PInterrupt => -3 | PInner c => c end.

Definition inner_of (c : tcase) := scripted (t_bad c) (t_failcalls c).

(** ** sink level *)
Definition sink_pre (c : tcase) : wstate Z :=
  {| ws_last := if t_preLast c <? 0 then None else Some (t_preLast c);
     ws_depth := Z.to_nat (t_preDepth c); ws_count := Z.to_nat (t_preCount c);
     ws_calls := 0; ws_log := [] |}.

Definition predict_sink (v : eh_variant) (c : tcase) : wres * wstate Z :=
  let l := zseq 0 (Z.to_nat (t_n c)) in
  wsink (inner_of c) (success_clears v) (Z.to_nat (t_maxItems c)) (length l) l (sink_pre c).

Definition agree_sink (v : eh_variant) (c : tcase) : bool :=
  let '(r, st) := predict_sink v c in
  Z.eqb (o_res c) (match r with WNil => 0 | WMax => 1 end)
  && evlist_eqb (ws_log st) (o_ev c)
  && Z.eqb (last_code (ws_last st)) (o_last c)
  && Bool.eqb (match ws_last st with None => false | Some _ => true end) (o_lastSet c)
  && Z.eqb (Z.of_nat (ws_depth st)) (o_depth c)
  && Z.eqb (Z.of_nat (ws_count st)) (o_count c)
  && Z.eqb (Z.of_nat (ws_calls st)) (o_calls c).

(** ** job level *)
Definition cfg_of (c : tcase) : jcfg :=
  {| c_batch := if t_batch c <? 1 then (100 * 100)%nat else Z.to_nat (t_batch c);
     c_log := t_log c; c_maxItems := Z.to_nat (t_maxItems c); c_rerun := t_rerun c;
     c_kill := if t_killAt c <? 0 then None else Some (Z.to_nat (t_killAt c)) |}.

Definition retries0 (c : tcase) : Z := if t_rerun c then eff_retries (t_maxRetries c) else 0.

Definition predict_job (v : eh_variant) (c : tcase) : list (runrec Z) :=
  chain (inner_of c) v (cfg_of c) (t_full c) 60 (Z.to_nat (t_n c)) (map Z.to_nat (t_adds c)) (Z.to_nat (t_crons c))
        (j_init (retries0 c)).

Definition to_orun (m : runrec Z) : orun :=
  {| or_err := perr_code (r_err m); or_processed := Z.of_nat (r_processed m); or_tok := Z.of_nat (r_tok m);
     or_ev := r_log m; or_retries := r_retries m; or_pending := r_pending m; or_killed := r_killed m |}.

Definition orun_eqb (m o : orun) : bool :=
  Z.eqb (or_err m) (or_err o)
  && Z.eqb (or_processed m) (or_processed o)
  && Z.eqb (or_tok m) (or_tok o)
  && evlist_eqb (or_ev m) (or_ev o)
  && Z.eqb (or_retries m) (or_retries o)
  && Bool.eqb (or_pending m) (or_pending o)
  && Bool.eqb (or_killed m) (or_killed o).

Definition agree_job (v : eh_variant) (c : tcase) : bool :=
  list_eqb orun_eqb (map to_orun (predict_job v c)) (o_runs c)
  && Z.eqb (o_delay c) (if t_rerun c then eff_delay (t_retryDelay c) else 0)
  && o_delayOk c.

(** burst: all externally triggered runs first, then the queued re-runs *)
Definition predict_burst (v : eh_variant) (c : tcase) : list (runrec Z) :=
  burst (inner_of c) v (cfg_of c) (t_full c) 60 (Z.to_nat (t_n c)) (Z.to_nat (t_burst c)) 0 (j_init (retries0 c)).

(** Only what holds for every schedule is compared: a re-run whose timer fires while another run of the job is still
    going gets no ticket and is skipped (then it also schedules nothing), and the driver may stop waiting before a late
    timer fired; so the implementation executes AT MOST as many runs as the model (which serves every scheduled re-run),
    and at least the external ones. *)
Definition agree_burst (v : eh_variant) (c : tcase) : bool :=
  let rs := predict_burst v c in
  (t_burst c <=? o_starts c) && (o_starts c <=? Z.of_nat (length rs)).

Definition agree (v : eh_variant) (c : tcase) : bool :=
  Z.eqb (o_outcome c) 0
  && (if t_job c then (if 0 <? t_burst c then agree_burst v c else agree_job v c) else agree_sink v c).

(** ** the executable spec S, on the implementation's observations only *)
Definition is_bad (c : tcase) (x : Z) : bool := zmem x (t_bad c).
Definition is_good (c : tcase) (x : Z) : bool := negb (is_bad c x).

Fixpoint is_prefix (p l : list Z) : bool :=
  match p, l with
  | [], _ => true
  | x :: p', y :: l' => Z.eqb x y && is_prefix p' l'
  | _ :: _, [] => false
  end.

Definition ends_with_rep (log : list (event Z)) : bool :=
  match rev log with ERep _ :: _ => true | _ => false end.

(** one call on the batch [l] with [cnt] earlier rejections, limit [k] (0 = none):
    - nil: every entity of the batch was either delivered or reported, exactly once, in order;
    - max: that holds for a prefix which ends with the k-th rejected entity;
    - no bad entity is delivered; with a permanent-only sink only bad entities are reported
      (so delivered = the good ones, reported = the bad ones);
    - the handler counter counts the reports; an error is remembered if something was reported. *)
Definition spec_sink (c : tcase) : bool :=
  let l := zseq 0 (Z.to_nat (t_n c)) in
  let k := Z.to_nat (t_maxItems c) in
  let log := o_ev c in
  let nrep := length (reported log) in
  Z.eqb (o_outcome c) 0
  && (if Z.eqb (o_res c) 0 then zlist_eqb (flat log) l && negb (limit_hit k (Z.to_nat (t_preCount c) + nrep))
      else Z.eqb (o_res c) 1 && is_prefix (flat log) l && ends_with_rep log
           && limit_hit k (Z.to_nat (t_preCount c) + nrep))
  && forallb (is_good c) (delivered log)
  && (match t_failcalls c with [] => forallb (is_bad c) (reported log) | _ => true end)
  && Z.eqb (o_count c) (t_preCount c + Z.of_nat nrep)
  && (match reported log with [] => true | _ => o_lastSet c end).

(** job level, one run that starts at token [tok] on a source of [n] entities *)
Definition strict (c : tcase) : bool :=
  t_log c && (match t_failcalls c with [] => true | _ => false end) && (t_killAt c <? 0).

Definition kill_noticed (c : tcase) : bool :=
  (t_log c && (Z.to_nat (t_maxItems c) =? 0)%nat)
  || (match t_bad c, t_failcalls c with [], [] => true | _, _ => false end).

Definition spec_run (c : tcase) (tok n : nat) (o : orun) : bool :=
  let rest := zseq (Z.of_nat tok) (n - tok) in
  let k := Z.to_nat (t_maxItems c) in
  let log := or_ev o in
  let bads := filter (is_bad c) rest in
  (* general: delivered or reported exactly once, in order, starting at the token *)
  is_prefix (flat log) rest
  && forallb (is_good c) (delivered log)
  && (if strict c then
        forallb (is_bad c) (reported log)
        && (if limit_hit k (length bads)
            then zlist_eqb (reported log) (firstn k bads) && ends_with_rep log
                 && (0 <=? or_err o)
                 && (t_full c || (or_tok o <=? Z.of_nat tok + Z.of_nat (length (flat log)) - 1))
            else zlist_eqb (flat log) rest && Z.eqb (or_tok o) (Z.of_nat n)
                 && (match bads with [] => Z.eqb (or_err o) (-1) | _ => 0 <=? or_err o end))
      else true)
  (* a re-run is only scheduled after a failure that is not a kill *)
  && (if or_pending o then (t_rerun c) && negb (Z.eqb (or_err o) (-1)) && negb (Z.eqb (or_err o) (-3)) else true)
  (* when no page can end the run with a sink error (log handler without limit: the wrapped sink never fails a page;
     or a sink that rejects nothing) a kill issued during the run is noticed at the next page: the run is recorded
     as interrupted and schedules no re-run *)
  && (if or_killed o && kill_noticed c
      then Z.eqb (or_err o) (-3) && negb (or_pending o) else true)
  (* log handler, any sink (permanent or transient), no kill: the recorded outcome is ok iff nothing was reported
     to the handler in THIS run *)
  && (if t_log c && (t_killAt c <? 0)
      then Bool.eqb (Z.eqb (or_err o) (-1)) (match reported log with [] => true | _ => false end) else true).

Fixpoint spec_runs (c : tcase) (tok n : nat) (adds : list nat) (rs : list orun) : bool :=
  match rs with
  | [] => true
  | o :: rs' =>
    spec_run c (if t_full c then 0%nat else tok) n o
    && spec_runs c (Z.to_nat (or_tok o)) (match adds with a :: _ => n + a | [] => n end)%nat (tl adds) rs'
  end.

Definition count_pending (rs : list orun) : nat := length (filter or_pending rs).

Definition spec_job (c : tcase) : bool :=
  Z.eqb (o_outcome c) 0
  && spec_runs c 0 (Z.to_nat (t_n c)) (map Z.to_nat (t_adds c)) (o_runs c)
  && (Z.of_nat (count_pending (o_runs c)) <=? Z.max 0 (retries0 c))
  && (match rev (o_runs c) with o :: _ => negb (or_pending o) | [] => false end).

(** burst: at most maxRetries re-executions on top of the externally triggered runs *)
Definition spec_burst (c : tcase) : bool :=
  Z.eqb (o_outcome c) 0
  && (o_starts c - t_burst c <=? Z.max 0 (retries0 c)).

Definition spec_ok (c : tcase) : bool :=
  if t_job c then (if 0 <? t_burst c then spec_burst c else spec_job c) else spec_sink c.

(** [mismatches VCurrent; VResetClears; VFixed; spec failures on I] *)
Definition evaluate (cs : list tcase) : list (list N) :=
  [ indices_where (fun c => negb (agree VCurrent c)) cs;
    indices_where (fun c => negb (agree VResetClears c)) cs;
    indices_where (fun c => negb (agree VFixed c)) cs;
    indices_where (fun c => negb (spec_ok c)) cs ].
