(** Correspondence evaluator for C07: a case is a history of writes, dataset manager operations,
    garbage collections, restarts, crashes at the manager's hook points and read operations, each
    with what the Go driver observed; the model (Model/DsManager.v, Model/Gc.v) is run along it. *)
From Coq Require Import List ZArith NArith Bool.
From DH Require Import Lib.CheckLib Model.Store Model.FeedSpec Model.DsManager Model.Gc Model.NameCodec.
Import ListNotations.
Open Scope Z_scope.

(** an answer as the driver reports it (canonicalised by lib/props/c07.py) *)
Inductive oanswer :=
| ONames (l : list name)                                   (* sorted *)
| ONoDataset
| OChanges (es : list oent) (next : Z)
| OPage (l : list oent)                                    (* the whole listing, any order *)
| OGetErr
| OGet (parts : list (name * content)) (hasdel : bool)     (* partials in the order returned; hasdel only meaningful without partials *)
| ORel (l : list (Z * Z))                                  (* (predicate, related id), any order *)
| OOther.                                                  (* an error / panic no model predicts *)

Inductive cop :=
| CWrite (n : name) (ents : list ent) (o : Z)              (* 0 stored, 1 no such dataset *)
| CMop (m : mop) (o : Z)                                   (* 0 ok, 1 refused with an error, 2 panic *)
| CGc (before after : list crow)                           (* raw key census before / after Cleandeleted *)
| CRestart
| CCrash (m : mop) (k : nat)                               (* the process died at hook point k of m and was restarted *)
| CQuery (q : query) (o : oanswer)
| CHold (slot : Z) (n : name) (o : Z)                      (* keep the dataset handle of name n; 0 ok, 1 no such dataset *)
| CStale (slot : Z) (ents : list ent) (o : Z)              (* a batch through a handle obtained earlier; 0 stored, 1 no such handle (process restarted) *)
| CKeep (slot : Z) (start : uri) (pred : option Z) (inverse : bool) (scope : list name) (o : option (list (Z * Z)))
                                                           (* first page of a paged relation query (any limit); the continuation is kept *)
| CCont (slot : Z) (start : uri) (pred : option Z) (inverse : bool) (o : option (list (Z * Z)))
| CHttp (meth : Z) (seg : list Z) (to : name) (o : Z).
                                                           (* all remaining pages of that query, fetched later with the kept continuation *)
                                                           (* dataset management over HTTP on /datasets/<seg>: 0 DELETE, 1 POST (create),
                                                              2 PATCH {"ID": to} (rename); o: 0 = 200, 1 = 4xx/5xx, 2 = panic *)
Definition tcase := list cop.

(** the dataset names of the generated histories (lib/props/c07.py ncode); any other name has code 9 *)
Definition names_table : list (list Z * Z) :=
  [ ([99; 111; 114; 101; 46; 68; 97; 116; 97; 115; 101; 116], 0);   (* core.Dataset *)
    ([97], 1); ([98], 2); ([99], 3); ([100], 4);                       (* a b c d *)
    ([115; 43; 101], 5);                                               (* s+e *)
    ([115; 32; 101], 6);                                               (* s e *)
    ([115; 37; 50; 66; 101], 7) ].                                     (* s%2Be, literally *)
(** the dataset a request on /datasets/<seg> addresses: the name is the segment percent-decoded ONCE *)
Definition http_name (seg : list Z) : name :=
  match pct_decode seg with Some bs => lookup_name names_table bs 9 | None => 9 end.
Definition http_mop (meth : Z) (seg : list Z) (to : name) : mop :=
  if Z.eqb meth 0 then MDelete (http_name seg) else if Z.eqb meth 1 then MCreate (http_name seg) else MRename (http_name seg) to.

(** order = order of VARIANTS in lib/props/c07.py *)
Definition variants : list variant := [ mkv false false; mkv true false; mkv false true; mkv true true ].

Definition oent_eqb (a b : oent) : bool := Z.eqb (fst a) (fst b) && identical (snd a) (snd b).
Fixpoint oinsert (x : oent) (l : list oent) : list oent :=
  match l with [] => [x] | y :: l' => if fst x <=? fst y then x :: l else y :: oinsert x l' end.
Definition osort (l : list oent) : list oent := fold_right oinsert [] l.
Definition npart_eqb (a b : name * content) : bool := Z.eqb (fst a) (fst b) && identical (snd a) (snd b).
Definition outcome_code (o : outcome) : Z := match o with OOk => 0 | ORefused => 1 | OPanic => 2 end.

Definition answer_matches (a : answer) (o : oanswer) : bool :=
  match a, o with
  | ANames l, ONames l' => list_eqb Z.eqb l l'
  | ANoDataset, ONoDataset => true
  | AChanges es nx, OChanges es' nx' => list_eqb oent_eqb (map (fun e => (en_id e, en_c e)) es) es' && Z.eqb nx nx'
  | APage l, OPage l' =>
    list_eqb oent_eqb (osort (flat_map (fun kc => match snd kc with Some c => [(fst kc, c)] | None => [] end) l)) (osort l')
  | AGet GErr, OGetErr => true
  | AGet (GOk parts hd), OGet parts' hd' =>
    list_eqb npart_eqb parts parts' && (match parts with [] => Bool.eqb hd hd' | _ => true end)
  | ARel l, ORel l' => list_eqb pair_eqb l (pcanon l')
  | _, _ => false
  end.

(** the data-family rows of datasets other than core.Dataset (id 1) that the model can predict *)
Definition model_rows (rows : list crow) : list crow :=
  filter (fun r => (Z.eqb (fst (fst r)) 1 || Z.eqb (fst (fst r)) 4 || Z.eqb (fst (fst r)) 8) && negb (Z.eqb (snd (fst r)) 1)) rows.
Definition no_core (data : list (Z * dstate)) := filter (fun p => negb (Z.eqb (fst p) 1)) data.

(** what the client side of a history holds: dataset handles (slot -> internal dataset id; they die with the process)
    and continuations of paged queries (slot -> the dataset ids the scope was resolved to when the query started) *)
Record aux := { a_slots : list (Z * Z); a_conts : list (Z * list Z) }.
Definition aux0 : aux := {| a_slots := []; a_conts := [] |}.
Definition drop_slots (a : aux) : aux := {| a_slots := []; a_conts := a_conts a |}.

Definition subsetb (a b : list (Z * Z)) : bool := forallb (fun x => existsb (pair_eqb x) b) a.
(** the relation set of a query whose scope is already resolved to dataset ids *)
Definition rel_ids (h : hub) (sc : list Z) (start : uri) (pred : option Z) (inverse : bool) : list (Z * Z) :=
  pcanon (map snd (collect (pass (h_del h) sc) (if inverse then f_in start pred else f_out start pred) (h_data h))).
(** a write through a handle goes to the dataset id of the handle, whatever happened to the dataset since *)
Definition stale_write (v : variant) (i : Z) (ents : list ent) (h : hub) : hub :=
  upd_st (fun st => apply_wop (v_eq v) (v_dup v) st (WBatch i ents)) h.

Fixpoint agree_run (v : variant) (h : hub) (a : aux) (ops : list cop) : bool :=
  match ops with
  | [] => true
  | o :: ops' =>
    match o with
    | CWrite n ents oc =>
      let '(h', r) := write v n ents h in Z.eqb (outcome_code r) oc && agree_run v h' a ops'
    | CMop m oc =>
      let '(h', r) := run_mop v m h in Z.eqb (outcome_code r) oc && agree_run v h' a ops'
    | CGc before after =>
      list_eqb crow_eqb (csort (census_of (no_core (h_data h)))) (csort (model_rows before))
      && list_eqb crow_eqb (gc_census (h_del h) before) after
      && agree_run v (gc h) a ops'
    | CRestart => agree_run v (restart v h) (drop_slots a) ops'
    | CCrash m k => agree_run v (crash_mop v m k h) (drop_slots a) ops'
    | CQuery q oa => answer_matches (obs h q) oa && agree_run v h a ops'
    | CHttp meth seg to oc =>
      (* POST on an existing name answers 400 (CreateDataset itself would return the existing dataset) *)
      let '(h', r) := run_mop v (http_mop meth seg to) h in
      Z.eqb (if Z.eqb meth 1 && has_name (http_name seg) (h_names h) then 1 else outcome_code r) oc && agree_run v h' a ops'
    | CHold slot n oc =>
      match assoc n (h_names h) with
      | Some i => Z.eqb oc 0 && agree_run v h {| a_slots := (slot, i) :: a_slots a; a_conts := a_conts a |} ops'
      | None => Z.eqb oc 1 && agree_run v h a ops'
      end
    | CStale slot ents oc =>
      match assoc slot (a_slots a) with
      | Some i => Z.eqb oc 0 && agree_run v (stale_write v i ents h) a ops'
      | None => Z.eqb oc 1 && agree_run v h a ops'
      end
    | CKeep slot start pred inverse scope o =>
      let sc := scope_ids (h_names h) scope in
      match o with
      | Some l => subsetb (pcanon l) (rel_ids h sc start pred inverse)
                  && agree_run v h {| a_slots := a_slots a; a_conts := (slot, sc) :: a_conts a |} ops'
      | None => false
      end
    | CCont slot start pred inverse o =>
      match o, assoc slot (a_conts a) with
      | Some l, Some sc => subsetb (pcanon l) (rel_ids h sc start pred inverse) && agree_run v h a ops'
      | Some l, None => match l with [] => agree_run v h a ops' | _ => false end
      | None, _ => false
      end
    end
  end.
Definition agree (v : variant) (c : tcase) : bool := agree_run v hub0 aux0 c.

(** ** The executable spec S on the implementation's observations.  A crash leaves either endpoint,
    so the spec run carries the set of spec states still consistent with everything observed. *)
Definition s_outcome (m : mop) (s : sstate) : Z :=
  match m with
  | MCreate _ => 0
  | MDelete n => if Z.eqb n core || negb (s_has n s) then 1 else 0
  | MRename o n => if Z.eqb o core || negb (s_has o s) then 1 else if Z.eqb n o then 0 else if s_has n s then 1 else 0
  end.

(** garbage collection at the level of the census: no row changes, rows only disappear, and a dataset id
    disappears from all five data families or from none *)
Definition rows_sub (a b : list crow) : bool := forallb (fun r => existsb (crow_eqb r) b) a.
Definition gc_census_ok (before after : list crow) : bool :=
  rows_sub after before
  && forallb (fun r => negb (is_data_fam (fst (fst r)))
                       || existsb (crow_eqb r) after
                       || negb (existsb (fun r' => is_data_fam (fst (fst r')) && Z.eqb (snd (fst r')) (snd (fst r))) after)) before.

Definition wef := eq_full.
Definition wdm := DupLocalElseStored.

(** A spec state also knows the dataset handles: a handle follows its dataset through renames and is dead (None) once the
    dataset is deleted - a write through a dead handle stores nothing that anybody can ever read (only time passes); a
    re-created dataset of the same name is a different dataset.  Handles do not survive a restart. *)
Definition shandles := list (Z * option name).
Definition sh_mop (m : mop) (s : sstate) (hs : shandles) : shandles :=
  match m with
  | MCreate _ => hs
  | MDelete n => if Z.eqb (s_outcome m s) 0
                 then map (fun p => match snd p with Some x => if Z.eqb x n then (fst p, None) else p | None => p end) hs
                 else hs
  | MRename o n => if Z.eqb (s_outcome m s) 0
                   then map (fun p => match snd p with Some x => if Z.eqb x o then (fst p, Some n) else p | None => p end) hs
                   else hs
  end.
Definition s_tick (s : sstate) : sstate := {| ss_ds := ss_ds s; ss_clock := ss_clock s + 1 |}.
Definition s_stale (hn : option name) (ents : list ent) (s : sstate) : sstate :=
  match hn with
  | Some n => if s_has n s then s_write wef wdm n ents s else s_tick s
  | None => s_tick s
  end.
Definition rel_of (a : answer) : list (Z * Z) := match a with ARel l => l | _ => [] end.

Definition scand := (sstate * shandles)%type.

Fixpoint spec_run (cands : list scand) (ops : list cop) : bool :=
  match cands with
  | [] => false
  | _ =>
    match ops with
    | [] => true
    | o :: ops' =>
      match o with
      | CWrite n ents oc =>
        spec_run (map (fun c => (s_write wef wdm n ents (fst c), snd c))
                      (filter (fun c => Z.eqb (if s_has n (fst c) then 0 else 1) oc) cands)) ops'
      | CMop m oc => spec_run (map (fun c => (s_mop m (fst c), sh_mop m (fst c) (snd c)))
                                   (filter (fun c => Z.eqb (s_outcome m (fst c)) oc) cands)) ops'
      | CGc before after => gc_census_ok before after && spec_run cands ops'
      | CRestart => spec_run (map (fun c => (fst c, [])) cands) ops'
      | CCrash m k => spec_run (map (fun c => (fst c, [])) cands ++ map (fun c => (s_mop m (fst c), [])) cands) ops'
      | CQuery q oa => spec_run (filter (fun c => answer_matches (sobs (fst c) q) oa) cands) ops'
      | CHttp meth seg to oc =>
        let m := http_mop meth seg to in
        spec_run (map (fun c => (s_mop m (fst c), sh_mop m (fst c) (snd c)))
                      (filter (fun c => Z.eqb (if Z.eqb meth 1 && s_has (http_name seg) (fst c) then 1 else s_outcome m (fst c)) oc) cands)) ops'
      | CHold slot n oc =>
        spec_run (map (fun c => if s_has n (fst c) then (fst c, (slot, Some n) :: snd c) else c)
                      (filter (fun c => Z.eqb (if s_has n (fst c) then 0 else 1) oc) cands)) ops'
      | CStale slot ents oc =>
        spec_run (map (fun c => match assoc slot (snd c) with
                                | Some hn => (s_stale hn ents (fst c), snd c)
                                | None => c
                                end)
                      (filter (fun c => Z.eqb (match assoc slot (snd c) with Some _ => 0 | None => 1 end) oc) cands)) ops'
      | CKeep slot start pred inverse scope o =>
        (* the first page holds only relations of the query's answer at that moment *)
        match o with
        | Some l => spec_run (filter (fun c => subsetb (pcanon l) (rel_of (sobs (fst c) (QRelated start pred inverse scope)))) cands) ops'
        | None => false
        end
      | CCont slot start pred inverse o =>
        (* whatever the scope was: every relation returned later exists in some dataset that exists now -
           nothing of a deleted dataset is ever returned *)
        match o with
        | Some l => spec_run (filter (fun c => subsetb (pcanon l) (rel_of (sobs (fst c) (QRelated start pred inverse [])))) cands) ops'
        | None => false
        end
      end
    end
  end.
Definition spec_ok (c : tcase) : bool := spec_run [(sstate0, [])] c.

Definition evaluate (cs : list tcase) : list (list N) :=
  map (fun v => indices_where (fun c => negb (agree v c)) cs) variants
  ++ [ indices_where (fun c => negb (spec_ok c)) cs ].

(** diagnostics: index of the first operation the model does not predict *)
Fixpoint first_bad (v : variant) (h : hub) (a : aux) (ops : list cop) (i : N) : option N :=
  match ops with
  | [] => None
  | o :: ops' =>
    if agree_run v h a [o] then
      let h' := match o with
                | CWrite n ents _ => fst (write v n ents h)
                | CMop m _ => fst (run_mop v m h)
                | CHttp meth seg to _ => fst (run_mop v (http_mop meth seg to) h)
                | CGc _ _ => gc h
                | CRestart => restart v h
                | CCrash m k => crash_mop v m k h
                | CStale slot ents _ => match assoc slot (a_slots a) with Some j => stale_write v j ents h | None => h end
                | _ => h
                end in
      let a' := match o with
                | CRestart | CCrash _ _ => drop_slots a
                | CHold slot n _ => match assoc n (h_names h) with
                                    | Some j => {| a_slots := (slot, j) :: a_slots a; a_conts := a_conts a |}
                                    | None => a end
                | CKeep slot _ _ _ scope _ => {| a_slots := a_slots a; a_conts := (slot, scope_ids (h_names h) scope) :: a_conts a |}
                | _ => a
                end in
      first_bad v h' a' ops' (N.succ i)
    else Some i
  end.
