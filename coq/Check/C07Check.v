(** Correspondence evaluator for C07: a case is a history of writes, dataset manager operations,
    garbage collections, restarts, crashes at the manager's hook points and read operations, each
    with what the Go driver observed; the model (Model/DsManager.v, Model/Gc.v) is run along it. *)
From Coq Require Import List ZArith NArith Bool.
From DH Require Import Lib.CheckLib Model.Store Model.FeedSpec Model.DsManager Model.Gc.
Import ListNotations.
Open Scope Z_scope.

(** an answer as the driver reports it (canonicalised by lib/props/c07.py) *)
Inductive oanswer :=
| ONames (l : list name)                                   (* sorted *)
| ONoDataset
| OChanges (es : list oent) (next : Z)
| OPage (l : list oent)                                    (* the whole listing, any order *)
| OGetErr
| OGet (parts : list (name * content)) (hasdel : bool)     (* partials in the order returned; hasdel only meaningful without partials *)
| ORel (l : list (Z * Z))                                  (* (predicate, related id), any order *)
| OOther.                                                  (* an error / panic no model predicts *)

Inductive cop :=
| CWrite (n : name) (ents : list ent) (o : Z)              (* 0 stored, 1 no such dataset *)
| CMop (m : mop) (o : Z)                                   (* 0 ok, 1 refused with an error, 2 panic *)
| CGc (before after : list crow)                           (* raw key census before / after Cleandeleted *)
| CRestart
| CCrash (m : mop) (k : nat)                               (* the process died at hook point k of m and was restarted *)
| CQuery (q : query) (o : oanswer).
Definition tcase := list cop.

(** order = order of VARIANTS in lib/props/c07.py *)
Definition variants : list variant := [ mkv false false; mkv true false; mkv false true; mkv true true ].

Definition oent_eqb (a b : oent) : bool := Z.eqb (fst a) (fst b) && identical (snd a) (snd b).
Fixpoint oinsert (x : oent) (l : list oent) : list oent :=
  match l with [] => [x] | y :: l' => if fst x <=? fst y then x :: l else y :: oinsert x l' end.
Definition osort (l : list oent) : list oent := fold_right oinsert [] l.
Definition npart_eqb (a b : name * content) : bool := Z.eqb (fst a) (fst b) && identical (snd a) (snd b).
Definition outcome_code (o : outcome) : Z := match o with OOk => 0 | ORefused => 1 | OPanic => 2 end.

Definition answer_matches (a : answer) (o : oanswer) : bool :=
  match a, o with
  | ANames l, ONames l' => list_eqb Z.eqb l l'
  | ANoDataset, ONoDataset => true
  | AChanges es nx, OChanges es' nx' => list_eqb oent_eqb (map (fun e => (en_id e, en_c e)) es) es' && Z.eqb nx nx'
  | APage l, OPage l' =>
    list_eqb oent_eqb (osort (flat_map (fun kc => match snd kc with Some c => [(fst kc, c)] | None => [] end) l)) (osort l')
  | AGet GErr, OGetErr => true
  | AGet (GOk parts hd), OGet parts' hd' =>
    list_eqb npart_eqb parts parts' && (match parts with [] => Bool.eqb hd hd' | _ => true end)
  | ARel l, ORel l' => list_eqb pair_eqb l (pcanon l')
  | _, _ => false
  end.

(** the data-family rows of datasets other than core.Dataset (id 1) that the model can predict *)
Definition model_rows (rows : list crow) : list crow :=
  filter (fun r => (Z.eqb (fst (fst r)) 1 || Z.eqb (fst (fst r)) 4 || Z.eqb (fst (fst r)) 8) && negb (Z.eqb (snd (fst r)) 1)) rows.
Definition no_core (data : list (Z * dstate)) := filter (fun p => negb (Z.eqb (fst p) 1)) data.

Fixpoint agree_run (v : variant) (h : hub) (ops : list cop) : bool :=
  match ops with
  | [] => true
  | o :: ops' =>
    match o with
    | CWrite n ents oc =>
      let '(h', r) := write v n ents h in Z.eqb (outcome_code r) oc && agree_run v h' ops'
    | CMop m oc =>
      let '(h', r) := run_mop v m h in Z.eqb (outcome_code r) oc && agree_run v h' ops'
    | CGc before after =>
      list_eqb crow_eqb (csort (census_of (no_core (h_data h)))) (csort (model_rows before))
      && list_eqb crow_eqb (gc_census (h_del h) before) after
      && agree_run v (gc h) ops'
    | CRestart => agree_run v (restart v h) ops'
    | CCrash m k => agree_run v (crash_mop v m k h) ops'
    | CQuery q oa => answer_matches (obs h q) oa && agree_run v h ops'
    end
  end.
Definition agree (v : variant) (c : tcase) : bool := agree_run v hub0 c.

(** ** The executable spec S on the implementation's observations.  A crash leaves either endpoint,
    so the spec run carries the set of spec states still consistent with everything observed. *)
Definition s_outcome (m : mop) (s : sstate) : Z :=
  match m with
  | MCreate _ => 0
  | MDelete n => if Z.eqb n core || negb (s_has n s) then 1 else 0
  | MRename o n => if Z.eqb o core || negb (s_has o s) then 1 else if Z.eqb n o then 0 else if s_has n s then 1 else 0
  end.

(** garbage collection at the level of the census: no row changes, rows only disappear, and a dataset id
    disappears from all five data families or from none *)
Definition rows_sub (a b : list crow) : bool := forallb (fun r => existsb (crow_eqb r) b) a.
Definition gc_census_ok (before after : list crow) : bool :=
  rows_sub after before
  && forallb (fun r => negb (is_data_fam (fst (fst r)))
                       || existsb (crow_eqb r) after
                       || negb (existsb (fun r' => is_data_fam (fst (fst r')) && Z.eqb (snd (fst r')) (snd (fst r))) after)) before.

Definition wef := eq_full.
Definition wdm := DupLocalElseStored.

Fixpoint spec_run (cands : list sstate) (ops : list cop) : bool :=
  match cands with
  | [] => false
  | _ =>
    match ops with
    | [] => true
    | o :: ops' =>
      match o with
      | CWrite n ents oc =>
        spec_run (map (s_write wef wdm n ents) (filter (fun s => Z.eqb (if s_has n s then 0 else 1) oc) cands)) ops'
      | CMop m oc => spec_run (map (s_mop m) (filter (fun s => Z.eqb (s_outcome m s) oc) cands)) ops'
      | CGc before after => gc_census_ok before after && spec_run cands ops'
      | CRestart => spec_run cands ops'
      | CCrash m k => spec_run (cands ++ map (s_mop m) cands) ops'
      | CQuery q oa => spec_run (filter (fun s => answer_matches (sobs s q) oa) cands) ops'
      end
    end
  end.
Definition spec_ok (c : tcase) : bool := spec_run [sstate0] c.

Definition evaluate (cs : list tcase) : list (list N) :=
  map (fun v => indices_where (fun c => negb (agree v c)) cs) variants
  ++ [ indices_where (fun c => negb (spec_ok c)) cs ].

(** diagnostics: index of the first operation the model does not predict *)
Fixpoint first_bad (v : variant) (h : hub) (ops : list cop) (i : N) : option N :=
  match ops with
  | [] => None
  | o :: ops' =>
    if agree_run v h [o] then
      let h' := match o with
                | CWrite n ents _ => fst (write v n ents h)
                | CMop m _ => fst (run_mop v m h)
                | CGc _ _ => gc h
                | CRestart => restart v h
                | CCrash m k => crash_mop v m k h
                | CQuery _ _ => h
                end in
      first_bad v h' ops' (N.succ i)
    else Some i
  end.
