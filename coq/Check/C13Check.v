(** Correspondence evaluator for C13: the harness writes the op sequences the Go
    driver ran on a real store together with what it observed; [evaluate] says which
    cases disagree with the model under each variant and on which the executable
    spec fails on the implementation's own observations. *)
From Coq Require Import List NArith Bool Arith.
From DH Require Export Lib.CheckLib Model.Namespace Model.Ids.
Import ListNotations.
Open Scope N_scope.

Record tcase := {
  c_dss : list str;        (* datasets created by the driver before the ops *)
  c_ops : list hop;
  c_conc : bool;           (* the concurrent reader/asserter workload instead of an op sequence *)
  o_outs : list hout;      (* one observation per op *)
  o_conc : N               (* 0 not run | 1 survived with consistent answers | 2 died: concurrent map access | other: died/hang *)
}.

(** the lease size passed to GetSequence in Store.Open *)
Definition L_go : N := 1000.

Definition predict (v : variant) (c : tcase) : list hout :=
  snd (wrun v L_go (c_ops c) (w_setup v L_go (c_dss c))).

(** ** equality of observations *)
Definition pair_eqb {A B} (ea : A -> A -> bool) (eb : B -> B -> bool) (x y : A * B) : bool :=
  ea (fst x) (fst y) && eb (snd x) (snd y).
Definition ss_eqb := list_eqb (pair_eqb str_eqb str_eqb).
Definition sn_eqb := list_eqb (pair_eqb str_eqb N.eqb).
Definition ns_eqb := list_eqb (pair_eqb N.eqb str_eqb).

Definition nsout_eqb (a b : nsout) : bool :=
  match a, b with
  | OStr x, OStr y => str_eqb x y
  | OErr, OErr => true
  | OCtx x, OCtx y => ss_eqb x y
  | ONone, ONone => true
  | _, _ => false
  end.
Definition outcome_eqb (a b : outcome) : bool :=
  match a, b with
  | OcOk, OcOk | OcErrEmpty, OcErrEmpty | OcErrDiscarded, OcErrDiscarded | OcPanic, OcPanic => true
  | _, _ => false
  end.
Definition hout_eqb (a b : hout) : bool :=
  match a, b with
  | HONs x, HONs y => nsout_eqb x y
  | HOBatch o1 i1, HOBatch o2 i2 => outcome_eqb o1 o2 && list_eqb N.eqb i1 i2
  | HOUnit, HOUnit => true
  | HODump a1 b1 c1 d1 e1, HODump a2 b2 c2 d2 e2 =>
    ss_eqb a1 a2 && ss_eqb b1 b2 && sn_eqb c1 c2 && ns_eqb d1 d2 && sn_eqb e1 e2
  | _, _ => false
  end.

(** The concurrent workload is runtime behaviour the model can only name: a death by
    Go's concurrent-map detector is consistent with the variant that hands out the
    live map and with no other; surviving is consistent with every variant. *)
Definition agree (v : variant) (c : tcase) : bool :=
  if c_conc c then
    match o_conc c with
    | 1 => true
    | 2 => match v_alias v with AliasLive => true | AliasCopy => false end
    | _ => false
    end
  else list_eqb hout_eqb (predict v c) (o_outs c).

(** ** the executable spec S, evaluated on the implementation's observations only.
    Everything is judged against the *last* dump of the two namespace tables and the
    two id indexes: every prefix, CURIE and internal id that was ever handed out must
    still mean the same thing there, and the tables must be mutually inverse. *)
Record tables := { t_p2e : list (str * str); t_e2p : list (str * str);
                   t_u2i : list (str * N); t_i2u : list (N * str) }.

Fixpoint last_dump (outs : list hout) (acc : option tables) : option tables :=
  match outs with
  | [] => acc
  | HODump a b c d _ :: r => last_dump r (Some {| t_p2e := a; t_e2p := b; t_u2i := c; t_i2u := d |})
  | _ :: r => last_dump r acc
  end.

Definition ostr_eqb (a : option str) (b : str) : bool :=
  match a with Some x => str_eqb x b | None => false end.
Definition on_eqb (a : option N) (b : N) : bool :=
  match a with Some x => N.eqb x b | None => false end.
Definition nlookup := @lookup N str N.eqb.

Definition maps_to (t : tables) (p e : str) : bool := ostr_eqb (slookup p (t_p2e t)) e.
Definition id_is (t : tables) (u : str) (i : N) : bool := on_eqb (slookup u (t_u2i t)) i.

(** the URI a value passed to GetNamespacedIdentifier stands for *)
Definition meant_uri (v : str) (locals : list (str * str)) : option str :=
  if is_http v then Some v
  else match split_first c_colon v with
       | None => match slookup s_under locals with Some (x :: e) => Some ((x :: e) ++ v) | _ => None end
       | Some (lp, l) => match slookup lp locals with Some (x :: e) => Some ((x :: e) ++ l) | _ => None end
       end.

Definition ok_outcome (oc : outcome) : bool :=
  match oc with OcOk | OcErrEmpty => true | _ => false end.

Definition spec_event (t : tables) (ev : hop * hout) : bool :=
  match ev with
  | (HNs (NAssert e), HONs (OStr p)) => maps_to t p e
  | (HNs (NCompact u), HONs (OStr c)) => is_http u && ostr_eqb (expand_in (t_p2e t) c) u
  | (HNs (NCompact u), HONs OErr) => negb (is_http u)
  | (HNs (NNsId v locals), HONs (OStr c)) =>
    match meant_uri v locals with Some u => ostr_eqb (expand_in (t_p2e t) c) u | None => false end
  | (HNs (NNsId v locals), HONs OErr) => match v with [] => true | _ => match meant_uri v locals with None => true | Some _ => false end end
  | (HNs (NExpand c), HONs (OStr x)) => ostr_eqb (expand_in (t_p2e t) c) x
  | (HNs (NExpand c), HONs OErr) => true
  | (HNs (NGetPrefix e), HONs (OStr p)) => maps_to t p e
  | (HNs (NGetPrefix e), HONs OErr) => true
  | (HNs NFetch, HONs (OCtx m)) => forallb (fun pe => maps_to t (fst pe) (snd pe)) m
  | (HNs (NRead _), HONs _) => true
  | (HNs NRestart, HONs ONone) => true
  | (HNs NCtxAll, HONs (OCtx m)) => forallb (fun pe => maps_to t (fst pe) (snd pe)) m
  | (HNs (NDsCtx exps), HONs (OCtx m)) =>
    (* only declared expansions, each under a prefix the manager (still) gives it, or under "" *)
    forallb (fun pe => existsb (str_eqb (snd pe)) exps
                       && (match fst pe with [] => true | _ => maps_to t (fst pe) (snd pe) end)) m
  | (HNs NJsonLD, HONs ONone) => true
  | (HBatch _ _ ents, HOBatch oc ids) | (HCtxTxn _ _ ents, HOBatch oc ids) =>
    ok_outcome oc && Nat.eqb (length ids) (length ents) &&
    match oc with
    | OcOk => forallb (fun ei => id_is t (fst (fst ei)) (snd ei)) (combine ents ids)
    | _ => forallb (fun ei => match nlookup (snd ei) (t_i2u t) with
                              | Some u => N.eqb (snd ei) 0 || str_eqb u (fst (fst ei))
                              | None => true
                              end) (combine ents ids)
    end
  | (HCtxNew, HOUnit) => true
  | (HRestart _, HOUnit) => true
  | (HCrashWrite _ _ _ ents _, HOBatch oc ids) =>
    (* the write was never acknowledged: its ids may be lost, but none may denote another identifier *)
    ok_outcome oc && Nat.eqb (length ids) (length ents) &&
    forallb (fun ei => match nlookup (snd ei) (t_i2u t) with
                       | Some u => N.eqb (snd ei) 0 || str_eqb u (fst (fst ei))
                       | None => true
                       end) (combine ents ids)
  | (HDump, HODump a b c d e) =>
    forallb (fun pe => maps_to t (fst pe) (snd pe)) a && forallb (fun ui => id_is t (fst ui) (snd ui)) c
    && forallb (fun ui => id_is t (fst ui) (snd ui)) e
  | _ => false
  end.

(** the two namespace maps resp. the two id indexes are each other's inverse *)
Definition dump_ok (o : hout) : bool :=
  match o with
  | HODump a b c d e =>
    (* every internal id carried by a durable entity version or reference key has its URI<->id record *)
    forallb (fun ui => on_eqb (slookup (fst ui) c) (snd ui)) e &&
    Nat.eqb (length a) (length b) && Nat.eqb (length c) (length d)
    && forallb (fun pe => ostr_eqb (slookup (snd pe) b) (fst pe)) a
    && forallb (fun ep => ostr_eqb (slookup (snd ep) a) (fst ep)) b
    && forallb (fun ui => ostr_eqb (nlookup (snd ui) d) (fst ui)) c
    && forallb (fun iu => on_eqb (slookup (snd iu) c) (fst iu)) d
  | _ => true
  end.

Definition ns_events (evs : list (hop * hout)) : list (nsop * nsout) :=
  flat_map (fun ev => match ev with (HNs o, HONs r) => [(o, r)] | _ => [] end) evs.

(** a CURIE that compaction handed out earlier can always be expanded later *)
Definition curie_prefix (c : str) : option str :=
  match split_first c_colon c with Some (p, _) => Some p | None => None end.
(** [known] = the prefixes handed out so far in this history (by compaction or assertion): a CURIE with such
    a prefix - e.g. "ns4:", the CURIE of a URI that is itself a namespace - must expand *)
Fixpoint expand_known_ok (known : list str) (evs : list (hop * hout)) : bool :=
  match evs with
  | [] => true
  | (HNs (NCompact _), HONs (OStr c)) :: evs' =>
    expand_known_ok (match curie_prefix c with Some p => p :: known | None => known end) evs'
  | (HNs (NAssert _), HONs (OStr p)) :: evs' => expand_known_ok (p :: known) evs'
  | (HNs (NExpand c), HONs OErr) :: evs' =>
    negb (match curie_prefix c with Some p => existsb (str_eqb p) known | None => false end)
    && expand_known_ok known evs'
  | _ :: evs' => expand_known_ok known evs'
  end.

Definition spec_ok (c : tcase) : bool :=
  let evs := combine (c_ops c) (o_outs c) in
  if c_conc c then N.eqb (o_conc c) 1 else
  Nat.eqb (length (c_ops c)) (length (o_outs c))
  && forallb dump_ok (o_outs c)
  && snapshot_ok [] (ns_events evs)
  && expand_known_ok [] evs
  && dsctx_ok [] (ns_events evs)
  && compact_fun_ok [] (ns_events evs)
  && match last_dump (o_outs c) None with
     | Some t => forallb (spec_event t) evs
     | None => true
     end.

(** [spec_ok] judges every event against the LAST dump, so a case is well formed when its op
    sequence ends with a dump (every generated case does; an event after the last dump would be
    judged against tables that cannot know it yet) *)
Definition ends_dump (ops : list hop) : bool :=
  match rev ops with HDump :: _ => true | _ => false end.

(** the part of the spec that does not refer to the final tables: every op answered, no request
    panicked or hit a discarded transaction, every context read shows what was fetched *)
Definition out_ok (o : hout) : bool := match o with HOBatch oc _ => ok_outcome oc | _ => true end.
Definition spec_core (c : tcase) : bool :=
  if c_conc c then N.eqb (o_conc c) 1 else
  Nat.eqb (length (c_ops c)) (length (o_outs c))
  && forallb out_ok (o_outs c)
  && snapshot_ok [] (ns_events (combine (c_ops c) (o_outs c))).

Definition variants : list variant :=
  [ v_current;
    {| v_alias := AliasCopy; v_ctx := CtxCopyPtr; v_order := IdsFirst |};
    {| v_alias := AliasLive; v_ctx := CtxShared; v_order := IdsFirst |};
    v_fixed ].

(** [mismatches under current; alias repaired only; contextual store repaired only;
     fixed; spec failures on I] *)
Definition evaluate (cs : list tcase) : list (list N) :=
  map (fun v => indices_where (fun c => negb (agree v c)) cs) variants
  ++ [ indices_where (fun c => negb (spec_ok c)) cs ].

(** ** witness histories (used by the Examples of Properties/C13.v and replayed on the real code
    by lib/props/c13.py witness_cases) *)
From Coq Require Import String Ascii.
Definition s2l (s : string) : str := map N_of_ascii (list_ascii_of_string s).
Definition dss_ab : list str := [s2l "a"; s2l "b"].
Definition mk_case (ops : list hop) (outs : list hout) : tcase :=
  {| c_dss := dss_ab; c_ops := ops; c_conc := false; o_outs := outs; o_conc := 0 |}.
Definition ent0 (i : string) : entity := (s2l i, None).
Definition ent1 (i p t : string) : entity := (s2l i, Some (s2l p, s2l t)).

Definition wit_alias : list hop :=
  [HNs NFetch; HNs (NCompact (s2l "http://x.org/a#b:c")); HNs (NRead 0); HNs (NExpand (s2l "ns3:b:c")); HDump].
Definition wit_discarded : list hop :=
  [HBatch false (s2l "a") [ent1 "ns3:e1" "ns3:p" "ns3:t1"; ent1 "ns3:e2" "ns3:p" ""]; HCtxNew;
   HBatch false (s2l "a") [ent0 "ns3:e3"]; HCtxTxn 0 (s2l "a") [ent0 "ns3:e4"]; HCtxTxn 0 (s2l "b") [ent0 "ns3:e5"];
   HBatch false (s2l "b") [ent0 "ns3:e6"]; HDump].
Definition wit_poison : list hop :=
  [HBatch false (s2l "a") [ent1 "ns3:e1" "ns3:p" ""]; HCtxNew; HCtxTxn 0 (s2l "a") [ent0 "ns3:e2"];
   HBatch false (s2l "a") [ent0 "ns3:e3"]; HRestart false; HBatch false (s2l "a") [ent0 "ns3:e3"]; HDump].
Definition wit_lost : list hop :=
  [HBatch false (s2l "a") [ent0 "ns3:e1"]; HCtxNew; HCtxTxn 0 (s2l "a") [ent1 "ns3:e1" "ns3:p" "ns5:new1"]; HDump;
   HRestart false; HBatch false (s2l "b") [ent0 "ns3:zz"]; HBatch false (s2l "a") [ent0 "ns5:new1"]; HDump].

(** what the model says the spec's verdict is when the implementation behaves like variant [v] *)
Definition verdict (v : variant) (ops : list hop) : bool :=
  spec_ok (mk_case ops (snd (wrun v L_go ops (w_setup v L_go dss_ab)))).

Definition x_uri : str := s2l "http://x.org/a#b:c".
Definition x_curie : str := s2l "ns3:b:c".
Definition x_nopath : str := s2l "https://nopath".
Definition x_nopath_parts : str * str := (s2l "https://", s2l "nopath").
Definition x_hashslash : str := s2l "http://h/p#q/r".
Definition x_hashslash_parts : str * str := (s2l "http://h/p#", s2l "q/r").

(** a transaction with new identifiers during which the process dies at hook point [pt], then a dump
    of what the next process finds, then the same identifier is used again *)
Definition wit_crash (pt : nat) : list hop :=
  [HCrashWrite true None (s2l "a") [ent1 "ns3:alice" "ns3:knows" "ns3:bob"] pt; HDump;
   HBatch false (s2l "b") [ent0 "ns3:alice"]; HDump].
Definition stored_durable (w : world) : bool :=
  forallb (fun ui => on_eqb (slookup (fst ui) (disk (wid w))) (snd ui)) (wstored w).
Definition wit_crash_min : list hop := [HCrashWrite true None (s2l "a") [ent0 "ns3:alice"] 1].

(** a dataset declaring a namespace nobody has used yet: its page context before and after the first use,
    with a JSON-LD page and a /namespaces read in between *)
Definition x_pub : str := s2l "http://pub.example/later#".
Definition wit_dsctx : list hop :=
  [HNs (NDsCtx [x_pub]); HNs NJsonLD; HNs NCtxAll; HNs (NAssert x_pub); HNs (NDsCtx [x_pub]); HDump].

Definition x_hash_slash : str := s2l "http://example.com/doc#section/1".
