(** Correspondence evaluator for C09: the harness writes the histories the Go
    driver ran (real echo handler + real datasetSink, lease timeout of a few ms)
    together with what it observed after every event; [evaluate] says which
    cases disagree with the model under each variant and on which the
    executable spec S fails on the implementation's own observations. *)
From Coq Require Import List NArith Bool.
From DH Require Import Lib.CheckLib.
From DH Require Export Model.FullSync.
Import ListNotations.
Open Scope N_scope.

(** the driver's "expire" waits until every outstanding lease timer has fired *)
(** [DNop]: a job run fails between two pages - no call reaches the dataset.
    [DPause]: time passes, less than a lease (the driver sleeps half a lease): nothing fires, every running
    timer is old from now on.  [DExpireOld]: time passes until the old timers' deadline, but not the younger
    ones': the old timers fire (oldest first), the younger ones keep running.
    [DJobPageFail n ents]: a page of job run n through the real pipeline in which the sink refuses an
    entity and the run stops there (no error handler and the refused entity first; or a `log` handler capped at
    one item): [ents] are the entities in front of the refused one - they are written, the call fails, the run
    is over without endFullSync.
    [DSinkHttp e]: the request [e] as sent by a job's httpDatasetSink (lib/props/c09.py translates the sink's
    start/batch/end calls into requests: a fresh sync id per run, start header on the first batch of a run);
    the sink call succeeds iff the answer is 200. *)
Inductive devent := DEv (e : event) | DExpireAll | DNop | DPause | DExpireOld | DJobPageFail (n : N) (ents : list ent)
                  | DSinkHttp (e : event) | DCancelledEnd (e : event).

(** [DCancelledEnd e]: the end request / end call [e] arrives with an already cancelled context (the client of the
    end request is gone, the job was killed after its last page): CompleteFullSync returns the context error at the
    first entity it looks at - nothing is tombstoned - and its deferred reset drops the sync. *)
Definition abandon (s : state) : state := mkState (dat s) false 0 false (timers s) [] None.

Definition cancelled_end (v : variant) (e : event) (s : state) : resp * state :=
  match e with
  | EHttp start id _ ents =>
      let (r, s2) := http v start id false ents s in
      match r with
      | RConflict => (RConflict, s)
      | _ => if lease s2 then (RFail, abandon (release s2)) else (RGone, s2)
      end
  | EJobEnd n =>
      match v with
      | Current => (RJobErr, abandon s)
      | Fixed => if started s && owner_eqb (own s) n then (RJobErr, abandon s) else (RJobErr, s)
      end
  | _ => step v e s
  end.

Definition scancelled_end (e : event) (g : spec) : resp * spec :=
  match e with
  | EHttp start id _ ents =>
      let (r, g2) := sstep (EHttp start id false ents) g in
      match r with
      | RConflict => (RConflict, g)
      | _ => if is_ghttp (g_active g2) then (RFail, mkSpec None [] (g_data g2)) else (RGone, g2)
      end
  | EJobEnd n => if is_gjob (g_active g) n then (RJobErr, mkSpec None [] (g_data g)) else (RJobErr, g)
  | _ => sstep e g
  end.

Definition sink_resp (r : resp) : resp := match r with ROk => ROk | _ => RJobErr end.

Record ostep := mkOstep {
  o_status : N;          (* 0 ok | 1 conflict 409 | 2 gone 410 | 3 bad request | 4 server error | 5 other | 6 job error | 9 panic *)
  o_changes : N;         (* length of the change feed after the event *)
  o_started : bool;      (* Dataset.FullSyncStarted() after the event *)
  o_view : view          (* latest view after the event, sorted by id *)
}.

Record tcase := mkCase {
  c_events : list devent;
  o_skipped : bool;      (* the driver could not realise the timing of this history: nothing to compare *)
  o_steps : list ostep
}.

Definition resp_code (r : resp) : N :=
  match r with ROk => 0 | RConflict => 1 | RGone => 2 | RJobErr => 6 | RNone => 0 | RFail => 4 end.

Fixpoint insert_sorted (p : N * (N * bool)) (v : view) : view :=
  match v with
  | [] => [p]
  | q :: r => if N.leb (fst p) (fst q) then p :: q :: r else q :: insert_sorted p r
  end.
Definition canon (v : view) : view := fold_right insert_sorted [] v.

Definition expire_all (s : state) : state := Nat.iter (length (timers s)) expire s.

(** old timers are a prefix of [timers] (creation order; cancel removes the youngest, expiry the oldest) *)
Definition old_count (s : state) : nat := length (filter snd (timers s)).
Definition expire_old (s : state) : state := Nat.iter (old_count s) expire s.

Definition dstep (v : variant) (e : devent) (s : state) : resp * state :=
  match e with
  | DEv e => step v e s
  | DExpireAll => (RNone, expire_all s)
  | DNop => (RNone, s)
  | DPause => (RNone, age s)
  | DExpireOld => (RNone, expire_old s)
  | DJobPageFail n ents => (RJobErr, snd (step v (EJobBatch n ents) s))
  | DSinkHttp e => let (r, s1) := step v e s in (sink_resp r, s1)
  | DCancelledEnd e => cancelled_end v e s
  end.

Fixpoint predict_from (v : variant) (h : list devent) (s : state) : list ostep :=
  match h with
  | [] => []
  | e :: h' => let (r, s1) := dstep v e s in
               mkOstep (resp_code r) (d_changes (dat s1)) (started s1) (canon (d_view (dat s1)))
               :: predict_from v h' s1
  end.
Definition predict (v : variant) (c : tcase) : list ostep := predict_from v (c_events c) init.

(** does [e] take or refresh the lease of an HTTP sync (a start, or a request of the active HTTP sync)? *)
Definition refreshes (a : option sowner) (e : event) : bool :=
  match e with
  | EHttp start id _ _ => start || (is_ghttp a && accepted a id)
  | _ => false
  end.

(** S on driver histories: besides S's own state, whether the active HTTP sync has taken or refreshed its
    lease since the last [DPause] - an HTTP sync silent since then expires at [DExpireOld] *)
Definition dspec := (spec * bool)%type.
Definition dsstep (e : devent) (gf : dspec) : resp * dspec :=
  let (g, f) := gf in
  match e with
  | DEv e => let (r, g1) := sstep e g in (r, (g1, f || refreshes (g_active g) e))
  | DExpireAll => let (r, g1) := sstep EExpire g in (r, (g1, f))
  | DNop => (RNone, gf)
  | DPause => (RNone, (g, false))
  | DExpireOld => if f then (RNone, gf) else let (r, g1) := sstep EExpire g in (r, (g1, f))
  | DJobPageFail n ents => (RJobErr, (snd (sstep (EJobBatch n ents) g), f))
  | DSinkHttp e => let (r, g1) := sstep e g in (sink_resp r, (g1, f || refreshes (g_active g) e))
  | DCancelledEnd e => let (r, g1) := scancelled_end e g in
                       (r, (g1, match r with RConflict => f | _ => f || refreshes (g_active g) e end))
  end.

Definition is_some {A} (o : option A) : bool := match o with Some _ => true | None => false end.

Fixpoint spredict_from (h : list devent) (gf : dspec) : list ostep :=
  match h with
  | [] => []
  | e :: h' => let (r, gf1) := dsstep e gf in
               let g1 := fst gf1 in
               mkOstep (resp_code r) (d_changes (g_data g1)) (is_some (g_active g1)) (canon (d_view (g_data g1)))
                              :: spredict_from h' gf1
  end.
Definition spredict (c : tcase) : list ostep := spredict_from (c_events c) (sinit, true).

Definition cdb_eqb (a b : N * (N * bool)) : bool :=
  N.eqb (fst a) (fst b) && cd_eqb (snd a) (snd b).

(** property-level projection that is compared after every event: status class,
    length of the change feed, latest view (id, content, deleted) *)
Definition ostep_eqb (a b : ostep) : bool :=
  N.eqb (o_status a) (o_status b) && N.eqb (o_changes a) (o_changes b)
  && list_eqb cdb_eqb (o_view a) (o_view b).

Definition agree (v : variant) (c : tcase) : bool :=
  o_skipped c || list_eqb ostep_eqb (predict v c) (o_steps c).

(** the sync-started flag after every event (reported as drift information only) *)
Definition agree_started (v : variant) (c : tcase) : bool :=
  o_skipped c || list_eqb Bool.eqb (map o_started (predict v c)) (map o_started (o_steps c)).

(** the executable spec S evaluated on the implementation's observations only *)
Definition spec_ok (c : tcase) : bool :=
  o_skipped c || list_eqb ostep_eqb (spredict c) (o_steps c).

(** [mismatches under Current; under Fixed; spec failures on I;
     started-flag drift under Current; under Fixed] *)
Definition evaluate (cs : list tcase) : list (list N) :=
  [ indices_where (fun c => negb (agree Current c)) cs;
    indices_where (fun c => negb (agree Fixed c)) cs;
    indices_where (fun c => negb (spec_ok c)) cs;
    indices_where (fun c => negb (agree_started Current c)) cs;
    indices_where (fun c => negb (agree_started Fixed c)) cs ].
