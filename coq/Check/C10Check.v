(** Correspondence evaluator for C10: the harness writes the cases the Go
    driver ran together with what it observed; [evaluate] says which cases
    disagree with the model under each variant and on which the executable
    spec fails on the implementation's own observations. *)
From Coq Require Import List ZArith NArith Bool.
From DH Require Import Lib.CheckLib Model.Partition Model.JsonValue.
Import ListNotations.
Open Scope Z_scope.

Inductive kind := KIdentity | KDropOdd | KDup | KCreate | KDropLow | KPushIn.

(** the per-entity behaviour of the four JavaScript transforms of the driver *)
Definition g_of (k : kind) (e : Z) : list Z :=
  match k with
  | KIdentity => [e]
  | KDropOdd => if Z.even e then [e] else []
  | KDup => [e; e]
  | KCreate => [e; 100000 + e]
  | KDropLow => if e <? 2 then [] else [e]     (* filters out whole leading pages when the batch size is 1 or 2 *)
  | KPushIn => [e]                              (* not per-entity: see [f_of] *)
  end.

(** the transform as a function on a chunk.  KPushIn pushes the created entities onto its INPUT array and returns
    it (entities.push(c); return entities): chunk ++ created(chunk) - the order of the result depends on the chunking *)
Definition f_of (k : kind) (l : list Z) : option (list Z) :=
  match k with
  | KPushIn => Some (l ++ map (fun e => 100000 + e) l)
  | _ => Some (flat_map (g_of k) l)
  end.

Fixpoint zinsert (x : Z) (l : list Z) : list Z :=
  match l with [] => [x] | y :: l' => if x <=? y then x :: l else y :: zinsert x l' end.
Definition zsort (l : list Z) : list Z := fold_right zinsert [] l.

Record tcase := {
  c_n : Z; c_batch : Z; c_par : Z; c_kind : kind; c_full : bool; c_wrap : bool;
  (* observed on the implementation *)
  o_outcome : N;              (* 0 ok | 1 err | 2 panic | 3 no result stored *)
  o_seen : list (list Z);     (* chunks the transform saw (wrap only), panicking page removed *)
  o_sink : list (list Z);
  o_token : Z;                (* continuation token as a number, 0 if none *)
  o_rerun : Z;                (* entities sunk by a second run; -1 = not run *)
  (* copy mode (content-preserving transforms into a real DatasetSink, beside a plain copy job without transform):
     (sink entities = plain copy's entities, change-log length of the sink, of the plain copy's sink,
      changes added by a second run from scratch, changes added by a further full-sync run); None = not a copy case *)
  o_copy : option (bool * Z * Z * Z * Z);
  (* copy mode through the context-supporting HTTP transform: how many source entities carry a nested entity (0 otherwise) *)
  c_nested : Z;
  (* copy mode: the transform service fails ONCE, on the first request of the final full-sync run: that run must end as failed
     (the driver reports -2 for it), not be recorded as a success with a page missing *)
  c_ffail : bool;
  (* value-normalisation case (entity.go toJsonValue called directly): a Go value, its image after a pass through JavaScript,
     and what toJsonValue returned for each; None = not such a case *)
  o_json : option (gval Fz * gval Fz * jval Fz * jval Fz)
}.

Definition out_code (r : run_out) : N := match r with ROk => 0 | RErr => 1 | RPanic => 2 end%N.

(** fullsync pipeline: no partitioning (one chunk per page), token only stored at the end *)
Definition predict (m : part_mode) (c : tcase) : N * list (list Z) * list (list Z) * Z * Z :=
  let src := zrange 0 (Z.to_nat (c_n c)) in
  let p := if c_full c then 1 else c_par c in
  let '(ins, outs, tok, r) := run_job (f_of (c_kind c)) m p (Z.to_nat (c_batch c)) src in
  let tok' := if c_full c then (match r with ROk => Z.of_nat tok | _ => 0 end) else Z.of_nat tok in
  (* a second incremental run starts at the stored token = end of feed: Proofs.rerun_noop *)
  let rerun := match r with ROk => if c_full c then -1 else 0 | _ => -1 end in
  (out_code r, ins, outs, tok', rerun).

Definition nonempty (l : list Z) : bool := match l with [] => false | _ => true end.

(** property-level projection that is compared: outcome, what the transform saw
    (flattened), the batches the sink got, the token *)
(** copy mode: the transform preserves contents, so the sink must hold what the model says reached it, and a re-run
    of the same entities adds no change (DatasetSink stores only what differs; Model/Store identical_iff) *)
Definition agree_copy (c : tcase) (hn : bool) (oc : N) (outs : list (list Z)) (cp : bool * Z * Z * Z * Z) : bool :=
  let '(eq, dch, rch, re, fu) := cp in
  (* [hn] (pinned tree, F10c): a nested entity that came back from the context-supporting HTTP transform is a struct of another type
     and never compares equal to the stored one, so every such entity is stored again by a re-run *)
  let again := if hn then c_nested c else 0 in
  let src := zrange 0 (Z.to_nat (c_n c)) in
  N.eqb oc (o_outcome c)
  && (if N.eqb oc 0 then
        Bool.eqb eq (zlist_eqb (concat outs) src)
        && Z.eqb rch (c_n c) && Z.eqb dch (Z.of_nat (length (concat outs)))
        && Z.eqb re again && Z.eqb fu (if c_ffail c then -2 else again)
      else true).

Definition agree (m : part_mode) (hn : bool) (c : tcase) : bool :=
  let '(oc, ins, outs, tok, rerun) := predict m c in
  match o_json c with
  | Some (v, v', o, o') => jval_eqb (to_json i2fz v) o && jval_eqb (to_json i2fz v') o'
  | None =>
  match o_copy c with
  | Some cp => agree_copy c hn oc outs cp
  | None =>
  N.eqb oc (o_outcome c)
  && (if c_wrap c then zlist_eqb (concat ins) (concat (o_seen c)) else true)
  && zlistlist_eqb outs (o_sink c)
  && Z.eqb tok (o_token c)
  && Z.eqb rerun (o_rerun c)
  end end.

(** exact chunk boundaries (reported as drift information only) *)
Definition agree_chunks (m : part_mode) (c : tcase) : bool :=
  let '(oc, ins, outs, tok, rerun) := predict m c in
  if c_wrap c then zlistlist_eqb (filter nonempty ins) (filter nonempty (o_seen c)) else true.

(** the executable spec S, evaluated on the implementation's observations only *)
Definition spec_ok (c : tcase) : bool :=
  let src := zrange 0 (Z.to_nat (c_n c)) in
  match o_json c with
  | Some (_, _, o, o') => jval_eqb o o'      (* a JS-touched value compares equal to the stored one *)
  | None =>
  match o_copy c with
  | Some (eq, dch, rch, re, fu) =>
    (* equivalent to a plain copy; running it again produces no new change *)
    N.eqb (o_outcome c) 0 && eq && Z.eqb dch rch && Z.eqb re 0 && Z.eqb fu (if c_ffail c then -2 else 0)
  | None =>
  N.eqb (o_outcome c) 0
  && (if c_wrap c then zlist_eqb (concat (o_seen c)) src else true)
  && (match c_kind c with
      | KPushIn => zlist_eqb (zsort (concat (o_sink c))) (zsort (src ++ map (fun e => 100000 + e) src))
      | k => zlist_eqb (concat (o_sink c)) (flat_map (g_of k) src)
      end)
  && Z.eqb (o_token c) (c_n c)
  && (if c_full c then true else Z.eqb (o_rerun c) 0)
  end end.

(** [mismatches under (PRound, nested pinned); (PRound, nested repaired); (PCeilClip, pinned); (PCeilClip, repaired); spec failures on I;
     chunk-boundary drift under PRound; under PCeilClip] *)
Definition evaluate (cs : list tcase) : list (list N) :=
  [ indices_where (fun c => negb (agree PRound true c)) cs;
    indices_where (fun c => negb (agree PRound false c)) cs;
    indices_where (fun c => negb (agree PCeilClip true c)) cs;
    indices_where (fun c => negb (agree PCeilClip false c)) cs;
    indices_where (fun c => negb (spec_ok c)) cs;
    indices_where (fun c => negb (agree_chunks PRound c)) cs;
    indices_where (fun c => negb (agree_chunks PCeilClip c)) cs ].
