(** Correspondence evaluator for C18: the harness writes the histories the Go driver ran (versions the
    real store appended per write, job runs with batch size / fullsync flag / scripted sink failure) together
    with what it observed for every run (outcome, ids handed to the sink, sizes of the sink calls, persisted
    tokens) and the dependency list the real MultiSource built.  [evaluate] says which cases disagree with
    the model under each of the 16 variants and on which the executable spec fails on the implementation's
    own observations. *)
From Coq Require Import List ZArith NArith Bool Arith.
From DH Require Import Lib.CheckLib.
From DH Require Export Model.MultiSource.
Import ListNotations.

Record trun := mkTR {
  tr_full : bool; tr_fail : option nat;
  tr_core : Z;                  (* observed input: length of core.Dataset's change feed before the run *)
  tr_mid : option (nat * nat * list wver);  (* scripted write during the run: after sink call k, dataset, versions *)
  (* observed on the implementation *)
  tr_ok : bool;
  tr_emitted : list N;          (* ids handed to the sink, sorted, with repeats *)
  tr_calls : list nat;          (* size of every sink call *)
  tr_foreign : N;               (* emitted entities that do not carry the main dataset's marker *)
  tr_main : Z;                  (* persisted main token, -1 = no token *)
  tr_deps : list (nat * Z);     (* persisted dependency tokens, sorted by dataset *)
  tr_middone : bool;            (* the scripted write was performed *)
  tr_late : list N              (* ids handed to the sink after it, sorted *)
}.

Inductive top := TW (k : nat) (vs : list wver) | TRun (r : trun).

Record tcase := mkTC {
  tc_n : nat; tc_main : nat; tc_decl : list dep; tc_latest : bool; tc_batch : nat;
  tc_ops : list top;
  o_deps : list dep             (* observed: MultiSource.Dependencies after ParseDependencies *)
}.

Definition cfg_of (c : tcase) : cfg := mkCfg (tc_main c) (effective_deps (tc_main c) (tc_decl c)) (tc_latest c).

Fixpoint insertN (x : N) (l : list N) : list N :=
  match l with [] => [x] | y :: l' => if N.leb x y then x :: l else y :: insertN x l' end.
Definition sortN (l : list N) : list N := fold_right insertN [] l.

Fixpoint ev_ents (evs : list ev) : list (list N) :=
  match evs with
  | [] => []
  | EvCall (x :: es) _ :: evs' => (x :: es) :: ev_ents evs'
  | _ :: evs' => ev_ents evs'
  end.

Definition natz_eqb (a b : nat * Z) : bool := Nat.eqb (fst a) (fst b) && Z.eqb (snd a) (snd b).
Definition tok_obs (j : option tokens) : Z * list (nat * Z) :=
  match j with None => ((-1)%Z, []) | Some t => (t_main t, t_deps t) end.

(** the events after the (only) write of a run *)
Fixpoint after_append (evs : list ev) : option (list ev) :=
  match evs with
  | [] => None
  | EvAppend _ _ :: r => Some r
  | _ :: r => after_append r
  end.

Definition run_agree (evs : list ev) (ok : bool) (job : option tokens) (r : trun) : bool :=
  let ents := ev_ents evs in
  (match after_append evs with
   | None => negb (tr_middone r)
   | Some late => tr_middone r
                  (* the order of the sink calls inside one dependency is not modelled: WHICH ids came after the
                     write is compared for (explicit) full syncs, whose pages are in feed order; else their number *)
                  && (if ok && tr_full r then list_eqb N.eqb (sortN (concat (ev_ents late))) (tr_late r)
                      else Nat.eqb (length (concat (ev_ents late))) (length (tr_late r)))
   end)
  && Bool.eqb ok (tr_ok r)
  && list_eqb Nat.eqb (map (@length N) ents) (tr_calls r)
  && (if ok then list_eqb N.eqb (sortN (concat ents)) (tr_emitted r)
      else Nat.eqb (length (concat ents)) (length (tr_emitted r)))
  && Z.eqb (fst (tok_obs job)) (tr_main r)
  && list_eqb natz_eqb (snd (tok_obs job)) (tr_deps r).

Definition op_of (c : tcase) (o : top) : op :=
  match o with
  | TW k vs => OAppend k vs
  | TRun r => match tr_mid r with
              | None => ORun (tr_full r) (tc_batch c) (tr_fail r) (tr_core r)
              | Some (k, ds, vs) => if tr_full r then ORunMid (tc_batch c) (tr_fail r) (tr_core r) k ds vs
                                    else ORunMidInc (tc_batch c) (tr_fail r) (tr_core r) k ds vs
              end
  end.

Fixpoint agree_ops (v : variant) (c : tcase) (s : state) (ops : list top) : bool :=
  match ops with
  | [] => true
  | o :: ops' =>
    let '(s', evs, ok) := step v (cfg_of c) s (op_of c o) in
    (match o with TRun r => run_agree evs ok (s_job s') r | _ => true end) && agree_ops v c s' ops'
  end.

Definition agree (v : variant) (c : tcase) : bool :=
  list_eqb dep_eqb (c_deps (cfg_of c)) (o_deps c)
  && agree_ops v c (init_state (tc_n c)) (tc_ops c).

(** ** The executable spec, evaluated on the implementation's own observations *)
Definition subsetN (a b : list N) : bool := forallb (fun x => memN x b) a.

(** main entities connected to dependency entity [x] as the graph stands now *)
Definition now_targets (c : cfg) (h : hub) (dp : dep) (x : N) : list N :=
  match d_joins dp with
  | [] => []
  | js => filter (main_live h (c_main c)) (walk h (h_clock h) PvNone true (d_ds dp) js [x] [])
  end.
(** ... through a first outgoing hop as the dependency dataset stood at [since] entries *)
Definition prev_targets (c : cfg) (h : hub) (dp : dep) (since : Z) (x : N) : list N :=
  match d_joins dp with
  | [] => []
  | js => if Z.leb since 0 then []
          else filter (main_live h (c_main c))
                      (walk h (h_clock h) (PvHub (cut_hub h (d_ds dp) since)) true (d_ds dp) js [] [x])
  end.

(** positions [from, to) of a feed, each with the entries after it *)
Fixpoint range_tails (l : feed) (pos from to : Z) : list (ver * feed) :=
  match l with
  | [] => []
  | x :: l' => (if Z.leb from pos && Z.ltb pos to then [(x, l')] else []) ++ range_tails l' (pos + 1) from to
  end.

Definition dep_covered (c : cfg) (h : hub) (before after : list (nat * Z)) (emitted : list N) (dp : dep) : bool :=
  let k := d_ds dp in
  let b0 := tok_get before k in
  forallb (fun xt : ver * feed =>
             let '(x, later) := xt in
             (if c_latest c && superseded x later then true
              else subsetN (now_targets c h dp (v_id x)) emitted)
             && subsetN (prev_targets c h dp b0 (v_id x)) emitted)
          (range_tails (feed_of h k) 0 b0 (tok_get after k)).

(** an incremental run during which a write landed (hub [h0] before it, [h1] after it): every change the tokens
    moved past was handled either as the graph stood before the write or as it stood after it; a change that the
    write itself appended can only have been handled after it *)
Fixpoint range_pos (l : feed) (pos from to : Z) : list (Z * ver) :=
  match l with
  | [] => []
  | x :: l' => (if Z.leb from pos && Z.ltb pos to then [(pos, x)] else []) ++ range_pos l' (pos + 1) from to
  end.
Definition cov1 (c : cfg) (h : hub) (dp : dep) (b0 : Z) (emitted : list N) (p : Z) (x : ver) : bool :=
  match nthz (feed_of h (d_ds dp)) p with
  | Some _ =>
    (if c_latest c && superseded x (dropz (p + 1) (feed_of h (d_ds dp))) then true
     else subsetN (now_targets c h dp (v_id x)) emitted)
    && subsetN (prev_targets c h dp b0 (v_id x)) emitted
  | None => false
  end.
Definition dep_covered2 (c : cfg) (h0 h1 : hub) (before after : list (nat * Z)) (emitted : list N) (dp : dep) : bool :=
  let k := d_ds dp in
  let b0 := tok_get before k in
  forallb (fun px : Z * ver => cov1 c h1 dp b0 emitted (fst px) (snd px) || cov1 c h0 dp b0 emitted (fst px) (snd px))
          (range_pos (feed_of h1 k) 0 b0 (tok_get after k)).

Definition main_covered (c : cfg) (h : hub) (before after : Z) (emitted : list N) : bool :=
  forallb (fun xt : ver * feed =>
             let '(x, later) := xt in
             (c_latest c && superseded x later) || memN (v_id x) emitted)
          (range_tails (feed_of h (c_main c)) 0 before after).

Definition tokens_in_range (c : cfg) (h : hub) (main : Z) (deps : list (nat * Z)) : bool :=
  Z.leb 0 main && Z.leb main (lenz (feed_of h (c_main c)))
  && forallb (fun kz : nat * Z => Z.leb 0 (snd kz) && Z.leb (snd kz) (lenz (feed_of h (fst kz)))) deps.

(** the hub after a run (a run only changes it through its scripted write) *)
Definition run_hub (h : hub) (r : trun) : hub :=
  match tr_mid r with
  | Some (_, ds, vs) => if tr_middone r then append_hub h ds vs else h
  | None => h
  end.

(** changes written DURING a full sync that its watermark jumped over: what they affect must have been
    delivered after they were written *)
Definition mid_covered (c : cfg) (h0 h1 : hub) (r : trun) : bool :=
  match tr_mid r with
  | Some (_, ds, _) =>
    negb (tr_middone r) ||
    forallb (fun dp => negb (Nat.eqb (d_ds dp) ds) ||
                       forallb (fun xt : ver * feed => subsetN (now_targets c h1 dp (v_id (fst xt))) (tr_late r))
                               (range_tails (feed_of h1 ds) 0 (lenz (feed_of h0 ds)) (tok_get (tr_deps r) ds)))
            (c_deps c)
  | None => true
  end.

Definition run_spec_ok (c : cfg) (h0 : hub) (before : option tokens) (r : trun) : bool :=
  let h := run_hub h0 r in
  (* C18_main_only *)
  N.eqb (tr_foreign r) 0
  && subsetN (tr_emitted r) (map v_id (feed_of h (c_main c)))
  && (if Z.ltb (tr_main r) 0 then true else
      (* C18_tokens_safe: a persisted token points into the feed ... *)
      tokens_in_range c h (tr_main r) (tr_deps r)
      && match (if tr_full r then None else before) with
         | Some tk =>
           (* ... and everything it moved past was delivered in this run (also when the run failed) *)
           forallb (fun dp => match tr_mid r with
                              | None => dep_covered c h (t_deps tk) (tr_deps r) (tr_emitted r) dp
                              | Some _ => dep_covered2 c h0 h (t_deps tk) (tr_deps r) (tr_emitted r) dp
                              end) (c_deps c)
           && main_covered c h (t_main tk) (tr_main r) (tr_emitted r)
           (* "its tokens no longer advance" means caught up: a run that ended OK and left a dependency token where it
              was had nothing left to read in that dataset (every tracked dataset has a token, implicit ones too) *)
           && (if tr_ok r
               then match tr_mid r with
                    | None => forallb (fun dp => negb (Z.eqb (tok_get (tr_deps r) (d_ds dp)) (tok_get (t_deps tk) (d_ds dp)))
                                                 || Z.eqb (tok_get (tr_deps r) (d_ds dp)) (lenz (feed_of h (d_ds dp))))
                                      (c_deps c)
                    | Some _ => true
                    end
               else true)
         | None =>
           (* full sync: once its token is stored, every live main entity was delivered *)
           if tr_ok r
           then subsetN (filter (main_live h (c_main c)) (map v_id (feed_of h (c_main c)))) (tr_emitted r)
                && mid_covered c h0 h r
           else true
         end).

Definition obs_tokens (r : trun) : option tokens :=
  if Z.ltb (tr_main r) 0 then None else Some (mkTok (tr_main r) (tr_deps r)).

Fixpoint spec_ops (c : tcase) (h : hub) (before : option tokens) (ops : list top) : bool :=
  match ops with
  | [] => true
  | TW k vs :: ops' => spec_ops c (append_hub h k vs) before ops'
  | TRun r :: ops' => run_spec_ok (cfg_of c) h before r && spec_ops c (run_hub h r) (obs_tokens r) ops'
  end.

Definition spec_ok (c : tcase) : bool :=
  spec_ops c (s_hub (init_state (tc_n c))) None (tc_ops c).

(** ** evaluate *)
Definition all_variants : list variant :=
  flat_map (fun s => flat_map (fun p => flat_map (fun w => map (fun k => mkVar s p w k) [SkipDrop; SkipPrev])
                                                 [WmNeighbour; WmOwn])
                              [PrevTime; PrevFeed])
           [SharedEager; SharedSnapshot].

Definition evaluate (cs : list tcase) : list (list N) :=
  map (fun v => indices_where (fun c => negb (agree v c)) cs) all_variants
  ++ [indices_where (fun c => negb (spec_ok c)) cs].

(** what the model predicts for a case: per run (ok, sink call sizes, sorted emitted ids, token) *)
Fixpoint predict_ops (v : variant) (c : tcase) (s : state) (ops : list top)
  : list (bool * list nat * list N * (Z * list (nat * Z))) :=
  match ops with
  | [] => []
  | o :: ops' =>
    let '(s', evs, ok) := step v (cfg_of c) s (op_of c o) in
    (match o with
     | TRun _ => [(ok, map (@length N) (ev_ents evs), sortN (concat (ev_ents evs)), tok_obs (s_job s'))]
     | _ => []
     end) ++ predict_ops v c s' ops'
  end.
Definition predict (v : variant) (c : tcase) := predict_ops v c (init_state (tc_n c)) (tc_ops c).

(** the C18_main_only part of the executable spec alone: what a successful run delivered are ids of the main dataset *)
Fixpoint spec_main_ops (c : tcase) (h : hub) (ops : list top) : bool :=
  match ops with
  | [] => true
  | TW k vs :: ops' => spec_main_ops c (append_hub h k vs) ops'
  | TRun r :: ops' => (negb (tr_ok r) || subsetN (tr_emitted r) (map v_id (feed_of (run_hub h r) (tc_main c))))
                      && spec_main_ops c (run_hub h r) ops'
  end.
Definition spec_main_only (c : tcase) : bool := spec_main_ops c (s_hub (init_state (tc_n c))) (tc_ops c).

(** ** The model's own observations, and the part of a case the model determines *)
(** the observation the model itself would produce for a run *)
Definition self_run (r : trun) (evs : list ev) (ok : bool) (job : option tokens) : trun :=
  mkTR (tr_full r) (tr_fail r) (tr_core r) (tr_mid r) ok (sortN (concat (ev_ents evs)))
       (map (@length N) (ev_ents evs)) 0 (fst (tok_obs job)) (snd (tok_obs job))
       (match after_append evs with Some _ => true | None => false end)
       (match after_append evs with Some l => sortN (concat (ev_ents l)) | None => [] end).

Fixpoint self_ops (v : variant) (c : tcase) (s : state) (ops : list top) : list top :=
  match ops with
  | [] => []
  | o :: ops' =>
    let '(s', evs, ok) := step v (cfg_of c) s (op_of c o) in
    (match o with TRun r => TRun (self_run r evs ok (s_job s')) | _ => o end) :: self_ops v c s' ops'
  end.
Definition selfobs (v : variant) (c : tcase) : tcase :=
  mkTC (tc_n c) (tc_main c) (tc_decl c) (tc_latest c) (tc_batch c)
       (self_ops v c (init_state (tc_n c)) (tc_ops c)) (o_deps c).

(** The implementation's observations with the two things agreement cannot determine replaced by the model's:
    the marker count (the content of delivered entities is not modelled) and, for runs cut short by a sink
    failure, WHICH ids had been delivered (the order inside a dependency's result list is not modelled; [agree]
    compares their number).  Everything else is the implementation's. *)
Definition ok_run (r : trun) (evs : list ev) : trun :=
  mkTR (tr_full r) (tr_fail r) (tr_core r) (tr_mid r) (tr_ok r)
       (if tr_ok r then tr_emitted r else sortN (concat (ev_ents evs)))
       (tr_calls r) 0 (tr_main r) (tr_deps r) (tr_middone r)
       (match after_append evs with
        | Some l => if tr_ok r && tr_full r then tr_late r else sortN (concat (ev_ents l))
        | None => []
        end).
Fixpoint ok_ops (v : variant) (c : tcase) (s : state) (ops : list top) : list top :=
  match ops with
  | [] => []
  | o :: ops' =>
    let '(s', evs, ok) := step v (cfg_of c) s (op_of c o) in
    (match o with TRun r => TRun (ok_run r evs) | _ => o end) :: ok_ops v c s' ops'
  end.
Definition okobs (v : variant) (c : tcase) : tcase :=
  mkTC (tc_n c) (tc_main c) (tc_decl c) (tc_latest c) (tc_batch c)
       (ok_ops v c (init_state (tc_n c)) (tc_ops c)) (o_deps c).

(** well-formed case: batch size >= 1; a scripted write during a run goes with a full sync and not to the main dataset *)
Definition wf_run (c : tcase) (r : trun) : bool :=
  match tr_mid r with
  | Some (_, ds, _) => tr_full r && negb (Nat.eqb ds (tc_main c))
  | None => true
  end.
Definition wf_case (c : tcase) : bool :=
  Nat.leb 1 (tc_batch c)
  && forallb (fun o => match o with TRun r => wf_run c r | _ => true end) (tc_ops c).
