(** Correspondence evaluator for C20: the harness writes the histories the Go driver ran on the
    real BackupManager together with what it observed; [evaluate] says which cases disagree with
    the model under each variant and on which the executable spec fails on the implementation's
    own observations. *)
From Coq Require Import List NArith Bool.
From DH Require Import Lib.CheckLib.
From DH Require Export Model.Backup.
Import ListNotations.
Open Scope N_scope.

(** one line of a hub listing: dataset, entity, value, deleted *)
Definition row := (N * N * N * bool)%type.
Definition row_eqb (a b : row) : bool :=
  let '(a1, a2, a3, a4) := a in let '(b1, b2, b3, b4) := b in
  (a1 =? b1) && (a2 =? b2) && (a3 =? b3) && Bool.eqb a4 b4.
Definition rows_eqb := list_eqb row_eqb.

(** the keys the driver writes: datasets ds0, ds1 x entities e0..e5, in listing order *)
Definition universe : list (N * N) := list_prod [0; 1] [0; 1; 2; 3; 4; 5].

Definition listing (l : list entry) : list row :=
  flat_map (fun dk => match visible (fst dk) (snd dk) l with
                      | Some e => [(fst dk, snd dk, e_val e, e_del e)]
                      | None => []
                      end) universe.

Record tcase := {
  c_m0 : N;                        (* store version after NewStore (observed, an input of the model) *)
  c_ops : list op;                 (* the history, write/restart stamped with the observed store version *)
  c_sid : bytes;                   (* content of the store's DATAHUB_BACKUPID (hub-generated or operator-assigned) *)
  c_rsync : bool;                  (* BackupRsync mode (every tick is an [OBackupRsync]); restore = open the copy *)
  c_foreign : bool;                (* the location is pre-filled: an id file, somebody's backup file and cursor *)
  c_locid0 : bytes;                (* ... content of that id file *)
  (* observed on the implementation *)
  o_cursor0 : N;                   (* lastID after NewBackupManager *)
  o_locid0 : option bytes;         (* the location's id file before the first step *)
  o_steps : list obs_step;         (* per op: lastID, datahub-backup.lastseen, result of Run, kv file changed,
                                      the location's id file afterwards, any file of the location changed *)
  o_diskraw : list (option bytes); (* per op: the raw bytes of datahub-backup.lastseen *)
  o_snap : option (list row);      (* source listing when the last returned backup run started *)
  o_restored : option (list row);  (* listing of the hub restored with DB.Load; None = no backup file *)
  o_rich_eq : bool;                (* all reads of the restored hub equal those of the source at that moment *)
  o_raw_eq : bool                  (* Badger level: every live key has the same version, meta and value in both *)
}.

(** a pre-filled location: an id file, a backup file (opaque bytes), a cursor file *)
Definition foreign_fs (b : bytes) : fs := [(FStorageId, DBytes b); (FKv, DNum 77); (FSeen, DNum 9)].

(** same set of entries *)
Definition subset_b (a b : list entry) : bool := forallb (fun e => existsb (entry_eqb e) b) a.
Definition sets_eqb (a b : list entry) : bool := subset_b a b && subset_b b a.

Definition optN_eqb (a b : option N) : bool :=
  match a, b with Some x, Some y => x =? y | None, None => true | _, _ => false end.
Definition optbytes_eqb (a b : option bytes) : bool :=
  match a, b with Some x, Some y => bytes_eqb x y | None, None => true | _, _ => false end.
Definition step_eqb (a b : obs_step) : bool :=
  (x_cursor a =? x_cursor b) && optN_eqb (x_disk a) (x_disk b) && (x_res a =? x_res b)
  && Bool.eqb (x_grew a) (x_grew b) && optbytes_eqb (x_locid a) (x_locid b)
  && Bool.eqb (x_touched a) (x_touched b) && bytes_eqb (x_sid a) (x_sid b)
  && Bool.eqb (x_running a) (x_running b).
Definition optrows_eqb (a b : option (list row)) : bool :=
  match a, b with Some x, Some y => rows_eqb x y | None, None => true | _, _ => false end.

Definition init_of (v : variant) (c : tcase) : state :=
  init v (c_m0 c) (c_sid c) (if c_foreign c then foreign_fs (c_locid0 c) else []).

Record prediction := {
  p_cursor0 : N; p_locid0 : option bytes; p_steps : list obs_step;
  p_snap : option (list entry);     (* the log the source had at the snapshot *)
  p_file : option (list entry)      (* the stream DB.Load would read *)
}.

Definition predict (v : variant) (c : tcase) : prediction :=
  let st0 := init_of v c in
  let '(xs, st) := trace v (c_ops c) st0 in
  {| p_cursor0 := s_cursor st0; p_locid0 := loc_id (s_fs st0); p_steps := xs; p_snap := s_snap st;
     p_file := match fs_get (s_fs st) (if c_rsync c then FCopy else FKv) with
               | Some (DEntries l) => Some (badger_load l) | _ => None end |}.

(** The model does not know which lost Badger entries are visible to which read API, so about
    the all-reads comparison and the key-level comparison it only claims: same entry set => all
    reads equal and all live keys equal; nothing restored or nothing to compare with => the
    driver reports false.  The listing is predicted exactly. *)
Definition rich_claim (p : prediction) (c : tcase) : bool :=
  match p_snap p, p_file p with
  | Some s, Some f => if sets_eqb f s then o_rich_eq c && (c_rsync c || o_raw_eq c) else true
  | _, _ => negb (o_rich_eq c) && negb (o_raw_eq c)
  end.

Definition agree (v : variant) (c : tcase) : bool :=
  let p := predict v c in
  (p_cursor0 p =? o_cursor0 c)
  && optbytes_eqb (p_locid0 p) (o_locid0 c)
  && list_eqb step_eqb (p_steps p) (o_steps c)
  (* the cursor file holds exactly the 8-byte little-endian encoding of the predicted cursor *)
  && list_eqb optbytes_eqb (map (fun x => option_map le64_enc (x_disk x)) (p_steps p)) (o_diskraw c)
  && optrows_eqb (option_map listing (p_snap p)) (o_snap c)
  && (if c_foreign c then true   (* a pre-filled location is not restored by the driver *)
      else optrows_eqb (option_map listing (p_file p)) (o_restored c) && rich_claim p c).

(** "a location that belongs to a different store is never overwritten": a step of the HUB taken
    while the location's id file exists and differs from the store's leaves every file of the
    location unchanged and is not a returned backup run.  [sid], [prev] = the store's and the
    location's id file before the step. *)
Fixpoint foreign_ok (sid : bytes) (prev : option bytes) (ops : list op) (xs : list obs_step) : bool :=
  match ops, xs with
  | o :: ops', x :: xs' =>
    (if is_env o then true
     else if is_foreign sid prev then negb (x_touched x) && negb (x_res x =? R_RETURNED) else true)
    && foreign_ok (x_sid x) (x_locid x) ops' xs'
  | [], [] => true
  | _, _ => false
  end.

(** every tick is a run: a tick may only be skipped (isRunning found set) when an earlier tick of
    the same process panicked (refused location) - no run is ever in progress in a sequential
    history, so any other skip means the flag was not released.  [stuck] = a tick panicked since
    the last restart. *)
Definition is_tick (o : op) : bool := is_native o || is_rsync o.
Definition is_restart (o : op) : bool := match o with ORestart _ => true | _ => false end.
Fixpoint skip_ok (stuck : bool) (ops : list op) (xs : list obs_step) : bool :=
  match ops, xs with
  | o :: ops', x :: xs' =>
    (if (x_res x =? R_SKIPPED) then stuck else true)
    && skip_ok (if is_restart o then false
                else if (x_res x =? R_REFUSED) || (x_res x =? 3) then true else stuck) ops' xs'
  | [], [] => true
  | _, _ => false
  end.

(** the executable spec S, evaluated on the implementation's observations only *)
Definition spec_ok (c : tcase) : bool :=
  foreign_ok (c_sid c) (o_locid0 c) (c_ops c) (o_steps c) &&
  skip_ok false (c_ops c) (o_steps c) &&
  if c_foreign c then true
  else match o_snap c with
       | None => true                       (* no backup run returned: nothing is promised *)
       | Some s => match o_restored c with
                   | Some r => rows_eqb r s && o_rich_eq c   (* [o_raw_eq] is stronger than the property: not required *)
                   | None => false
                   end
       end.

(** [mismatches under current; append_only; name_only; fixed; spec failures on I] *)
Definition evaluate (cs : list tcase) : list (list N) :=
  [ indices_where (fun c => negb (agree current c)) cs;
    indices_where (fun c => negb (agree append_only c)) cs;
    indices_where (fun c => negb (agree name_only c)) cs;
    indices_where (fun c => negb (agree fixed c)) cs;
    indices_where (fun c => negb (spec_ok c)) cs ].
