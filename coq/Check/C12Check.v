(** Correspondence evaluator for C12 (compaction is invisible to readers).
    A case is a history of writes, injected legacy duplicates, raw key dumps and compactions
    (with an optional crash point and an optional racing writer); every compaction carries the
    reads observed immediately before and immediately after it.  Definitions only. *)
From Coq Require Import List ZArith NArith Bool.
From DH Require Import Lib.CheckLib Model.Store Model.FeedSpec Model.Compact.
Import ListNotations.
Open Scope Z_scope.

(** ** observations *)
Definition oent_eqb (a b : oent) : bool := Z.eqb (fst a) (fst b) && identical (snd a) (snd b).
Definition oents_eqb := list_eqb oent_eqb.
Definition entry_oent (e : entry) : oent := (en_id e, en_c e).
Fixpoint oinsert (x : oent) (l : list oent) : list oent :=
  match l with
  | [] => [x]
  | y :: l' => if fst x <=? fst y then x :: l else y :: oinsert x l'
  end.
Definition osort (l : list oent) : list oent := fold_right oinsert [] l.
Definition partial_eqb (a b : Z * content) : bool := Z.eqb (fst a) (fst b) && identical (snd a) (snd b).

Record gobs := { g_id : uri; g_at : option Z; g_found : bool; g_parts : list (Z * content); g_del : bool }.
Definition rel := (Z * Z * Z)%type.
Definition rel_eqb (a b : rel) : bool :=
  Z.eqb (fst (fst a)) (fst (fst b)) && Z.eqb (snd (fst a)) (snd (fst b)) && Z.eqb (snd a) (snd b).
Record robs := {
  ro_full : list oent;      (* changes since 0, no limit *)
  ro_latest : list oent;    (* the same, latest only *)
  ro_listing : list oent;   (* entities listing, all pages *)
  ro_gets : list gobs;      (* lookups in the dataset, current and point in time *)
  ro_rels : list rel;       (* outgoing and incoming relations of every entity of the pool (sorted) *)
  ro_merged : list Z;       (* unscoped MERGED lookups of the pool: code of the whole answer, value order included *)
  ro_bad : bool             (* some read of the block failed or panicked (e.g. a change-log entry naming a deleted version) *)
}.

Inductive cop :=
| CWrite (w : wop) (o_new : Z)
| CDup (ds : Z) (id : uri) (o_found : bool)
| CCompact (ds thr crash : Z) (after : bool)   (* kill at the crash-th compact.beforeFlush (after = false) or compact.afterFlush (true); 0 = none *)
           (race : option (Z * list ent)) (order : list uri)
           (o_flushes : Z) (o_crashed o_raced : bool) (o_racenew : Z) (before after : robs)
| CRaw (ds : Z) (o_log : list (Z * vkey)) (o_latest : list (vkey * bool)) (o_consistent : bool).
Definition tcase := list cop.

(** ** variants: write path (equality flags, in-batch duplicate mode) x compaction flags *)
Definition variant := (eqflags * dup_mode * cflags)%type.
Definition v_fl (v : variant) := fst (fst v).
Definition v_dm (v : variant) := snd (fst v).
Definition v_cf (v : variant) := snd v.
Definition store_variants : list (eqflags * dup_mode) :=
  let mk (lk ob : bool) (dm : dup_mode) := ({| f_lenkeys := lk; f_objneq := ob |}, dm) in
  [ mk true true DupStoredAndLocal; mk false true DupStoredAndLocal; mk true false DupStoredAndLocal;
    mk false false DupStoredAndLocal; mk true true DupLocalElseStored; mk false true DupLocalElseStored;
    mk true false DupLocalElseStored; mk false false DupLocalElseStored ].
Definition compact_variants : list cflags :=
  let mk (a b c : bool) := {| cf_stale_prev := a; cf_blind_repoint := b; cf_shared_refs := c |} in
  [ mk true true true; mk false true true; mk true false true; mk false false true;
    mk true true false; mk false true false; mk true false false; mk false false false ].
(** order = order of VARIANTS in lib/props/c12.py (compaction flags vary slowest) *)
Definition variants : list variant :=
  flat_map (fun cf => map (fun s => (s, cf)) store_variants) compact_variants.
Definition v_fixed : variant := ({| f_lenkeys := false; f_objneq := false |}, DupLocalElseStored, cf_fixed).

(** ** the model along a history *)
Definition toggle (c : content) : content :=
  {| c_del := negb (c_del c); c_props := c_props c; c_refs := c_refs c;
     c_len := if c_del c then c_len c - 15 else c_len c + 15 |}.   (* ,"deleted":true *)

(** legacy duplicate: the latest version stored with the deleted flag toggled, stored again toggled back,
    the middle version removed with raw deletes *)
Definition dup_store (v : variant) (st : store) (ds : Z) (id : uri) : store * bool :=
  match stored_latest (get_ds st ds) id with
  | None => (st, false)
  | Some c =>
    let st1 := apply_wop (v_fl v) (v_dm v) st (WBatch ds [ {| e_id := id; e_c := toggle c |} ]) in
    let t1 := s_clock st1 in
    let st2 := apply_wop (v_fl v) (v_dm v) st1 (WBatch ds [ {| e_id := id; e_c := c |} ]) in
    let d := get_ds st2 ds in
    let d' := {| d_entries := filter (fun e => negb (Z.eqb (en_id e) id && Z.eqb (en_time e) t1)) (d_entries d);
                 d_latest := d_latest d; d_next := d_next d |} in
    (set_ds st2 ds d', true)
  end.

Record cres := { cr_store : store; cr_flushes : Z; cr_crashed : bool; cr_raced : bool; cr_racenew : Z;
                 cr_shared : bool (* a committed flush deleted reference keys shared with a kept version *) }.

Definition compact_store (v : variant) (st : store) (ds thr crash : Z) (after : bool) (race : option (Z * list ent))
           (order : list uri) : cres :=
  let d := get_ds st ds in
  let p := plan (v_cf v) (v_fl v) thr d order in
  let n := Z.of_nat (length p) in
  let crashing := (0 <? crash) && (crash <=? n) in
  let upto := if crashing then (if after then Z.to_nat crash else Z.to_nat (crash - 1)) else length p in
  let gs := firstn upto p in
  let racing := match race with
                | Some (r, _) => (0 <? r) && (r <=? n) && (negb crashing || (r <=? crash))
                | None => false
                end in
  match race with
  | Some (r, ents) =>
    if racing then
      let k := Z.to_nat (r - 1) in
      let d1 := apply_flushes (v_cf v) d (firstn k gs) in
      let st1 := tick st in
      let d2 := store_batch_ds (v_fl v) (v_dm v) (s_clock st1) ents d1 in
      let d3 := apply_flushes (v_cf v) d2 (skipn k gs) in
      {| cr_store := set_ds st1 ds d3; cr_flushes := if crashing then crash else n; cr_crashed := crashing;
         cr_raced := true; cr_racenew := Z.of_nat (length (d_entries d2)) - Z.of_nat (length (d_entries d1));
         cr_shared := existsb i_shared (concat gs) |}
    else
      {| cr_store := set_ds st ds (apply_flushes (v_cf v) d gs); cr_flushes := if crashing then crash else n;
         cr_crashed := crashing; cr_raced := false; cr_racenew := 0; cr_shared := existsb i_shared (concat gs) |}
  | None =>
    {| cr_store := set_ds st ds (apply_flushes (v_cf v) d gs); cr_flushes := if crashing then crash else n;
       cr_crashed := crashing; cr_raced := false; cr_racenew := 0; cr_shared := existsb i_shared (concat gs) |}
  end.

(** ** what the model predicts for a block of reads *)
Definition m_full (d : dstate) : list oent := map entry_oent (fst (changes d 0 0 false)).
Definition m_latest (d : dstate) : list oent := map entry_oent (fst (changes d 0 0 true)).
Definition m_listing (d : dstate) : list oent :=
  flat_map (fun kc : uri * option content => match snd kc with Some c => [(fst kc, c)] | None => [] end)
           (listing_page d None 0).

(** a lookup scoped to [ds]: the partials and the deleted flag are determined by the model; [found] is only
    constrained when the model has no version at all (an entity known elsewhere is "found" with an empty body) *)
Definition get_agrees (st : store) (ds : Z) (g : gobs) : bool :=
  let at' := match g_at g with Some t => t | None => s_clock st end in
  let '(parts, hasdel) := entity_at st (g_id g) at' [ds] in
  list_eqb partial_eqb parts (g_parts g)
  && Bool.eqb (g_del g) (match parts with [] => hasdel | _ => false end)
  && (g_found g || (match parts with [] => negb hasdel | _ => false end)).

Definition reads_agree (st : store) (ds : Z) (r : robs) : bool :=
  let d := get_ds st ds in
  oents_eqb (m_full d) (ro_full r)
  && oents_eqb (m_latest d) (ro_latest r)
  && oents_eqb (osort (m_listing d)) (osort (ro_listing r))
  && forallb (get_agrees st ds) (ro_gets r)
  && negb (ro_bad r).

Definition rels_same (a b : robs) : bool := list_eqb rel_eqb (ro_rels a) (ro_rels b).
(** observables the model does not compute (relationship queries, merged multi-dataset lookups): compared before/after *)
Definition rels_dir (inv : Z) (r : robs) : list rel := filter (fun x : rel => Z.eqb (fst (fst x)) inv) (ro_rels r).
(** The incoming scan keeps ONE deleted flag per referencing entity (finding F03a of C03): when an entity refers to the same
    target through two predicates its answer depends on which key happens to be the last one, and removing repeated reference
    keys flips it.  Where the feed read before the compaction shows such an entity, incoming relations are not compared. *)
Definition ref_pairs (c : content) : list (Z * Z) :=
  flat_map (fun kv : Z * rval => map (fun t => (fst kv, t)) (rv_tgts (snd kv))) (c_refs c).
Definition multi_pred_target (f : list oent) : bool :=
  let l := flat_map (fun ic : oent => map (fun pt => (fst ic, pt)) (ref_pairs (snd ic))) f in
  existsb (fun a : uri * (Z * Z) =>
             existsb (fun b : uri * (Z * Z) =>
                        Z.eqb (fst a) (fst b) && Z.eqb (snd (snd a)) (snd (snd b)) && negb (Z.eqb (fst (snd a)) (fst (snd b)))) l) l.
Definition unmodelled_same (a b : robs) : bool :=
  list_eqb rel_eqb (rels_dir 0 a) (rels_dir 0 b)
  && (multi_pred_target (ro_full a) || list_eqb rel_eqb (rels_dir 1 a) (rels_dir 1 b))
  && list_eqb Z.eqb (ro_merged a) (ro_merged b).

(** Does the stale comparison base (F12a) make any difference for this entity?  Both passes in lockstep: [ps] = base of
    the pinned strategy, [pf] = base of the repaired one.  Conservative: "false" only withdraws a prediction. *)
Definition matched_preds (p v : entry) : list Z :=
  if Bool.eqb (c_del (en_c p)) (c_del (en_c v)) && negb (Z.eqb (en_time p) (en_time v)) then
    flat_map (fun kv : Z * rval => match assoc (fst kv) (c_refs (en_c p)) with
                                   | Some rv' => if rval_eqb rv' (snd kv) && (0 <? Z.of_nat (length (rv_tgts (snd kv)))) then [fst kv] else []
                                   | None => []
                                   end) (c_refs (en_c v))
  else [].
Fixpoint stale_harmless (eqb : content -> content -> bool) (ps pf : entry) (vs : list entry) : bool :=
  match vs with
  | [] => true
  | v :: vs' =>
    let es := eqb (en_c ps) (en_c v) in
    Bool.eqb es (eqb (en_c pf) (en_c v)) &&
    if es then vkey_eqb (key_of ps) (key_of pf) && stale_harmless eqb ps pf vs'
    else let ms := matched_preds ps v in
         list_eqb Z.eqb ms (matched_preds pf v)
         && stale_harmless eqb (match ms with [] => v | _ => ps end) v vs'
  end.
Definition stale_matters (cf : cflags) (eqb : content -> content -> bool) (d : dstate) (order : list uri) : bool :=
  cf_stale_prev cf &&
  negb (forallb (fun id => match versions_of d id with [] => true | v :: vs => stale_harmless eqb v v vs end) order).

Definition vkey_pair_eqb (a b : Z * vkey) : bool := Z.eqb (fst a) (fst b) && vkey_eqb (snd a) (snd b).
Definition vkey_flag_eqb (a b : vkey * bool) : bool := vkey_eqb (fst a) (fst b) && Bool.eqb (snd a) (snd b).

Definition m_log (d : dstate) : list (Z * vkey) := map (fun e => (en_seq e, key_of e)) (d_entries d).
(** latest pointers by entity code, with "the version it names does not exist" *)
Definition m_pointers (d : dstate) : list (vkey * bool) :=
  flat_map (fun id => match assoc id (d_latest d) with
                      | Some k => [((id, k), match find_entry id (fst k) (snd k) (d_entries d) with None => true | Some _ => false end)]
                      | None => []
                      end) (latest_keys d).

(** [taint]: this or an earlier compaction of the run deleted reference keys shared with a kept version (F12c) or worked
    with a comparison base that differs from the immediate predecessor in a way that matters (F12a); the reference
    index (not modelled) is damaged from then on, so no prediction is made about relationship queries *)
Definition agree_op (v : variant) (taint : bool) (st : store) (o : cop) : store * bool * bool :=
  match o with
  | CWrite w o_new =>
    let st' := apply_wop (v_fl v) (v_dm v) st w in
    (st', match w with
          | WBatch ds _ => (o_new <? 0) ||
               Z.eqb (Z.of_nat (length (d_entries (get_ds st' ds))) - Z.of_nat (length (d_entries (get_ds st ds)))) o_new
          | WTxn _ => true
          end, taint)
  | CDup ds id o_found =>
    let '(st', f) := dup_store v st ds id in (st', Bool.eqb f o_found, taint)
  | CCompact ds thr crash aft race order o_fl o_cr o_ra o_rn before after =>
    let r := compact_store v st ds thr crash aft race order in
    let taint' := taint || cr_shared r || stale_matters (v_cf v) (compact_eqb (v_fl v)) (get_ds st ds) order in
    (cr_store r,
     reads_agree st ds before
     && Z.eqb (cr_flushes r) o_fl && Bool.eqb (cr_crashed r) o_cr && Bool.eqb (cr_raced r) o_ra
     && Z.eqb (cr_racenew r) o_rn
     && reads_agree (cr_store r) ds after
     (* relationship queries are not modelled: "unchanged" is predicted unless the comparison base can be stale (F12a),
        a writer raced, or a committed flush (now or earlier) deleted reference keys shared with a kept version (F12c) *)
     && (o_ra || taint' || unmodelled_same before after),
     taint')
  | CRaw ds o_log o_latest o_cons =>
    let d := get_ds st ds in
    (st, list_eqb vkey_pair_eqb (m_log d) o_log && list_eqb vkey_flag_eqb (m_pointers d) o_latest && o_cons, taint)
  end.

Fixpoint agree_run (v : variant) (taint : bool) (st : store) (ops : list cop) : bool :=
  match ops with
  | [] => true
  | o :: ops' => let '(st', ok, taint') := agree_op v taint st o in ok && agree_run v taint' st' ops'
  end.
Definition agree (v : variant) (c : tcase) : bool := agree_run v false store0 c.

(** ** the executable spec, on the implementation's own observations *)
(** same answer: same partials, same deleted flag ([g_found] only tells whether the URI is known at all, which a
    compaction cannot change and the model does not track) *)
Definition get_same (a b : gobs) : bool :=
  Z.eqb (g_id a) (g_id b)
  && list_eqb partial_eqb (g_parts a) (g_parts b) && Bool.eqb (g_del a) (g_del b).

Definition view_consistent (r : robs) : bool :=
  oents_eqb (ro_latest r) (view_of (ro_full r))
  && oents_eqb (osort (ro_listing r)) (osort (view_of (ro_full r))).

Definition spec_op_ok (o : cop) : bool :=
  match o with
  | CCompact ds thr crash aft race order o_fl o_cr o_ra o_rn before after =>
    negb (ro_bad after) &&
    if o_ra then
      (* a writer raced the compactor: the latest view must still be the last version per entity of the feed *)
      view_consistent after
    else
      (* the latest-only feed as a set: its ORDER necessarily changes when the last version of an entity is a
         duplicate (the surviving earlier version sits earlier in the log) - Properties/C12.v C12_latest_order_changes *)
      oents_eqb (osort (ro_latest after)) (osort (ro_latest before))
      && oents_eqb (osort (ro_listing after)) (osort (ro_listing before))
      && list_eqb get_same (ro_gets after) (ro_gets before)
      && unmodelled_same before after
      && (if o_cr then oents_eqb (spec_compact (ro_full after)) (spec_compact (ro_full before))
          else oents_eqb (ro_full after) (spec_compact (ro_full before)))
  | _ => true
  end.
Definition spec_ok (c : tcase) : bool := forallb spec_op_ok c.

Definition evaluate (cs : list tcase) : list (list N) :=
  map (fun v => indices_where (fun c => negb (agree v c)) cs) variants
  ++ [ indices_where (fun c => negb (spec_ok c)) cs ].

(** index of the first operation the model does not predict (diagnostics) *)
Fixpoint first_bad (v : variant) (taint : bool) (st : store) (ops : list cop) (i : N) : option N :=
  match ops with
  | [] => None
  | o :: ops' => let '(st', ok, taint') := agree_op v taint st o in if ok then first_bad v taint' st' ops' (N.succ i) else Some i
  end.
