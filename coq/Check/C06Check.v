(** Correspondence evaluator for C06 (answers pinned to a past instant never change).
    A case is a history of writes; right after write i a set of probes (entity lookups, relationship
    queries with the bodies of the related entities) is asked "now" ([PAsk], each with its own id), and
    after every later write the same probes are asked again pinned to the instant they were first
    asked at ([PPin], referring to the probe id).  URI codes are the observed internal ids. *)
From Coq Require Import List ZArith NArith Bool.
From DH Require Import Lib.CheckLib Model.Store Model.Refs Model.Query Model.GraphSpec Model.PointInTime Check.C03Check.
Import ListNotations.
Open Scope Z_scope.

Definition now_at : Z := 4611686018427387904.   (* the driver's "no At": 1 << 62 *)

Definition body := (list (Z * content) * bool)%type.      (* partials per dataset (dataset order), hasDeleted *)
Definition rrow := (Z * Z * Z * body)%type.               (* (start, predicate, related), body of the related entity *)

Inductive probe :=
| BGet (id : uri) (req : list Z)
| BRel (starts : list uri) (pred : Z) (inverse : bool) (req : list Z) (limits : list Z).

Inductive pobs :=
| OGet (found : bool) (b : body)
| ORel (pages : option (list (list rrow))).          (* None = the query was refused (unknown predicate) *)

Inductive pop :=
| PWrite (w : wop)
| PAsk (pid : nat) (pr : probe) (o : pobs)            (* asked now *)
| PPin (pid : nat) (o : pobs).                        (* probe [pid] asked again, pinned to the instant it was first asked at *)

Record pcase := { pc_ds : list Z; pc_ops : list pop }.

Record pvariant := { pv_c03 : variant; pv_body_now : bool }.
(** order = order of VARIANTS in lib/props/c06.py: body_now outermost (true = pinned tree first), then C03's order *)
Definition pvariants : list pvariant :=
  flat_map (fun bn => map (fun v => {| pv_c03 := v; pv_body_now := bn |}) variants) [true; false].
Definition pv_fixed : pvariant := {| pv_c03 := v_fixed; pv_body_now := false |}.
Definition pv_current : pvariant := {| pv_c03 := v_current; pv_body_now := true |}.

Definition part_eqb (a b : Z * content) : bool := Z.eqb (fst a) (fst b) && identical (snd a) (snd b).
Definition body_eqb (a b : body) : bool :=
  list_eqb part_eqb (fst a) (fst b) && (match fst a with [] => Bool.eqb (snd a) (snd b) | _ => true end).
Definition no_body : body := ([], false).
(** a body the driver did not observe (rows of an HTTP paged query are compared by their triples only): the
    impossible combination "some partials AND hasDeleted" *)
Definition unobserved (b : body) : bool := snd b && negb (match fst b with [] => true | _ => false end).

(** does the model (variant v) predict observation [o] of probe [pr] asked in state [rs], now ([at_] = None)
    or pinned to instant t ([at_] = Some t)? *)
Definition agree_probe (v : pvariant) (dss : list Z) (rs : rstore) (pr : probe) (at_ : option Z) (o : pobs) : bool :=
  let q := v_q (pv_c03 v) in
  let clk := s_clock (rs_st rs) in
  match pr, o with
  | BGet id req, OGet o_found o_body =>
    let a := match at_ with Some t => t | None => clk end in
    if zmem id (rs_known rs) then
      o_found && body_eqb (lookup_at (rs_st rs) id a (resolve_scope q dss req)) o_body
    else negb o_found
  | BRel starts pred inverse req limits, ORel o_pages =>
    let a := match at_ with Some t => t | None => now_at end in
    (* the instant the repaired variant reads bodies at: the query's own instant *)
    let ab := match at_ with Some t => Z.min t clk | None => clk end in
    match query_pages q rs dss starts pred inverse req a limits fuel0, o_pages with
    | Some mps, Some ops =>
      (* the (start, predicate, related) triples page by page as in C03 ... *)
      pages_match inverse mps (map (map fst) ops)
      (* ... and every body is the related entity as of the instant the variant reads bodies at *)
      && forallb (fun row : rrow =>
                    unobserved (snd row) ||
                    body_eqb (lookup_at (rs_st rs) (snd (fst row)) (if pv_body_now v then clk else ab)
                                        (resolve_scope q dss req))
                             (snd row))
                 (concat ops)
    | None, None => true
    | _, _ => false
    end
  | _, _ => false
  end.

(** probes asked so far: id -> (probe, instant, recorded observation) *)
Definition ptable := list (nat * (probe * Z * pobs)).
Fixpoint plookup (pid : nat) (t : ptable) : option (probe * Z * pobs) :=
  match t with
  | [] => None
  | (i, x) :: t' => if Nat.eqb i pid then Some x else plookup pid t'
  end.

Fixpoint agree_prun (v : pvariant) (dss : list Z) (rs : rstore) (tb : ptable) (ops : list pop) : bool :=
  match ops with
  | [] => true
  | PWrite w :: ops' => agree_prun v dss (rapply (v_eq (pv_c03 v)) (v_dup (pv_c03 v)) rs w) tb ops'
  | PAsk pid pr o :: ops' =>
    agree_probe v dss rs pr None o && agree_prun v dss rs ((pid, (pr, s_clock (rs_st rs), o)) :: tb) ops'
  | PPin pid o :: ops' =>
    match plookup pid tb with
    | Some (pr, t, _) => agree_probe v dss rs pr (Some t) o
    | None => false
    end && agree_prun v dss rs tb ops'
  end.
Definition agree (v : pvariant) (c : pcase) : bool := agree_prun v (pc_ds c) rstore0 [] (pc_ops c).

(** ** the executable spec of C06: two observations of the implementation agree - what a probe returns when
    pinned to the instant it was first asked at is what it returned then.  No model is involved. *)
Definition count3 (x : Z * Z * Z) (l : list (Z * Z * Z)) : nat := length (filter (trip3_eqb x) l).
Definition rows_eqv (a b : list rrow) : bool :=
  (* the same triples, as multisets ... *)
  forallb (fun x => Nat.eqb (count3 x (map fst a)) (count3 x (map fst b))) (map fst a ++ map fst b)
  (* ... carrying the same bodies *)
  && forallb (fun ra => forallb (fun rb => negb (trip3_eqb (fst ra) (fst rb)) || unobserved (snd ra) || unobserved (snd rb) || body_eqb (snd ra) (snd rb)) b) a.
Fixpoint pages_eqv (a b : list (list rrow)) : bool :=
  match a, b with
  | [], [] => true
  | x :: a', y :: b' => rows_eqv x y && pages_eqv a' b'
  | _, _ => false
  end.

Definition obs_eqv (recorded pinned : pobs) : bool :=
  match recorded, pinned with
  | OGet f0 b0, OGet f b =>
    (* "no such URI yet" and "no version yet" are the same answer: nothing *)
    body_eqb (if f0 then b0 else no_body) (if f then b else no_body)
  | ORel None, ORel _ => true              (* refused when first asked: nothing to compare with *)
  | ORel (Some p0), ORel (Some p) => pages_eqv p0 p
  | _, _ => false
  end.

Fixpoint spec_prun (tb : list (nat * pobs)) (ops : list pop) : bool :=
  match ops with
  | [] => true
  | PWrite _ :: ops' => spec_prun tb ops'
  | PAsk pid _ o :: ops' => spec_prun ((pid, o) :: tb) ops'
  | PPin pid o :: ops' =>
    match find (fun e => Nat.eqb (fst e) pid) tb with
    | Some (_, o0) => obs_eqv o0 o
    | None => false
    end && spec_prun tb ops'
  end.
Definition spec_ok (c : pcase) : bool := spec_prun [] (pc_ops c).

Definition evaluate (cs : list pcase) : list (list N) :=
  map (fun v => indices_where (fun c => negb (agree v c)) cs) pvariants
  ++ [ indices_where (fun c => negb (spec_ok c)) cs ].

(** a spec failure that the pinned model does not predict *)
Fixpoint unexplained_run (vc : pvariant) (dss : list Z) (rs : rstore) (tb : ptable) (ops : list pop) : bool :=
  match ops with
  | [] => false
  | PWrite w :: ops' => unexplained_run vc dss (rapply (v_eq (pv_c03 vc)) (v_dup (pv_c03 vc)) rs w) tb ops'
  | PAsk pid pr o :: ops' => unexplained_run vc dss rs ((pid, (pr, s_clock (rs_st rs), o)) :: tb) ops'
  | PPin pid o :: ops' =>
    match plookup pid tb with
    | Some (pr, t, o0) => negb (obs_eqv o0 o) && negb (agree_probe vc dss rs pr (Some t) o)
    | None => true
    end || unexplained_run vc dss rs tb ops'
  end.
(** the pinned reads with any of the four write-path variants *)
Definition pinned_pvariants : list pvariant :=
  map (fun v => {| pv_c03 := v; pv_body_now := true |}) pinned_variants.
Definition unexplained_all (cs : list pcase) : list (list N) :=
  [indices_where (fun c => forallb (fun vc => unexplained_run vc (pc_ds c) rstore0 [] (pc_ops c)) pinned_pvariants) cs].

Fixpoint first_bad (v : pvariant) (dss : list Z) (rs : rstore) (tb : ptable) (ops : list pop) (i : N) : option N :=
  match ops with
  | [] => None
  | PWrite w :: ops' => first_bad v dss (rapply (v_eq (pv_c03 v)) (v_dup (pv_c03 v)) rs w) tb ops' (N.succ i)
  | PAsk pid pr o :: ops' =>
    if agree_probe v dss rs pr None o then first_bad v dss rs ((pid, (pr, s_clock (rs_st rs), o)) :: tb) ops' (N.succ i) else Some i
  | PPin pid o :: ops' =>
    if match plookup pid tb with Some (pr, t, _) => agree_probe v dss rs pr (Some t) o | None => false end
    then first_bad v dss rs tb ops' (N.succ i) else Some i
  end.
Fixpoint spec_bad (tb : list (nat * pobs)) (ops : list pop) (i : N) : list N :=
  match ops with
  | [] => []
  | PWrite _ :: ops' => spec_bad tb ops' (N.succ i)
  | PAsk pid _ o :: ops' => spec_bad ((pid, o) :: tb) ops' (N.succ i)
  | PPin pid o :: ops' =>
    (if match find (fun e => Nat.eqb (fst e) pid) tb with Some (_, o0) => obs_eqv o0 o | None => false end then [] else [i])
    ++ spec_bad tb ops' (N.succ i)
  end.
