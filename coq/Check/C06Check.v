(** Correspondence evaluator for C06 (answers pinned to a past instant never change).
    A case is a history of writes; right after write i a set of probes (entity lookups, relationship
    queries with the bodies of the related entities) is asked "now", and after every later write the
    same probes are asked again pinned to instant i.  URI codes are the observed internal ids. *)
From Coq Require Import List ZArith NArith Bool.
From DH Require Import Lib.CheckLib Model.Store Model.Refs Model.Query Model.GraphSpec Model.PointInTime Check.C03Check.
Import ListNotations.
Open Scope Z_scope.

Definition now_at : Z := 4611686018427387904.   (* the driver's "no At": 1 << 62 *)

Definition body := (list (Z * content) * bool)%type.      (* partials per dataset (dataset order), hasDeleted *)
Definition rrow := (Z * Z * Z * body)%type.               (* (start, predicate, related), body of the related entity *)

Inductive pop :=
| PWrite (w : wop)
| PGet (id : uri) (at_ : option Z) (req : list Z) (o_found : bool) (o_body : body)
       (expect : option (bool * body))                    (* pinned probes: the answer recorded right after that write *)
| PRel (starts : list uri) (pred : Z) (inverse : bool) (req : list Z) (at_ : option Z) (limits : list Z)
       (o_pages : option (list (list rrow)))
       (expect : option (list (list rrow))).

Record pcase := { pc_ds : list Z; pc_ops : list pop }.

Record pvariant := { pv_c03 : variant; pv_body_now : bool }.
(** order = order of VARIANTS in lib/props/c06.py: body_now outermost (true = pinned tree first), then C03's order *)
Definition pvariants : list pvariant :=
  flat_map (fun bn => map (fun v => {| pv_c03 := v; pv_body_now := bn |}) variants) [true; false].
Definition pv_fixed : pvariant := {| pv_c03 := v_fixed; pv_body_now := false |}.
Definition pv_current : pvariant := {| pv_c03 := v_current; pv_body_now := true |}.

Definition part_eqb (a b : Z * content) : bool := Z.eqb (fst a) (fst b) && identical (snd a) (snd b).
Definition body_eqb (a b : body) : bool :=
  list_eqb part_eqb (fst a) (fst b) && (match fst a with [] => Bool.eqb (snd a) (snd b) | _ => true end).
Definition rrow_eqb (a b : rrow) : bool := trip3_eqb (fst a) (fst b) && body_eqb (snd a) (snd b).

(** multiset equality of rows *)
Definition count_row (x : rrow) (l : list rrow) : nat := length (filter (rrow_eqb x) l).
Definition rows_eqv (a b : list rrow) : bool :=
  forallb (fun x => Nat.eqb (count_row x a) (count_row x b)) (a ++ b).
Fixpoint pages_eqv (a b : list (list rrow)) : bool :=
  match a, b with
  | [], [] => true
  | x :: a', y :: b' => rows_eqv x y && pages_eqv a' b'
  | _, _ => false
  end.

Definition agree_pop (v : pvariant) (dss : list Z) (rs : rstore) (o : pop) : bool :=
  let q := v_q (pv_c03 v) in
  let clk := s_clock (rs_st rs) in
  match o with
  | PWrite _ => true
  | PGet id at_ req o_found o_body _ =>
    let a := match at_ with Some t => t | None => clk end in
    if zmem id (rs_known rs) then
      o_found && body_eqb (lookup_at (rs_st rs) id a (resolve_scope q dss req)) o_body
    else negb o_found
  | PRel starts pred inverse req at_ limits o_pages _ =>
    let a := match at_ with Some t => t | None => now_at end in
    match query_pages q rs dss starts pred inverse req a limits fuel0, o_pages with
    | Some mps, Some ops =>
      (* the (start, predicate, related) triples page by page as in C03 ... *)
      pages_match inverse mps (map (map fst) ops)
      (* ... and every body is the related entity as of the instant the variant reads bodies at *)
      && forallb (fun row : rrow =>
                    body_eqb (lookup_at (rs_st rs) (snd (fst row)) (if pv_body_now v then clk else Z.min a clk)
                                        (resolve_scope q dss req))
                             (snd row))
                 (concat ops)
    | None, None => true
    | _, _ => false
    end
  end.

Fixpoint agree_prun (v : pvariant) (dss : list Z) (rs : rstore) (ops : list pop) : bool :=
  match ops with
  | [] => true
  | PWrite w :: ops' => agree_prun v dss (rapply (v_eq (pv_c03 v)) (v_dup (pv_c03 v)) rs w) ops'
  | o :: ops' => agree_pop v dss rs o && agree_prun v dss rs ops'
  end.
Definition agree (v : pvariant) (c : pcase) : bool := agree_prun v (pc_ds c) rstore0 (pc_ops c).

(** the executable spec on the implementation's own observations: a pinned probe returns exactly what
    the same probe returned when it was asked right after the write it is pinned to *)
Definition spec_pop_ok (o : pop) : bool :=
  match o with
  | PGet _ _ _ o_found o_body (Some (e_found, e_body)) =>
    (* "no such URI yet" and "no version yet" are the same answer: nothing *)
    body_eqb (if o_found then o_body else ([], false)) (if e_found then e_body else ([], false))
  | PRel _ _ _ _ _ _ (Some ops) (Some eps) => pages_eqv ops eps
  | PRel _ _ _ _ _ _ None (Some _) => false
  | _ => true
  end.
Definition spec_ok (c : pcase) : bool := forallb spec_pop_ok (pc_ops c).

Definition evaluate (cs : list pcase) : list (list N) :=
  map (fun v => indices_where (fun c => negb (agree v c)) cs) pvariants
  ++ [ indices_where (fun c => negb (spec_ok c)) cs ].

(** a spec failure that the pinned model does not predict *)
Fixpoint unexplained_run (dss : list Z) (rs : rstore) (ops : list pop) : bool :=
  match ops with
  | [] => false
  | PWrite w :: ops' => unexplained_run dss (rapply (v_eq v_current) (v_dup v_current) rs w) ops'
  | o :: ops' => (negb (spec_pop_ok o) && negb (agree_pop pv_current dss rs o)) || unexplained_run dss rs ops'
  end.
Definition unexplained_all (cs : list pcase) : list (list N) :=
  [indices_where (fun c => unexplained_run (pc_ds c) rstore0 (pc_ops c)) cs].

Fixpoint first_bad (v : pvariant) (dss : list Z) (rs : rstore) (ops : list pop) (i : N) : option N :=
  match ops with
  | [] => None
  | PWrite w :: ops' => first_bad v dss (rapply (v_eq (pv_c03 v)) (v_dup (pv_c03 v)) rs w) ops' (N.succ i)
  | o :: ops' => if agree_pop v dss rs o then first_bad v dss rs ops' (N.succ i) else Some i
  end.
