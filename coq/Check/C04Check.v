(** Correspondence evaluator for C04 (crash atomicity / durability / monotone sequences).
    A case = what the Go driver did and saw: the acknowledged prefix of a history (run in a child
    process), where the child died (hook point -> crash position in the step model, or SIGKILL at an
    unknown instant), the dump of the reopened store, a tail of further writes and the dump after it,
    plus the dumps of crash-free REFERENCE runs of the implementation (history without / with the
    interrupted write).  Definitions only. *)
From Coq Require Import List ZArith NArith Bool.
From DH Require Import Lib.CheckLib Model.Store Model.FeedSpec Model.Crash Check.StoreCheck.
Import ListNotations.
Open Scope Z_scope.

(** ** observations *)
Record odsd := {
  od_ds : Z;
  od_dseq : Z;                  (* raw value of the dataset's sequence key (absent = 0) *)
  od_items : Z;                 (* items counter of the core.Dataset meta entity *)
  od_log : list (Z * oent);     (* change log: (raw position, (id, content)) in key order *)
  od_latest : list oent;        (* latest-only feed from 0 *)
  od_listing : list oent        (* MapEntities, all *)
}.
Record odump := {
  o_idp : Z;                    (* raw value of the id sequence key after Open *)
  o_next : Z;                   (* volatile next id after Open *)
  o_ids : list (uri * Z);       (* id table: URIs assigned since the base dump, with their internal ids *)
  o_ds : list odsd
}.

Inductive crashspec :=
| CNone                               (* the child ran to the end and closed the store *)
| CHook (o : wop) (phase : Z) (done : list Z)
    (* died at a hook point of write o (datasets in the order ExecuteTransaction processed them): phase 0 = ids not
       committed, 1 = ids committed, 2 = data committed; done = datasets whose counter commit was completed (phase 2;
       the counter loop iterates another Go map, its order is independent of the processing order) *)
| CKill (alts : list wop).            (* SIGKILL at an unknown instant: the write in progress, [] = none in progress *)

Record tcase := {
  t_next0 : Z; t_idp0 : Z;            (* observed after setup *)
  t_prefix : list event;              (* acknowledged writes and clean restarts executed by the child *)
  t_crash : crashspec;
  t_after : odump;                    (* after reopen *)
  t_tail : list wop;                  (* executed after reopen *)
  t_final : odump;
  t_refA : list odsd;                 (* crash-free reference run of the prefix (data only) *)
  t_refB : option (list odsd)         (* crash-free reference run of prefix + interrupted write *)
}.

Definition variant := (counter_mode * (eqflags * dup_mode))%type.
Definition v_cm (v : variant) := fst v.
Definition v_fl (v : variant) := fst (snd v).
Definition v_dm (v : variant) := snd (snd v).

(** ** rendering a model state as a dump *)
Definition model_dsd (c : cstate) (ds : Z) : odsd :=
  let d := get_ds (cs_store c) ds in
  {| od_ds := ds; od_dseq := d_next d; od_items := items_of c ds;
     od_log := map (fun e => (en_seq e, (en_id e, en_c e))) (d_entries d);
     od_latest := map entry_oent (fst (changes d 0 0 true));
     od_listing := page_oents (listing_page d None 0) |}.

(** ** comparisons *)
Fixpoint zinsert (x : Z) (l : list Z) : list Z :=
  match l with [] => [x] | y :: l' => if x <=? y then x :: l else y :: zinsert x l' end.
Definition zsort (l : list Z) : list Z := fold_right zinsert [] l.

(** same data: change-log contents in order, latest feed, listing (as a set) *)
Definition data_eqv (a b : odsd) : bool :=
  Z.eqb (od_ds a) (od_ds b)
  && oents_eqb (map snd (od_log a)) (map snd (od_log b))
  && oents_eqb (od_latest a) (od_latest b)
  && oents_eqb (osort (od_listing a)) (osort (od_listing b)).
Definition datas_eqv := list_eqb data_eqv.

(** same data, same raw positions, same sequence key, same counter *)
Definition full_eqv (a b : odsd) : bool :=
  data_eqv a b && Z.eqb (od_dseq a) (od_dseq b) && Z.eqb (od_items a) (od_items b)
  && zlist_eqb (map fst (od_log a)) (map fst (od_log b)).

Definition dump_matches (c : cstate) (o : odump) : bool :=
  Z.eqb (cs_idp c) (o_idp o) && Z.eqb (cs_next c) (o_next o)
  && zlist_eqb (zsort (map fst (cs_ids c))) (zsort (map fst (o_ids o)))
  && zlist_eqb (zsort (map snd (cs_ids c))) (zsort (map snd (o_ids o)))
  && list_eqb full_eqv (map (fun od => model_dsd c (od_ds od)) (o_ds o)) (o_ds o).

Definition model_datas (c : cstate) (l : list odsd) : list odsd := map (fun od => model_dsd c (od_ds od)) l.

(** ** the model's candidates for the recovered state *)
(** all steps through the data commit, then the counter commits of the datasets in [done] (counter commits of
    different datasets commute; their real order is that of a Go map) *)
Definition is_counter_of (done : list Z) (s : dstep) : bool :=
  match s with SCounter ds _ => existsb (Z.eqb ds) done | _ => false end.
Definition after_commit (v : variant) (c : cstate) (o : wop) (done : list Z) : cstate :=
  let l := fst (steps (v_cm v) (v_fl v) (v_dm v) c o) in
  let ci := commit_index (v_cm v) (v_fl v) (v_dm v) c o in
  reopen (apply_steps c (firstn (S ci) l ++ filter (is_counter_of done) (skipn (S ci) l))).

Fixpoint subsets (l : list Z) : list (list Z) :=
  match l with [] => [[]] | x :: l' => let r := subsets l' in r ++ map (cons x) r end.

Definition candidates (v : variant) (c1 : cstate) (cr : crashspec) : list cstate :=
  match cr with
  | CNone => [reopen (close c1)]
  | CHook o phase done =>
    if phase <? 2 then [crash_at (v_cm v) (v_fl v) (v_dm v) (commit_index (v_cm v) (v_fl v) (v_dm v) c1 o - 1 + Z.to_nat phase) c1 o]
    else [after_commit v c1 o done]
  | CKill [] => [reopen c1; reopen (close c1)]
  | CKill alts =>
    flat_map (fun o => map (fun k => crash_at (v_cm v) (v_fl v) (v_dm v) k c1 o)
                           (seq 0 (S (commit_index (v_cm v) (v_fl v) (v_dm v) c1 o)))
                       ++ map (after_commit v c1 o) (subsets (map fst (op_sets o)))) alts
  end.

Definition crash_ops (cr : crashspec) : list wop :=
  match cr with CHook o _ _ => [o] | CKill alts => alts | CNone => [] end.

Definition agree (v : variant) (t : tcase) : bool :=
  let c0 := cstate0 (t_next0 t) (t_idp0 t) in
  let c1 := run_events (v_cm v) (v_fl v) (v_dm v) (t_prefix t) c0 in
  (* the crash-free reference runs of the implementation are what the model computes without a crash *)
  datas_eqv (model_datas c1 (t_refA t)) (t_refA t)
  && match t_refB t with
     | Some rb =>
       match crash_ops (t_crash t) with
       | [] => false
       | os => forallb (fun o => datas_eqv (model_datas (exec_op (v_cm v) (v_fl v) (v_dm v) c1 o) rb) rb) os
       end
     | None => match crash_ops (t_crash t) with [] => true | _ => false end   (* the driver makes reference B whenever a write was interrupted *)
     end
  (* the recovered store and the store after the tail are what the model computes for the crash position *)
  && existsb (fun c2 =>
                dump_matches c2 (t_after t)
                && dump_matches (run_events (v_cm v) (v_fl v) (v_dm v) (map EOp (t_tail t)) c2) (t_final t))
             (candidates v c1 (t_crash t)).

(** ** the executable spec, on the implementation's observations only *)
Fixpoint strictly_incr_below (lo : Z) (l : list Z) (hi : Z) : bool :=
  match l with
  | [] => lo <=? hi
  | x :: l' => (lo <=? x) && strictly_incr_below (x + 1) l' hi
  end.

Fixpoint nodupb (l : list Z) : bool :=
  match l with [] => true | x :: l' => negb (existsb (Z.eqb x) l') && nodupb l' end.

(** versions, change entries, latest feed and listing of one dataset agree with each other, and the
    next change position is beyond every position in use *)
Definition dsd_consistent (d : odsd) : bool :=
  strictly_incr_below 0 (map fst (od_log d)) (od_dseq d)
  && oents_eqb (view_of (map snd (od_log d))) (od_latest d)
  && oents_eqb (osort (view_of (map snd (od_log d)))) (osort (od_listing d)).

(** internal ids: one-to-one, all below the next id, which is within the persisted lease *)
Definition ids_consistent (lo : Z) (o : odump) : bool :=
  nodupb (map fst (o_ids o)) && nodupb (map snd (o_ids o))
  && forallb (fun p : uri * Z => (lo <=? snd p) && (snd p <? o_next o)) (o_ids o)
  && (o_next o <=? o_idp o).

Fixpoint is_prefix (a b : list Z) : bool :=
  match a, b with
  | [], _ => true
  | x :: a', y :: b' => Z.eqb x y && is_prefix a' b'
  | _, _ => false
  end.

(** after the reopen, new change positions and new internal ids are beyond everything that existed *)
Definition grows_pos (x y : odsd) : bool :=
  Z.eqb (od_ds x) (od_ds y)
  && is_prefix (map fst (od_log x)) (map fst (od_log y))
  && forallb (fun p => od_dseq x <=? p) (skipn (length (od_log x)) (map fst (od_log y))).

Definition memb (x : Z) (l : list Z) : bool := existsb (Z.eqb x) l.

(** the id table only grows: every URI and every id value of the recovered table is still there, and an id
    value that was not in the recovered table is at or beyond the recovered next id (set level) *)
Definition ids_grow (a f : odump) : bool :=
  forallb (fun u => memb u (map fst (o_ids f))) (map fst (o_ids a))
  && forallb (fun i => memb i (map snd (o_ids f))) (map snd (o_ids a))
  && forallb (fun i => memb i (map snd (o_ids a)) || (o_next a <=? i)) (map snd (o_ids f)).

Definition grows (a f : odump) : bool :=
  list_eqb grows_pos (o_ds a) (o_ds f) && ids_grow a f.

(** pairing level: a URI keeps its id, a new URI gets an id at or beyond the recovered next id.  The model
    holds the id table only up to the assignment order inside one write (Go map iteration), so this clause is
    evaluated on the two observed tables directly; the model-side statement is C04_id_stable. *)
Definition ids_stable (a f : odump) : bool :=
  forallb (fun p : uri * Z =>
             match assoc (fst p) (o_ids a) with
             | Some i => Z.eqb i (snd p)
             | None => o_next a <=? snd p
             end) (o_ids f).

(** the recovered data is that of the history without the interrupted write, or with it - in ALL datasets *)
Definition atomic_ok (t : tcase) : bool :=
  datas_eqv (o_ds (t_after t)) (t_refA t)
  || match t_refB t with Some rb => datas_eqv (o_ds (t_after t)) rb | None => false end.

Definition spec_core (t : tcase) : bool :=
  atomic_ok t
  && forallb dsd_consistent (o_ds (t_after t)) && forallb dsd_consistent (o_ds (t_final t))
  && ids_consistent (t_next0 t) (t_after t) && ids_consistent (t_next0 t) (t_final t)
  && grows (t_after t) (t_final t)
  && ids_stable (t_after t) (t_final t).

(** the items counter equals the number of entities of the dataset (C19; lags after a crash between
    the data commit and updateDataset on the pinned tree: finding F04a) *)
Definition counter_ok (o : odump) : bool :=
  forallb (fun d => Z.eqb (od_items d) (Z.of_nat (length (od_listing d)))) (o_ds o).

Definition spec_ok (t : tcase) : bool :=
  spec_core t && counter_ok (t_after t) && counter_ok (t_final t).

(** order = order of VARIANTS in lib/props/c04.py: the counter mode crossed with the 8 store variants *)
Definition variants : list variant :=
  flat_map (fun cm => map (fun sv => (cm, sv)) StoreCheck.variants) [CounterSeparate; CounterInData].
Definition v_fixed : variant := (CounterInData, StoreCheck.v_fixed).

Definition evaluate (cs : list tcase) : list (list N) :=
  (* a violation of the core spec on the implementation's own observation is a mismatch for every variant:
     no variant of the model violates it (Properties/C04.v) *)
  map (fun v => indices_where (fun c => negb (agree v c) || negb (spec_core c)) cs) variants
  ++ [ indices_where (fun c => negb (spec_ok c)) cs;
       indices_where (fun c => negb (spec_core c)) cs ].
