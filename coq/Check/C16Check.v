(** Correspondence evaluator for C16.  Two case families:
    kind 0 - one ACL, one token, a list of requests sent through the real echo stack; observed per request:
             outcome class and the route pattern the router selected (plus the whole route table for sweeps);
    kind 1 - a history of security-management operations (client ids in the ACL routes given by their spelling in
             the URL: [rid sp]), then a restart; observed: registry and ACL store
             before and after the restart, and the outcome of requests sent after it;
    kind 3 - one token string with an exp (or nbf) a second or two ahead, the same requests sent before and after
             that instant through the same process; observed per request: class, route, and on which side of the
             boundary the driver's clock saw it;
    kind 2 - GET /datasets as the caller; observed: outcome class and the dataset names returned, next to the
             complete list the admin gets. *)
From Coq Require Import List String Ascii Bool NArith.
From DH Require Export Lib.CheckLib Model.Acl Model.Jwt Model.Gate Model.SecStore Model.GateSeq Model.IdCodec.
Import ListNotations.
Open Scope string_scope.

Record treq := { q_method : string; q_path : string;
                 q_class : N;          (* observed: 0 served | 1 preflight | 2 401 | 3 403 | 4 no route *)
                 q_route : string }.   (* observed: pattern of the selected route, "" if none *)

Record snapshot := { sn_clients : list string; sn_acls : list (string * list ac) }.

Record tcase := {
  c_kind : N;
  c_cfg : jwtcfg;
  c_acl : option (list ac);       (* kind 0: ACL stored for the token's subject (None = no entry) *)
  c_auth : string;                (* Authorization header, the token string abbreviated to [c_tok] *)
  c_tok : string;
  c_facts : tokfacts;             (* what the token really is *)
  c_reqs : list treq;
  c_sweep : bool;
  c_routes : list (string * string);   (* observed route table (method, pattern), sweeps only *)
  c_ops : list secop;             (* kind 1 *)
  o_before : snapshot;
  o_after : snapshot;
  o_all : list string;            (* kind 2: every dataset name, sorted (the admin's GET /datasets) *)
  o_listed : list string;         (* kind 2: what the caller's GET /datasets returned *)
  o_list : treq;                  (* kind 2: class and route of that request *)
  c_exp : option N;               (* kind 3: exp / nbf of the case's token, in model instants *)
  c_nbf : option N;
  o_gets : list (string * option (list ac));   (* kind 1: GET /security/clients/<spelling>/acl after the restart *)
  c_seq : list (N * treq)         (* kind 3: requests in the order sent through one process, with the instant the
                                     driver's clock put them at (0 = before the token's boundary, 10 = after) *)
}.

(** the five independent deviations; [all_variants] is ordered as VARIANTS in lib/props/c16.py *)
Record cvariant := { cv_gate : variant; cv_file : aclfile_mode; cv_init : init_mode }.

Definition all_variants : list cvariant :=
  flat_map (fun mm => flat_map (fun dm => flat_map (fun cm => flat_map (fun fm => map (fun im =>
    {| cv_gate := {| v_method := mm; v_deny := dm; v_claims := cm |}; cv_file := fm; cv_init := im |})
    [InitAborts; InitIndependent]) [AclFileClients; AclFileAcls]) [ClaimsOptional; ClaimsRequired])
    [DenySkip; DenyWins]) [MapPostDelete; MapSafeOnly].

Definition cfixed : cvariant := {| cv_gate := fixed; cv_file := AclFileAcls; cv_init := InitIndependent |}.

Definition garbage : tokfacts :=
  {| f_wellformed := false; f_alg := ""; f_signer := KOther; f_kid := KidNone; f_expired := false;
     f_notyet := false; f_aud := []; f_iss := ""; f_sub := ""; f_roles := [] |}.

Definition oracle_of (c : tcase) (s : string) : tokfacts := if s =? c_tok c then c_facts c else garbage.

Definition world_of (c : tcase) (acls : string -> option (list ac)) : world :=
  {| w_cfg := c_cfg c; w_routes := routes_compiled; w_oracle := oracle_of c; w_acls := acls |}.

Definition acls_kind0 (c : tcase) (sub : string) : option (list ac) :=
  if sub =? f_sub (c_facts c) then c_acl c else None.

Definition class_of (o : outcome) : N :=
  match o with Served => 0 | Preflight => 1 | Unauth => 2 | Forbidden => 3 | NoRoute => 4 | Crash => 5 end%N.

Definition req_agrees (v : variant) (w : world) (auth : string) (q : treq) : bool :=
  let '(o, rp) := decide v w auth (q_method q) (q_path q) in
  N.eqb (class_of o) (q_class q) && (rp =? q_route q).

Definition ac_eqb (a b : ac) : bool :=
  (ac_resource a =? ac_resource b) && (ac_action a =? ac_action b) && Bool.eqb (ac_deny a) (ac_deny b).

Definition opt_acl_eqb (x y : option (list ac)) : bool :=
  match x, y with
  | None, None => true
  | Some a, Some b => list_eqb ac_eqb a b
  | _, _ => false
  end.

(** the model state and an observed snapshot describe the same registry and the same ACL store *)
Definition snapshot_agrees (s : secstate) (o : snapshot) : bool :=
  let keys := (map fst (mem_clients s) ++ sn_clients o ++ map fst (mem_acls s) ++ map fst (sn_acls o))%list in
  forallb (fun k =>
    Bool.eqb (match lookup k (mem_clients s) with Some _ => true | None => false end) (mem_str k (sn_clients o))
    && opt_acl_eqb (lookup k (mem_acls s)) (lookup k (sn_acls o))) keys.

Definition route_table_agrees (c : tcase) : bool :=
  list_eqb (fun (r o : string * string) => (fst r =? fst o) && (snd r =? snd o))
           (map (fun r => (r_method r, r_path r)) routes_current) (c_routes c).

Definition strlist_eqb := list_eqb String.eqb.

(** datasetList: admin sees everything; everybody else FilterDatasets(all, subject) (nil ACL = nothing); then
    sort.Slice by name - [o_all] is sorted and the filter keeps the order *)
Definition predicted_list (dm : deny_mode) (c : tcase) : list string :=
  if is_admin (f_roles (c_facts c)) then o_all c
  else filter_datasets dm (match c_acl c with Some l => l | None => [] end) (o_all c).

(** kind 3: the timed world of the case and the run of the sequence through a fresh process *)
Definition tworld_of (c : tcase) : tworld :=
  {| tw_cfg := c_cfg c; tw_routes := routes_compiled;
     tw_tokens := fun s => if s =? c_tok c then {| tt_facts := c_facts c; tt_exp := c_exp c; tt_nbf := c_nbf c |}
                           else {| tt_facts := garbage; tt_exp := None; tt_nbf := None |};
     tw_acls := acls_kind0 c |}.

Definition rq_of (c : tcase) (x : N * treq) : rq :=
  {| rq_time := fst x; rq_auth := c_auth c; rq_method := q_method (snd x); rq_path := q_path (snd x) |}.

Definition answer_agrees (a : outcome * string) (q : treq) : bool :=
  N.eqb (class_of (fst a)) (q_class q) && (snd a =? q_route q).

Fixpoint forall2b {A B} (f : A -> B -> bool) (l1 : list A) (l2 : list B) : bool :=
  match l1, l2 with
  | [], [] => true
  | x :: l1', y :: l2' => if f x y then forall2b f l1' l2' else false
  | _, _ => false
  end.

Definition seq_agrees (v : variant) (c : tcase) : bool :=
  forall2b answer_agrees (gate_run CacheNone v (tworld_of c) (map (rq_of c) (c_seq c))) (map snd (c_seq c)).

(** GET through a spelling shows the entries of the id the spelling denotes *)
Definition gets_agree (s : secstate) (gets : list (string * option (list ac))) : bool :=
  forallb (fun g => opt_acl_eqb (lookup (rid (fst g)) (mem_acls s)) (snd g)) gets.

Definition agree (cv : cvariant) (c : tcase) : bool :=
  if N.eqb (c_kind c) 3 then seq_agrees (cv_gate cv) c
  else if N.eqb (c_kind c) 0 then
    forallb (req_agrees (cv_gate cv) (world_of c (acls_kind0 c)) (c_auth c)) (c_reqs c)
    && (if c_sweep c then route_table_agrees c else true)
  else if N.eqb (c_kind c) 2 then
    req_agrees (cv_gate cv) (world_of c (acls_kind0 c)) (c_auth c) (o_list c)
    && (if N.eqb (q_class (o_list c)) 0 then strlist_eqb (predicted_list (v_deny (cv_gate cv)) c) (o_listed c) else true)
  else
    let s := sec_run (cv_file cv) (cv_init cv) (c_ops c) in
    let s' := restart (cv_init cv) s in
    snapshot_agrees s (o_before c) && snapshot_agrees s' (o_after c)
    && gets_agree s' (o_gets c)
    && forallb (req_agrees (cv_gate cv) (world_of c (fun k => lookup k (mem_acls s'))) (c_auth c)) (c_reqs c).

(** ** the executable spec, evaluated on the implementation's observations only *)

Definition req_spec_ok (w : world) (auth : string) (q : treq) : bool :=
  if N.eqb (q_class q) 0 then gate_spec_b w auth (q_method q) (q_path q) else true.

Definition snapshot_eqb (a b : snapshot) : bool :=
  let keys := (sn_clients a ++ sn_clients b ++ map fst (sn_acls a) ++ map fst (sn_acls b))%list in
  forallb (fun k => Bool.eqb (mem_str k (sn_clients a)) (mem_str k (sn_clients b))
                    && opt_acl_eqb (lookup k (sn_acls a)) (lookup k (sn_acls b))) keys.

(** a non-admin is shown only datasets its ACL grants for read *)
Definition list_spec_ok (c : tcase) : bool :=
  if is_admin (f_roles (c_facts c)) then true
  else forallb (fun d => mem_str d (o_all c)
                         && acl_grants_b (match c_acl c with Some l => l | None => [] end) ("/datasets/" ++ d) "read")
               (o_listed c).

Definition seq_spec_ok (c : tcase) : bool :=
  forallb (fun x => req_spec_ok (world_at (tworld_of c) (fst x)) (c_auth c) (snd x)) (c_seq c).

Definition spec_ok (c : tcase) : bool :=
  if N.eqb (c_kind c) 3 then seq_spec_ok c
  else if N.eqb (c_kind c) 0 then
    forallb (req_spec_ok (world_of c (acls_kind0 c)) (c_auth c)) (c_reqs c)
  else if N.eqb (c_kind c) 2 then
    req_spec_ok (world_of c (acls_kind0 c)) (c_auth c) (o_list c)
    && (if N.eqb (q_class (o_list c)) 0 then list_spec_ok c else true)
  else
    (* the registry and ACL store are what the history denotes, before and after the restart, and whoever is
       served afterwards is authorized by that store *)
    let sp := spec_state (c_ops c) in
    snapshot_agrees sp (o_before c) && snapshot_agrees sp (o_after c)
    && gets_agree sp (o_gets c)
    && forallb (req_spec_ok (world_of c (fun k => lookup k (mem_acls sp))) (c_auth c)) (c_reqs c).

(** [mismatches per variant (32, in the order of all_variants) ...; spec failures on I].
    ([if] instead of [&&]: vm_compute is call-by-value, [andb] would evaluate both sides.)
    Kind-0 and kind-2 cases only depend on the gate flags: they are evaluated once per gate variant. *)
Definition gate_variants : list variant :=
  flat_map (fun mm => flat_map (fun dm => map (fun cm => {| v_method := mm; v_deny := dm; v_claims := cm |})
    [ClaimsOptional; ClaimsRequired]) [DenySkip; DenyWins]) [MapPostDelete; MapSafeOnly].

Definition variant_eqb (a b : variant) : bool :=
  match v_method a, v_method b with MapPostDelete, MapPostDelete | MapSafeOnly, MapSafeOnly => true | _, _ => false end
  && match v_deny a, v_deny b with DenySkip, DenySkip | DenyWins, DenyWins => true | _, _ => false end
  && match v_claims a, v_claims b with ClaimsOptional, ClaimsOptional | ClaimsRequired, ClaimsRequired => true | _, _ => false end.

Definition with_gate (g : variant) : cvariant := {| cv_gate := g; cv_file := AclFileAcls; cv_init := InitIndependent |}.

Definition evaluate (cs : list tcase) : list (list N) :=
  let m0 := map (fun g => (g, indices_where (fun c => if N.eqb (c_kind c) 1 then false else negb (agree (with_gate g) c)) cs)) gate_variants in
  (map (fun cv =>
          (match find (fun gp => variant_eqb (fst gp) (cv_gate cv)) m0 with Some gp => snd gp | None => [] end
           ++ indices_where (fun c => if N.eqb (c_kind c) 1 then negb (agree cv c) else false) cs)%list) all_variants
   ++ [ indices_where (fun c => negb (spec_ok c)) cs ])%list.
