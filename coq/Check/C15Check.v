(** Correspondence evaluator for C15: the harness writes, per case, the token
    stream Go's json.Decoder produced for the bytes, and what the real parser /
    handlers did with the same bytes; [evaluate] says which cases disagree with
    the model under each variant and on which the executable spec fails on the
    implementation's own observation. *)
From Coq Require Import List String Ascii NArith Bool.
From DH Require Export Lib.CheckLib Model.Parser.
Import ListNotations.
Open Scope string_scope.

(** strings with bytes outside printable ASCII are written as byte lists *)
Definition bs (l : list N) : string :=
  fold_right (fun n s => String (ascii_of_N n) s) EmptyString l.

Inductive mode := MStream | MTxn | MHttp | MProxy | MSource.

(** one page read by an HTTPDatasetSource object: its tokens and what ReadEntities did with it *)
Record page := { p_toks : list token; p_eof : bool; po_outcome : N; po_ents : list ent }.

Record tcase := {
  c_mode : mode;
  c_toks : list token;        (* tokens of the bytes the parser read (MHttp: of the GET response) *)
  c_eof : bool;               (* the token stream ended with io.EOF (else: syntax error) *)
  c_post : list token;        (* MHttp: tokens of the POSTed body *)
  c_post_eof : bool;
  c_ordered : bool;           (* MHttp: GET changes (posting order) vs GET entities (internal id order) *)
  c_has2 : bool;              (* MHttp: a second POST was made (after a restart of the hub) before the GET *)
  c_post2 : list token;
  c_post2_eof : bool;
  c_post2_txn : bool;         (* MHttp: the second POST goes to /transactions (dataset "ds") instead of /datasets/ds/entities *)
  c_pages : list page;        (* MSource: the pages one source object read, in order *)
  (* observed on the implementation *)
  o_outcome : N;              (* 0 ok | 1 err | 2 panic | other *)
  o_groups : list (string * list ent);  (* MStream/MHttp: one group "" = emitted entities; MTxn: per dataset *)
  o_ns : nsmap;               (* parser namespace context when the outcome is ok *)
  o_status : N;               (* MHttp: 0 = 200 | 1 = 400 | 2 = 500 after a recovered panic | 3 = 500 sent by the handler *)
  o_status2 : N;              (* MHttp: status of the second POST *)
  o_token : string            (* MProxy: continuation token returned by the page reader *)
}.

Definition out_code (o : outcome) : N :=
  match o with OOk => 0 | OErr => 1 | OPanic => 2 | OFuel => 7 end%N.

(** ** equality of parsed values; Properties / References are Go maps: order-free *)
Section Assoc.
  Context {K B : Type} (keqb : K -> K -> bool).
  Fixpoint afind (k : K) (m : list (K * B)) : option B :=
    match m with [] => None | (k', x) :: m' => if keqb k k' then Some x else afind k m' end.
End Assoc.
Section ListEq.
  Context {A : Type} (eqb : A -> A -> bool).
  Fixpoint leqb (l1 l2 : list A) : bool :=
    match l1, l2 with
    | [], [] => true
    | x :: l1', y :: l2' => eqb x y && leqb l1' l2'
    | _, _ => false
    end.
End ListEq.

Definition rval_eqb (a b : rval) : bool :=
  match a, b with
  | RStr x, RStr y => name_eqb x y
  | RArr l, RArr l' => leqb name_eqb l l'
  | _, _ => false
  end.
Definition refs_eqb (a b : list (name * rval)) : bool :=
  Nat.eqb (List.length a) (List.length b)
  && forallb (fun kr => match afind name_eqb (fst kr) b with Some r => rval_eqb (snd kr) r | None => false end) a.

Fixpoint pval_eqb (a b : pval) {struct a} : bool :=
  match a, b with
  | VStr x, VStr y => String.eqb x y
  | VNum x, VNum y => String.eqb (n_repr x) (n_repr y)
  | VBool x, VBool y => Bool.eqb x y
  | VNull, VNull => true
  | VDelim x, VDelim y => delim_eqb x y
  | VArr l, VArr l' =>
    (fix go (l1 l2 : list pval) : bool :=
       match l1, l2 with
       | [], [] => true
       | x :: l1', y :: l2' => pval_eqb x y && go l1' l2'
       | _, _ => false
       end) l l'
  | VEnt i r d ps rs, VEnt i' r' d' ps' rs' =>
    name_eqb i i' && N.eqb r r' && Bool.eqb d d' && refs_eqb rs rs'
    && Nat.eqb (List.length ps) (List.length ps')
    && (fix go (m : list (name * pval)) : bool :=
          match m with
          | [] => true
          | (k, x) :: m' =>
            match afind name_eqb k ps' with Some y => pval_eqb x y | None => false end && go m'
          end) ps
  | _, _ => false
  end.

Definition ent_eqb (a b : ent) : bool := pval_eqb (val_of_ent a) (val_of_ent b).
(** same, ignoring the "recorded" stamp the store assigns *)
Definition ent_eqb_norec (a b : ent) : bool := ent_eqb (set_rec a 0) (set_rec b 0).

Definition group_eqb (a b : list (string * list ent)) : bool :=
  Nat.eqb (List.length a) (List.length b)
  && forallb (fun g => match afind String.eqb (fst g) b with
                       | Some es => leqb ent_eqb (snd g) es | None => false end) a.
Definition ns_eqb (a b : nsmap) : bool :=
  Nat.eqb (List.length a) (List.length b)
  && forallb (fun kv => match afind String.eqb (fst kv) b with
                        | Some e => String.eqb (snd kv) e | None => false end) a.

Definition fuel_for (ts : list token) : nat := S (List.length ts).

(** ** what the model predicts for a parse: outcome code, groups, namespaces *)
Definition run_stream (v : variant) (ts : list token) (eof : bool) : N * list (string * list ent) * nsmap :=
  let '(es, o, ns) := parse_stream v (fuel_for ts) eof ts in (out_code o, [("", es)], ns).
Definition run_txn (v : variant) (ts : list token) : N * list (string * list ent) * nsmap :=
  match parse_txn v (fuel_for ts) ts with
  | Ok gs => (0%N, gs, [])
  | Err => (1%N, [], []) | Panic => (2%N, [], []) | Fuel => (7%N, [], [])
  end.
Definition run_spec (ts : list token) (eof : bool) : N * list (string * list ent) * nsmap :=
  let '(es, o, ns) := spec_stream (fuel_for ts) eof ts in (out_code o, [("", es)], ns).

Definition obs_matches (c : tcase) (check_ns : bool) (p : N * list (string * list ent) * nsmap) : bool :=
  let '(oc, gs, ns) := p in
  N.eqb oc (o_outcome c) && group_eqb gs (o_groups c)
  && (if check_ns && N.eqb oc 0 then ns_eqb ns (o_ns c) else true).

(** entities of a stream result that are not the continuation element *)
Definition is_cont_id (i : name) : bool := name_eqb i (NRaw "@continuation").
Definition is_cont (e : ent) : bool := is_cont_id (e_id e).
Definition payload (gs : list (string * list ent)) : list ent :=
  match gs with [(_, es)] => filter (fun e => negb (is_cont e)) es | _ => [] end.
Definition has_qid (e : ent) : bool := match e_id e with NQ _ _ => true | _ => false end.
Fixpoint distinct_ids (es : list ent) : bool :=
  match es with
  | [] => true
  | e :: es' => negb (existsb (fun e' => name_eqb (e_id e) (e_id e')) es') && distinct_ids es'
  end.
(** the store keeps one change per posted entity when the ids are distinct and real *)
Definition comparable (es : list ent) : bool := forallb has_qid es && distinct_ids es.

(** MHttp: processEntities (datasethandler.go) collects the emitted entities and calls
    StoreEntities for every 10 of them while the parser is still running, and once more
    for the remainder after a successful parse.  StoreEntities refuses a batch containing
    an entity without id ("URI cannot be empty"); inside the parser callback that error
    comes back as the parse error (400), after the parse it is a 500 sent by the handler.
    Result: (status 0 = 200 | 1 = 400 | 2 = recovered panic 500 | 3 = store error 500, stored). *)
Definition has_noid (es : list ent) : bool := existsb (fun e => is_noid (e_id e)) es.
Fixpoint flush (fuel : nat) (es : list ent) (oc : N) : N * list ent :=
  match fuel with O => (7%N, []) | S f =>
  if Nat.leb 10 (List.length es) then
    let b := firstn 10 es in
    if has_noid b then (1%N, [])
    else let '(st, stored) := flush f (skipn 10 es) oc in (st, (b ++ stored)%list)
  else
    if N.eqb oc 0 then (if has_noid es then (3%N, []) else (0%N, es))
    else (oc, [])
  end.
Definition all_emitted (gs : list (string * list ent)) : list ent :=
  match gs with [(_, es)] => es | _ => [] end.

Fixpoint mem_ent (e : ent) (l : list ent) : bool :=
  match l with [] => false | x :: l' => ent_eqb_norec e x || mem_ent e l' end.
Definition same_ents (ordered : bool) (a b : list ent) : bool :=
  if ordered then leqb ent_eqb_norec a b
  else Nat.eqb (List.length a) (List.length b) && forallb (fun e => mem_ent e b) a.

(** After a 200 the GET response must itself parse (the hub reads what it wrote) - also after
    the hub was restarted in between.  One exception in the pinned tree (F15d): the handler hands
    a posted continuation element - or an entity that kept the raw "token" property - to the store
    like any entity; the stored JSON then carries the un-namespaced property key "token" and the
    dataset's GET output no longer parses.  [lenient] = that exception is granted (non-strict
    variants).  What was stored is only observable through a GET that parses. *)
Fixpoint raw_keys (x : pval) : bool :=
  match x with
  | VArr l => existsb raw_keys l
  | VEnt i _ _ ps _ =>
    is_cont_id i
    || (fix go (m : list (name * pval)) : bool :=
          match m with
          | [] => false
          | (k, y) :: m' => (match k with NRaw _ => true | _ => false end) || raw_keys y || go m'
          end) ps
  | _ => false
  end.
Definition unreadable (es : list ent) : bool := existsb (fun e => raw_keys (val_of_ent e)) es.

(** the latest version per id (GET /entities) *)
Fixpoint latest (es : list ent) : list ent :=
  match es with
  | [] => []
  | e :: r => if existsb (fun e' => name_eqb (e_id e) (e_id e')) r then latest r else e :: latest r
  end.

(** the second POST: through storeEntitiesHandler like the first, or through processTransaction
    (txnhandler.go: ParseTransaction error = 400, ExecuteTransaction error = 500, all entities of the
    dataset in one go) *)
Definition second_post (c : tcase) (stream_r txn_r : N * list (string * list ent) * nsmap) : N * list ent :=
  if c_has2 c then
    if c_post2_txn c then
      let '(oc, gs, _) := txn_r in
      let es := match afind String.eqb "ds" gs with Some es => es | None => [] end in
      if N.eqb oc 0 then (if has_noid es then (3%N, []) else (0%N, es)) else (oc, [])
    else
      let '(oc, gs, _) := stream_r in
      let es := all_emitted gs in flush (S (List.length es)) es oc
  else (0%N, []).

Definition http_matches (lenient : bool) (c : tcase)
  (post : N * list (string * list ent) * nsmap) (post2 : N * list ent) : bool :=
  let '(oc, gs, _) := post in
  let es := all_emitted gs in
  let '(st, stored1) := flush (S (List.length es)) es oc in
  let '(st2, stored2) := post2 in
  let stored := (stored1 ++ stored2)%list in
  N.eqb st (o_status c) && N.eqb st2 (o_status2 c)
  && (if N.eqb st 0 && N.eqb st2 0 && negb (lenient && unreadable stored) then N.eqb (o_outcome c) 0 else true)
  && (if N.eqb (o_outcome c) 0 then
        if c_ordered c then (if comparable stored then same_ents true stored (payload (o_groups c)) else true)
        else (if forallb has_qid stored then same_ents false (latest stored) (payload (o_groups c)) else true)
      else true).

(** MProxy: the page reader of a proxy dataset over the remote hub's answer *)
Definition res_code {A} (r : res A) : N := match r with Ok _ => 0 | Err => 1 | Panic => 2 | Fuel => 7 end%N.
Definition proxy_matches (c : tcase) (p : res string * list ent) : bool :=
  let '(r, passed) := p in
  N.eqb (res_code r) (o_outcome c)
  && leqb name_eqb (map e_id passed) (map e_id (all_emitted (o_groups c)))
  && match r with Ok s => String.eqb s (o_token c) | _ => true end.

(** MSource: HTTPDatasetSource.ReadEntities, several pages through one source object; the continuation
    element is consumed by the source, everything else goes to the pipeline *)
(** the source hands complete batches ([source_batch] entities, the driver asks for 3) to the pipeline
    while the page is being parsed and the remainder only after a successful parse *)
Definition source_batch : nat := 3.
Definition source_passed (payload : list ent) (o : outcome) : list ent :=
  match o with
  | OOk => payload
  | _ => firstn (Nat.mul (Nat.div (List.length payload) source_batch) source_batch) payload
  end.
Fixpoint pages_match (pred : list (list ent * outcome)) (ps : list page) : bool :=
  match pred, ps with
  | [], [] => true
  | (es, o) :: pred', p :: ps' =>
    N.eqb (out_code o) (po_outcome p)
    && leqb ent_eqb (source_passed (filter (fun e => negb (is_cont e)) es) o) (po_ents p)
    && pages_match pred' ps'
  | _, _ => false
  end.

(** [pc]: the proxy's token assertion is checked *)
Definition agree (v : variant) (pc : bool) (c : tcase) : bool :=
  match c_mode c with
  | MStream => obs_matches c true (run_stream v (c_toks c) (c_eof c))
  | MTxn => obs_matches c false (run_txn v (c_toks c))
  | MHttp => obs_matches c false (run_stream v (c_toks c) (c_eof c))
             && http_matches (negb (strict v)) c (run_stream v (c_post c) (c_post_eof c))
                  (second_post c (run_stream v (c_post2 c) (c_post2_eof c)) (run_txn v (c_post2 c)))
  | MProxy => proxy_matches c (proxy_page v pc (fuel_for (c_toks c)) (c_eof c) (c_toks c))
  | MSource => pages_match (read_pages false v [] (map (fun p => (p_toks p, p_eof p)) (c_pages c))) (c_pages c)
  end.

(** the executable spec S on the implementation's own observation:
    ParseStream = the element-wise specification [spec_stream]; ParseTransaction =
    the strict reference parser and never a panic; HTTP: 200 exactly for payloads the
    spec accepts, 400 otherwise, never 500, and after a 200 the GET returns what the
    payload denotes *)
Definition spec_ok (c : tcase) : bool :=
  match c_mode c with
  | MStream => obs_matches c true (run_spec (c_toks c) (c_eof c))
  | MTxn => obs_matches c false (run_txn fixed (c_toks c))
  | MHttp => obs_matches c false (run_spec (c_toks c) (c_eof c))
             && http_matches false c (run_spec (c_post c) (c_post_eof c))
                  (second_post c (run_spec (c_post2 c) (c_post2_eof c)) (run_txn fixed (c_post2 c)))
  | MProxy => proxy_matches c (proxy_page fixed true (fuel_for (c_toks c)) (c_eof c) (c_toks c))
  | MSource => pages_match (read_pages false fixed [] (map (fun p => (p_toks p, p_eof p)) (c_pages c))) (c_pages c)
  end.

Definition v_types : variant := {| chk_types := true; skip_unknown := false; strict := false |}.
Definition v_types_unknown : variant := {| chk_types := true; skip_unknown := true; strict := false |}.

(** mismatches under (parser variant, proxy token assertion unchecked / checked) in the order of
    VARIANTS in lib/props/c15.py, then the spec failures on I *)
Definition evaluate (cs : list tcase) : list (list N) :=
  [ indices_where (fun c => negb (agree current false c)) cs;
    indices_where (fun c => negb (agree current true c)) cs;
    indices_where (fun c => negb (agree v_types false c)) cs;
    indices_where (fun c => negb (agree v_types true c)) cs;
    indices_where (fun c => negb (agree v_types_unknown false c)) cs;
    indices_where (fun c => negb (agree v_types_unknown true c)) cs;
    indices_where (fun c => negb (agree fixed false c)) cs;
    indices_where (fun c => negb (agree fixed true c)) cs;
    indices_where (fun c => negb (spec_ok c)) cs ].
