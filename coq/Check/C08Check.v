(** Correspondence evaluator for C08: the harness writes the histories the Go driver ran
    (source writes, foreign sink writes, job runs with scripted faults) together with what
    it observed after every run; [evaluate] says which cases disagree with the model under
    each variant and on which the executable spec fails on the implementation's own
    observations. *)
From Coq Require Import List ZArith NArith Bool Arith.
From DH Require Import Lib.CheckLib.
From DH Require Export Model.Pipeline.
Import ListNotations.

(** one job run of a case: what was asked and what was observed after it *)
Record trun := mkTR {
  tr_full : bool; tr_flt : fault;
  (* observed on the implementation *)
  tr_out : N;                 (* 0 ok | 1 failed | 2 died (store reopened) | 9 other *)
  tr_tok : list Z;            (* persisted continuation token per member, -1 = "" *)
  tr_sink : list version;     (* latest view of the sink dataset, one entry per id *)
  tr_sinklen : Z;             (* length of the sink's change feed *)
  tr_srclens : list Z;        (* lengths of the source change feeds at that moment *)
  tr_new : list version       (* the entries the run appended to the sink's change feed *)
}.

Inductive top := TW (k : nat) (es : list version) | TSW (es : list version) | TRun (r : trun)
                 | TDrop      (* the sink dataset is deleted *)
                 | TCreate.   (* ... and created again (empty) under the same name *)

Record tcase := mkTC {
  c_members : nat; c_union : bool; c_los : list bool; c_batch : nat;
  c_handlers : list handler;  (* onError handlers of both triggers of the job *)
  c_sinkhttp : bool;          (* HttpDatasetSink -> the hub's POST /datasets/sink/entities handler *)
  c_ops : list top;
  o_srcs : list feed          (* observed: the final change feeds of the source datasets *)
}.

Definition out_code (o : outcome) : N := match o with OOk => 0 | OFailed => 1 | ODied => 2 end%N.
Definition tok_code (t : token) : Z := match t with None => (-1)%Z | Some n => Z.of_nat n end.

Definition opt_eqb (a b : option version) : bool :=
  match a, b with
  | None, None => true
  | Some x, Some y => version_eqb x y
  | _, _ => false
  end.

(** two feeds / views have the same latest version for every entity *)
Definition view_eqb (a b : feed) : bool :=
  forallb (fun i => opt_eqb (cur a i) (cur b i)) (ids a ++ ids b).

(** [present] = the sink dataset exists when the operation happens (the sink is looked up by
    name at every run, so a run while it is absent behaves as [FNoSink]) *)
Definition rcfg_of (c : tcase) (present : bool) (r : trun) : rcfg :=
  mkR (tr_full r) (c_union c) (c_batch c) (c_los c) (if present then tr_flt r else FNoSink) (c_handlers c)
      (c_sinkhttp c).
Definition op_of (c : tcase) (present : bool) (o : top) : op :=
  match o with
  | TW k es => OWrite k es | TSW es => OSinkWrite es | TRun r => ORun (rcfg_of c present r)
  | TDrop => ODropSink | TCreate => OCreateSink
  end.
Definition present_after (present : bool) (o : top) : bool :=
  match o with TDrop => false | TCreate => true | _ => present end.
Fixpoint ops_of (c : tcase) (present : bool) (ops : list top) : list op :=
  match ops with
  | [] => []
  | o :: ops' => op_of c present o :: ops_of c (present_after present o) ops'
  end.

Definition run_agree (st : state) (out : option outcome) (r : trun) : bool :=
  match out with
  | Some o => N.eqb (out_code o) (tr_out r)
  | None => false
  end
  && zlist_eqb (map tok_code (st_tok st)) (tr_tok r)
  && view_eqb (st_sink st) (tr_sink r)
  && zlist_eqb (map (fun f => Z.of_nat (length f)) (st_srcs st)) (tr_srclens r)
  && Z.eqb (Z.of_nat (length (st_sink st))) (tr_sinklen r).

Fixpoint agree_ops (v : variant) (c : tcase) (present : bool) (st : state) (ops : list top) : bool * state :=
  match ops with
  | [] => (true, st)
  | o :: ops' =>
    let '(st', out) := step v st (op_of c present o) in
    let ok := match o with TRun r => run_agree st' out r | _ => true end in
    let '(rest, stf) := agree_ops v c (present_after present o) st' ops' in
    (ok && rest, stf)
  end.

Definition feed_eqb : feed -> feed -> bool := list_eqb version_eqb.

Definition agree (v : variant) (c : tcase) : bool :=
  let '(ok, stf) := agree_ops v c true (init_state (c_members c)) (c_ops c) in
  ok && list_eqb feed_eqb (st_srcs stf) (o_srcs c).

(** drift information only: the length of the sink's change feed after every run *)
Fixpoint sinklen_ops (v : variant) (c : tcase) (present : bool) (st : state) (ops : list top) : bool :=
  match ops with
  | [] => true
  | o :: ops' =>
    let '(st', out) := step v st (op_of c present o) in
    match o with TRun r => Z.eqb (Z.of_nat (length (st_sink st'))) (tr_sinklen r) | _ => true end
    && sinklen_ops v c (present_after present o) st' ops'
  end.
Definition agree_sinklen (v : variant) (c : tcase) : bool :=
  sinklen_ops v c true (init_state (c_members c)) (c_ops c).

(** ** The executable spec, on the implementation's observations only *)

Definition tokpos (z : Z) : nat := Z.to_nat (Z.max z 0).

(** safe1 of the model, as a boolean, against an observed view *)
Definition safe1_b (src : feed) (t : nat) (view : feed) : bool :=
  (t <=? length src)
  && forallb (fun i => zmem i (ids (skipn t src)) || opt_eqb (cur view i) (cur (firstn t src) i)) (ids src).

Definition conv1_b (src : feed) (tz : Z) (view : feed) : bool :=
  Z.eqb tz (Z.of_nat (length src))
  && forallb (fun i => opt_eqb (cur view i) (cur src i)) (ids src).

Fixpoint forallb3 {A B C} (f : A -> B -> C -> bool) (la : list A) (lb : list B) (lc : list C) : bool :=
  match la, lb, lc with
  | [], [], [] => true
  | a :: la', b :: lb', c :: lc' => f a b c && forallb3 f la' lb' lc'
  | _, _, _ => false
  end.

(** the source feeds as they were when the run was observed *)
Fixpoint cuts (srcs : list feed) (lens : list Z) : list feed :=
  match srcs, lens with
  | f :: srcs', n :: lens' => firstn (Z.to_nat n) f :: cuts srcs' lens'
  | _, _ => []
  end.

Definition foreign_deleted_b (srcs : list feed) (view : feed) : bool :=
  forallb (fun i => match cur view i with
                    | Some w => existsb (fun s => zmem i (ids s)) srcs || v_del w
                    | None => true
                    end) (ids view).

(** the checks on one run: [srcs] = final observed feeds, cut to the lengths observed at
    the run; [prev] = the run just before with nothing in between (if any) *)

(** token safety, after every run whatever its outcome *)
Definition run_safe_spec (srcs : list feed) (r : trun) : bool :=
  forallb3 (fun f n tz => (n <=? Z.of_nat (length f))%Z && safe1_b (firstn (Z.to_nat n) f) (tokpos tz) (tr_sink r))
           srcs (tr_srclens r) (tr_tok r).

(** convergence after a successful run *)
(** [em] = the run is an entities-mode fullsync (HttpDatasetSink): its token is not stored *)
Definition run_conv_spec (em : bool) (srcs : list feed) (r : trun) : bool :=
  if N.eqb (tr_out r) 0 then
    forallb3 (fun f n tz => conv1_b (firstn (Z.to_nat n) f) (if em then n else tz) (tr_sink r))
             srcs (tr_srclens r) (tr_tok r)
    && (if tr_full r then
          foreign_deleted_b (cuts srcs (tr_srclens r)) (tr_sink r)
        else true)
  else true.

(** re-running (incrementally) with nothing new changes nothing: view, token, sink feed *)
Definition run_idem_spec (emp : bool) (prev : option trun) (r : trun) : bool :=
  match prev with
  | Some p =>
    if negb emp && N.eqb (tr_out p) 0 && zlist_eqb (tr_srclens p) (tr_srclens r) && negb (tr_full r) then
      view_eqb (tr_sink p) (tr_sink r) && zlist_eqb (tr_tok p) (tr_tok r)
      && Z.eqb (tr_sinklen p) (tr_sinklen r)
    else true
  | None => true
  end.

(** a job only copies: whatever the outcome of the run, the sink's version of an entity some
    source member contains is a version that member's feed contains (in particular a failed
    fullsync deletes nothing) *)
Definition run_origin_spec (srcs : list feed) (r : trun) : bool :=
  forallb (fun i => match cur (tr_sink r) i with
                    | Some w => forallb (fun cut => negb (zmem i (ids cut)) || existsb (version_eqb w) cut)
                                        (cuts srcs (tr_srclens r))
                    | None => true
                    end) (ids (tr_sink r)).

Fixpoint forallb2 {A B} (f : A -> B -> bool) (la : list A) (lb : list B) : bool :=
  match la, lb with
  | [], [] => true
  | a :: la', b :: lb' => f a b && forallb2 f la' lb'
  | _, _ => false
  end.

(** a run while the sink dataset does not exist delivers nothing, so the persisted token must
    not move forward (and there is no sink view) *)
Definition run_absent_spec (last : list Z) (r : trun) : bool :=
  match tr_sink r with [] => true | _ => false end
  && forallb2 (fun tz lz => (tokpos tz <=? tokpos lz)%nat) (tr_tok r) last.

(** [dirty] = the sink dataset was deleted under the job and no fullsync has completed since:
    the incremental guarantees (token safety, convergence of incremental runs, idempotence) are
    suspended - the token still describes the deleted dataset - until a fullsync completes,
    which must converge from any state; [present] = the sink dataset exists; [last] = the token
    observed after the previous run. *)
Definition run_spec (shl : bool) (srcs : list feed) (prev : option trun) (dirty present : bool) (last : list Z)
    (r : trun) : bool :=
  (dirty || run_safe_spec srcs r)
  && ((dirty && negb (tr_full r)) || run_conv_spec (tr_full r && shl) srcs r)
  && (dirty || run_idem_spec (match prev with Some p => tr_full p && shl | None => false end) prev r)
  && run_origin_spec srcs r
  && (present || run_absent_spec last r).

Fixpoint spec_ops (shl : bool) (srcs : list feed) (prev : option trun) (dirty present : bool) (last : list Z)
    (ops : list top) : bool :=
  match ops with
  | [] => true
  | TRun r :: ops' =>
    run_spec shl srcs prev dirty present last r
    && spec_ops shl srcs (Some r) (dirty && negb (tr_full r && N.eqb (tr_out r) 0)) present (tr_tok r) ops'
  | TDrop :: ops' => spec_ops shl srcs None true false last ops'
  | TCreate :: ops' => spec_ops shl srcs None dirty true last ops'
  | _ :: ops' => spec_ops shl srcs None dirty present last ops'
  end.

(** well-formed cases: some ownership of ids by members makes every operation well-formed
    (in particular: the sink dataset is never deleted under the job, no log handler) *)
Definition wf_case (c : tcase) : Prop :=
  exists owner, Forall (wf_op owner (c_members c)) (ops_of c true (c_ops c)).

(** fullsyncs of this case to the sink run in entities mode *)
Definition shl_of (c : tcase) : bool :=
  c_sinkhttp c && negb (negb (c_union c) && nth 0 (c_los c) false).

Definition spec_ok (c : tcase) : bool :=
  spec_ops (shl_of c) (o_srcs c) None false true (repeat (-1)%Z (c_members c)) (c_ops c).

(** ** Further clauses, evaluated on the observations only (not covered by C08_agree_implies_spec) *)

(** a LatestOnly member only ever delivers versions that are the latest of their entity when the
    run reads them: what a run appended to the sink's feed for an entity of such a member is that
    member's current version *)
Definition run_latest_spec (los : list bool) (srcs : list feed) (r : trun) : bool :=
  forallb3 (fun (lo : bool) f n =>
              let cut := firstn (Z.to_nat n) f in
              negb lo || forallb (fun w => negb (zmem (v_id w) (ids cut)) || opt_eqb (cur cut (v_id w)) (Some w))
                                 (tr_new r))
           los srcs (tr_srclens r).

(** entities-mode fullsync with a log handler and a receiver that refuses entity x: every other
    source entity is delivered and nothing else of the sources is deleted *)
Definition run_reject_spec (shl : bool) (hs : list handler) (srcs : list feed) (r : trun) : bool :=
  match tr_flt r with
  | FSinkReject x =>
    if tr_full r && shl && existsb is_log hs then
      forallb (fun cut => forallb (fun i => Z.eqb i x || opt_eqb (cur (tr_sink r) i) (cur cut i)) (ids cut))
              (cuts srcs (tr_srclens r))
    else true
  | _ => true
  end.

Fixpoint extra_ops (c : tcase) (ops : list top) : bool :=
  match ops with
  | [] => true
  | TRun r :: ops' =>
    run_latest_spec (c_los c) (o_srcs c) r && run_reject_spec (shl_of c) (c_handlers c) (o_srcs c) r
    && extra_ops c ops'
  | _ :: ops' => extra_ops c ops'
  end.
Definition spec_extra (c : tcase) : bool := extra_ops c (c_ops c).


(** the 8 variants: equality x fullsync-token x in-batch-duplicate rule *)
Definition v_cur : variant := mkVar EqLen FsKeep DupStoredAndLocal.     (* the pinned tree *)
Definition v_eq : variant := mkVar EqFull FsKeep DupStoredAndLocal.
Definition v_fs : variant := mkVar EqLen FsReset DupStoredAndLocal.
Definition v_eqfs : variant := mkVar EqFull FsReset DupStoredAndLocal.
Definition v_dup : variant := mkVar EqLen FsKeep DupLocalElseStored.
Definition v_eqdup : variant := mkVar EqFull FsKeep DupLocalElseStored. (* F01a + F02a repaired *)
Definition v_fsdup : variant := mkVar EqLen FsReset DupLocalElseStored.
Definition v_fixed : variant := mkVar EqFull FsReset DupLocalElseStored.
Definition all_variants : list variant := [v_cur; v_eq; v_fs; v_eqfs; v_dup; v_eqdup; v_fsdup; v_fixed].

(** what the model predicts, for the replay printout *)
Definition predict (v : variant) (c : tcase) :=
  map (fun so => (match snd so with Some o => out_code o | None => 99%N end,
                  map tok_code (st_tok (fst so)), st_sink (fst so)))
      (filter (fun so => match snd so with Some _ => true | None => false end)
              (exec v (init_state (c_members c)) (ops_of c true (c_ops c)))).

(** [mismatches under each of the 8 variants (order of all_variants); spec failures on I;
     sink-feed-length drift under each variant] *)
Definition evaluate (cs : list tcase) : list (list N) :=
  map (fun v => indices_where (fun c => negb (agree v c)) cs) all_variants
  ++ [indices_where (fun c => negb (spec_ok c && spec_extra c)) cs]
  ++ map (fun v => indices_where (fun c => negb (agree_sinklen v c)) cs) all_variants.
