(** Correspondence evaluator for C11: configuration cases (one job definition through the real
    Scheduler.AddJob and trigger path, in its own process) and raffle cases (concurrent job.Run on a real
    raffle; the observed log of run starts/ends must be accepted by Model/Raffle.v). *)
From Coq Require Import List ZArith NArith Bool.
From DH Require Import Lib.CheckLib.
From DH Require Export Model.Raffle Model.JobRun.
Import ListNotations.
Open Scope Z_scope.

Record tcase := {
  t_barrier : bool;            (* barrier case: simultaneous requests for one id, round after round *)
  t_reqs : list bool; t_rounds : Z;
  t_distinct : bool;           (* barrier: every requester has its own job id, all of the kind of the first request *)
  t_iscfg : bool;
  t_c : cfg;
  t_capF : Z; t_capI : Z;
  (* observed *)
  ob_outcome : Z;              (* 0 = the driver ran the case *)
  ob_accepted : bool;
  ob_live : Z;                 (* 0 alive | 1 died | 2 hang *)
  ob_result : Z;               (* 0 success | 1 failure | 2 kill | 3 none *)
  ob_stored : Z;               (* the same, read from the store after the process ended *)
  ob_ticket : bool;
  ob_log : list rop;           (* raffle: run starts (OBorrow) and run ends (OReturn), linearised *)
  ob_gauge : list (bool * Z);  (* raffle: ticket gauges (pool is full?, value) in the order they were emitted *)
  ob_finalF : Z; ob_finalI : Z; ob_running : Z;
  ob_hist : list Z;            (* barrier: ob_hist[g] = rounds in which g requesters held a ticket for the id at once *)
  ob_rounds : Z;               (* barrier: rounds actually played (the driver stops after 20 s on a very busy machine) *)
  ob_badacct : Z               (* barrier: rounds after which pools / running set were not back at the initial values *)
}.

Definition all_variants : list jvariant :=
  flat_map (fun a => flat_map (fun b => flat_map (fun c => flat_map (fun d => map (fun e =>
    {| fix_endctx := a; fix_verify := b; fix_panic := c; fix_chunk := d; fix_clone := e |})
    [false; true]) [false; true]) [false; true]) [false; true]) [false; true].

Definition res_code (r : option result) : Z :=
  match r with Some RSuccess => 0 | Some RFailure => 1 | Some RKill => 2 | None => 3 end.

Definition agree_cfg (v : jvariant) (c : tcase) : bool :=
  let m := run_job v (t_c c) in
  Bool.eqb (o_accepted m) (ob_accepted c)
  && (racy v (t_c c)            (* the data race of F11e: any outcome *)
      || (Bool.eqb (o_alive m) (Z.eqb (ob_live c) 0)
          && Z.eqb (res_code (o_result m)) (ob_stored c)
          && (if o_alive m then Z.eqb (res_code (o_result m)) (ob_result c) && Bool.eqb (o_ticket m) (ob_ticket c)
              else true))).

Fixpoint gauge_ok (capF capI curF curI : Z) (g : list (bool * Z)) : bool :=
  match g with
  | [] => Z.eqb curF capF && Z.eqb curI capI
  | (true, v) :: g' => Z.eqb (Z.abs (v - curF)) 1 && (0 <=? v) && (v <=? capF) && gauge_ok capF capI v curI g'
  | (false, v) :: g' => Z.eqb (Z.abs (v - curI)) 1 && (0 <=? v) && (v <=? capI) && gauge_ok capF capI curF v g'
  end.

Definition agree_raffle (c : tcase) : bool :=
  match replay (ob_log c) (r_init (t_capF c) (t_capI c)) with
  | Some st => Z.eqb (r_full st) (t_capF c) && Z.eqb (r_incr st) (t_capI c)
               && (match r_running st with [] => true | _ => false end)
  | None => false
  end
  && Z.eqb (ob_finalF c) (t_capF c) && Z.eqb (ob_finalI c) (t_capI c) && Z.eqb (ob_running c) 0
  && gauge_ok (t_capF c) (t_capI c) (t_capF c) (t_capI c) (ob_gauge c).

(** barrier: in the model any serving order of the requests grants the same number of tickets (Proofs: at most one);
    every round of the implementation must show exactly that number, and the accounting must be back afterwards *)
Definition req_kind (c : tcase) : bool := match t_reqs c with f :: _ => f | [] => false end.
Fixpoint zids (from : Z) (n : nat) : list Z := match n with O => [] | S m => from :: zids (from + 1) m end.
Definition model_granted (c : tcase) : nat :=
  if t_distinct c then grant_pool (req_kind c) (zids 0 (length (t_reqs c))) (r_init (t_capF c) (t_capI c))
  else grant_count 0 (t_reqs c) (r_init (t_capF c) (t_capI c)).
(** most tickets that may be held at once in a round *)
Definition barrier_bound (c : tcase) : nat :=
  if t_distinct c then Z.to_nat (if req_kind c then t_capF c else t_capI c) else 1%nat.

Definition agree_barrier (c : tcase) : bool :=
  (0 <? ob_rounds c) && (ob_rounds c <=? t_rounds c)
  && list_eqb Z.eqb (ob_hist c) (repeat 0 (model_granted c) ++ [ob_rounds c])
  && Z.eqb (ob_badacct c) 0
  && Z.eqb (ob_finalF c) (t_capF c) && Z.eqb (ob_finalI c) (t_capI c) && Z.eqb (ob_running c) 0.

Definition agree (v : jvariant) (c : tcase) : bool :=
  Z.eqb (ob_outcome c) 0
  && (if t_barrier c then agree_barrier c else if t_iscfg c then agree_cfg v c else agree_raffle c).

(** executable spec on the observation *)
Definition spec_cfg (c : tcase) : bool :=
  negb (ob_accepted c)
  || (Z.eqb (ob_live c) 0 && negb (Z.eqb (ob_result c) 3) && negb (Z.eqb (ob_stored c) 3) && ob_ticket c
      && (negb (must_kill (t_c c)) || Z.eqb (ob_result c) 2)).   (* killed => recorded as killed, nothing overwrites it *)

(** no two overlapping runs of one id; never more runs of a kind than its pool *)
Fixpoint spec_log (capF capI : Z) (active : list (Z * bool)) (log : list rop) : bool :=
  match log with
  | [] => match active with [] => true | _ => false end
  | OBorrow id full :: log' =>
    negb (existsb (has_id id) active)
    && (count_kind full active <? (if full then capF else capI))
    && spec_log capF capI ((id, full) :: active) log'
  | OReturn id :: log' =>
    existsb (has_id id) active
    && spec_log capF capI (filter (fun p => negb (has_id id p)) active) log'
  end.

Definition spec_raffle (c : tcase) : bool :=
  spec_log (t_capF c) (t_capI c) [] (ob_log c)
  && Z.eqb (ob_finalF c) (t_capF c) && Z.eqb (ob_finalI c) (t_capI c) && Z.eqb (ob_running c) 0.

(** never two tickets for one job id at the same time, never more tickets of a kind than its configured pool; pools and
    running set back after every round *)
Definition spec_barrier (c : tcase) : bool :=
  forallb (Z.eqb 0) (skipn (S (barrier_bound c)) (ob_hist c))
  && Z.eqb (ob_badacct c) 0
  && Z.eqb (ob_finalF c) (t_capF c) && Z.eqb (ob_finalI c) (t_capI c) && Z.eqb (ob_running c) 0.

Definition spec_ok (c : tcase) : bool :=
  Z.eqb (ob_outcome c) 0
  && (if t_barrier c then spec_barrier c else if t_iscfg c then spec_cfg c else spec_raffle c).

(** [mismatches per variant (order of all_variants) ...; spec failures on I] *)
Definition evaluate (cs : list tcase) : list (list N) :=
  map (fun v => indices_where (fun c => negb (agree v c)) cs) all_variants
  ++ [indices_where (fun c => negb (spec_ok c)) cs].
