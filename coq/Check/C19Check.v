(** Correspondence evaluator for C19: a case is a history of catalogue operations and writes with
    snapshot observations ("details") of the dataset list, the dataset records, every version of
    every meta entity in core.Dataset, its live entities, and each dataset's distinct-id count. *)
From Coq Require Import List ZArith NArith Bool.
From DH Require Import Lib.CheckLib Model.Store Model.Catalogue.
Import ListNotations.
Open Scope Z_scope.

Record dsobs := {
  o_name : Z;
  o_exists : bool;              (* DsManager.GetDataset(name) != nil *)
  o_rset : settings;            (* the dataset record's configuration (plain when it does not exist) *)
  o_versions : list meta;       (* every version of the meta entity "<ns>:<name>" in core.Dataset's change feed, in order *)
  o_distinct : Z;               (* distinct entity ids in the dataset's own change feed (0 when it does not exist) *)
  o_latest : Z;                 (* entities in the dataset's latest view (0 when it does not exist) *)
  o_det_found : bool;           (* GetDatasetDetails(name) (= GET /datasets/name) *)
  o_det_items : Z
}.
Record snapshot := {
  o_names : list Z;             (* GetDatasetNames (= GET /datasets), sorted *)
  o_live : list (uri * Z);      (* non-deleted entities of core.Dataset's latest view: (id, name property), sorted by id *)
  o_ds : list dsobs
}.

Inductive sop :=
| SOp (o : cop)
| SPair (n : Z) (ents : list ent) (b : cop) (reached blocked : bool)
| SPairC (n : Z) (ents : list ent) (b : cop) (reached blocked : bool)   (* actor 1 held at batch.beforeIdCommit *)
| SPubM (l : list (Z * option Z))      (* several meta entities posted to core.Dataset in one batch *)
| SDetails (names : list Z) (obs : snapshot).
Definition tcase := list sop.

(** order = order of VARIANTS in lib/props/c19.py: bit 3 = counter of core (F19c), bit 2 = txn write-back (F19d),
    bit 1 = removal write-back (F19e), bit 0 = atomic read-modify-write (F19b); true = repaired *)
Definition variants : list cflags :=
  flat_map (fun cc => flat_map (fun tp => flat_map (fun rp => map (fun ra => mkflags cc tp rp ra) [false; true])
                                                   [false; true]) [false; true]) [false; true].
Definition v_fixed : cflags := fl_fixed.

(** ** prediction *)
Definition predict_ds (k : cat) (n : Z) : dsobs :=
  let latest := read_meta k n in
  {| o_name := n;
     o_exists := exists_ds k n;
     o_rset := match assoc n (k_reg k) with Some r => r_set r | None => plain end;
     o_versions := meta_versions k n;
     o_distinct := distinct_of k n;
     o_latest := match assoc n (k_reg k) with
                 | Some r => Z.of_nat (length (latest_keys (get_ds (k_st k) (r_code r)))) | None => 0 end;
     o_det_found := exists_ds k n && match latest with Some _ => true | None => false end;
     o_det_items := if exists_ds k n then match latest with Some m => m_items m | None => 0 end else 0 |}.

Definition predict (k : cat) (names : list Z) : snapshot :=
  {| o_names := fold_right insert_sorted [] (map fst (k_reg k));
     o_live := live_metas k;
     o_ds := map (predict_ds k) names |}.

(** ** equality of observations *)
Definition optz_eqb (a b : option Z) : bool :=
  match a, b with Some x, Some y => Z.eqb x y | None, None => true | _, _ => false end.
Definition settings_eqb (a b : settings) : bool := Z.eqb (s_kind a) (s_kind b) && optz_eqb (s_pub a) (s_pub b).
Definition meta_eqb (a b : meta) : bool :=
  Z.eqb (m_name a) (m_name b) && settings_eqb (m_set a) (m_set b) && Z.eqb (m_items a) (m_items b)
  && Bool.eqb (m_del a) (m_del b).
Definition pair_eqb (a b : Z * Z) : bool := Z.eqb (fst a) (fst b) && Z.eqb (snd a) (snd b).
Definition dsobs_eqb (a b : dsobs) : bool :=
  Z.eqb (o_name a) (o_name b) && Bool.eqb (o_exists a) (o_exists b) && settings_eqb (o_rset a) (o_rset b)
  && list_eqb meta_eqb (o_versions a) (o_versions b) && Z.eqb (o_distinct a) (o_distinct b)
  && Z.eqb (o_latest a) (o_latest b)
  && Bool.eqb (o_det_found a) (o_det_found b) && Z.eqb (o_det_items a) (o_det_items b).
Definition snapshot_eqb (a b : snapshot) : bool :=
  list_eqb Z.eqb (o_names a) (o_names b) && list_eqb pair_eqb (o_live a) (o_live b)
  && list_eqb dsobs_eqb (o_ds a) (o_ds b).

(** is the forced schedule of a pair observed as the model says?  (reached the pause point; actor 2 blocked) *)
Definition pair_flags (fl : cflags) (k : cat) (n : Z) (ents : list ent) (b : cop) : bool * bool :=
  let reached :=
    negb (Z.eqb n CORE_NAME) &&
    match ents, assoc n (k_reg k) with
    | _ :: _, Some r =>
      let k1 := with_st_kn k (tick (k_st k)) (k_known k) in
      let '(k2, ni) := write_ds fl (s_clock (k_st k1)) k1 (r_code r) ents in
      (0 <? ni) && match read_meta k2 n with Some _ => true | None => false end
    | _, _ => false
    end in
  (reached, reached && needs_lock n b).

(** actor 1 held before its id commit (it holds the write lock of [n]; nothing of its batch is committed yet):
    actor 2 either waits for that lock or works on other datasets - a batch the store rejects changes nothing -
    and every outcome is the sequential one.  Reached whenever actor 1's batch gets that far. *)
Definition pairc_reached (k : cat) (n : Z) (ents : list ent) : bool :=
  negb (Z.eqb n CORE_NAME) && match ents with [] => false | _ => exists_ds k n end.
Definition do_pairc (fl : cflags) (k : cat) (n : Z) (ents : list ent) (b : cop) : cat :=
  apply_cop fl (do_batch fl k n ents) b.

Fixpoint agree_run (fl : cflags) (k : cat) (ops : list sop) : bool :=
  match ops with
  | [] => true
  | SOp o :: ops' => agree_run fl (apply_cop fl k o) ops'
  | SPair n ents b reached blocked :: ops' =>
    (* the harness pauses actor 1 whatever the variant; a repaired tree makes actor 2 wait (blocked) *)
    let '(r, bl) := pair_flags fl k n ents b in
    Bool.eqb r reached && Bool.eqb (if cf_rmw_atomic fl then r else bl) blocked
    && agree_run fl (do_pair fl k n ents b) ops'
  | SPairC n ents b reached blocked :: ops' =>
    Bool.eqb (pairc_reached k n ents) reached
    && Bool.eqb (pairc_reached k n ents && needs_lock n b) blocked
    && agree_run fl (do_pairc fl k n ents b) ops'
  | SPubM l :: ops' => agree_run fl (do_setpubm fl k l) ops'
  | SDetails names obs :: ops' => snapshot_eqb (predict k names) obs && agree_run fl k ops'
  end.
Definition agree (fl : cflags) (c : tcase) : bool := agree_run fl (cat_init fl) c.

(** ** the executable spec S, on the implementation's observation alone *)
Definition last_version (d : dsobs) : option meta := match rev (o_versions d) with m :: _ => Some m | [] => None end.

Definition ds_spec (live : list (uri * Z)) (d : dsobs) : bool :=
  let n := o_name d in
  let live_named := filter (fun p => Z.eqb (snd p) n) live in
  let live_id := filter (fun p => Z.eqb (fst p) (meta_uri n)) live in
  if o_exists d then
    (* exactly one live meta entity carries the name: the one with the dataset's own id *)
    list_eqb pair_eqb live_named [(meta_uri n, n)]
    && list_eqb pair_eqb live_id [(meta_uri n, n)]
    && match last_version d with
       | Some m => negb (m_del m) && Z.eqb (m_name m) n && settings_eqb (m_set m) (o_rset d)
                   && Z.eqb (m_items m) (o_distinct d)
       | None => false
       end
    && Z.eqb (o_latest d) (o_distinct d)     (* every distinct id has exactly one latest version *)
    && o_det_found d && Z.eqb (o_det_items d) (o_distinct d)
  else
    (* deleted / renamed-away / never used names have only deleted meta entities *)
    match live_named, live_id with [], [] => true | _, _ => false end
    && match last_version d with Some m => m_del m | None => true end
    && negb (o_det_found d).

Definition snap_spec (s : snapshot) : bool := forallb (ds_spec (o_live s)) (o_ds s).

Definition spec_ok (c : tcase) : bool :=
  forallb (fun o => match o with SDetails _ obs => snap_spec obs | _ => true end) c.

Definition evaluate (cs : list tcase) : list (list N) :=
  map (fun v => indices_where (fun c => negb (agree v c)) cs) variants
  ++ [ indices_where (fun c => negb (spec_ok c)) cs ].

(** diagnostics: index of the first operation whose observation the model does not predict *)
Fixpoint first_bad (fl : cflags) (k : cat) (ops : list sop) (i : N) : option (N * snapshot) :=
  match ops with
  | [] => None
  | SOp o :: ops' => first_bad fl (apply_cop fl k o) ops' (N.succ i)
  | SPair n ents b reached blocked :: ops' =>
    let '(r, bl) := pair_flags fl k n ents b in
    if Bool.eqb r reached && Bool.eqb (if cf_rmw_atomic fl then r else bl) blocked
    then first_bad fl (do_pair fl k n ents b) ops' (N.succ i)
    else Some (i, predict k [])
  | SPairC n ents b reached blocked :: ops' =>
    if Bool.eqb (pairc_reached k n ents) reached && Bool.eqb (pairc_reached k n ents && needs_lock n b) blocked
    then first_bad fl (do_pairc fl k n ents b) ops' (N.succ i)
    else Some (i, predict k [])
  | SPubM l :: ops' => first_bad fl (do_setpubm fl k l) ops' (N.succ i)
  | SDetails names obs :: ops' =>
    if snapshot_eqb (predict k names) obs then first_bad fl k ops' (N.succ i) else Some (i, predict k names)
  end.
