(** Correspondence evaluator for property C14 (definitions only).
    A case = one mixed history with restart ops + what the hub-level Go driver observed:
    the result of every op, the snapshot of every read API before and after every restart, the final snapshot,
    and the same for the reference run (the history with its restart ops removed). *)
From Coq Require Import List ZArith NArith Bool String.
From DH Require Export Lib.CheckLib Model.Store Model.Acl Model.SecStore Model.Restart.
Import ListNotations.
Open Scope list_scope.
Open Scope Z_scope.

Record tcase := {
  c_ops : list hop;
  c_clients : list string;         (* the client names whose registration / ACL the driver reads *)
  o_res : list res;                (* per op (restarts answer ROk) *)
  o_pairs : list (snap * snap);    (* per restart op: projection of the snapshot before Close / after re-New* *)
  o_full : list bool;              (* per restart op: the complete snapshots (everything the driver reads, incl.
                                      core.Dataset, point reads, relation queries, raw job/provider JSON) are identical *)
  o_final : snap;
  o_refres : list res;             (* reference run: per non-restart op *)
  o_reffinal : snap;
  o_reffull : bool                 (* complete final snapshots of the two runs identical (commit timestamps aside) *)
}.

Definition res_eqb (a b : res) : bool :=
  match a, b with
  | ROk, ROk | RErr, RErr | RConflict, RConflict | RGone, RGone | RNoJob, RNoJob | RFailed, RFailed => true
  | _, _ => false
  end.
Definition snap_eqb : snap -> snap -> bool := list_eqb zlistlist_eqb.
Definition pair_eqb (a b : snap * snap) : bool := snap_eqb (fst a) (fst b) && snap_eqb (snd a) (snd b).

Definition is_restart (o : hop) : bool := match o with HRestart _ => true | _ => false end.

(** the model's run with a snapshot around every restart *)
Fixpoint run_obs (fl : rflags) (cl : list string) (ops : list hop) (h : hub)
  : hub * list res * list (snap * snap) :=
  match ops with
  | [] => (h, [], [])
  | o :: ops' =>
    let '(h1, r) := stepd fl h o in
    let '(h2, rs, ps) := run_obs fl cl ops' h1 in
    (h2, r :: rs, if is_restart o then (obs cl h, obs cl h1) :: ps else ps)
  end.

Definition strip (ops : list hop) : list hop := filter (fun o => negb (is_restart o)) ops.
(** the results of the ops that are not restarts *)
Definition strip_res (ops : list hop) (rs : list res) : list res :=
  map snd (filter (fun p : hop * res => negb (is_restart (fst p))) (combine ops rs)).
Definition same (p : snap * snap) : bool := snap_eqb (fst p) (snd p).

Definition agree (fl : rflags) (c : tcase) : bool :=
  let '(h, rs, ps) := run_obs fl (c_clients c) (c_ops c) hub_init in
  let '(hr, rrs) := run fl (strip (c_ops c)) hub_init in
  let fin := obs (c_clients c) h in
  let rfin := obs (c_clients c) hr in
  list_eqb res_eqb rs (o_res c)
  && list_eqb pair_eqb ps (o_pairs c)
  && snap_eqb fin (o_final c)
  && list_eqb res_eqb rrs (o_refres c)
  && snap_eqb rfin (o_reffinal c)
  (* what the projection leaves out is durable: it differs exactly where the projection does *)
  && list_eqb Bool.eqb (map same ps) (o_full c)
  && Bool.eqb (snap_eqb fin rfin && list_eqb res_eqb (strip_res (c_ops c) rs) rrs) (o_reffull c).

(** ** The executable spec, evaluated on the implementation's own observations *)
Definition sect (k : nat) (s : snap) : list (list Z) := nth k s [].
Definition ids_of (s : snap) : list (list Z) := sect 4 s.
Definition del_of (s : snap) : list Z := match sect 2 s with l :: _ => l | [] => [] end.
Definition next_of (s : snap) : Z := match sect 1 s with (n :: _) :: _ => n | _ => 0 end.
Definition dsids_of (s : snap) : list Z := map (fun r => nth 1 r 0) (sect 0 s).

Definition row_in (r : list Z) (l : list (list Z)) : bool := existsb (zlist_eqb r) l.
Fixpoint nodup_z (l : list Z) : bool :=
  match l with [] => true | x :: l' => negb (zmem x l') && nodup_z l' end.

(** no identifier is reused: one id per URI and one URI per id at the end, and every (URI, id) pair and every
    deleted dataset id seen before a restart is still there at the end; dataset ids in use are not deleted ones
    and are below the next dataset id *)
Definition ids_safe (befores : list snap) (fin : snap) : bool :=
  nodup_z (map (fun r => nth 0 r 0) (ids_of fin))
  && nodup_z (map (fun r => nth 1 r 0) (ids_of fin))
  && forallb (fun b => forallb (fun r => row_in r (ids_of fin)) (ids_of b)
                       && forallb (fun d => zmem d (del_of fin)) (del_of b)) befores
  && nodup_z (dsids_of fin)
  && forallb (fun i => negb (zmem i (del_of fin)) && (i <? next_of fin)) (dsids_of fin)
  && forallb (fun d => d <? next_of fin) (del_of fin).

Definition spec_ok (c : tcase) : bool :=
  forallb same (o_pairs c)
  && forallb (fun b => b) (o_full c)
  && snap_eqb (o_final c) (o_reffinal c)
  && o_reffull c
  && list_eqb res_eqb (strip_res (c_ops c) (o_res c)) (o_refres c)
  && ids_safe (map fst (o_pairs c)) (o_final c).

(** ** Variants: index bits (from the most significant) acl, init, prov, fs, delay; 0 = pinned, 1 = repaired *)
Definition mk_flags (a i p f d : bool) : rflags :=
  {| f_acl := if a then AclFileAcls else AclFileClients;
     f_init := if i then InitIndependent else InitAborts;
     f_prov := if p then ProvLowerKey else ProvRawKey;
     f_fs := if f then FsPersisted else FsVolatile;
     f_delay := if d then DelayStable else DelayRescale;
     f_eq := eq_pinned; f_dup := DupStoredAndLocal |}.
Definition bools : list bool := [false; true].
Definition all_variants : list rflags :=
  flat_map (fun a => flat_map (fun i => flat_map (fun p => flat_map (fun f => map (fun d => mk_flags a i p f d)
    bools) bools) bools) bools) bools.

Definition evaluate (cs : list tcase) : list (list N) :=
  map (fun fl => indices_where (fun c => negb (agree fl c)) cs) all_variants
  ++ [indices_where (fun c => negb (spec_ok c)) cs].
