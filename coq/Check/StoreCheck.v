(** Correspondence evaluator shared by the store-core properties (C01, C02):
    a case is a history of write and read operations together with what the
    Go driver observed for each; the model is run along the history. *)
From Coq Require Import List ZArith NArith Bool.
From DH Require Import Lib.CheckLib Model.Store Model.FeedSpec Model.Keys Model.ReverseReader.
Import ListNotations.
Open Scope Z_scope.


Inductive sop :=
| SWrite (w : wop) (o_newseqs : Z)               (* observed growth of the change log (WBatch only, -1 = not observed) *)
| SChanges (ds since limit : Z) (latest : bool) (o_ents : list oent) (o_next : Z)
| SEntities (ds : Z) (limits : list Z) (o_pages : list (list oent))
| SGet (id : uri) (at_ : option Z) (scope : list Z) (merged : bool)
       (o_found : bool) (o_partials : list (Z * content)) (o_deleted : bool)
| SRaw (fam : N) (o_keys : list (list N))
| SRev (ds since limit : Z) (o_ents : list oent) (o_next : Z)   (* reverse change reader (iterator.Inverse) *)
| SGetM (id : uri) (scope : list Z) (o_refs : list (Z * rval))   (* merged lookup over several datasets: the merged references *)
        (tbl : list (Z * rval)) (o_props : list (Z * rval)).     (* and the merged properties, as item codes; tbl: value code -> (is a list, item codes) *)   (* raw Badger keys of one index family, in iteration order *)

Definition tcase := list sop.

Definition variant := (eqflags * dup_mode)%type.
(** order = order of VARIANTS in lib/props/c01.py and c02.py *)
Definition variants : list variant :=
  let mk (lk ob : bool) (dm : dup_mode) := ({| f_lenkeys := lk; f_objneq := ob |}, dm) in
  [ mk true true DupStoredAndLocal;      (* the pinned tree *)
    mk false true DupStoredAndLocal;
    mk true false DupStoredAndLocal;
    mk false false DupStoredAndLocal;
    mk true true DupLocalElseStored;
    mk false true DupLocalElseStored;
    mk true false DupLocalElseStored;
    mk false false DupLocalElseStored ].  (* fully repaired *)
Definition v_fixed : variant := ({| f_lenkeys := false; f_objneq := false |}, DupLocalElseStored).

Definition oent_eqb (a b : oent) : bool := Z.eqb (fst a) (fst b) && identical (snd a) (snd b).
Definition oents_eqb := list_eqb oent_eqb.
Definition entry_oent (e : entry) : oent := (en_id e, en_c e).

(** sorted insertion of observed entities by id, for order-insensitive page comparison *)
Fixpoint oinsert (x : oent) (l : list oent) : list oent :=
  match l with
  | [] => [x]
  | y :: l' => if fst x <=? fst y then x :: l else y :: oinsert x l'
  end.
Definition osort (l : list oent) : list oent := fold_right oinsert [] l.

Definition nth_limit (limits : list Z) (p : nat) : Z :=
  match limits with [] => 0 | _ => nth p limits (last limits 0) end.

(** listing with a limit per page, following tokens, as the driver does *)
Fixpoint listing_pages_l (d : dstate) (from : option uri) (limits : list Z) (p : nat) (fuel : nat)
  : list (list (uri * option content)) :=
  match fuel with
  | O => []
  | S fuel' =>
    let count := nth_limit limits p in
    let pg := listing_page d from count in
    match rev pg with
    | [] => [pg]
    | (k, _) :: _ => if count <=? 0 then [pg] else pg :: listing_pages_l d (Some k) limits (S p) fuel'
    end
  end.

Definition page_oents (pg : list (uri * option content)) : list oent :=
  flat_map (fun kc => match snd kc with Some c => [(fst kc, c)] | None => [] end) pg.

Definition partial_eqb (a b : Z * content) : bool := Z.eqb (fst a) (fst b) && identical (snd a) (snd b).

(** Store.mergeInto on references: a key present on both sides becomes the list "target's values ++ source's values" *)
Fixpoint merge_refs_fuel (fuel : nat) (a b : list (Z * rval)) : list (Z * rval) :=
  match fuel with
  | O => a ++ b
  | S fuel' =>
    match a, b with
    | [], _ => b
    | _, [] => a
    | (k1, v1) :: a', (k2, v2) :: b' =>
      if k1 <? k2 then (k1, v1) :: merge_refs_fuel fuel' a' b
      else if k2 <? k1 then (k2, v2) :: merge_refs_fuel fuel' a b'
      else (k1, {| rv_arr := true; rv_tgts := rv_tgts v1 ++ rv_tgts v2 |}) :: merge_refs_fuel fuel' a' b'
    end
  end.
Definition merge_refs (a b : list (Z * rval)) : list (Z * rval) := merge_refs_fuel (length a + length b) a b.
Definition merged_refs (parts : list (Z * content)) : list (Z * rval) :=
  match parts with
  | [] => []
  | p :: ps => fold_left (fun acc q => merge_refs acc (c_refs (snd q))) ps (c_refs (snd p))
  end.

(** Store.mergeInto on properties: the same shape, over the items of each value ([tbl]: value code -> is-a-list, item codes;
    a value not in the table is a scalar whose only item is itself) *)
Definition props_items (tbl : list (Z * rval)) (c : content) : list (Z * rval) :=
  map (fun kv => (fst kv, match assoc (pv_code (snd kv)) tbl with
                          | Some r => r
                          | None => {| rv_arr := false; rv_tgts := [pv_code (snd kv)] |}
                          end)) (c_props c).
Definition merged_props (tbl : list (Z * rval)) (parts : list (Z * content)) : list (Z * rval) :=
  match parts with
  | [] => []
  | p :: ps => fold_left (fun acc q => merge_refs acc (props_items tbl (snd q))) ps (props_items tbl (snd p))
  end.

(** which kinds of operation a property compares *)
Record proj := { p_writes : bool; p_changes : bool; p_entities : bool; p_get : bool; p_raw : bool }.
Definition proj_c02 := {| p_writes := true; p_changes := true; p_entities := false; p_get := false; p_raw := false |}.
Definition proj_c01 := {| p_writes := false; p_changes := false; p_entities := true; p_get := true; p_raw := true |}.

Definition now_of (st : store) : Z := s_clock st.

(** does the model (variant v) predict the observation of op [o] in state [st]? *)
Definition agree_op (db : bool) (pr : proj) (st : store) (o : sop) : bool :=
  match o with
  | SWrite _ _ => true   (* checked by [agree_run] against the state after the write *)
  | SChanges ds since limit latest o_ents o_next =>
    negb (p_changes pr) ||
    (let '(out, next) := changes (get_ds st ds) since limit latest in
     oents_eqb (map entry_oent out) o_ents && Z.eqb next o_next)
  | SEntities ds limits o_pages =>
    negb (p_entities pr) ||
    (let d := get_ds st ds in
     let pages := listing_pages_l d None limits 0 (S (length (d_latest d))) in
     (* every page id-sorted on both sides (Go orders by internal id); page structure compared by sizes *)
     oents_eqb (osort (flat_map page_oents pages)) (osort (concat o_pages))
     && list_eqb Nat.eqb (map (@length _) pages) (map (@length _) o_pages))
  | SGet id at_ scope merged o_found o_partials o_deleted =>
    negb (p_get pr) ||
    (let at' := match at_ with Some t => t | None => now_of st end in
     let '(parts0, hasdel) := entity_at st id at' scope in
     (* [db] = repaired lookup: scoped to exactly one dataset, a deleted last version is returned with its body (F01c) *)
     let parts := if db then match scope, parts0 with
                              | [d], [] => match best_version id at' (d_entries (get_ds st d)) None with
                                           | Some e => [(d, en_c e)] | None => [] end
                              | _, _ => parts0 end
                  else parts0 in
     if o_found then
       if merged && (1 <? Z.of_nat (length parts)) then true   (* merged body of several partials: not decomposed *)
       else list_eqb partial_eqb parts o_partials
            && (match parts with [] => Bool.eqb hasdel o_deleted | _ => true end)
     else match parts with [] => negb hasdel | _ => false end)
  | SRev ds since limit o_ents o_next =>
    negb (p_changes pr) ||
    (let '(out, next) := changes_rev (get_ds st ds) since limit in
     oents_eqb (map entry_oent out) o_ents && Z.eqb next o_next)
  | SGetM id scope o_refs tbl o_props =>
    negb (p_get pr) ||
    (let '(parts, _) := entity_at st id (now_of st) scope in
     kvlist_eqb rval_eqb (merged_refs parts) o_refs && kvlist_eqb rval_eqb (merged_props tbl parts) o_props)
  | SRaw fam o_keys =>
    (* the real keys decode with the modelled layout, re-encode to themselves and come out of Badger in
       the order of their FIELD values (Proofs/KeysProofs.enc_order says that is the bytewise order) *)
    negb (p_raw pr) || raw_family_ok fam o_keys
  end.

Fixpoint agree_run (v : variant) (db : bool) (pr : proj) (st : store) (ops : list sop) : bool :=
  match ops with
  | [] => true
  | o :: ops' =>
    match o with
    | SWrite w o_new =>
      let st' := apply_wop (fst v) (snd v) st w in
      let ok := match w with
                | WBatch ds _ =>
                  negb (p_writes pr) || (o_new <? 0) ||
                  Z.eqb (Z.of_nat (length (d_entries (get_ds st' ds))) - Z.of_nat (length (d_entries (get_ds st ds)))) o_new
                | WTxn _ => true
                end in
      ok && agree_run v db pr st' ops'
    | _ => agree_op db pr st o && agree_run v db pr st ops'
    end
  end.

Definition agree (v : variant) (db : bool) (pr : proj) (c : tcase) : bool := agree_run v db pr store0 c.

(** ** The executable spec S, evaluated on the implementation's observations.
    State of the spec: one feed per dataset, built with [spec_write identical]. *)
Definition sstate := list (Z * feed).
Definition sget (s : sstate) (ds : Z) : feed := match assoc ds s with Some f => f | None => [] end.
Definition swrite (s : sstate) (ds : Z) (ents : list ent) : sstate :=
  set_assoc ds (fold_left (spec_write identical) ents (sget s ds)) s.
Definition sapply (s : sstate) (w : wop) : sstate :=
  match w with
  | WBatch ds ents => swrite s ds ents
  | WTxn sets => fold_left (fun s' (p : Z * list ent) => swrite s' (fst p) (snd p)) sets s
  end.

Definition spec_op_ok (pr : proj) (s : sstate) (o : sop) : bool :=
  match o with
  | SWrite _ _ => true
  | SChanges ds since limit latest o_ents o_next =>
    negb (p_changes pr) ||
    (let '(out, next) := spec_changes (sget s ds) since limit latest in
     oents_eqb out o_ents && Z.eqb next o_next)
  | SEntities ds limits o_pages =>
    negb (p_entities pr) ||
    (* every entity of the latest view exactly once over the pages, nothing else *)
    oents_eqb (osort (view_of (sget s ds))) (osort (concat o_pages))
  | SGet id at_ scope merged o_found o_partials o_deleted =>
    negb (p_get pr) ||
    match at_ with
    | Some _ => true     (* point-in-time lookups belong to C06 *)
    | None =>
      let cur := flat_map (fun (p : Z * feed) =>
                   if in_scope scope (fst p) then
                     match current_of (snd p) id with Some c => [(fst p, c)] | None => [] end
                   else []) s in
      let live := match scope with
                  | [_] => cur       (* scoped to one dataset: exactly the last version written there, deleted or not *)
                  | _ => filter (fun p => negb (c_del (snd p))) cur
                  end in
      if o_found then
        if merged && (1 <? Z.of_nat (length live)) then true
        else list_eqb partial_eqb live o_partials
             && (match live with
                 | [] => Bool.eqb (existsb (fun p => c_del (snd p)) cur) o_deleted
                 | _ => true end)
      else match cur with [] => true | _ => false end
    end
  | SRaw _ _ => true
  | SGetM id scope o_refs tbl o_props =>
    negb (p_get pr) ||
    (let cur := flat_map (fun (p : Z * feed) =>
                   if in_scope scope (fst p) then
                     match current_of (snd p) id with Some c => [(fst p, c)] | None => [] end
                   else []) s in
     let live := filter (fun p => negb (c_del (snd p))) cur in
     kvlist_eqb rval_eqb (merged_refs live) o_refs && kvlist_eqb rval_eqb (merged_props tbl live) o_props)
  | SRev ds since limit o_ents o_next =>
    negb (p_changes pr) ||
    (let '(out, next) := spec_changes_rev (sget s ds) since limit in
     oents_eqb out o_ents && Z.eqb next o_next)
  end.

Fixpoint spec_run (pr : proj) (s : sstate) (ops : list sop) : bool :=
  match ops with
  | [] => true
  | o :: ops' =>
    match o with
    | SWrite w o_new =>
      let s' := sapply s w in
      let ok := match w with
                | WBatch ds _ =>
                  negb (p_writes pr) || (o_new <? 0) ||
                  Z.eqb (Z.of_nat (length (sget s' ds)) - Z.of_nat (length (sget s ds))) o_new
                | WTxn _ => true
                end in
      ok && spec_run pr s' ops'
    | _ => spec_op_ok pr s o && spec_run pr s ops'
    end
  end.

Definition spec_ok (pr : proj) (c : tcase) : bool := spec_run pr [] c.

Definition evaluate (dbs : list bool) (pr : proj) (cs : list tcase) : list (list N) :=
  flat_map (fun db => map (fun v => indices_where (fun c => negb (agree v db pr c)) cs) variants) dbs
  ++ [ indices_where (fun c => negb (spec_ok pr c)) cs ].
Definition evaluate_c02 := evaluate [false] proj_c02.
(** C01: the 8 store variants with the pinned lookup, then the 8 with the repaired lookup *)
Definition evaluate_c01 := evaluate [false; true] proj_c01.

(** index of the first operation whose observation the model does not predict (diagnostics) *)
Fixpoint first_bad (v : variant) (db : bool) (pr : proj) (st : store) (ops : list sop) (i : N) : option N :=
  match ops with
  | [] => None
  | o :: ops' =>
    match o with
    | SWrite w _ =>
      if agree_run v db pr st [o] then first_bad v db pr (apply_wop (fst v) (snd v) st w) ops' (N.succ i) else Some i
    | _ => if agree_op db pr st o then first_bad v db pr st ops' (N.succ i) else Some i
    end
  end.
