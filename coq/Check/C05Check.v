(** Correspondence evaluator for C05: the harness writes the operation mixes
    the Go driver ran on N goroutines together with the lock trace recorded
    through the verifhook points and the final change feeds; [evaluate] says
    for which cases the observed global trace is NOT a trace of the model
    (per variant) and for which the executable spec fails on the
    implementation's own observations. *)
From Coq Require Import List NArith Bool Arith.
From DH Require Import Lib.CheckLib.
From DH Require Export Model.Locks.
Import ListNotations.

(** one execution of a set of client threads *)
Record run := {
  r_ops : list (list op);               (* per thread: its operations, oracles (map orders) filled in from the observation *)
  r_outcome : N;                        (* 0 all goroutines completed | 1 hang (watchdog) | 2 anything else *)
  r_trace : list (nat * ev);            (* global acquired/release events in the order the hook handler saw them *)
  r_errs : list (list bool);            (* per thread per op: returned an error *)
  r_feeds : list (lock * list marker);  (* final change feed of each dataset (one marker per entry) *)
  r_snaps : list (lock * N);            (* lengths of the whole-feed snapshots concurrent readers saw *)
  r_times : list (lock * list N);       (* per dataset: rank of the recorded time (txnTime) of each feed entry *)
  r_lookups : list (marker * marker);   (* per dataset and entity id: marker of its last feed entry, marker the scoped
                                           single-entity lookup returns after the run *)
  r_bad : N                             (* anomalies counted by the driver: torn merged lookups, snapshots that are
                                           not a prefix of the final feed, lock events of unknown goroutines *)
}.
(** [c_forced]: the runs are attempts of the forced two-thread schedule *)
Record tcase := { c_forced : bool; c_runs : list run }.

Definition progs_of (v : variant) (r : run) : list (list instr) := map (prog_of_ops v) (r_ops r).
Definition fuel_of (ps : list (list instr)) : nat := S (length (concat ps)).

(** every thread performs its pending non-lock instructions *)
Definition settle (fuel : nat) (c : config) : config :=
  fold_left (fun c i => match run_to_lock fuel i c with Some c' => c' | None => c end)
            (seq 0 (length (threads c))) c.

Definition mlist_eqb := list_eqb N.eqb.
Definition feeds_match (c : config) (fs : list (lock * list marker)) : bool :=
  forallb (fun p => mlist_eqb (feeds c (fst p)) (snd p)) fs.

(** a whole-feed snapshot may only end between two batches: markers of one
    batch are equal, markers of different batches differ *)
Definition boundary (f : list marker) (n : nat) : bool :=
  (n <=? length f) &&
  match n with
  | O => true
  | S m => match nth_error f m, nth_error f n with
           | Some a, Some b => negb (N.eqb a b)
           | _, _ => true
           end
  end.
Fixpoint lookup_feed (d : lock) (fs : list (lock * list marker)) : list marker :=
  match fs with
  | [] => []
  | p :: r => if lock_eqb (fst p) d then snd p else lookup_feed d r
  end.
Definition snaps_ok (fs : list (lock * list marker)) (sn : list (lock * N)) : bool :=
  forallb (fun s => boundary (lookup_feed (fst s) fs) (N.to_nat (snd s))) sn.

(** txnTime is drawn inside the critical section, so along every change feed the recorded
    times never go back, and the entity lookup (greatest txnTime) is the last feed entry *)
Fixpoint nondecb (l : list N) : bool :=
  match l with
  | x :: ((y :: _) as r) => N.leb x y && nondecb r
  | _ => true
  end.
Definition times_ok (ts : list (lock * list N)) : bool := forallb (fun p => nondecb (snd p)) ts.
Definition lookups_ok (ls : list (marker * marker)) : bool := forallb (fun p => N.eqb (fst p) (snd p)) ls.

(** one commit = one instant: all feed entries (in the user datasets) that carry the marker of one
    operation have the same recorded time, whichever dataset they are in *)
Fixpoint zip_mt (ms : list marker) (ts : list N) : list (marker * N) :=
  match ms, ts with
  | m :: ms', t :: ts' => (m, t) :: zip_mt ms' ts'
  | _, _ => []
  end.
Definition marker_times (fs : list (lock * list marker)) (ts : list (lock * list N)) : list (marker * N) :=
  flat_map (fun p => if is_ds (fst p)
                     then zip_mt (snd p) (snd (hd (fst p, []) (filter (fun q => lock_eqb (fst q) (fst p)) ts)))
                     else []) fs.
Fixpoint instants_consistent (seen : list (marker * N)) (l : list (marker * N)) : bool :=
  match l with
  | [] => true
  | (m, t) :: r =>
      match find (fun q => N.eqb (fst q) m) seen with
      | Some q => N.eqb (snd q) t && instants_consistent seen r
      | None => instants_consistent ((m, t) :: seen) r
      end
  end.
Definition instants_ok (fs : list (lock * list marker)) (ts : list (lock * list N)) : bool :=
  instants_consistent [] (marker_times fs ts).

(** an operation returns an error only if it is refused *)
Definition op_err (v : variant) (o : op) : bool :=
  match o with
  | OTxn ks _ _ => match v_core v with CoreRejected => memb LCore (part_keys ks) | CoreLocks => false end
  | OTxnFail _ => true
  | ORename _ RNoop | ORename _ RClash => true
  | ODelete _ false => true
  | _ => false
  end.
Definition errs_eqb := list_eqb (list_eqb Bool.eqb).

Definition agree_run (v : variant) (forced : bool) (r : run) : bool :=
  let ps := progs_of v r in
  let fuel := fuel_of ps in
  let c0 := init_config ps in
  forallb (forallb (op_wf v)) (r_ops r)
  && errs_eqb (map (map (op_err v)) (r_ops r)) (r_errs r)
  && (let '(c, _, ok) := replay fuel (r_trace r) c0 0 in
      let c' := settle fuel c in
      ok &&
      match r_outcome r with
      | 0%N => terminal c' && feeds_match c' (r_feeds r) && snaps_ok (r_feeds r) (r_snaps r) && N.eqb (r_bad r) 0
               && times_ok (r_times r) && lookups_ok (r_lookups r) && instants_ok (r_feeds r) (r_times r)
      | 1%N => stuck c'
      | _ => false
      end)
  && (if forced then Bool.eqb (stuck (forced2 fuel c0)) (N.eqb (r_outcome r) 1) else true).

Definition agree (v : variant) (c : tcase) : bool := forallb (agree_run v (c_forced c)) (c_runs c).

(** ** The executable spec, on the implementation's observations only.
    Markers carry the client: marker k belongs to thread (k mod 10000) / 1000. *)
Definition tid_of (k : marker) : nat := N.to_nat ((k mod 10000) / 1000).

(** the batches (non-empty lists of feed entries) an operation appends to dataset d *)
Definition op_batches (d : lock) (o : op) : list (list marker) :=
  match o with
  | OBatch p => if lock_eqb (p_ds p) d then [p_ms p] else []
  | OTxn ks _ _ => [writes_to d (part_writes ks)]
  | _ => []
  end.
Definition nonempty (b : list marker) : bool := match b with [] => false | _ => true end.
Definition thread_batches (d : lock) (os : list op) : list (list marker) :=
  filter nonempty (flat_map (op_batches d) os).

Fixpoint strip_prefix (b f : list marker) : option (list marker) :=
  match b, f with
  | [], _ => Some f
  | x :: b', y :: f' => if N.eqb x y then strip_prefix b' f' else None
  | _ :: _, [] => None
  end.

(** the feed is a concatenation of whole batches, every batch of every client
    exactly once, the batches of one client in its program order *)
Fixpoint merge_ok (fuel : nat) (f : list marker) (seqs : list (list (list marker))) : bool :=
  match fuel with
  | O => false
  | S n =>
      match f with
      | [] => forallb (fun s => match s with [] => true | _ => false end) seqs
      | k :: _ =>
          match nth_error seqs (tid_of k) with
          | Some (b :: s') =>
              match strip_prefix b f with
              | Some f' => merge_ok n f' (set_nth (tid_of k) s' seqs)
              | None => false
              end
          | _ => false
          end
      end
  end.

(** only acknowledged operations (no error returned) count *)
Definition ack_batches (d : lock) (oe : op * bool) : list (list marker) :=
  if snd oe then [] else op_batches d (fst oe).
Definition thread_batches_ack (d : lock) (oes : list op * list bool) : list (list marker) :=
  filter nonempty (flat_map (ack_batches d) (combine (fst oes) (snd oes))).

Definition feed_spec (ops : list (list op)) (errs : list (list bool)) (p : lock * list marker) : bool :=
  if is_ds (fst p)
  then merge_ok (S (length (snd p))) (snd p) (map (thread_batches_ack (fst p)) (combine ops errs))
  else true.

Fixpoint forallb2 {A B} (f : A -> B -> bool) (l1 : list A) (l2 : list B) : bool :=
  match l1, l2 with
  | [], [] => true
  | x :: r1, y :: r2 => f x y && forallb2 f r1 r2
  | _, _ => false
  end.

(** an acknowledged operation returned no error; refused ones (rename / delete of a
    dataset that does not exist, rename onto an existing name) returned one; a
    transaction naming core.Dataset may do either *)
Definition spec_err (o : op) (e : bool) : bool :=
  match o with
  | OTxn ks _ _ => if memb LCore (part_keys ks) then true else negb e
  | OTxnFail _ => e
  | ORename _ RNoop | ORename _ RClash => e
  | ODelete _ false => e
  | _ => negb e
  end.

Definition spec_run (r : run) : bool :=
  N.eqb (r_outcome r) 0
  && forallb2 (forallb2 spec_err) (r_ops r) (r_errs r)
  && forallb (feed_spec (r_ops r) (r_errs r)) (r_feeds r)
  && snaps_ok (r_feeds r) (r_snaps r)
  && N.eqb (r_bad r) 0
  && times_ok (r_times r) && lookups_ok (r_lookups r) && instants_ok (r_feeds r) (r_times r).
Definition spec_ok (c : tcase) : bool := forallb spec_run (c_runs c).

Definition v_sorted_locks : variant := v_order_sorted_core_locks.
Definition v_arbitrary_rejected : variant := v_order_arbitrary_core_rejected.

(** [mismatches under current; sorted+core-locks; arbitrary+core-rejected; fixed; spec failures on I] *)
Definition evaluate (cs : list tcase) : list (list N) :=
  [ indices_where (fun c => negb (agree current c)) cs;
    indices_where (fun c => negb (agree v_sorted_locks c)) cs;
    indices_where (fun c => negb (agree v_arbitrary_rejected c)) cs;
    indices_where (fun c => negb (agree fixed c)) cs;
    indices_where (fun c => negb (spec_ok c)) cs ].

(** ** Well-formedness of a case (hypothesis of the link theorem): no transaction names
    core.Dataset and every marker carries the index of the client that writes it *)
Fixpoint tags_from (d : lock) (i : nat) (ops : list (list op)) : bool :=
  match ops with
  | [] => true
  | os :: r => forallb (forallb (fun k => Nat.eqb (tid_of k) i)) (thread_batches d os) && tags_from d (S i) r
  end.
Definition run_wf (r : run) : bool :=
  forallb (forallb op_no_core_txn) (r_ops r)
  && forallb (fun p => if is_ds (fst p) then tags_from (fst p) 0 (r_ops r) else true) (r_feeds r).
Definition case_wf (c : tcase) : bool := forallb run_wf (c_runs c).
