(** * C06 - History is immutable: answers pinned to a past instant never change.
    Only statements, each closed by [exact <lemma>], with [Print Assumptions]. *)
From Coq Require Import List ZArith NArith Bool Lia.
From DH Require Import Lib.CheckLib Model.Store Model.Refs Model.Query Model.GraphSpec Model.PointInTime
     Proofs.StoreProofs Proofs.RefsProofs Proofs.QueryProofs Proofs.RefsInv Proofs.C06Proofs
     Proofs.C06CheckProofs Check.C03Check Check.C06Check.
Import ListNotations.
Open Scope Z_scope.

(** Entity lookup as of an instant [t] not after the clock: whatever batches and transactions follow
    (any write-time equality, any duplicate handling - the pinned tree included), the answer is the same.
    [rs] ranges over every state reachable from the empty store. *)
Theorem C06_entity : forall fl dm ops fl' dm' later id t sc,
  let rs := rrun fl dm ops rstore0 in
  t <= s_clock (rs_st rs) ->
  lookup_at (rs_st (rrun fl' dm' later rs)) id t sc = lookup_at (rs_st rs) id t sc.
Proof. exact C06_entity_thm. Qed.
Print Assumptions C06_entity.

(** Relationship queries pinned to [t], both directions, every variant of the scans (pinned incoming scan,
    pinned paging bookkeeping, pinned scope resolution included), several start points with limit accounting,
    any page limits, CONTINUED THROUGH THEIR CONTINUATION TOKENS (which carry At): every page is the same. *)
Theorem C06_related : forall fl dm ops fl' dm' later q t froms limits fuel,
  let rs := rrun fl dm ops rstore0 in
  t <= s_clock (rs_st rs) -> Forall (fun l => 0 <= l) limits -> Forall (fun fr => f_at fr = t) froms ->
  follow q (rs_keys (rrun fl' dm' later rs)) froms limits 0 fuel = follow q (rs_keys rs) froms limits 0 fuel.
Proof. exact C06_related_thm. Qed.
Print Assumptions C06_related.

(** one call of GetRelatedAtTime (results and continuation), in any two key sets that agree on the keys
    recorded at or before At *)
Theorem C06_related_call : forall q K K' fr limit,
  NoDup K -> NoDup K' -> filter (tle (f_at fr)) K = filter (tle (f_at fr)) K' -> 0 <= limit ->
  related q K fr limit = related q K' fr limit.
Proof. exact related_stable. Qed.
Print Assumptions C06_related_call.

(** writes never touch a reference key recorded at or before the clock: they add keys stamped with their own
    later time, and what they delete (same-batch tombstones) carries that time too *)
Theorem C06_keys_untouched : forall fl dm ops rs at_, at_ <= s_clock (rs_st rs) ->
  filter (tle at_) (rs_keys (rrun fl dm ops rs)) = filter (tle at_) (rs_keys rs)
  /\ (NoDup (rs_keys rs) -> NoDup (rs_keys (rrun fl dm ops rs)))
  /\ s_clock (rs_st rs) <= s_clock (rs_st (rrun fl dm ops rs)).
Proof. exact keys_stable. Qed.
Print Assumptions C06_keys_untouched.

(** What C03 and C06 assume of the write path and what the model guarantees: commit order = time order.  Everything
    already in the store is stamped at or before the clock; everything the next commit adds (versions and reference
    keys) is stamped with the next clock value - so successive commits carry strictly increasing times.  (An
    implementation that takes a transaction's timestamp BEFORE waiting for the dataset lock breaks exactly this:
    the correspondence runs force that schedule with two racing writers.) *)
Theorem C06_commit_order : forall fl dm ops fl' dm' o,
  let rs := rrun fl dm ops rstore0 in
  let rs' := rapply fl' dm' rs o in
  (forall k, In k (rs_keys rs) -> r_time k <= s_clock (rs_st rs))
  /\ (forall ds, Forall (fun e => en_time e <= s_clock (rs_st rs)) (d_entries (get_ds (rs_st rs) ds)))
  /\ (forall k, In k (rs_keys rs') -> In k (rs_keys rs) \/ r_time k = s_clock (rs_st rs) + 1)
  /\ (forall ds, exists P, d_entries (get_ds (rs_st rs') ds) = d_entries (get_ds (rs_st rs) ds) ++ P
                          /\ Forall (fun e => en_time e = s_clock (rs_st rs) + 1) P).
Proof. exact commit_order_is_time_order. Qed.
Print Assumptions C06_commit_order.

(** the body of a related entity, when it is read at the query's own instant (repaired), is pinned too *)
Theorem C06_related_body : forall fl dm ops fl' dm' later fr k,
  let rs := rrun fl dm ops rstore0 in
  f_at fr <= s_clock (rs_st rs) ->
  body_of false (rs_st (rrun fl' dm' later rs)) fr k = body_of false (rs_st rs) fr k.
Proof. exact C06_body_thm. Qed.
Print Assumptions C06_related_body.

(** now = then: what a current-state query returns when the clock is [t] is what the query pinned to [t] returns *)
Theorem C06_now_then_entity : forall fl dm ops id a sc,
  let rs := rrun fl dm ops rstore0 in
  s_clock (rs_st rs) <= a -> lookup_at (rs_st rs) id a sc = lookup_at (rs_st rs) id (s_clock (rs_st rs)) sc.
Proof. exact C06_now_then_entity_thm. Qed.
Print Assumptions C06_now_then_entity.

Theorem C06_now_then_related : forall fl dm ops q fr limit a,
  let rs := rrun fl dm ops rstore0 in
  s_clock (rs_st rs) <= a ->
  fst (related q (rs_keys rs) (with_at fr a) limit) = fst (related q (rs_keys rs) (with_at fr (s_clock (rs_st rs))) limit).
Proof. exact C06_now_then_related_thm. Qed.
Print Assumptions C06_now_then_related.

(** ** the pinned tree: F06a - the bodies attached to the results of a pinned relationship query are read
    "now" (GetEntityWithInternalID), not at the query's instant: e1 -> e2, then e2 changes; the query pinned to
    instant 1 still returns e2, but with the new body. *)
Definition fl_pinned_c06 : eqflags := {| f_lenkeys := true; f_objneq := true |}.
Definition cprop (v : Z) (refs : list (Z * list Z)) : content :=
  {| c_del := false; c_props := [(100, {| pv_code := v; pv_obj := false |})]; c_len := 60 + v;
     c_refs := map (fun r => (fst r, {| rv_arr := false; rv_tgts := snd r |})) refs |}.
Definition ops1 : list wop := [WBatch 2 [{| e_id := 5; e_c := cprop 1 [(6, [8])] |}; {| e_id := 8; e_c := cprop 1 [] |}]].
Definition later1 : list wop := [WBatch 2 [{| e_id := 8; e_c := cprop 2 [] |}]].
Definition fr1 : rfrom := {| f_start := 5; f_key := None; f_pred := 0; f_inv := false; f_scope := ScAll; f_at := 1 |}.
Definition k1 : rk := {| r_src := 5; r_time := 1; r_pred := 6; r_tgt := 8; r_del := false; r_ds := 2 |}.

Theorem C06_related_body_refuted_now :
  let rs := rrun eq_full DupLocalElseStored ops1 rstore0 in
  let rs' := rrun eq_full DupLocalElseStored later1 rs in
  related q_current (rs_keys rs') fr1 0 = related q_current (rs_keys rs) fr1 0
  /\ fst (related q_current (rs_keys rs) fr1 0) = [RDef k1]
  /\ body_of true (rs_st rs') fr1 k1 <> body_of true (rs_st rs) fr1 k1
  /\ body_of false (rs_st rs') fr1 k1 = body_of false (rs_st rs) fr1 k1.
Proof. vm_compute. repeat split; try reflexivity. discriminate. Qed.
Print Assumptions C06_related_body_refuted_now.

(** tie to the correspondence check.  The executable spec of C06 involves no model: two observations of the
    implementation agree - what a probe returns when pinned to the instant it was first asked at is what it
    returned then ([spec_ok]).  If BOTH observations agree with the repaired model, they agree with each other
    (by C06_entity, C06_related, now = then and the fact that a URI asserted only later is on no earlier key or
    version).  Well-formed: page limits >= 0, relationship probes with one start point, fewer than 2^62 writes. *)
Theorem C06_agree_implies_spec : forall c, wf_pcase c -> C06Check.agree pv_fixed c = true -> C06Check.spec_ok c = true.
Proof. exact agree_implies_spec_c06. Qed.
Print Assumptions C06_agree_implies_spec.

Example C06_link_nonvacuous :
  let b8 : body := ([(2, cprop 1 [])], false) in
  let c := {| pc_ds := [2; 3];
              pc_ops := [PWrite (WBatch 2 [{| e_id := 5; e_c := cprop 1 [(6, [8])] |}; {| e_id := 8; e_c := cprop 1 [] |}]);
                         PAsk 0 (BGet 8 []) (OGet true b8);
                         PAsk 1 (BRel [5] 0 false [] [1]) (ORel (Some [[((5, 6, 8), b8)]]));
                         PAsk 2 (BGet 9 [2]) (OGet false ([], false));
                         PAsk 3 (BRel [8] 6 true [99] [0]) (ORel (Some [[]]));
                         PWrite (WBatch 2 [{| e_id := 8; e_c := cprop 2 [] |}; {| e_id := 9; e_c := cprop 1 [(6, [8])] |}]);
                         PPin 0 (OGet true b8);
                         PPin 1 (ORel (Some [[((5, 6, 8), b8)]]));
                         PPin 2 (OGet true ([], false));
                         PPin 3 (ORel (Some [[]]))] |} in
  wf_pcase c /\ C06Check.agree pv_fixed c = true /\ C06Check.spec_ok c = true /\ C06Check.agree pv_current c = false.
Proof.
  cbv zeta. split; [|vm_compute; repeat split; reflexivity].
  split; [|vm_compute; discriminate].
  repeat (constructor; [cbn; try exact I; try (split; [eexists; reflexivity | repeat constructor; lia])|]). constructor.
Qed.

(** non-vacuity: several versions sharing one commit time inside a batch, tombstones sorting after live keys,
    a later delete and a transaction; pinned lookup and pinned paged incoming / outgoing queries *)
Example C06_nonvacuous :
  let e1 c := {| e_id := 5; e_c := c |} in
  let del c := {| c_del := true; c_props := c_props c; c_refs := c_refs c; c_len := c_len c + 15 |} in
  let ops := [WBatch 2 [e1 (cprop 1 [(6, [8])]); e1 (del (cprop 1 [(6, [8])])); e1 (cprop 1 [(6, [8; 9]); (7, [8])])]] in
  let later := [WBatch 2 [e1 (del (cprop 1 []))]; WTxn [(2, [e1 (cprop 3 [(7, [9])])]); (3, [e1 (cprop 4 [(6, [8])])])]] in
  let rs := rrun fl_pinned_c06 DupStoredAndLocal ops rstore0 in
  let rs' := rrun fl_pinned_c06 DupStoredAndLocal later rs in
  let fo := {| f_start := 5; f_key := None; f_pred := 0; f_inv := false; f_scope := ScAll; f_at := 1 |} in
  let fi := {| f_start := 8; f_key := None; f_pred := 0; f_inv := true; f_scope := ScAll; f_at := 1 |} in
  s_clock (rs_st rs) = 1
  /\ length (follow q_current (rs_keys rs') [fo] [1] 0 20) = 3%nat
  /\ follow q_current (rs_keys rs') [fo] [1] 0 20 = follow q_current (rs_keys rs) [fo] [1] 0 20
  /\ follow q_current (rs_keys rs') [fi] [1] 0 20 = follow q_current (rs_keys rs) [fi] [1] 0 20
  /\ fst (related q_current (rs_keys rs') (with_at fo 3) 0) <> fst (related q_current (rs_keys rs) fo 0)
  /\ fst (lookup_at (rs_st rs') 5 1 ScAll) = [(2, cprop 1 [(6, [8; 9]); (7, [8])])]
  /\ lookup_at (rs_st rs') 5 2 ScAll = ([], true).
Proof. vm_compute. repeat split; try reflexivity. discriminate. Qed.
