(** * C07 - Deleting a dataset hides all its data everywhere, at once and for good.
    Only statements, each closed by [exact <lemma>] (or a short wrapper), with [Print Assumptions]. *)
From Coq Require Import List ZArith NArith Bool Lia.
From DH Require Import Lib.CheckLib Model.Store Proofs.StoreProofs Model.DsManager Model.Gc Proofs.DsManagerProofs Proofs.GcProofs
     Proofs.DsRefine Proofs.DsCrash Model.NameCodec Proofs.NameCodecProofs Check.C07Check Proofs.C07CheckProofs.
Import ListNotations.
Open Scope Z_scope.

(** The registry invariant holds after EVERY history of writes, create / delete / rename / re-create,
    garbage collections, restarts and crashes at every hook point, for every variant of the model:
    in-memory registry = persisted registry; dataset ids of the data strictly increasing and below the
    next id; names and ids one-to-one; the id of a live name is never in the deleted set and has its data. *)
Theorem C07_reachable_inv : forall v ops, hinv (run v ops hub0).
Proof. intros v ops. apply hinv_run. exact hinv0. Qed.
Print Assumptions C07_reachable_inv.

(** C07_hidden, shape of the code: ANY loop over keys whose body is guarded by
    [if deleted[ds(key)] || !included(ds(key)) { continue }] computes the same as on the key list with
    every key of a deleted dataset erased and nothing marked deleted - whatever the body does. *)
Theorem C07_hidden_scan : forall (S K : Type) (ds_of : K -> Z) (body : S -> K -> S) dl sc keys s0,
  guarded_scan S K ds_of body dl sc s0 keys
  = guarded_scan S K ds_of body [] sc s0 (filter (fun k => negb (zmem (ds_of k) dl)) keys).
Proof. intros. apply scan_hidden. Qed.
Print Assumptions C07_hidden_scan.

(** C07_hidden: in every state reachable by any history, for every read API (dataset list, change feed,
    listing, lookup and relation queries in both directions, any scope), the answer is the answer on the
    state in which every key of every deleted dataset is erased and the deleted set is empty. *)
Theorem C07_hidden : forall v ops q,
  let h := run v ops hub0 in obs h q = obs (purge h) q.
Proof. intros v ops q h. apply hidden_all. apply hinv_names_live. apply hinv_run. exact hinv0. Qed.
Print Assumptions C07_hidden.

(** ... for the cross-dataset readers this needs no invariant at all: it holds in EVERY state *)
Theorem C07_hidden_any_state : forall h id scope start pred inverse,
  obs h (QGet id scope) = obs (purge h) (QGet id scope)
  /\ obs h (QRelated start pred inverse scope) = obs (purge h) (QRelated start pred inverse scope).
Proof. intros. split; apply hidden_cross; exact I. Qed.
Print Assumptions C07_hidden_any_state.

(** the modelled lookup is the shared reader of Model/Store.v (C01/C06) on the erased store *)
Theorem C07_get_is_entity_at_on_erased : forall dl sc id at_ st,
  get_raw (pass dl sc) id at_ (s_ds st)
  = let '(parts, hd) := entity_at (erase dl st) id at_ sc in GOk parts hd.
Proof. exact get_raw_entity_at. Qed.
Print Assumptions C07_get_is_entity_at_on_erased.

(** C07_gc_noop (observables): garbage collection at any point of any history changes no answer *)
Theorem C07_gc_invisible : forall v ops q,
  let h := run v ops hub0 in obs (gc h) q = obs h q.
Proof. intros v ops q h. apply gc_invisible. apply hinv_names_live. apply hinv_run. exact hinv0. Qed.
Print Assumptions C07_gc_invisible.

(** C07_gc_noop (keys): the dataset-level collector of the model removes, of the version / change-log /
    latest keys of the store, exactly those whose dataset field is in the deleted set ... *)
Theorem C07_gc_exact_keys : forall h, keys_of (h_data (gc h)) = gc_keys (h_del h) (keys_of (h_data h)).
Proof. exact gc_keys_of. Qed.
Print Assumptions C07_gc_exact_keys.

(** ... the byte offset at which the collector (and every reader) reads the dataset id is the dataset
    field of the key, for all five families: key[10:14] (version), key[2:6] (change log, latest),
    key[36:40] (outgoing, incoming) ... *)
Theorem C07_gc_offsets : forall k, key_wf k -> u32_at (ds_offset (key_fam k)) (encode k) = key_ds k.
Proof. exact ds_at_offset. Qed.
Print Assumptions C07_gc_offsets.

(** ... and Cleandeleted as it runs on raw keys (prefix scans per family, selectors at those offsets, prefix
    [family|id] per deleted id for change log and latest) leaves exactly the encodings of the keys whose
    dataset is not deleted - for every list of well-formed keys of the five families. *)
Theorem C07_gc_raw_exact : forall del ks,
  Forall key_wf ks -> Forall (in_range 4) del -> gc_raw del (map encode ks) = map encode (gc_keys del ks).
Proof. exact gc_raw_exact. Qed.
Print Assumptions C07_gc_raw_exact.

(** C07_fresh: in every reachable state, creating a name that does not exist (never existed, or was
    deleted: re-create) yields a dataset whose id is above every id occurring in any key, any record and
    the deleted set - so nothing written before can belong to it - and whose change feed, listing, scoped
    lookups and scoped relation queries are empty; the feed starts at 0.  The next id never decreases. *)
Theorem C07_fresh : forall v ops n,
  let h := run v ops hub0 in
  assoc n (h_names h) = None ->
  let i := r_next (h_mem h) in
  let h' := fst (run_mop v (MCreate n) h) in
  assoc n (h_names h') = Some i
  /\ Forall (fun j => j < i) (map fst (h_data h))
  /\ Forall (fun j => j < i) (map snd (h_names h))
  /\ Forall (fun j => j < i) (h_del h)
  /\ (forall since limit latest, 0 <= since -> obs h' (QChanges n since limit latest) = AChanges [] since)
  /\ (forall from count, obs h' (QEntities n from count) = APage [])
  /\ (forall id, obs h' (QGet id [n]) = AGet (GOk [] false))
  /\ (forall s p inv, obs h' (QRelated s p inv [n]) = ARel []).
Proof. intros v ops n h Hn. apply fresh_create; [apply hinv_run; exact hinv0 | exact Hn]. Qed.
Print Assumptions C07_fresh.

Theorem C07_next_id_monotone : forall v ops1 ops2,
  r_next (h_mem (run v ops1 hub0)) <= r_next (h_mem (run v ops2 (run v ops1 hub0))).
Proof. intros. apply next_mono_run. apply hinv_run. exact hinv0. Qed.
Print Assumptions C07_next_id_monotone.

(** C07_rename: same id, same keys, same deleted set; the new name answers exactly what the old one
    answered (feed, listing, scoped lookup, scoped relations), the old name is gone, other names untouched. *)
Theorem C07_rename : forall v ops o n i,
  let h := run v ops hub0 in
  o <> core -> assoc o (h_names h) = Some i -> n <> o -> assoc n (h_names h) = None ->
  let h' := fst (run_mop v (MRename o n) h) in
  assoc n (h_names h') = Some i /\ assoc o (h_names h') = None
  /\ h_st h' = h_st h /\ h_del h' = h_del h
  /\ (forall m, m <> o -> m <> n -> assoc m (h_names h') = assoc m (h_names h))
  /\ (forall since limit latest, obs h' (QChanges n since limit latest) = obs h (QChanges o since limit latest)
                                 /\ obs h' (QChanges o since limit latest) = ANoDataset)
  /\ (forall from count, obs h' (QEntities n from count) = obs h (QEntities o from count)
                         /\ obs h' (QEntities o from count) = ANoDataset)
  /\ (forall id, get_raw (pass (h_del h') (scope_ids (h_names h') [n])) id (h_now h') (h_data h')
                 = get_raw (pass (h_del h) (scope_ids (h_names h) [o])) id (h_now h) (h_data h))
  /\ (forall s p inv, obs h' (QRelated s p inv [n]) = obs h (QRelated s p inv [o])).
Proof. intros v ops o n i h. apply rename_ok. apply hinv_run. exact hinv0. Qed.
Print Assumptions C07_rename.

(** C07_frame: a manager operation (create / delete / rename / re-create), a garbage collection, a restart or a
    crash at ANY hook point of a manager operation that does not name dataset [m] leaves its name, its id, its
    keys and the clock as they were ... *)
Theorem C07_frame : forall v ops o m j d c,
  let h := run v ops hub0 in
  kept m j d c h -> ~ op_subject o m -> kept m j d c (step v h o).
Proof. intros v ops o m j d c h. apply frame_step. apply hinv_run. exact hinv0. Qed.
Print Assumptions C07_frame.

(** ... and therefore every answer about it (change feed, listing, lookups and relation queries scoped to it) *)
Theorem C07_frame_obs : forall v ops o m j d c q,
  let h := run v ops hub0 in
  kept m j d c h -> ~ op_subject o m ->
  (match q with
   | QChanges n _ _ _ | QEntities n _ _ => n = m
   | QGet _ scope | QRelated _ _ _ scope => scope = [m]
   | _ => False
   end) ->
  obs h q = obs (step v h o) q.
Proof.
  intros v ops o m j d c q h K Hs Hq.
  assert (H : hinv h) by (apply hinv_run; exact hinv0).
  apply (frame_obs h (step v h o) m j d c q H (hinv_step v h o H) K (frame_step v h o m j d c H K Hs) Hq).
Qed.
Print Assumptions C07_frame_obs.

(** C07_crash (repaired variant): for every reachable state, every manager operation and every hook point,
    the restarted process answers every query either as if the operation had never been called or as if it
    had completed. *)
Theorem C07_crash : forall ops mo k,
  let h := run v_fixed ops hub0 in
  let h' := crash_mop v_fixed mo k h in
  (forall q, obs h' q = obs (restart v_fixed h) q)
  \/ (forall q, obs h' q = obs (restart v_fixed (fst (run_mop v_fixed mo h))) q).
Proof.
  intros ops mo k h. apply crash_atomic_fixed.
  assert (H : hinv h) by (apply hinv_run; exact hinv0). apply H.
Qed.
Print Assumptions C07_crash.

(** the pinned tree is not crash-atomic: witnesses (F07a, F19a) *)
Theorem C07_crash_refuted_delete_1 : ~ atomic_on v_current h_w (MDelete 2) 1 [QNames; QGet 1 []].
Proof. exact crash_refuted_delete_1. Qed.
Print Assumptions C07_crash_refuted_delete_1.
Theorem C07_crash_refuted_delete_1_for_good :
  let h := gc (crash_mop v_current (MDelete 2) 1 h_w) in
  obs h QNames = ANames [0; 1] /\ obs h (QGet 1 []) = AGet GErr /\ length (h_data h) = 3%nat.
Proof. exact crash_refuted_delete_1_gc. Qed.
Print Assumptions C07_crash_refuted_delete_1_for_good.
Theorem C07_crash_refuted_create_2 : ~ atomic_on v_current h_w (MCreate 3) 2 [QNames; QMetas].
Proof. exact crash_refuted_create_2. Qed.
Print Assumptions C07_crash_refuted_create_2.
Theorem C07_crash_create_2_never_repaired :
  let h := fst (run_mop v_current (MCreate 3) (crash_mop v_current (MCreate 3) 2 h_w)) in
  obs h QNames = ANames [0; 1; 2; 3] /\ obs h QMetas = ANames [0; 1; 2]
  /\ snd (run_mop v_current (MDelete 3) h) = OPanic.
Proof. exact crash_create_2_not_repaired. Qed.
Print Assumptions C07_crash_create_2_never_repaired.
Theorem C07_crash_refuted_rename_1 : ~ atomic_on v_current h_w (MRename 2 3) 1 [QNames; QMetas].
Proof. exact crash_refuted_rename_1. Qed.
Print Assumptions C07_crash_refuted_rename_1.
Theorem C07_crash_refuted_delete_2 : ~ atomic_on v_current h_w (MDelete 2) 2 [QNames; QMetas].
Proof. exact crash_refuted_delete_2. Qed.
Print Assumptions C07_crash_refuted_delete_2.

(** non-vacuity *)
Example C07_ex_crash_fixed :
  obs (crash_mop v_fixed (MDelete 2) 1 h_w) (QGet 1 []) = AGet (GOk [(1, c_w 1)] false)
  /\ obs (crash_mop v_fixed (MDelete 2) 1 h_w) QNames = ANames [0; 1]
  /\ obs (crash_mop v_fixed (MCreate 3) 2 h_w) QMetas = ANames [0; 1; 2; 3].
Proof. exact crash_fixed_witness. Qed.
(** delete hides: before the delete both partials, after it only a's; the raw keys are still there until gc *)
Example C07_ex_hidden :
  obs h_w (QGet 1 []) = AGet (GOk [(1, c_w 1); (2, c_w 2)] false)
  /\ let h := fst (run_mop v_current (MDelete 2) h_w) in
     obs h (QGet 1 []) = AGet (GOk [(1, c_w 1)] false)
     /\ obs h (QGet 1 [2]) = AGet (GOk [(1, c_w 1)] false)       (* a scope naming only the deleted dataset is unrestricted (F03b) - but never shows its data *)
     /\ obs h (QChanges 2 0 0 false) = ANoDataset
     /\ length (keys_of (h_data h)) = 6%nat /\ length (keys_of (h_data (gc h))) = 3%nat
     /\ obs (fst (run_mop v_current (MCreate 2) (gc h))) (QChanges 2 0 0 false) = AChanges [] 0
     /\ assoc 2 (h_names (fst (run_mop v_current (MCreate 2) (gc h)))) = Some 4.
Proof. vm_compute. repeat split. Qed.
Example C07_ex_offsets :
  encode (KVer 5 3 1000 2) = [0;1; 0;0;0;0;0;0;0;5; 0;0;0;3; 0;0;0;0;0;0;3;232; 0;2]
  /\ u32_at 10 (encode (KVer 5 3 1000 2)) = 3
  /\ gc_raw [3] (map encode [KVer 5 3 1000 2; KVer 5 2 1000 2; KChg 3 0 5; KLat 2 5; KOut 5 9 7 6 0 3; KIn 6 5 9 7 0 2])
     = map encode [KVer 5 2 1000 2; KLat 2 5; KIn 6 5 9 7 0 2].
Proof. vm_compute. repeat split. Qed.

(** C07 as a refinement (repaired variant): after EVERY history - writes, create / delete / rename / re-create,
    collections, restarts, crashes at every hook point - the full invariant holds (registry invariant, no data
    without a record or a deleted mark, dataset entities = records) and EVERY answer of the hub (dataset list,
    dataset entities, change feed, listing, lookups and relation queries in any scope) is the answer of the spec S
    on the abstraction: a list of named datasets in which delete drops the dataset, rename relabels it, create
    appends an empty one - no ids, no deleted set, no persisted copy. *)
Theorem C07_refines_reads : forall ops q,
  let h := run v_fixed ops hub0 in hfull h /\ obs h q = sobs (habs h) q.
Proof.
  intros ops q h. assert (F : hfull h) by (apply sim_run; exact hfull0). split; [exact F | now apply obs_abs].
Qed.
Print Assumptions C07_refines_reads.

(** ... and every operation is the spec operation on the abstraction; a crash leaves the abstraction of the state
    before or after the operation (C07_crash at the level of the spec). *)
Theorem C07_refines_step : forall ops o,
  let h := run v_fixed ops hub0 in
  match o with
  | OWrite n ents => habs (step v_fixed h o) = s_write eq_full DupLocalElseStored n ents (habs h)
  | OMop m => habs (step v_fixed h o) = s_mop m (habs h)
  | OGc | ORestart => habs (step v_fixed h o) = habs h
  | OCrash m k => habs (step v_fixed h o) = habs h \/ habs (step v_fixed h o) = s_mop m (habs h)
  end.
Proof. intros ops o h. apply sim_step. apply sim_run. exact hfull0. Qed.
Print Assumptions C07_refines_step.

(** Link to the correspondence run: if the implementation's observations agree with the repaired model, then the
    executable spec accepts them. *)
Theorem C07_agree_implies_spec : forall c, agree v_fixed c = true -> spec_ok c = true.
Proof. exact C07_agree_implies_spec_thm. Qed.
Print Assumptions C07_agree_implies_spec.

(** non-vacuity: a history with delete, collection, re-create and a crash that the repaired model and the spec accept;
    the pinned model accepts the same history without the crash but answers the crash differently *)
Definition ex_case (get_after_crash : oanswer) : tcase :=
  [ CMop (MCreate 1) 0; CMop (MCreate 2) 0; CWrite 1 [e_w 1] 0; CWrite 2 [e_w 2] 0;
    CQuery (QGet 1 []) (OGet [(1, c_w 1); (2, c_w 2)] false);
    CCrash (MDelete 2) 1;
    CQuery QNames (ONames [0; 1]);
    CQuery (QGet 1 []) get_after_crash;
    CGc [(1, 2, 1); (1, 3, 1); (4, 2, 1); (4, 3, 1); (8, 2, 1); (8, 3, 1)] [(1, 2, 1); (4, 2, 1); (8, 2, 1)];
    CMop (MCreate 2) 0;
    CQuery (QChanges 2 0 0 false) (OChanges [] 0) ].
Example C07_ex_agree :
  agree v_fixed (ex_case (OGet [(1, c_w 1)] false)) = true /\ spec_ok (ex_case (OGet [(1, c_w 1)] false)) = true
  /\ agree v_current (ex_case (OGet [(1, c_w 1)] false)) = false.
Proof. vm_compute. auto. Qed.

(** The full invariant (registry invariant + no data without a record or a deleted mark + dataset entities = records)
    holds along every crash-free history of every variant that does not reconcile, the pinned one included. *)
Theorem C07_full_inv_crash_free : forall v ops,
  v_reconcile v = false -> crash_free ops -> hfull (run v ops hub0).
Proof. intros v ops Hrc C. apply hfull_run_nocrash; [exact Hrc | exact C | exact hfull0]. Qed.
Print Assumptions C07_full_inv_crash_free.

(** C07_crash, exact characterisation for the pinned tree (and for every variant that does not reconcile the dataset
    entities, whether or not the deleted set is persisted with the record removal): in every state reached by a
    crash-free history, for every manager operation that is not refused / a no-op and EVERY hook index k, the
    restarted process answers all queries as before or as after the operation IF AND ONLY IF the hook is not one of
    create.afterRecord, rename.afterMove, rename.afterOldMeta, delete.afterRecord, delete.afterDeletedSet.
    (At those five the dataset list already differs from the state before and the live dataset entities still differ
    from the state after.)  Atomic: create.afterNextId (= before), create.afterMeta, rename.afterNewMeta, delete.afterMeta. *)
Theorem C07_crash_exact : forall v ops m k,
  v_reconcile v = false -> crash_free ops ->
  let h := run v ops hub0 in
  fst (plan v m h) <> [] ->
  (atomic v h m k <-> hook_bad m k = false).
Proof. intros v ops m k Hrc C h. apply crash_exact; [exact Hrc | now apply C07_full_inv_crash_free]. Qed.
Print Assumptions C07_crash_exact.

(** a refused or no-op operation reaches no hook: the crash is a plain restart, in every variant and state *)
Theorem C07_crash_noop : forall v h m k, fst (plan v m h) = [] -> atomic v h m k.
Proof. exact crash_noop_atomic. Qed.
Print Assumptions C07_crash_noop.

(** variants that reconcile the dataset entities on restart, in every reachable state (crashes included): every hook
    point is atomic, except delete.afterRecord when the deleted set is persisted in a separate step (F07a alone) ... *)
Theorem C07_crash_reconcile : forall v ops m k,
  v_reconcile v = true ->
  (v_del_atomic v = false -> ~ (exists n, m = MDelete n) \/ k <> 1%nat) ->
  atomic v (run v ops hub0) m k.
Proof.
  intros v ops m k Hrc Hex. apply crash_atomic_reconcile; [exact Hrc | | exact Hex].
  assert (H : hinv (run v ops hub0)) by (apply hinv_run; exact hinv0). apply H.
Qed.
Print Assumptions C07_crash_reconcile.
(** ... and that point is not atomic once the doomed dataset holds something a lookup can see *)
Theorem C07_crash_refuted_delete_1_reconcile : ~ atomic (mkv false true) h_w (MDelete 2) 1.
Proof. exact crash_refuted_delete_1_reconcile. Qed.
Print Assumptions C07_crash_refuted_delete_1_reconcile.

(** non-vacuity of the hypotheses of C07_crash_exact *)
Example C07_ex_crash_exact_hyps :
  crash_free [OMop (MCreate 1); OMop (MCreate 2); OWrite 1 [e_w 1]; OWrite 2 [e_w 2]]
  /\ fst (plan v_current (MDelete 2) h_w) <> [] /\ fst (plan v_current (MCreate 3) h_w) <> []
  /\ fst (plan v_current (MRename 2 3) h_w) <> [].
Proof. exact crash_exact_nonvacuous. Qed.

(** The dataset a request on /datasets/<segment> addresses (create, rename, delete over HTTP): the name is the segment
    percent-decoded ONCE.  For every byte string used as a dataset name, the canonical escaped segment decodes back to
    exactly that name ... *)
Theorem C07_name_codec_roundtrip : forall s, Forall (fun c => 0 <= c < 256) s -> pct_decode (escape s) = Some s.
Proof. exact decode_escape. Qed.
Print Assumptions C07_name_codec_roundtrip.
(** ... a segment without '%' is its own name (a '+' in a path is a plus, not a space) ... *)
Theorem C07_name_codec_plain : forall s, ~ In 37 s -> pct_decode s = Some s.
Proof. exact decode_no_percent. Qed.
Print Assumptions C07_name_codec_plain.
(** ... and a second decoding step (url.QueryUnescape on the already decoded parameter) addresses a DIFFERENT dataset:
    "s+e" becomes "s e", the escaped form of the literal name "s%2Be" becomes "s+e". *)
Theorem C07_name_codec_twice_differs :
  pct_decode [115; 43; 101] = Some [115; 43; 101] /\ decode_twice [115; 43; 101] = Some [115; 32; 101]
  /\ pct_decode (escape [115; 37; 50; 66; 101]) = Some [115; 37; 50; 66; 101]
  /\ decode_twice (escape [115; 37; 50; 66; 101]) = Some [115; 43; 101].
Proof. exact decode_twice_differs. Qed.
Print Assumptions C07_name_codec_twice_differs.
(** the model's handler addresses the sibling datasets correctly (non-vacuity of the name table) *)
Example C07_ex_http_names :
  http_name [115; 43; 101] = 5 /\ http_name [115; 37; 50; 48; 101] = 6 /\ http_name [115; 37; 50; 53; 50; 66; 101] = 7
  /\ http_name [97] = 1 /\ http_name [122; 122] = 9.
Proof. vm_compute. auto. Qed.
