(** * C11 - Every accepted job ends with a recorded outcome; one run per job id.
    Only statements, each closed by [exact <lemma>], with [Print Assumptions]. *)
From Coq Require Import List ZArith NArith Bool Lia.
From DH Require Import Model.Raffle Model.JobRun Proofs.RaffleProofs Proofs.JobRunProofs Check.C11Check Proofs.C11CheckProofs.
Import ListNotations.
Open Scope Z_scope.

(** Raffle: for ALL sequences of borrowTicket / returnTicket operations (any ids, both kinds, any
    interleaving the mutex allows) from pools of capF / capI tickets: no job id is twice in the
    running set, tickets + running jobs of a kind = pool capacity, tickets are never negative ... *)
Theorem C11_raffle_inv : forall capF capI, 0 <= capF -> 0 <= capI ->
  forall ops, rinv capF capI (rexec ops (r_init capF capI)).
Proof. exact rexec_inv. Qed.
Print Assumptions C11_raffle_inv.

(** ... hence never more running jobs of a kind than its pool *)
Theorem C11_raffle_bounds : forall capF capI st, rinv capF capI st ->
  NoDup (map fst (r_running st))
  /\ count_kind true (r_running st) <= capF /\ count_kind false (r_running st) <= capI
  /\ 0 <= r_full st <= capF /\ 0 <= r_incr st <= capI.
Proof. exact rinv_bounds. Qed.
Print Assumptions C11_raffle_bounds.

(** simultaneous requests for ONE job id, served in any order, from any state: at most one gets a ticket *)
Theorem C11_one_ticket_per_id : forall id reqs st, (grant_count id reqs st <= 1)%nat.
Proof. exact grant_at_most_one. Qed.
Print Assumptions C11_one_ticket_per_id.

(** simultaneous requests of one kind for DIFFERENT job ids, served in any order: never more tickets than the pool holds *)
Theorem C11_pool_bound : forall f ids st, 0 <= tickets f st -> Z.of_nat (grant_pool f ids st) <= tickets f st.
Proof. exact grant_pool_bound. Qed.
Print Assumptions C11_pool_bound.

(** a log of run starts / ends that the model accepts has no overlapping runs of one id and never
    exceeds a pool (this is what the correspondence check establishes for the observed logs) *)
Theorem C11_replay_spec : forall capF capI log st st',
  rinv capF capI st -> replay log st = Some st' -> r_running st' = [] ->
  spec_log_prop capF capI (r_running st) log.
Proof. exact replay_spec. Qed.
Print Assumptions C11_replay_spec.

(** Outcome, repaired variant, over the finite lattice of job building blocks
    (7 sources x 6 transforms x 3 sinks x 2 trigger types x 2 job types x 6 handler sets, + kill for
    the slow source and the two stalling http remotes = 4320 configurations; decided by vm_compute and lifted with forallb_forall - the
    bound is the lattice itself): every accepted configuration ends with a stored result
    (success, failure or kill), the run slot released and the process alive. *)
Theorem C11_outcome : forall c, In c all_cfgs -> accepted jfixed c = true ->
  let o := run_job jfixed c in
  o_alive o = true /\ (exists r, o_result o = Some r) /\ o_ticket o = true.
Proof. exact outcome_lattice. Qed.
Print Assumptions C11_outcome.

Theorem C11_lattice_size : length all_cfgs = 4320%nat.
Proof. exact lattice_size. Qed.
Print Assumptions C11_lattice_size.

(** the same for every configuration record, inside the lattice or not *)
Theorem C11_outcome_all : forall c, good_out (run_job jfixed c) = true.
Proof. exact outcome_fixed_all. Qed.
Print Assumptions C11_outcome_all.

(** pinned tree: exactly the accepted configurations that kill the hub process *)
Theorem C11_current_char : forall c, good_out (run_job jcurrent c) = negb (dies_current c).
Proof. exact current_char. Qed.
Print Assumptions C11_current_char.

(** each repair removes its cause *)
Theorem C11_no_diverge_when_fixed : forall v c, fix_endctx v = true -> fst (sync v c) <> SDiverge.
Proof. exact no_diverge_when_fixed. Qed.
Print Assumptions C11_no_diverge_when_fixed.
Theorem C11_no_nil_handler_when_fixed : forall v c, fix_verify v = true -> handler_nil v c = false.
Proof. exact no_nil_handler_when_fixed. Qed.
Print Assumptions C11_no_nil_handler_when_fixed.

(** refutations (pinned tree).  F11a: EndStoreContext of the wrapper forwards to itself *)
Theorem C11_refuted_wrapper_loop :
  (forall fuel, wrapped_end_ctx false fuel = None)
  /\ In w_f11a all_cfgs /\ accepted jcurrent w_f11a = true /\ fst (sync jcurrent w_f11a) = SDiverge
  /\ o_alive (run_job jcurrent w_f11a) = false /\ o_result (run_job jcurrent w_f11a) = None.
Proof. split; [exact wrapper_loop | exact refuted_wrapper_loop]. Qed.
Print Assumptions C11_refuted_wrapper_loop.

(** F11b: onchange trigger - handlers are not verified: nil handler dereferenced, unknown type accepted *)
Theorem C11_refuted_unverified_handler :
  In w_f11b all_cfgs /\ accepted jcurrent w_f11b = true /\ handler_nil jcurrent w_f11b = true
  /\ fst (sync jcurrent w_f11b) = SPanic /\ o_alive (run_job jcurrent w_f11b) = false
  /\ accepted jcurrent w_f11b' = true /\ accepted jfixed w_f11b' = false.
Proof. exact refuted_unverified_handler. Qed.
Print Assumptions C11_refuted_unverified_handler.

(** F11c: a panic inside the run stores no result and kills the process *)
Theorem C11_refuted_panic_kills :
  In w_f11c all_cfgs /\ accepted jcurrent w_f11c = true /\ fst (sync jcurrent w_f11c) = SPanic
  /\ o_alive (run_job jcurrent w_f11c) = false /\ o_result (run_job jcurrent w_f11c) = None.
Proof. exact refuted_panic_kills. Qed.
Print Assumptions C11_refuted_panic_kills.

(** F11d (= F10b seen from C11): the partition arithmetic of the parallel transform panics inside the run *)
Theorem C11_refuted_chunk_panic :
  In w_f11d all_cfgs /\ accepted jcurrent w_f11d = true /\ fst (sync jcurrent w_f11d) = SPanic
  /\ o_alive (run_job jcurrent w_f11d) = false /\ o_result (run_job jcurrent w_f11d) = None
  /\ run_job jfixed w_f11d = {| o_accepted := true; o_alive := true; o_result := Some RSuccess; o_ticket := true |}.
Proof. exact refuted_chunk_panic. Qed.
Print Assumptions C11_refuted_chunk_panic.

(** emptied batch + rejecting sink + log handler ends as a recorded failure *)
Theorem C11_empty_batch_rejected :
  In w_empty all_cfgs
  /\ run_job jfixed w_empty = {| o_accepted := true; o_alive := true; o_result := Some RFailure; o_ticket := true |}.
Proof. exact empty_batch_rejected. Qed.
Print Assumptions C11_empty_batch_rejected.

(** F11e: with a log handler the transform is wrapped, the type test for *JavascriptTransform fails and the parallel
    workers share one JS runtime (data race): 75 configurations of the lattice whose outcome on the pinned tree is not
    determined ([racy]); none once the workers are cloned.  ([C11_current_char] describes the run without the race.) *)
Theorem C11_racy : length (filter (racy jcurrent) all_cfgs) = 75%nat /\ forall c, racy jfixed c = false.
Proof. split; [exact racy_current_count | exact racy_fixed]. Qed.
Print Assumptions C11_racy.

(** tie to the correspondence check *)
Theorem C11_agree_implies_spec : forall c, 0 <= t_capF c -> 0 <= t_capI c ->
  agree jfixed c = true -> spec_ok c = true.
Proof.
  intros c HF HI H. destruct (t_barrier c) eqn:Hb; [exact (agree_spec_barrier jfixed c Hb HF HI H)|].
  destruct (t_iscfg c) eqn:Hk.
  - exact (agree_fixed_spec_cfg c Hb Hk H).
  - exact (agree_fixed_spec_raffle jfixed c Hb Hk HF HI H).
Qed.
Print Assumptions C11_agree_implies_spec.

(** non-vacuity *)
Example C11_nonvacuous_1 :
  replay [OBorrow 1 false; OBorrow 2 true; OReturn 1; OBorrow 1 true; OReturn 2; OReturn 1] (r_init 2 1)
  = Some (r_init 2 1)
  /\ replay [OBorrow 1 false; OBorrow 1 true] (r_init 2 1) = None
  /\ replay [OBorrow 1 false; OBorrow 2 false] (r_init 2 1) = None.
Proof. vm_compute. repeat split. Qed.
Example C11_nonvacuous_2 :
  length (filter (accepted jfixed) all_cfgs) = 3600%nat
  /\ length (filter dies_current all_cfgs) = 980%nat.
Proof. vm_compute. split; reflexivity. Qed.
