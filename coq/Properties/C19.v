(** * C19 - Dataset catalogue, core.Dataset and the datasets themselves agree.
    Only statements, each closed by [exact <lemma>] or by computation, with [Print Assumptions]. *)
From Coq Require Import List ZArith NArith Bool Lia.
From DH Require Import Lib.CheckLib Model.Store Model.Catalogue Proofs.StoreProofs Proofs.CatalogueProofs
     Proofs.CatalogueInv Check.C19Check Proofs.C19CheckProofs Proofs.C19SpecLink.
Import ListNotations.
Open Scope Z_scope.

(** One dataset's share of any batch or transaction (the literal loop with assertIDForURI's [known] and the
    [newitems] counter), for EVERY write-time equality and EVERY in-batch duplicate mode (pinned or repaired):
    it stores exactly what Model/Store.v stores ([known] has no influence), keeps the counting invariant, and
    [newitems] is exactly the growth of the number of distinct entity ids in the dataset's change log -
    repeated ids in the batch (F02a stores them twice, they count once), re-stored ids, skipped unchanged
    writes, ids known from other datasets or first seen as reference targets included. *)
Theorem C19_batch_count : forall fl dm clk t ents d kn,
  winv clk d -> clk <= t -> incl (dids d) kn ->
  let '(d', kn', ni) := cbatch fl dm t ents d kn in
  d' = store_batch_ds fl dm t ents d
  /\ winv t d'
  /\ ndistinct (dids d') = ndistinct (dids d) + ni
  /\ 0 <= ni
  /\ incl kn kn' /\ incl (dids d') kn'
  /\ (forall id, In id (dids d') -> In id (dids d) \/ In id (map e_id ents))
  /\ incl (dids d) (dids d').
Proof. exact cbatch_spec. Qed.
Print Assumptions C19_batch_count.

(** C19_items at the level of one dataset, over ALL histories of writes to it (each element = the entities of
    one batch / transaction share, plus any set of URIs other datasets made known in between): the sum of the
    [newitems] handed to updateDataset equals the number of distinct entity ids ever stored in the dataset. *)
Theorem C19_items_dataset : forall fl dm ws d kn t,
  winv t d -> incl (dids d) kn ->
  let '(d', kn', t', total) := run_ds fl dm d kn t ws in
  ndistinct (dids d') = ndistinct (dids d) + total /\ winv t' d' /\ incl (dids d') kn'.
Proof. exact run_ds_counts. Qed.
Print Assumptions C19_items_dataset.

Theorem C19_items_fresh_dataset : forall fl dm ws,
  let '(d', _, _, total) := run_ds fl dm dstate0 [] 0 ws in ndistinct (dids d') = total.
Proof.
  intros fl dm ws.
  pose proof (run_ds_counts fl dm ws dstate0 [] 0 (winv0 0) (incl_refl _)) as H.
  destruct (run_ds fl dm dstate0 [] 0 ws) as [[[d' kn'] t'] total]. destruct H as [H _]. cbn in H. lia.
Qed.
Print Assumptions C19_items_fresh_dataset.

(** C19_meta, the part that does not depend on the history: a meta entity survives the store round trip, and
    the write-time equality (pinned length-and-old-keys shortcut or repaired, F01a / F02b) never identifies two
    different meta entities - so no create / delete / rename / counter / settings write of a CHANGED meta
    entity is ever dropped as "unchanged". *)
Theorem C19_meta_roundtrip : forall m, meta_parse (meta_content m) = m.
Proof. exact meta_parse_content. Qed.
Print Assumptions C19_meta_roundtrip.

Theorem C19_meta_never_confused : forall fl m m', content_eqb fl (meta_content m) (meta_content m') = true -> m = m'.
Proof. exact meta_sound. Qed.
Print Assumptions C19_meta_never_confused.

(** tie to the correspondence check, for every variant: if the implementation's observations agree with the
    model along a history, the executable spec S holds on the implementation's snapshots iff it holds on the
    model's own snapshots. *)
Theorem C19_agree_transfers_spec : forall fl c,
  agree fl c = true -> spec_ok c = model_spec_run fl (cat_init fl) c.
Proof. exact agree_transfers_spec. Qed.
Print Assumptions C19_agree_transfers_spec.

(** ... and at full strength for the fully repaired variants (F19c, F19d, F19e, F19b repaired; any store-core flags):
    agreement of the implementation's observations with the model along a history - operations, forced
    schedules, every snapshot - IMPLIES the executable spec on those observations (exactly one live meta entity per
    existing name carrying name and settings, items = distinct ids = latest entities, GET /datasets/{name} agrees;
    only deleted meta entities for other names). *)
Theorem C19_agree_implies_spec : forall fl c, repaired fl -> agree fl c = true -> spec_ok c = true.
Proof. exact agree_implies_spec. Qed.
Print Assumptions C19_agree_implies_spec.

Example C19_repaired_nonvacuous : repaired v_fixed /\ repaired (mkflags true true true true)
  /\ cf_txn_pub fl_fixed = true /\ cf_rm_pub fl_fixed = true.
Proof. repeat split. Qed.

(** the model's own snapshot satisfies the spec in every reachable state of a repaired variant *)
Theorem C19_model_snapshots_ok : forall fl ops names,
  repaired fl -> snap_spec (predict (run_cops fl ops) names) = true.
Proof.
  intros fl ops names Hrep. destruct Hrep as (Hcc & Htp & Hrp & Hra).
  apply (snap_spec_predict fl); [exact Hcc | now apply run_cops_inv].
Qed.
Print Assumptions C19_model_snapshots_ok.

(** C19_meta + C19_items over ALL histories of create / delete / rename / re-create / public-namespace updates
    (batch or transaction on core.Dataset) / batches / transactions - no well-formedness hypothesis on the
    history at all (operations on unknown names, on core.Dataset, repeated names in a transaction are no-ops or
    harmless in the model) - for every variant in which F19d and F19e are repaired, whatever the store-core flags
    (write-time equality, duplicate mode): in the state after the history, for every name n,
    * if the dataset exists: its meta entity is live, carries the name and exactly the record's settings, and its
      items counter is the number of distinct entity ids in the dataset's change log (for core.Dataset itself when
      F19c is repaired as well);
    * otherwise (deleted, renamed away, never used): there is no meta entity for n or only a deleted one;
    and core.Dataset holds nothing but meta entities, each stored under the id of the name it carries - so the live
    meta entity of n is the ONLY live entity carrying that name. *)
Theorem C19_meta_items : forall fl ops,
  cf_txn_pub fl = true -> cf_rm_pub fl = true ->
  let k := run_cops fl ops in
  (forall n, name_ok fl k n)
  /\ (forall id c, stored_latest (core k) id = Some c -> exists m, c = meta_content m /\ id = meta_uri (m_name m)).
Proof. exact meta_items. Qed.
Print Assumptions C19_meta_items.

(** the same for a client that posts several edited meta entities - of existing datasets or tombstones of deleted
    ones, in any order - back to core.Dataset: every posted entity is synced on its own, the invariant is kept *)
Theorem C19_setpubm_inv : forall fl l k,
  cf_txn_pub fl = true -> cf_rm_pub fl = true -> cinv fl zero k -> cinv fl zero (do_setpubm fl k l).
Proof. intros fl l k Htp Hrp. exact (do_setpubm_inv fl l Htp Hrp k). Qed.
Print Assumptions C19_setpubm_inv.

(** the invariant behind it (registry codes injective and below nextDatasetID, unused internal ids empty, counting
    invariant of every dataset, latest pointer of core.Dataset = last version) holds in every reachable state *)
Theorem C19_reachable_inv : forall fl ops,
  cf_txn_pub fl = true -> cf_rm_pub fl = true -> cinv fl zero (run_cops fl ops).
Proof. exact run_cops_inv. Qed.
Print Assumptions C19_reachable_inv.

(** ** concrete histories *)
Definition cA : content := {| c_del := false; c_props := [(1001, {| pv_code := 1; pv_obj := false |})]; c_refs := []; c_len := 50 |}.
Definition cB : content := {| c_del := false; c_props := [(1001, {| pv_code := 2; pv_obj := false |})]; c_refs := []; c_len := 50 |}.
Definition cR : content := {| c_del := false; c_props := []; c_refs := [(2001, {| rv_arr := false; rv_tgts := [3] |})]; c_len := 60 |}.
Definition en (i : Z) (c : content) : ent := {| e_id := i; e_c := c |}.
Definition pubx : settings := {| s_kind := 0; s_pub := Some 1 |}.

Definition h_counts : list cop :=
  [ OCreate 1 plain; OCreate 2 pubx;
    OBatch 1 [en 1 cA; en 1 cA];              (* repeated in the batch *)
    OBatch 1 [en 1 cB; en 1 cB];              (* existing id *)
    OBatch 2 [en 1 cA; en 1 cA];              (* known, new to this dataset *)
    OBatch 1 [en 2 cR];                       (* 3 first seen as a reference target *)
    OBatch 1 [en 3 cA]; OBatch 1 [en 3 cA];   (* then stored; then unchanged *)
    OTxn [(1, [en 4 cA; en 5 cA]); (2, [en 4 cA; en 1 cB])] ].
Definition h_manage : list cop :=
  [ OCreate 1 plain; OBatch 1 [en 1 cA; en 2 cA]; ORename 1 2; OBatch 2 [en 3 cA]; ODelete 2;
    OCreate 2 pubx; OBatch 2 [en 1 cA]; OCreate 1 {| s_kind := 1; s_pub := None |}; OCreate 3 {| s_kind := 2; s_pub := None |};
    ORename 3 1; ODelete 1; ORename 3 1; OSetPub 2 (Some 2) true; OSetPub 1 (Some 1) false; OSetPub 1 None false ].
Definition snap_of (fl : cflags) (ops : list cop) : snapshot := predict (run_cops fl ops) [0; 1; 2; 3].

(** non-vacuity / the repaired model on rich histories: every clause of the spec holds *)
Example C19_fixed_counts : snap_spec (snap_of fl_fixed h_counts) = true
  /\ map (fun d => (o_name d, o_distinct d)) (o_ds (snap_of fl_fixed h_counts)) = [(0, 3); (1, 5); (2, 2); (3, 0)].
Proof. vm_compute. split; reflexivity. Qed.
Example C19_fixed_manage : snap_spec (snap_of fl_fixed h_manage) = true
  /\ o_names (snap_of fl_fixed h_manage) = [0; 1; 2].
Proof. vm_compute. split; reflexivity. Qed.
(** the duplicate mode / equality flags of the pinned store core do not disturb the counters *)
Example C19_counts_pinned_store :
  let fl := {| cf_eq := {| f_lenkeys := true; f_objneq := true |}; cf_dup := DupStoredAndLocal;
               cf_count_core := true; cf_txn_pub := true; cf_rm_pub := true; cf_rmw_atomic := true |} in
  snap_spec (snap_of fl h_counts) = true /\ snap_spec (snap_of fl h_manage) = true.
Proof. vm_compute. split; reflexivity. Qed.

(** a tombstone with public namespaces posted in front of live datasets: all of them are synced *)
Example C19_setpubm_tombstone_first :
  let k := do_setpubm fl_fixed (run_cops fl_fixed [OCreate 1 pubx; OCreate 2 plain; OCreate 3 plain; ODelete 1])
                      [(1, Some 1); (2, Some 2); (3, Some 3)] in
  snap_spec (predict k [0; 1; 2; 3]) = true
  /\ map (fun n => option_map (fun r => s_pub (r_set r)) (assoc n (k_reg k))) [1; 2; 3] = [None; Some (Some 2); Some (Some 3)].
Proof. vm_compute. split; reflexivity. Qed.

(** ** the pinned tree: refutations by computation *)
(** F19c: core.Dataset's own counter is never maintained (by the letter of C19 it should be 2 here) *)
Theorem C19_items_refuted_core :
  let k := run_cops fl_current [OCreate 1 plain] in
  items_of k CORE_NAME = Some 0 /\ distinct_of k CORE_NAME = 2 /\ snap_spec (predict k [0; 1]) = false.
Proof. vm_compute. repeat split; reflexivity. Qed.
Print Assumptions C19_items_refuted_core.

(** F19d: public namespaces written through a transaction on core.Dataset do not reach the dataset record *)
Theorem C19_meta_refuted_txn_pubns :
  let fl := mkflags true false true true in
  let k := run_cops fl [OCreate 1 plain; OSetPub 1 (Some 1) true] in
  option_map (fun m => s_pub (m_set m)) (read_meta k 1) = Some (Some 1)
  /\ option_map (fun r => s_pub (r_set r)) (assoc 1 (k_reg k)) = Some None
  /\ snap_spec (predict k [0; 1]) = false.
Proof. vm_compute. repeat split; reflexivity. Qed.
Print Assumptions C19_meta_refuted_txn_pubns.

(** F19e: removing the publicNamespaces property does not reach the dataset record *)
Theorem C19_meta_refuted_pubns_removal :
  let fl := mkflags true true false true in
  let k := run_cops fl [OCreate 1 pubx; OSetPub 1 None false] in
  option_map (fun m => s_pub (m_set m)) (read_meta k 1) = Some None
  /\ option_map (fun r => s_pub (r_set r)) (assoc 1 (k_reg k)) = Some (Some 1)
  /\ snap_spec (predict k [0; 1]) = false.
Proof. vm_compute. repeat split; reflexivity. Qed.
Print Assumptions C19_meta_refuted_pubns_removal.

(** F19b: the counter's read-modify-write is not atomic with respect to the manager.  A DeleteDataset between
    the read and the write leaves a LIVE meta entity for a deleted name ... *)
Theorem C19_meta_refuted_delete_race :
  let fl := mkflags true true true false in
  let k := do_pair fl (run_cops fl [OCreate 1 plain]) 1 [en 1 cA] (ODelete 1) in
  exists_ds k 1 = false /\ option_map m_del (read_meta k 1) = Some false /\ snap_spec (predict k [0; 1]) = false.
Proof. vm_compute. repeat split; reflexivity. Qed.
Print Assumptions C19_meta_refuted_delete_race.

(** ... and a public-namespaces update in the window is overwritten in the meta entity while the record keeps it
    (with F19e also unrepaired, as in the pinned tree; with F19e repaired the stale write-back reverts the
    record too: the client's update is lost consistently) *)
Theorem C19_meta_refuted_settings_race :
  let fl := mkflags true true false false in
  let k := do_pair fl (run_cops fl [OCreate 1 plain]) 1 [en 1 cA] (OSetPub 1 (Some 1) false) in
  option_map (fun m => s_pub (m_set m)) (read_meta k 1) = Some None
  /\ option_map (fun r => s_pub (r_set r)) (assoc 1 (k_reg k)) = Some (Some 1)
  /\ snap_spec (predict k [0; 1]) = false.
Proof. vm_compute. repeat split; reflexivity. Qed.
Print Assumptions C19_meta_refuted_settings_race.

(** the design lead "two writers to DIFFERENT datasets lose a counter update" does not hold: they read and
    write different meta entities; the forced schedule gives exactly the sequential result *)
Example C19_pair_different_datasets_no_lost_update :
  let fl := mkflags true true true false in
  let k0 := run_cops fl [OCreate 1 plain; OCreate 2 plain] in
  predict (do_pair fl k0 1 [en 1 cA] (OBatch 2 [en 2 cA; en 3 cA])) [0; 1; 2]
  = predict (apply_cop fl (apply_cop fl k0 (OBatch 1 [en 1 cA])) (OBatch 2 [en 2 cA; en 3 cA])) [0; 1; 2]
  /\ snap_spec (predict (do_pair fl k0 1 [en 1 cA] (OBatch 2 [en 2 cA; en 3 cA])) [0; 1; 2]) = true.
Proof. vm_compute. split; reflexivity. Qed.
