(** * C03 - Relationship queries equal the graph implied by the latest versions.
    Only statements, each closed by [exact <lemma>] (or a short wrapper), with [Print Assumptions]. *)
From Coq Require Import List ZArith NArith Bool Lia.
From DH Require Import Lib.CheckLib Model.Store Model.Refs Model.Query Model.GraphSpec
     Proofs.StoreProofs Proofs.RefsProofs Proofs.QueryProofs Proofs.RefsInv Proofs.C03Paging Proofs.C03Proofs Proofs.C03Many
     Check.C03Check Proofs.C03CheckProofs.
Import ListNotations.
Open Scope Z_scope.

(** The write path of the reference index refines the graph of the latest versions, for EVERY history
    of batches and multi-dataset transactions (in-batch repeats, delete / un-delete inside a batch,
    first-use-of-a-URI branch, same entity in several datasets), every duplicate-handling mode and every
    write-time equality that compares the deleted flag and the references: for every (src, p, tgt),
    dataset and instant, the (time, deleted)-greatest key recorded at or before the instant is live
    iff the version of src visible at that instant in that dataset is not deleted and carries (p, tgt). *)
Theorem C03_index_refines : forall fl dm ops,
  f_lenkeys fl = false -> Forall wf_wop ops ->
  let rs := rrun fl dm ops rstore0 in
  NoDup (rs_keys rs)
  /\ forall ds at_ src p tgt,
       live_at (rs_keys rs) at_ src p tgt ds <-> In (p, tgt) (live_refs_at (get_ds (rs_st rs) ds) src at_).
Proof. exact refs_index_refines. Qed.
Print Assumptions C03_index_refines.

(** ... and the version part of that store is exactly Model/Store.v's (C01/C02 talk about the same versions) *)
Theorem C03_same_versions : forall fl dm ops rs, rs_st (rrun fl dm ops rs) = run_wops fl dm ops (rs_st rs).
Proof. exact rrun_st. Qed.
Print Assumptions C03_same_versions.

(** Outgoing query, any start, predicate or wildcard, scope and instant, in every reachable state:
    exactly the (predicate, target) pairs of the graph, each once; no continuation. *)
Theorem C03_outgoing : forall fl dm ops rs noadd fr,
  reachable fl dm ops rs -> f_key fr = None ->
  let '(res, cont) := related_out noadd (rs_keys rs) fr 0 in
  cont = None
  /\ NoDup (map ofact res)
  /\ forall p tgt, In (p, tgt) (map ofact res) <->
       pred_pass fr p = true /\ in_graph (rs_st rs) (f_at fr) (f_scope fr) (f_start fr) p tgt.
Proof. exact outgoing_is_graph. Qed.
Print Assumptions C03_outgoing.

(** Incoming query under the repaired scan (newest-first with per (predicate, source, dataset) bookkeeping). *)
Theorem C03_inverse : forall fl dm ops rs fr,
  reachable fl dm ops rs -> f_key fr = None ->
  let '(res, cont) := related_in_fixed (rs_keys rs) fr 0 in
  cont = None
  /\ NoDup (map ifact res)
  /\ forall p src, In (p, src) (map ifact res) <->
       pred_pass fr p = true /\ in_graph (rs_st rs) (f_at fr) (f_scope fr) src p (f_start fr).
Proof. exact incoming_is_graph. Qed.
Print Assumptions C03_inverse.

(** Incoming results are the exact transpose of outgoing results. *)
Theorem C03_transpose : forall fl dm ops rs noadd fo fi,
  reachable fl dm ops rs -> f_key fo = None -> f_key fi = None ->
  f_pred fo = f_pred fi -> f_scope fo = f_scope fi -> f_at fo = f_at fi ->
  forall p,
    In (p, f_start fi) (map ofact (fst (related_out noadd (rs_keys rs) fo 0)))
    <-> In (p, f_start fo) (map ifact (fst (related_in_fixed (rs_keys rs) fi 0))).
Proof. exact incoming_is_transpose. Qed.
Print Assumptions C03_transpose.

(** Paging with any positive limit and following continuations: the pages concatenate to exactly the
    unlimited result (same order), every page within the limit - so the same set, nothing missing, nothing
    twice (the unlimited result is duplicate-free by C03_outgoing / C03_inverse). *)
Theorem C03_paging_outgoing : forall fl dm ops rs q fr L fuel,
  reachable fl dm ops rs -> q_noadd q = false -> f_inv fr = false -> f_key fr = None -> 0 < L ->
  (length (fst (related_out false (rs_keys rs) fr 0)) < fuel)%nat ->
  let pages := follow q (rs_keys rs) [fr] [L] 0 fuel in
  concat pages = map RDef (fst (related_out false (rs_keys rs) fr 0))
  /\ Forall (fun pg => len pg <= L) pages.
Proof. exact outgoing_paging. Qed.
Print Assumptions C03_paging_outgoing.

Theorem C03_paging_inverse : forall fl dm ops rs q fr L fuel,
  reachable fl dm ops rs -> q_inv1 q = false -> f_inv fr = true -> f_key fr = None -> 0 < L ->
  (length (fst (related_in_fixed (rs_keys rs) fr 0)) < fuel)%nat ->
  let pages := follow q (rs_keys rs) [fr] [L] 0 fuel in
  concat pages = map RDef (fst (related_in_fixed (rs_keys rs) fr 0))
  /\ Forall (fun pg => len pg <= L) pages.
Proof. exact incoming_paging. Qed.
Print Assumptions C03_paging_inverse.

(** Paging over SEVERAL start points (GetManyRelatedEntitiesAtTime: limit accounting across the start points,
    continuation list with the unfinished and the untouched start points), any list of page limits (>= 0;
    0 = no limit, the last one repeated): the pages concatenate to the per-start unlimited results, in the
    order of the start points; a page never exceeds its (positive) limit.  Every per-start result is
    duplicate-free and equals the graph by C03_outgoing / C03_inverse, so nothing is missing, nothing comes twice. *)
Theorem C03_paging_many : forall fl dm ops rs q limits froms fuel,
  reachable fl dm ops rs -> q_noadd q = false -> q_inv1 q = false ->
  Forall (fun l => 0 <= l) limits -> Forall (fun fr => f_key fr = None) froms ->
  (length (flat_map (fun fr => fst (related q (rs_keys rs) fr 0)) froms) < fuel)%nat ->
  concat (follow q (rs_keys rs) froms limits 0 fuel) = flat_map (fun fr => fst (related q (rs_keys rs) fr 0)) froms
  /\ pages_within limits 0 (follow q (rs_keys rs) froms limits 0 fuel).
Proof.
  intros fl dm ops rs q limits froms fuel Hr. apply paging_many. exact (proj1 (reachable_inv _ _ _ _ Hr)).
Qed.
Print Assumptions C03_paging_many.

(** the list-level core of paging, for any scan whose continuation is "the last returned key" *)
Theorem C03_paging_partition : forall L E, 0 < L -> NoDup E ->
  forall fuel start, (start = None \/ exists s, start = Some s /\ In s E) ->
  (length (rest E start) < fuel)%nat ->
  concat (follow_spec L E start fuel) = rest E start
  /\ Forall (fun pg => len pg <= L) (follow_spec L E start fuel).
Proof. exact follow_spec_partition. Qed.
Print Assumptions C03_paging_partition.

(** ** the pinned tree: refutations by computation.
    Codes: e1 = 5, r1 = 6, r2 = 7, e2 = 8, e3 = 9, e4 = 4; datasets a = 2, b = 3. *)
Definition now : Z := 4611686018427387904.
Definition cref (del : bool) (refs : list (Z * list Z)) (len : Z) : content :=
  {| c_del := del; c_props := []; c_len := len;
     c_refs := map (fun r => (fst r, {| rv_arr := false; rv_tgts := snd r |})) refs |}.
Definition e1 (c : content) : ent := {| e_id := 5; e_c := c |}.
Definition fl_pinned : eqflags := {| f_lenkeys := true; f_objneq := true |}.
Definition qfrom (start pred : Z) (inv : bool) (sc : scope) : rfrom :=
  {| f_start := start; f_key := None; f_pred := pred; f_inv := inv; f_scope := sc; f_at := now |}.

(** F03a: e1 refers to e2 through r1 and r2; then r2 is dropped.  The pinned incoming scan keeps ONE
    deleted flag per source: the last key of the source is r2's tombstone, so nothing is returned ... *)
Theorem C03_inverse_refuted_multipred_keep_first :
  let ops := [WBatch 2 [e1 (cref false [(6, [8]); (7, [8])] 71)]; WBatch 2 [e1 (cref false [(6, [8])] 53)]] in
  let rs := rrun eq_full DupLocalElseStored ops rstore0 in
  reachable eq_full DupLocalElseStored ops rs
  /\ graph_in (rs_st rs) now ScAll 8 0 = [(6, 5)]
  /\ related_in true (rs_keys rs) (qfrom 8 0 true ScAll) 0 = ([], None)
  /\ map (obs_of true) (fst (related_in_fixed (rs_keys rs) (qfrom 8 0 true ScAll) 0)) = [(8, 6, 5)].
Proof.
  cbv zeta. split; [|vm_compute; repeat split; reflexivity].
  split; [reflexivity|]. split; [repeat constructor | reflexivity].
Qed.
Print Assumptions C03_inverse_refuted_multipred_keep_first.

(** ... and when r1 is dropped instead the last key is r2's live key: BOTH predicates are returned. *)
Theorem C03_inverse_refuted_multipred_keep_second :
  let ops := [WBatch 2 [e1 (cref false [(6, [8]); (7, [8])] 71)]; WBatch 2 [e1 (cref false [(7, [8])] 53)]] in
  let rs := rrun eq_full DupLocalElseStored ops rstore0 in
  graph_in (rs_st rs) now ScAll 8 0 = [(7, 5)]
  /\ map (fun r => match r with RDef k => obs_of true k | RChoice _ => (0, 0, 0) end)
         (fst (related_in true (rs_keys rs) (qfrom 8 0 true ScAll) 0)) = [(8, 7, 5); (8, 6, 5)].
Proof. vm_compute. split; reflexivity. Qed.
Print Assumptions C03_inverse_refuted_multipred_keep_second.

(** F03b: a scope naming only unknown datasets is resolved to "no restriction" *)
Theorem C03_refuted_unknown_scope :
  resolve_scope q_current [2; 3] [99] = ScAll
  /\ resolve_scope q_fixed [2; 3] [99] = ScOnly []
  /\ spec_scope [2; 3] [99] = ScOnly [].
Proof. vm_compute. repeat split; reflexivity. Qed.
Print Assumptions C03_refuted_unknown_scope.

(** F03c: inside one batch a deleted version (first use of the URI: tombstones for its own references)
    followed by an un-delete of equal serialized length: the length-and-old-keys equality takes the two
    for equal locally, the same-time tombstones are not removed and win over the live keys - the latest
    version is live and carries r1 -> e2, the outgoing query returns nothing. *)
Theorem C03_outgoing_refuted_eqlen :
  let ops := [WBatch 2 [e1 (cref true [(6, [8])] 80); e1 (cref false [(6, [8])] 80)]] in
  let rs := rrun fl_pinned DupStoredAndLocal ops rstore0 in
  graph_out (rs_st rs) now ScAll 5 0 = [(6, 8)]
  /\ related_out true (rs_keys rs) (qfrom 5 0 false ScAll) 0 = ([], None).
Proof. vm_compute. split; reflexivity. Qed.
Print Assumptions C03_outgoing_refuted_eqlen.

(** F03d: the same relation live in two datasets and a page boundary between its two keys: continuation
    pages of the pinned outgoing scan do not remember what earlier pages returned - e2 comes twice.
    The repaired bookkeeping returns every relation once. *)
Theorem C03_paging_refuted_two_datasets :
  let ops := [WBatch 2 [e1 (cref false [(6, [4; 8])] 64)]; WBatch 3 [e1 (cref false [(6, [8])] 53)]] in
  let rs := rrun eq_full DupLocalElseStored ops rstore0 in
  let pages q := map (map (fun r => match r with RDef k => r_tgt k | RChoice _ => 0 end))
                     (follow q (rs_keys rs) [qfrom 5 0 false ScAll] [1] 0 10) in
  pages q_current = [[8]; [8]; [4]] /\ pages q_fixed = [[8]; [4]].
Proof. vm_compute. split; reflexivity. Qed.
Print Assumptions C03_paging_refuted_two_datasets.

(** tie to the correspondence check: on well-formed cases (queries over any list of distinct start points with
    any list of page limits >= 0, results within the follow fuel) agreement of the implementation's observations with the repaired model
    implies the executable spec on those observations - every returned triple is an edge of the graph of the
    latest versions, every edge is returned, nothing is returned twice *)
Theorem C03_agree_implies_spec : forall c, wf_case c -> agree v_fixed c = true -> spec_ok c = true.
Proof. exact agree_implies_spec. Qed.
Print Assumptions C03_agree_implies_spec.

Example C03_link_nonvacuous :
  let c := {| tc_ds := [2; 3];
              tc_ops := [QWrite (WBatch 2 [e1 (cref false [(6, [8; 9]); (7, [8])] 82)]);
                         QWrite (WBatch 3 [e1 (cref false [(6, [8])] 53)]);
                         QRelated [5] 0 false [] now [1] (Some [[(5, 6, 8)]; [(5, 7, 8)]; [(5, 6, 9)]]);
                         QRelated [8] 6 true [3; 99] now [0] (Some [[(8, 6, 5)]]);
                         QRelated [5] 0 false [99] now [2] (Some [[]]);
                         QRelated [8; 5; 9] 0 false [] now [1; 2] (Some [[(5, 6, 8)]; [(5, 7, 8); (5, 6, 9)]; []]);
                         QRelated [9; 8] 6 true [2; 3] now [1] (Some [[(9, 6, 5)]; [(8, 6, 5)]])] |} in
  wf_case c /\ agree v_fixed c = true /\ spec_ok c = true.
Proof.
  cbv zeta. split; [|vm_compute; split; reflexivity].
  split.
  - repeat (constructor; [cbn; try exact I; try (split; [repeat constructor; cbn; intuition discriminate | split; [repeat constructor; lia | lia]])|]). constructor.
  - cbn. unfold fuel0. repeat split; cbn; lia.
Qed.

(** non-vacuity: delete / un-delete inside a batch, a transaction over both datasets, the same entity in
    both datasets with different delete states; queries with results *)
Example C03_nonvacuous :
  let ops := [WBatch 2 [e1 (cref false [(6, [8])] 53); e1 (cref true [(6, [8])] 68); e1 (cref false [(6, [8; 9]); (7, [8])] 82)];
              WTxn [(2, [{| e_id := 9; e_c := cref false [(7, [5])] 53 |}]); (3, [e1 (cref true [(6, [9])] 68)])];
              WBatch 3 [e1 (cref false [(7, [9])] 53)]] in
  let rs := rrun eq_full DupStoredAndLocal ops rstore0 in
  reachable eq_full DupStoredAndLocal ops rs
  /\ map ofact (fst (related_out true (rs_keys rs) (qfrom 5 0 false ScAll) 0)) = [(7, 9); (7, 8); (6, 9); (6, 8)]
  /\ map ifact (fst (related_in_fixed (rs_keys rs) (qfrom 9 0 true ScAll) 0)) = [(7, 5); (6, 5)]
  /\ map ofact (fst (related_out true (rs_keys rs) (qfrom 5 0 false (ScOnly [3])) 0)) = [(7, 9)]
  /\ map (map (fun r => match r with RDef k => r_tgt k | RChoice _ => 0 end))
         (follow q_fixed (rs_keys rs) [qfrom 5 0 false ScAll] [3] 0 10) = [[9; 8; 9]; [8]].
Proof.
  cbv zeta. split; [|vm_compute; repeat split; reflexivity].
  split; [reflexivity|]. split; [|reflexivity].
  repeat constructor; cbn; intuition discriminate.
Qed.
