(** * C20 - A backup contains everything committed before it ran; a backup location that belongs to
      a different store is never overwritten.
    Only statements, each closed by [exact <lemma>], with [Print Assumptions].
    Model: Model/Backup.v (BackupManager of internal/server/backup.go over a trusted model of Badger's
    versioned log).  Histories = arbitrary lists of [OWrite]/[OBackup]/[ORestart] with arbitrary version stamps. *)
From Coq Require Import List NArith Bool Lia.
From DH Require Import Model.Backup Proofs.BackupProofs Check.C20Check Proofs.C20CheckProofs.
Import ListNotations.
Open Scope N_scope.

(** For every history of writes, backup runs and restarts on a new store and an empty backup
    location, if an existing backup file is reopened for APPENDING (whichever file name the cursor is
    read from), loading the backup file yields, for every key, exactly what the source held when the
    last backup run that returned started.  Histories may contain runs during which a writer commits
    ([OBackupConc], Badger's dump being a snapshot) and environment steps on the id file; [plain]
    only excludes rsync-mode ticks and delete-all, which have their own theorems below. *)
Theorem C20_restore : forall v m0 sid ops, v_reopen v = MAppend -> forallb plain ops = true ->
  restore_ok (run v ops (init v m0 sid [])).
Proof. exact restore_append. Qed.
Print Assumptions C20_restore.

(** The same without ghost state: split the history at any backup run that is followed by no other;
    the restored view is the source's view after the prefix [h1]. *)
Theorem C20_restore_explicit : forall v m0 sid h1 h2,
  v_reopen v = MAppend ->
  forallb (fun o => negb (is_env o) && plain o) h1 = true ->
  forallb (fun o => negb (is_backup o) && plain o) h2 = true ->
  let st1 := run v h1 (init v m0 sid []) in
  let st := run v (h1 ++ OBackup :: h2) (init v m0 sid []) in
  exists file, fs_get (s_fs st) FKv = Some (DEntries file) /\
               forall ds k, latest ds k (badger_load file) = latest ds k (s_src st1).
Proof. exact restore_append_explicit. Qed.
Print Assumptions C20_restore_explicit.

(** A location whose DATAHUB_BACKUPID differs (as a byte string) from the store's is never written:
    no hub step - write, backup run, restart - changes any file of it or is a returned run; under
    every variant, from any state. *)
Theorem C20_foreign_step : forall v st o, is_env o = false ->
  (exists b, fs_get (s_fs st) FStorageId = Some (DBytes b) /\ b <> s_store_id st) ->
  s_fs (fst (step v st o)) = s_fs st
  /\ (is_delete o = false -> s_store_id (fst (step v st o)) = s_store_id st)
  /\ s_snap (fst (step v st o)) = s_snap st /\ snd (step v st o) <> R_RETURNED.
Proof. exact foreign_step. Qed.
Print Assumptions C20_foreign_step.

(** ... hence for every history of hub steps from such a state. *)
Theorem C20_foreign : forall v ops st,
  forallb (fun o => negb (is_env o) && negb (is_delete o)) ops = true ->
  (exists b, fs_get (s_fs st) FStorageId = Some (DBytes b) /\ b <> s_store_id st) ->
  s_fs (run v ops st) = s_fs st /\ s_snap (run v ops st) = s_snap st.
Proof. exact foreign_never_written. Qed.
Print Assumptions C20_foreign.

(** ... and for every history in which the ENVIRONMENT replaces, empties or removes the location's id
    file at arbitrary points (between runs of one process, across restarts), with arbitrary byte
    strings as ids: every hub step that starts while the location's id differs from the store's leaves
    the location untouched and is not a returned run ([foreign_ok] walks the per-step trace). *)
Theorem C20_foreign_any_history : forall v ops st,
  foreign_ok (s_store_id st) (loc_id (s_fs st)) ops (fst (trace v ops st)) = true.
Proof. exact trace_foreign_ok. Qed.
Print Assumptions C20_foreign_any_history.

(** Store.Delete ("delete all datasets") gives the emptied store a new identity: if the location is
    claimed (id [b]) and the new id differs from it, every later run is refused, the location and the
    snapshot stay what they were, and the restore statement keeps holding for the old backup. *)
Theorem C20_delete_resets_identity : forall v m0 sid h1 m sid' h2 b,
  v_reopen v = MAppend -> forallb plain h1 = true ->
  loc_id (s_fs (run v h1 (init v m0 sid []))) = Some b -> b <> sid' ->
  forallb (fun o => negb (is_env o) && negb (is_delete o)) h2 = true ->
  let st1 := run v h1 (init v m0 sid []) in
  let st := run v (h1 ++ ODeleteAll m sid' :: h2) (init v m0 sid []) in
  restore_ok st /\ s_fs st = s_fs st1 /\ s_snap st = s_snap st1.
Proof. exact restore_after_delete. Qed.
Print Assumptions C20_delete_resets_identity.

(** rsync mode: for every history of rsync-mode ticks (succeeding or failing), writes, restarts,
    delete-all and environment steps, the copy below the location is exactly the store as it was
    when the last tick whose rsync succeeded started. *)
Theorem C20_restore_rsync : forall v ops m0 sid f, forallb (fun o => negb (is_native o)) ops = true ->
  restore_ok_rsync (run v ops (init v m0 sid f)).
Proof. intros. apply restore_rsync; [assumption | intros s; discriminate]. Qed.
Print Assumptions C20_restore_rsync.

(** The run-state machine: after a step isRunning is set only if it was set before (and the step is
    not a restart) or the step is a tick that panicked on an invalid location - in particular a
    failing rsync, a returned or a skipped run never leave it set ... *)
Theorem C20_running_released : forall v st o,
  s_running (fst (step v st o)) = true ->
  (s_running st = true /\ is_restart_op o = false) \/ snd (step v st o) = R_REFUSED.
Proof. exact running_released. Qed.
Print Assumptions C20_running_released.

(** ... hence along every history, under every variant, a tick is skipped only after a tick of the
    same process panicked on an invalid location ([skip_ok] walks the per-step trace). *)
Theorem C20_no_silent_skip : forall v ops st, s_running st = false ->
  skip_ok false ops (fst (trace v ops st)) = true.
Proof. intros v ops st H. apply trace_skip_ok. rewrite H. discriminate. Qed.
Print Assumptions C20_no_silent_skip.

(** The cursor file: StoreLastID writes 8 little-endian bytes, LoadLastID reads them the same way;
    the round trip is the identity for every version below 2^64. *)
Theorem C20_cursor_codec : forall n, n < 2 ^ 64 -> le_dec (le64_enc n) = n /\ length (le64_enc n) = 8%nat.
Proof. intros n H. split; [now apply cursor_codec_roundtrip | apply le_enc_length]. Qed.
Print Assumptions C20_cursor_codec.

(** With the cursor written and read under the same name a restart leaves the cursor unchanged. *)
Theorem C20_cursor_survives_restart : forall v m0 sid ops m, v_name v = NameSame ->
  let st := run v ops (init v m0 sid []) in
  s_cursor (fst (step v st (ORestart m))) = s_cursor st.
Proof. exact cursor_survives_restart. Qed.
Print Assumptions C20_cursor_survives_restart.

(** Exact behaviour of the pinned tree (existing file reopened with os.Open): whatever happens
    after the first backup run, the backup file stays what that first run wrote - the whole source
    as it was then.  So restore = snapshot at the FIRST run; C20 fails exactly when the view of the
    source at the last returned run differs from its view at the first. *)
Theorem C20_readonly_keeps_first : forall v m0 sid h1 h2,
  v_reopen v = MRead ->
  forallb (fun o => negb (is_backup o) && negb (is_env o)) h1 = true ->
  let st1 := run v h1 (init v m0 sid []) in
  let st := run v (h1 ++ OBackup :: h2) (init v m0 sid []) in
  fs_get (s_fs st) FKv = Some (DEntries (s_src st1)).
Proof. exact readonly_keeps_first. Qed.
Print Assumptions C20_readonly_keeps_first.

(** ... hence the pinned tree meets the restore statement exactly when nothing visible changed between
    the first run and the last run that returned *)
Theorem C20_readonly_restore_iff : forall v m0 sid h1 h2,
  v_reopen v = MRead ->
  forallb (fun o => negb (is_backup o) && negb (is_env o)) h1 = true ->
  let st1 := run v h1 (init v m0 sid []) in
  let st := run v (h1 ++ OBackup :: h2) (init v m0 sid []) in
  restore_ok st <->
  (forall s, s_snap st = Some s -> forall ds k, latest ds k (s_src st1) = latest ds k s).
Proof. exact readonly_restore_iff. Qed.
Print Assumptions C20_readonly_restore_iff.

(** refutations for the pinned tree *)
(** F20a: write, backup, write, backup - the restored hub misses the second entity *)
Theorem C20_refuted_readonly_reopen : exists ops, ~ restore_ok (run current ops (init current 10 [49] [])).
Proof. exists wit_a. exact refuted_readonly_reopen. Qed.
Print Assumptions C20_refuted_readonly_reopen.

(** ... the second run wrote nothing and left the cursor 0 in memory and on disk *)
Theorem C20_refuted_second_run_silent :
  let st := run current wit_a (init current 10 [49] []) in
  kvfile (s_fs st) = [{| e_ver := 10; e_ds := sys_ds; e_id := 0; e_val := 10; e_del := false |};
                      {| e_ver := 24; e_ds := 0; e_id := 1; e_val := 3; e_del := false |}]
  /\ s_cursor st = 0 /\ seen_file (s_fs st) = Some 0.
Proof. exact readonly_second_run. Qed.
Print Assumptions C20_refuted_second_run_silent.

(** F20b: the cursor is on disk (24) but a restart loads 0 - in the pinned tree and also when only
    the open mode is repaired.  (By C20_restore this costs a full re-dump, not correctness.) *)
Theorem C20_refuted_cursor_filename :
  (let st := run current wit_b (init current 10 [49] []) in seen_file (s_fs st) = Some 24 /\ s_cursor st = 0)
  /\ (let st := run append_only wit_b (init append_only 10 [49] []) in seen_file (s_fs st) = Some 24 /\ s_cursor st = 0).
Proof. split; [exact refuted_cursor_filename | exact refuted_cursor_filename_append_only]. Qed.
Print Assumptions C20_refuted_cursor_filename.

(** repairing only the file name does not help; always truncating (os.Create) is wrong too *)
Theorem C20_refuted_other_repairs :
  ~ restore_ok (run name_only wit_a (init name_only 10 [49] []))
  /\ ~ restore_ok (run truncating wit_a (init truncating 10 [49] [])).
Proof. split; [exact refuted_readonly_reopen_name_only | exact refuted_truncate]. Qed.
Print Assumptions C20_refuted_other_repairs.

(** tie to the correspondence check: agreement with the repaired model on a case implies the
    executable spec on the implementation's observations.  [case_wf]: a native-mode history without
    delete-all (for those see C20_delete_resets_identity), or an rsync-mode history. *)
Theorem C20_agree_implies_spec : forall c, case_wf c = true -> agree fixed c = true -> spec_ok c = true.
Proof. exact agree_fixed_spec. Qed.
Print Assumptions C20_agree_implies_spec.

(** non-vacuity: a history with three returned runs, two restarts, an overwrite and a delete flag;
    the repaired model restores the final listing, and the restore predicate is not trivially true *)
Definition demo : list op :=
  [OWrite 24 0 1 3 false; OBackup; OWrite 31 0 1 5 false; ORestart 33; OWrite 40 0 1 3 true; OBackup;
   OWrite 52 1 0 0 false; OBackup; ORestart 54; OBackup].
Example C20_nonvacuous_1 :
  let st := run fixed demo (init fixed 10 [49] []) in
  option_map listing (s_snap st) = Some [(0, 1, 3, true); (1, 0, 0, false)]
  /\ listing (kvfile (s_fs st)) = [(0, 1, 3, true); (1, 0, 0, false)]
  /\ s_cursor st = 54 /\ length (kvfile (s_fs st)) = 7%nat.
Proof. vm_compute. repeat split; reflexivity. Qed.
Example C20_nonvacuous_2 :
  let st := run current demo (init current 10 [49] []) in
  option_map listing (s_snap st) = Some [(0, 1, 3, true); (1, 0, 0, false)]
  /\ listing (kvfile (s_fs st)) = [(0, 1, 3, false)] /\ s_cursor st = 0.
Proof. vm_compute. repeat split; reflexivity. Qed.
(** the foreign hypothesis is satisfiable, a run is really attempted (and refused), and an id that
    differs only by a trailing newline, or an emptied id file, is foreign while a removed one is re-claimed *)
Example C20_nonvacuous_3 :
  let st0 := init current 10 [104; 117; 98] (foreign_fs [104; 117; 98; 10]) in
  snd (step current st0 OBackup) = R_REFUSED
  /\ snd (step current (fst (step current st0 OBackup)) OBackup) = R_SKIPPED
  /\ s_fs (run current [OBackup; ORestart 12; OBackup] st0) = foreign_fs [104; 117; 98; 10].
Proof. vm_compute. repeat split; reflexivity. Qed.
Example C20_nonvacuous_4 :
  let sid := [104; 117; 98; 45; 97] in
  map x_res (fst (trace current [OWrite 24 0 1 3 false; OBackup; OSetLocId [104; 117; 98; 45; 98]; OBackup;
                                 ORestart 26; OBackup; OSetLocId []; ORestart 28; OBackup; ODelLocId; OBackup; ORestart 30; OBackup]
                         (init current 10 sid [])))
  = [0; 1; 0; 2; 0; 2; 0; 0; 2; 0; 4; 0; 1].   (* 4: isRunning is still set after the refusal *)
Proof. vm_compute. reflexivity. Qed.

(** a writer commits during a run: the run's dump stops at its snapshot (cursor 24), the next quiet
    run picks the concurrent commits up; a varint-looking cursor value round-trips *)
Example C20_nonvacuous_5 :
  let h := [OWrite 24 0 1 3 false; OBackupConc [(31, 0, 2, 4, false); (44, 1, 0, 1, false)]; OBackup] in
  map x_cursor (fst (trace fixed h (init fixed 10 [49] []))) = [0; 24; 44]
  /\ listing (kvfile (s_fs (run fixed h (init fixed 10 [49] [])))) = [(0, 1, 3, false); (0, 2, 4, false); (1, 0, 1, false)]
  /\ le64_enc 206 = [206; 0; 0; 0; 0; 0; 0; 0] /\ le_dec (le64_enc 70000) = 70000.
Proof. vm_compute. repeat split; reflexivity. Qed.
(** delete-all after a run: new identity, later runs refused (then skipped), backup unchanged;
    rsync mode: a failing tick does not leave isRunning set, the next tick copies *)
Example C20_nonvacuous_6 :
  map x_res (fst (trace fixed [OWrite 24 0 1 3 false; OBackup; ODeleteAll 7 [50]; OWrite 20 1 2 4 false; OBackup;
                               ORestart 22; OBackup] (init fixed 10 [49] []))) = [0; 1; 0; 0; 2; 0; 2]
  /\ map (fun x => (x_res x, x_running x))
         (fst (trace fixed [OWrite 24 0 1 3 false; OBackupRsync false; OWrite 31 0 2 4 false; OBackupRsync true]
                     (init fixed 10 [49] []))) = [(0, false); (5, false); (0, false); (1, false)].
Proof. vm_compute. split; reflexivity. Qed.
