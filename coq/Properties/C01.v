(** * C01 - Latest view equals the last stored version of every entity.
    Only statements, each closed by [exact <lemma>] (or a short wrapper), with [Print Assumptions]. *)
From Coq Require Import List ZArith NArith Bool Lia.
From DH Require Import Lib.CheckLib Model.Store Model.FeedSpec Model.Keys Proofs.StoreProofs Proofs.C01Proofs
     Proofs.KeysProofs Check.StoreCheck Proofs.C01CheckProofs.
Import ListNotations.
Open Scope Z_scope.

(** In every state reachable by any history of batches and transactions (repaired write path, ANY
    write-time equality flags) every dataset satisfies the invariant the readers rely on ... *)
Theorem C01_reachable_inv : forall fl ops, Forall wf_wop ops ->
  sinv (run_wops fl DupLocalElseStored ops store0).
Proof.
  intros fl ops Hwf.
  destruct (run_wops_refines fl ops store0 (fun _ => []) Hwf sinv0 (fun _ => eq_refl)) as [H _]. exact H.
Qed.
Print Assumptions C01_reachable_inv.

(** ... under which the unpaged listing holds exactly the entities that have a version in the dataset,
    each exactly once, each with the content (properties, references, deleted flag) of its LAST version *)
Theorem C01_listing : forall clk d, dinv clk d ->
  let l := listing_page d None 0 in
  NoDup (map fst l)
  /\ (forall k oc, In (k, oc) l -> oc = current_of (feed_of d) k /\ oc <> None)
  /\ (forall k c, current_of (feed_of d) k = Some c -> In (k, Some c) l).
Proof. exact listing_spec. Qed.
Print Assumptions C01_listing.

(** paging with continuation tokens, any page size >= 1: the concatenation of the pages is the unpaged listing *)
Theorem C01_paging : forall d count, 0 < count ->
  concat (listing_pages d None count (S (length (latest_keys d)))) = listing_page d None 0.
Proof. exact listing_paged_spec. Qed.
Print Assumptions C01_paging.

(** lookup (any scope, any instant not before the last commit): exactly the latest non-deleted version
    of each in-scope dataset, in dataset order - for a single-dataset scope: the last version written
    there; for the empty scope: the partials that are merged - and "deleted" iff some in-scope latest
    version is deleted; nothing else *)
Theorem C01_lookup : forall st id at_ scope,
  sinv st -> NoDup (map fst (s_ds st)) -> s_clock st <= at_ ->
  entity_at st id at_ scope = (spec_partials st id scope, spec_hasdel st id scope).
Proof. exact entity_at_spec. Qed.
Print Assumptions C01_lookup.

(** the version a lookup picks in one dataset is the last one written *)
Theorem C01_lookup_dataset : forall clk d id at_,
  dinv clk d -> clk <= at_ ->
  option_map en_c (best_version id at_ (d_entries d) None) = current_of (feed_of d) id.
Proof. exact best_version_current. Qed.
Print Assumptions C01_lookup_dataset.

(** no accepted write is dropped unless identical to the version it would replace:
    with the full equality every write either is identical to the current version or becomes the current version *)
Theorem C01_no_drop : forall f e,
  let f' := spec_write identical f e in
  (exists c, current_of f (e_id e) = Some c /\ identical c (e_c e) = true /\ f' = f)
  \/ current_of f' (e_id e) = Some (e_c e).
Proof.
  intros f e. cbv zeta. unfold spec_write.
  destruct (current_of f (e_id e)) as [c|] eqn:Ec.
  - destruct (identical c (e_c e)) eqn:Ei.
    + left. exists c. auto.
    + right. rewrite current_of_snoc, Z.eqb_refl. reflexivity.
  - right. rewrite current_of_snoc, Z.eqb_refl. reflexivity.
Qed.
Print Assumptions C01_no_drop.

(** the pinned write-time equality drops an un-delete (F01a): after [deleted; un-deleted + 15-byte property]
    the listing still shows the deleted version *)
Definition cDel : content := {| c_del := true; c_props := [(1, {| pv_code := 1; pv_obj := false |})]; c_refs := []; c_len := 65 |}.
Definition cUndel : content := {| c_del := false; c_props := [(1, {| pv_code := 1; pv_obj := false |}); (4, {| pv_code := 4; pv_obj := false |})]; c_refs := []; c_len := 65 |}.
Theorem C01_refuted_eqlen :
  let fl := {| f_lenkeys := true; f_objneq := false |} in
  let ops := [WBatch 1 [{| e_id := 1; e_c := cDel |}]; WBatch 1 [{| e_id := 1; e_c := cUndel |}]] in
  let d := get_ds (run_wops fl DupLocalElseStored ops store0) 1 in
  listing_page d None 0 = [(1, Some cDel)]
  /\ current_of (fold_left (fapply identical) ops (fun _ => []) 1) 1 = Some cUndel.
Proof. vm_compute. split; reflexivity. Qed.
Print Assumptions C01_refuted_eqlen.

(** ** byte level: why "Badger iterates a prefix in key order" means "sorted by the field values".
    Keys are fixed-width big-endian fields (Model/Keys.v mirrors the PutUint16/32/64 calls); the check decodes
    and re-encodes the REAL raw keys of every index family on each run and tests their order with [flt]. *)
Theorem C01_key_order : forall f1 f2,
  map fst f1 = map fst f2 -> in_range f1 -> in_range f2 ->
  lex_ltb (enc f1) (enc f2) = flt f1 f2.
Proof. exact enc_order. Qed.
Print Assumptions C01_key_order.

Theorem C01_key_injective : forall f1 f2,
  map fst f1 = map fst f2 -> in_range f1 -> in_range f2 -> enc f1 = enc f2 -> f1 = f2.
Proof. exact enc_inj. Qed.
Print Assumptions C01_key_injective.

(** the byte slices the readers and the garbage collector cut out of a key are the named fields *)
Theorem C01_key_fields : forall fs, in_range fs -> dec (map fst fs) (enc fs) = Some (map snd fs).
Proof. exact dec_enc. Qed.
Print Assumptions C01_key_fields.

Example C01_key_example :
  raw_family_ok 8 [enc (lkey 2 5); enc (lkey 2 7); enc (lkey 3 1)] = true
  /\ lex_ltb (enc (vkey 7 2 1790794029996498142 0)) (enc (vkey 7 2 1790794029996498142 1)) = true.
Proof. vm_compute. split; reflexivity. Qed.

(** tie to the correspondence check: on well-formed cases agreement with the fully repaired model (repaired store
    flags, lookup returning a deleted last version with its body) implies the executable spec of C01 evaluated on
    the implementation's own observations (listings: id-sorted latest view; lookups: the partials of the spec) *)
Theorem C01_agree_implies_spec : forall c,
  Forall wf_sop01 c -> agree v_fixed true proj_c01 c = true -> spec_ok proj_c01 c = true.
Proof. exact agree_implies_spec_c01. Qed.
Print Assumptions C01_agree_implies_spec.

(** non-vacuity *)
Example C01_nonvacuous :
  let cA := {| c_del := false; c_props := [(1, {| pv_code := 1; pv_obj := false |})]; c_refs := []; c_len := 50 |} in
  let ops := [WBatch 1 [{| e_id := 1; e_c := cA |}; {| e_id := 2; e_c := cA |}]; WBatch 2 [{| e_id := 1; e_c := cDel |}];
              WTxn [(1, [{| e_id := 2; e_c := cDel |}]); (2, [{| e_id := 3; e_c := cA |}])]] in
  let st := run_wops eq_full DupLocalElseStored ops store0 in
  entity_at st 1 (s_clock st) [] = ([(1, cA)], true)
  /\ map fst (listing_page (get_ds st 1) None 0) = [1; 2]
  /\ concat (listing_pages (get_ds st 1) None 1 3) = listing_page (get_ds st 1) None 0.
Proof. vm_compute. repeat split; reflexivity. Qed.
