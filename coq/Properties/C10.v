(** * C10 - Every source entity reaches the transform exactly once, for any batching.
    Only statements, each closed by [exact <lemma>], with [Print Assumptions]. *)
From Coq Require Import List ZArith NArith Bool Lia.
From DH Require Import Model.Partition Proofs.PartitionProofs Model.JsonValue Proofs.JsonValueProofs Check.C10Check Proofs.C10CheckProofs.
Import ListNotations.
Open Scope Z_scope.

(** For every page length n >= 1 and parallelism p >= 1 the (repaired) chunk
    arithmetic yields chunks that tile [0,n): every index once, in order, no panic. *)
Theorem C10_partition : forall n p, 1 <= n -> 1 <= p ->
  exists cs, chunks PCeilClip n p = Some cs /\ consec 0 cs n
             /\ covered cs = zrange 0 (Z.to_nat n).
Proof.
  intros n p Hn Hp. destruct (chunks_ceilclip_tile n p Hn Hp) as (cs & H1 & H2).
  exists cs; repeat split; try assumption.
  rewrite (consec_covered _ _ _ H2). now rewrite Z.sub_0_r.
Qed.
Print Assumptions C10_partition.

(** Whole run, any source length, batch size >= 1, parallelism >= 1, any
    per-entity transform g (return / drop / duplicate / create): the transform
    sees every source entity exactly once (concat ins = src), everything it
    returns reaches the sink in source order, the token ends at |src|. *)
Theorem C10_pipeline : forall (E : Type) (g : E -> list E) p b (src : list E),
  1 <= p -> (1 <= b)%nat ->
  exists ins outs, run_job (fmap_g g) PCeilClip p b src = (ins, outs, length src, ROk)
              /\ concat outs = flat_map g src /\ concat ins = src.
Proof. exact @run_job_fixed. Qed.
Print Assumptions C10_pipeline.

(** identity transform = plain copy *)
Theorem C10_identity_copy : forall (E : Type) p b (src : list E),
  1 <= p -> (1 <= b)%nat ->
  exists ins outs, run_job (fmap_g (fun e => [e])) PCeilClip p b src = (ins, outs, length src, ROk)
              /\ concat outs = src /\ concat ins = src.
Proof. exact @run_job_identity. Qed.
Print Assumptions C10_identity_copy.

(** running again from the stored token produces nothing (either arithmetic) *)
Theorem C10_rerun_noop : forall (E : Type) (g : E -> list E) m p b (src : list E),
  run_job (fmap_g g) m p b (skipn (length src) src) = ([], [], O, ROk).
Proof. exact @rerun_noop. Qed.
Print Assumptions C10_rerun_noop.

(** exact behaviour of the pinned arithmetic (math.Round, only [to] clipped):
    panics iff a later chunk starts beyond n, otherwise covers exactly [0, min n (par*psize)) *)
Theorem C10_round_char : forall n p, 1 <= n -> 1 <= p ->
  if round_panics n p then chunks PRound n p = None
  else exists cs, chunks PRound n p = Some cs /\ consec 0 cs (round_reach n p).
Proof. exact chunks_round_char. Qed.
Print Assumptions C10_round_char.

Theorem C10_round_bad_pairs : forall n p, 1 <= n -> 1 <= p -> round_good n p = false ->
  chunks PRound n p = None \/
  exists cs r, chunks PRound n p = Some cs /\ consec 0 cs r /\ r < n.
Proof. exact chunks_round_bad. Qed.
Print Assumptions C10_round_bad_pairs.

(** refutations of the pinned arithmetic (findings F10a, F10b) *)
Theorem C10_refuted_tail : exists n p cs r, 1 <= n /\ 1 <= p /\
  chunks PRound n p = Some cs /\ consec 0 cs r /\ r < n.
Proof.
  exists 11, 10, [(0,1);(1,2);(2,3);(3,4);(4,5);(5,6);(6,7);(7,8);(8,9);(9,10)], 10.
  split; [lia|]. split; [lia|]. split; [exact refuted_tail|].
  split; [cbn; intuition lia | lia].
Qed.
Print Assumptions C10_refuted_tail.

Theorem C10_refuted_panic : exists n p, 1 <= n /\ 1 <= p /\ chunks PRound n p = None.
Proof. exists 15, 10. split; [lia|]. split; [lia|]. exact refuted_panic. Qed.
Print Assumptions C10_refuted_panic.

(** numeric normalisation (entity.go toJsonValue, what IsEntityEqual compares): a value that went through a JavaScript
    transform - goja hands an integer-valued float64 back as int64, at any depth inside slices - normalises to the same value
    as the stored one, for every float carrier; so the sink sees no difference and stores nothing *)
Theorem C10_js_touched_compare_equal : forall (F : Type) (i2f : Z -> F) (v v' : gval F),
  jsimg i2f v v' -> to_json i2f v = to_json i2f v'.
Proof. exact jsimg_neutral. Qed.
Print Assumptions C10_js_touched_compare_equal.

(** every integer kind and both float kinds carrying the same number normalise alike *)
Theorem C10_number_kinds_irrelevant : forall (F : Type) (i2f : Z -> F) k k' n,
  to_json i2f (GInt k n) = to_json i2f (GInt k' n) /\ to_json i2f (GInt k n) = to_json i2f (GF64 (i2f n)).
Proof. intros; split; [apply kinds_irrelevant | apply int_is_float]. Qed.
Print Assumptions C10_number_kinds_irrelevant.

(** ... but not inside a map (the map branch of toJsonValue is commented out in the tree): the same conversion one level
    down in a map[string]interface{} is visible to the comparison (this is the mechanism of finding F02b) *)
Theorem C10_refuted_maps_not_normalised :
  to_json i2fz (fst (map_example i2fz 1)) <> to_json i2fz (snd (map_example i2fz 1)).
Proof. exact (map_not_normalised Fz i2fz 1 map_example_differs). Qed.
Print Assumptions C10_refuted_maps_not_normalised.

(** F10c (pinned tree): through the context-supporting HTTP transform an entity that carries a nested entity is stored again by every
    re-run - the observation the pinned flag predicts violates the spec ("running it again produces no new changes") *)
Example C10_refuted_nested_http :
  let c := {| c_n := 6; c_batch := 100; c_par := 1; c_kind := KIdentity; c_full := false; c_wrap := false;
              o_outcome := 0%N; o_seen := []; o_sink := []; o_token := 0; o_rerun := -1;
              o_copy := Some (true, 6, 6, 2, 2); c_nested := 2; c_ffail := false; o_json := None |} in
  agree PCeilClip true c = true /\ agree PCeilClip false c = false /\ spec_ok c = false.
Proof. vm_compute. repeat split. Qed.
Print Assumptions C10_refuted_nested_http.

(** tie to the correspondence check: agreement with the repaired model on a
    case implies the executable spec on the implementation's observations *)
Theorem C10_agree_implies_spec : forall c,
  0 <= c_n c -> 1 <= c_batch c -> 1 <= c_par c -> c_kind c <> KPushIn ->
  (o_copy c <> None -> c_kind c = KIdentity) ->     (* copy-mode cases use content-preserving transforms only *)
  (forall v v' o o', o_json c = Some (v, v', o, o') -> jsimgb v v' = true) ->   (* normalisation cases pair a value with a JS image of it *)
  agree PCeilClip false c = true -> spec_ok c = true.
Proof. exact agree_fixed_spec. Qed.
Print Assumptions C10_agree_implies_spec.

(** non-vacuity: the hypotheses are met by concrete non-trivial instances *)
Example C10_nonvacuous_1 :
  run_job (fmap_g (g_of KCreate)) PCeilClip 3 4 [0;1;2;3;4;5;6]
  = ([[0;1];[2;3];[];[4];[5];[6]],
     [[0;100000;1;100001;2;100002;3;100003];[4;100004;5;100005;6;100006]], 7%nat, ROk).
Proof. vm_compute. reflexivity. Qed.
Example C10_nonvacuous_2 : round_good 19 10 = true /\ round_good 11 10 = false.
Proof. vm_compute. split; reflexivity. Qed.
