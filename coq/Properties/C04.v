(** * C04 - Batches and transactions are all-or-nothing and durable across a crash.
    Only statements, each closed by [exact <lemma>] (or a short wrapper), with [Print Assumptions],
    plus non-vacuity examples and the refutation witness of the pinned tree's one deviation (F04a).

    Model: Model/Crash.v - a write is the list of its DURABLE steps in the order of the code
    (lease / id lease / release per dataset; id commit; data commit; counter commits); a crash keeps
    the first k steps, loses the volatile state and reopens.  Histories: any list of acknowledged
    writes, crashes at any position k of any write, and clean restarts.  Every theorem holds for all
    three flag families of the model (counter mode, write-time equality flags, duplicate handling):
    crash atomicity does not depend on which of the pinned tree's equality deviations are repaired.

    Trusted (not proved here): badger commits a transaction atomically and durably; a Sequence lease
    is persisted before its first number is handed out (DESIGN.md section 2). *)
From Coq Require Import List ZArith NArith Bool Lia.
From DH Require Import Lib.CheckLib Model.Store Model.FeedSpec Model.Crash Proofs.StoreProofs Proofs.CrashStore
     Proofs.CrashProofs Proofs.CrashCounter Proofs.CrashCount Check.StoreCheck Check.C04Check Proofs.C04CheckProofs Proofs.C04Link Model.CrashExt Proofs.CrashExtProofs.
Import ListNotations.
Open Scope Z_scope.

(** C04_atomic.  For every history [es] (writes, crashes, restarts) from a fresh store, every further
    write [o] and every crash position [k]: the recovered store holds, in EVERY dataset, exactly the
    version records, change entries and latest pointers of the history without [o], or exactly those
    of the history with [o] acknowledged - the same alternative for all datasets, never a mixture -
    and the invariant holds.  The alternative is decided by [k] alone: up to the data commit -> without. *)
Theorem C04_atomic : forall cm fl dm next idp es o k,
  0 <= next <= idp -> Forall wf_event es -> wf_wop o ->
  let c := run_events cm fl dm es (cstate0 next idp) in
  let r := crash_at cm fl dm k c o in
  ((k <= commit_index cm fl dm c o)%nat -> data_eq (cs_store r) (cs_store c))
  /\ ((k > commit_index cm fl dm c o)%nat -> data_eq (cs_store r) (cs_store (exec_op cm fl dm c o)))
  /\ cinv r.
Proof.
  intros cm fl dm next idp es o k Hn Hes Ho c r.
  assert (Hc : cinv c) by (apply run_events_cinv; [exact Hes | now apply cinv0]).
  destruct (crash_data cm fl dm c o k) as [H1 H2]. split; [exact H1|]. split.
  - intros Hk ds. unfold r. rewrite (H2 Hk ds). destruct (exec_op_state cm fl dm c o Ho Hc) as (A & _). now rewrite A.
  - now apply crash_cinv.
Qed.
Print Assumptions C04_atomic.

(** the same from any state satisfying the invariant (the induction step) *)
Theorem C04_atomic_step : forall cm fl dm c o k,
  let r := crash_at cm fl dm k c o in
  ((k <= commit_index cm fl dm c o)%nat -> data_eq (cs_store r) (cs_store c))
  /\ ((k > commit_index cm fl dm c o)%nat -> data_eq (cs_store r) (apply_wop fl dm (cs_store c) o)).
Proof. exact crash_data. Qed.
Print Assumptions C04_atomic_step.

(** what the invariant says about a (recovered) state, spelled out: in every dataset the latest pointer of
    an entity names its last version, versions are strictly ordered by (time, batch index), change
    positions are strictly increasing and all BELOW the dataset's next position; the id table is
    one-to-one and every id in use is below the next id, which is within the persisted lease *)
Theorem C04_invariant_content : forall c, cinv c ->
  (forall ds, dinvg (s_clock (cs_store c)) (get_ds (cs_store c) ds))
  /\ (forall ds e, In e (d_entries (get_ds (cs_store c) ds)) -> 0 <= en_seq e < d_next (get_ds (cs_store c) ds))
  /\ (forall ds id, stored_latest (get_ds (cs_store c) ds) id = current_of (feed_of (get_ds (cs_store c) ds)) id)
  /\ NoDup (map fst (cs_ids c)) /\ NoDup (map snd (cs_ids c))
  /\ (forall u i, In (u, i) (cs_ids c) -> 0 <= i < cs_next c) /\ cs_next c <= cs_idp c.
Proof.
  intros c [A B C D E]. rewrite Forall_forall in D.
  split; [exact A|]. split.
  { intros ds e He. pose proof (g_below _ _ (A ds)) as Hb. rewrite Forall_forall in Hb. exact (Hb e He). }
  split; [intros ds id; apply (dinvg_latest _ _ (A ds))|].
  split; [exact B|]. split; [exact C|]. split; [|lia].
  intros u i Hu. exact (D (u, i) Hu).
Qed.
Print Assumptions C04_invariant_content.

(** the exact invariant of Proofs/StoreProofs.v (positions contiguous from 0) implies the gap-tolerant one;
    it cannot survive a crash: the positions of a lost write are burnt (Example C04_gap below) *)
Theorem C04_sinv_implies : forall st, sinv st -> sinvg st.
Proof. exact sinv_sinvg. Qed.
Print Assumptions C04_sinv_implies.

(** C04_ack_durable.  A write whose last durable step is done is fully there after a crash ... *)
Theorem C04_ack_durable : forall cm fl dm c o k, (k >= length (fst (steps cm fl dm c o)))%nat ->
  cs_store (crash_at cm fl dm k c o) = cs_store (exec_op cm fl dm c o)
  /\ cs_ids (crash_at cm fl dm k c o) = cs_ids (exec_op cm fl dm c o)
  /\ cs_items (crash_at cm fl dm k c o) = cs_items (exec_op cm fl dm c o).
Proof. exact crash_after_all. Qed.
Print Assumptions C04_ack_durable.

(** ... and stays there: over any further history of writes, crashes at any position and restarts the
    change log of every dataset only grows at its end. *)
Theorem C04_ack_survives : forall cm fl dm es c, Forall wf_event es -> cinv c ->
  forall ds, exists p, d_entries (get_ds (cs_store (run_events cm fl dm es c)) ds) = d_entries (get_ds (cs_store c) ds) ++ p.
Proof. exact run_events_extends. Qed.
Print Assumptions C04_ack_survives.

(** C04_monotone.  The invariant (positions below next position, ids below next id, id table one-to-one)
    holds after every history ... *)
Theorem C04_monotone_inv : forall cm fl dm es next idp,
  0 <= next <= idp -> Forall wf_event es -> cinv (run_events cm fl dm es (cstate0 next idp)).
Proof. intros. apply run_events_cinv; [assumption | now apply cinv0]. Qed.
Print Assumptions C04_monotone_inv.

(** ... every event (write, crash at any position + reopen, restart) appends entries whose positions are at
    or beyond the previous next position, never decreases a next position or the next id, and only adds
    id-table rows with ids at or beyond the previous next id (ids committed by the id transaction whose
    data transaction was lost simply stay in the table, unused) ... *)
Theorem C04_monotone_step : forall cm fl dm c e, wf_event e -> cinv c ->
  let c' := run_event cm fl dm c e in
  (forall ds, exists p, d_entries (get_ds (cs_store c') ds) = d_entries (get_ds (cs_store c) ds) ++ p
                        /\ Forall (fun x => d_next (get_ds (cs_store c) ds) <= en_seq x) p)
  /\ (forall ds, d_next (get_ds (cs_store c) ds) <= d_next (get_ds (cs_store c') ds))
  /\ cs_next c <= cs_next c'
  /\ (exists asg, cs_ids c' = asg ++ cs_ids c /\ Forall (fun p : uri * Z => cs_next c <= snd p) asg).
Proof. exact run_event_forward. Qed.
Print Assumptions C04_monotone_step.

(** ... and a URI keeps its internal id for ever (no id is ever given to a second URI: [ci_snd]). *)
Theorem C04_id_stable : forall cm fl dm c e u i, wf_event e -> cinv c ->
  id_of c u = Some i -> id_of (run_event cm fl dm c e) u = Some i.
Proof. exact run_event_id_stable. Qed.
Print Assumptions C04_id_stable.

(** C04_counter_partial.  Pinned tree (counter written by a second, separate commit): at every crash
    position up to and including the one right after the data commit the counter is untouched ... *)
Theorem C04_counter_partial : forall fl dm c o k, wf_wop o -> cinv c ->
  (k <= S (commit_index CounterSeparate fl dm c o))%nat ->
  cs_items (crash_at CounterSeparate fl dm k c o) = cs_items c.
Proof. exact counter_separate_lag. Qed.
Print Assumptions C04_counter_partial.

(** ... so the crash position right after the data commit leaves the data in and the counter behind (F04a,
    where C04 meets C19): batch [e1] into empty dataset 1, die after the data commit. *)
Definition w_ent : ent := {| e_id := 1; e_c := {| c_del := false; c_props := [(1001, {| pv_code := 1; pv_obj := false |})]; c_refs := []; c_len := 40 |} |}.
Definition w_op : wop := WBatch 1 [w_ent].
Definition w_c0 : cstate := cstate0 5 1000.
Definition w_current : variant := (CounterSeparate, ({| f_lenkeys := true; f_objneq := true |}, DupStoredAndLocal)).

Theorem C04_counter_refuted_lag :
  let k := S (commit_index CounterSeparate (v_fl w_current) (v_dm w_current) w_c0 w_op) in
  let r := crash_at CounterSeparate (v_fl w_current) (v_dm w_current) k w_c0 w_op in
  distinct_ids (get_ds (cs_store r) 1) = 1 /\ items_of r 1 = 0
  /\ items_of (exec_op CounterSeparate (v_fl w_current) (v_dm w_current) w_c0 w_op) 1 = 1.
Proof. vm_compute. repeat split. Qed.
Print Assumptions C04_counter_refuted_lag.

(** Repaired (counter written by the data transaction): the counter moves exactly when the data does. *)
Theorem C04_counter_fixed : forall fl dm c o k, wf_wop o -> cinv c ->
  let r := crash_at CounterInData fl dm k c o in
  ((k <= commit_index CounterInData fl dm c o)%nat -> cs_items r = cs_items c)
  /\ ((k > commit_index CounterInData fl dm c o)%nat -> cs_items r = cs_items (exec_op CounterInData fl dm c o)).
Proof. exact counter_in_data_atomic. Qed.
Print Assumptions C04_counter_fixed.

(** EXACT characterisation of the counter at every crash position, pinned tree: the value before the write plus
    the new items of exactly those counter commits that lie within the first k durable steps
    ([cnt_of c o] = the write's counter commits in step order, one per dataset with new entities) ... *)
Theorem C04_counter_exact : forall fl dm c o k ds, wf_wop o -> cinv c ->
  let ci := commit_index CounterSeparate fl dm c o in
  items_of (crash_at CounterSeparate fl dm k c o) ds = items_of c ds + cval (firstn (k - S ci) (cnt_of c o)) ds.
Proof. exact counter_separate_exact. Qed.
Print Assumptions C04_counter_exact.

(** ... hence the exact set of crash points at which the counter of [ds] LAGS (data of the write in, counter not
    what the acknowledged write leaves): k is beyond the data commit, the write adds entities to [ds], and the
    counter commit of [ds] is not among the first k steps - and at no other crash point. *)
Theorem C04_counter_lag_iff : forall fl dm c o k ds, wf_wop o -> cinv c ->
  let ci := commit_index CounterSeparate fl dm c o in
  (k > ci)%nat ->
  (items_of (crash_at CounterSeparate fl dm k c o) ds <> items_of (exec_op CounterSeparate fl dm c o) ds
   <-> assoc ds (cnt_of c o) <> None /\ assoc ds (firstn (k - S ci) (cnt_of c o)) = None).
Proof. exact counter_lag_iff. Qed.
Print Assumptions C04_counter_lag_iff.

(** Repaired counter mode, ALL histories (writes, crashes at any position, restarts), every store variant:
    the counter of every dataset is its number of entities (= length of the latest view of its feed). *)
Theorem C04_counter_fixed_all_histories : forall fl dm es next idp ds,
  0 <= next <= idp -> Forall wf_event es ->
  let c := run_events CounterInData fl dm es (cstate0 next idp) in
  items_of c ds = Z.of_nat (length (view_of (feed_of (get_ds (cs_store c) ds)))).
Proof.
  intros fl dm es next idp ds Hn Hes. cbv zeta.
  exact (run_events_cnt_ok fl dm es (cstate0 next idp) Hes (cinv0 next idp Hn) (cnt_ok0 next idp) ds).
Qed.
Print Assumptions C04_counter_fixed_all_histories.

(** one dataset's share of a write adds exactly [new_items] entities, for every variant *)
Theorem C04_new_items : forall fl dm clk t ents d, dinvg clk d ->
  nents (store_batch_ds fl dm t ents d) = nents d + new_items d ents.
Proof. exact store_batch_nents. Qed.
Print Assumptions C04_new_items.

(** Link to the correspondence run.  (1) Atomicity clause alone, any variant (kept from the first round). *)
Theorem C04_agree_implies_spec_partial : forall v t, wf_tcase t -> agree v t = true -> atomic_ok t = true.
Proof. exact agree_implies_atomic. Qed.
Print Assumptions C04_agree_implies_spec_partial.

(** (2) The whole core spec, ANY variant: atomicity; in the recovered AND in the final store of every dataset
    the change positions are strictly increasing and below the sequence key, the latest-only feed is the latest
    view of the log and the listing its id-sorted form; the id table is one-to-one, every id within
    [first next id, next id), next id within the persisted lease; the final logs extend the recovered ones with
    positions at or beyond the recovered sequence keys; every URI and id value of the recovered table is kept and
    new id values lie at or beyond the recovered next id.  The one hypothesis besides well-formedness is the
    clause [ids_stable], which compares the two OBSERVED id tables with each other row by row: the model holds the
    id table only up to the assignment order inside one write (Go map iteration), so the pairing of URIs with ids
    is an observed oracle (DESIGN.md 1.5); its model-side counterpart is C04_id_stable. *)
Theorem C04_agree_implies_spec_core : forall v t, wf_tcase_full t -> agree v t = true ->
  ids_stable (t_after t) (t_final t) = true -> spec_core t = true.
Proof. exact agree_implies_spec_core. Qed.
Print Assumptions C04_agree_implies_spec_core.

(** (3) The WHOLE executable spec [spec_ok] (core + counter = number of entities, recovered and final), for every
    variant whose counter is written by the data transaction - in particular the fully repaired [v_fixed]. *)
Theorem C04_agree_implies_spec : forall v t, v_cm v = CounterInData -> wf_tcase_full t -> agree v t = true ->
  ids_stable (t_after t) (t_final t) = true -> spec_ok t = true.
Proof. exact agree_implies_spec_ok. Qed.
Print Assumptions C04_agree_implies_spec.

Theorem C04_agree_fixed_implies_spec : forall t, wf_tcase_full t -> agree v_fixed t = true ->
  ids_stable (t_after t) (t_final t) = true -> spec_ok t = true.
Proof. exact agree_fixed_implies_spec_ok. Qed.
Print Assumptions C04_agree_fixed_implies_spec.

(** ** Batch length, refused batches, dataset deletion (seeded changes of round 2) *)

(** A batch is ONE write whatever its length: the statement of C04_atomic_step for a batch, the entity list [ents]
    universally quantified (no bound on its length appears anywhere in the model or the proofs). *)
Theorem C04_batch_atomic_any_length : forall cm fl dm c ds (ents : list ent) k,
  let o := WBatch ds ents in
  let r := crash_at cm fl dm k c o in
  ((k <= commit_index cm fl dm c o)%nat -> data_eq (cs_store r) (cs_store c))
  /\ ((k > commit_index cm fl dm c o)%nat -> data_eq (cs_store r) (apply_wop fl dm (cs_store c) o)).
Proof. intros cm fl dm c ds ents k. exact (crash_data cm fl dm c (WBatch ds ents) k). Qed.
Print Assumptions C04_batch_atomic_any_length.

(** A batch written in slices (each with its own commit) is not: dying in the second slice leaves the first one in. *)
Theorem C04_sliced_refuted :
  let fl := {| f_lenkeys := false; f_objneq := true |} in
  let c := run_events CounterSeparate fl DupLocalElseStored (firstn 1 (sliced 1 [[sl_e 1]; [sl_e 2]])) (cstate0 5 1000) in
  length (d_entries (get_ds (cs_store (crash_at CounterSeparate fl DupLocalElseStored 0 c (WBatch 1 [sl_e 2]))) 1)) = 1%nat
  /\ length (d_entries (get_ds (cs_store (exec_op CounterSeparate fl DupLocalElseStored (cstate0 5 1000) (WBatch 1 [sl_e 1; sl_e 2]))) 1)) = 2%nat.
Proof. exact sliced_refuted. Qed.
Print Assumptions C04_sliced_refuted.

(** The shared rolling identifier transaction with several writers.  A refused batch has no effect on any shared
    identifier state: the committed table is untouched, every pending assignment of another writer stays pending ... *)
Theorem C04_refused_tab : forall m us s, it_tab (it_refuse m us s) = it_tab s.
Proof. exact refuse_tab. Qed.
Print Assumptions C04_refused_tab.
Theorem C04_refused_keeps_pending : forall us s p, In p (it_pend s) -> In p (it_pend (it_refuse RefuseKeeps us s)).
Proof. exact refuse_keeps_pending. Qed.
Print Assumptions C04_refused_keeps_pending.

(** ... so whatever batches of other writers are refused while a writer stands between assigning and committing its ids,
    every URI it used is in the committed table when it is acknowledged. *)
Theorem C04_refused_neutral : forall us1 rs s u, In u us1 -> In u (map fst (it_tab (it_interleave RefuseKeeps us1 rs s))).
Proof. exact interleave_resolves. Qed.
Print Assumptions C04_refused_neutral.

(** Refutation of the discarding refusal (seeded change C04-r2-4). *)
Theorem C04_refused_discard_refuted :
  ~ In 30 (map fst (it_tab (it_interleave RefuseDiscards [30] [[50]] {| it_tab := []; it_pend := []; it_next := 5 |}))).
Proof. exact interleave_discard_refuted. Qed.
Print Assumptions C04_refused_discard_refuted.

(** DeleteDataset in the tree's order: at EVERY crash point k and for BOTH creation options (with / without
    publicNamespaces) the restarted hub never loads a dataset whose id is recorded as deleted; a completed delete leaves no
    loadable record. *)
Theorem C04_delete_no_zombie : forall k n public s, ~ In n (dr_del s) ->
  zombie n (delete_crash true true k n public s) = false.
Proof. exact delete_no_zombie. Qed.
Print Assumptions C04_delete_no_zombie.
Theorem C04_delete_done_unregistered : forall k n public s, (k >= 4)%nat ->
  ~ In n (dr_mem (delete_crash true true k n public s)).
Proof. exact delete_done_unregistered. Qed.
Print Assumptions C04_delete_done_unregistered.

(** Refutations of the two seeded orders: deleted set before the record (C04-2), map removal last (C04-r2-2: only datasets
    created with publicNamespaces - the tombstone write on core.Dataset puts the record back). *)
Theorem C04_delete_set_first_refuted :
  zombie 1 (delete_crash true false 2 1 false {| dr_rec := [(1, false)]; dr_mem := [1]; dr_del := [] |}) = true.
Proof. exact delete_set_first_refuted. Qed.
Print Assumptions C04_delete_set_first_refuted.
Theorem C04_delete_mem_last_refuted :
  zombie 1 (delete_crash false true 5 1 true {| dr_rec := [(1, true)]; dr_mem := [1]; dr_del := [] |}) = true
  /\ zombie 1 (delete_crash false true 5 1 false {| dr_rec := [(1, false)]; dr_mem := [1]; dr_del := [] |}) = false.
Proof. exact delete_mem_last_refuted. Qed.
Print Assumptions C04_delete_mem_last_refuted.

(** ** Non-vacuity *)
(* the step list of a two-dataset transaction, pinned variant: leases and releases, id commit, data commit, two counter commits *)
Definition x_txn : wop := WTxn [(1, [w_ent]); (2, [{| e_id := 2; e_c := e_c w_ent |}; {| e_id := 1; e_c := e_c w_ent |}])].
Example C04_steps_shape :
  map (fun s => match s with SLeaseDs d => 10 + d | SLeaseId => 1 | SReleaseDs d n => 20 + d | SCommitIds a => 100 + Z.of_nat (length a)
                        | SCommitData _ l _ => 200 + Z.of_nat (length l) | SCounter d n => 300 + d end)
      (fst (steps CounterSeparate (v_fl w_current) (v_dm w_current) w_c0 x_txn))
  = [11; 21; 12; 22; 102; 202; 301; 302].
Proof. vm_compute. reflexivity. Qed.

(* C04_gap: dying between the id commit and the data commit loses the data, keeps the two ids (unused),
   burns the positions; the retry then starts at the burnt position and at the next lease of ids *)
Example C04_gap :
  let fl := v_fl w_current in let dm := v_dm w_current in
  let r := crash_at CounterSeparate fl dm (commit_index CounterSeparate fl dm w_c0 x_txn) w_c0 x_txn in
  map fst (cs_ids r) = [1; 2] /\ d_entries (get_ds (cs_store r) 2) = [] /\ d_next (get_ds (cs_store r) 2) = 2
  /\ cs_next r = 1000 /\ cs_idp r = 2000
  /\ map en_seq (d_entries (get_ds (cs_store (exec_op CounterSeparate fl dm r x_txn)) 2)) = [2; 3]
  /\ items_of (exec_op CounterSeparate fl dm r x_txn) 2 = 2.
Proof. vm_compute. repeat split. Qed.

(* hypotheses of the theorems are satisfiable by non-trivial data: a history with a crash and a restart *)
Example C04_history_wf : Forall wf_event [EOp w_op; ECrash x_txn 3; ERestart; EOp x_txn] /\ 0 <= 5 <= 1000.
Proof. split; [repeat constructor; cbn; repeat constructor; cbn; intuition lia | lia]. Qed.

(* the hypotheses of the link theorems are met by a non-trivial case: the repaired model's own dumps of a history whose
   two-dataset transaction dies between the id commit and the data commit and is then retried *)
Definition x_dump (c : cstate) : odump :=
  {| o_idp := cs_idp c; o_next := cs_next c; o_ids := cs_ids c; o_ds := [model_dsd c 1; model_dsd c 2] |}.
Definition x_c1 : cstate := exec_op (v_cm v_fixed) (v_fl v_fixed) (v_dm v_fixed) w_c0 w_op.
Definition x_c2 : cstate :=
  crash_at (v_cm v_fixed) (v_fl v_fixed) (v_dm v_fixed) (commit_index (v_cm v_fixed) (v_fl v_fixed) (v_dm v_fixed) x_c1 x_txn) x_c1 x_txn.
Definition x_c3 : cstate := exec_op (v_cm v_fixed) (v_fl v_fixed) (v_dm v_fixed) x_c2 x_txn.
Definition x_case : tcase :=
  {| t_next0 := 5; t_idp0 := 1000; t_prefix := [EOp w_op]; t_crash := CHook x_txn 1 [];
     t_after := x_dump x_c2; t_tail := [x_txn]; t_final := x_dump x_c3;
     t_refA := o_ds (x_dump x_c1);
     t_refB := Some (o_ds (x_dump (exec_op (v_cm v_fixed) (v_fl v_fixed) (v_dm v_fixed) x_c1 x_txn))) |}.
Example C04_link_nonvacuous :
  wf_tcase_full x_case /\ agree v_fixed x_case = true /\ ids_stable (t_after x_case) (t_final x_case) = true
  /\ spec_ok x_case = true /\ map fst (o_ids (t_after x_case)) = [2; 1] /\ od_log (model_dsd x_c2 2) = []
  /\ length (od_log (model_dsd x_c3 2)) = 2%nat.
Proof.
  split; [|vm_compute; repeat split].
  split; [constructor|split].
  - cbn; lia.
  - repeat constructor.
  - repeat constructor; cbn; intuition lia.
  - reflexivity.
  - intros rb [= <-]. reflexivity.
  - repeat constructor; cbn; intuition lia.
  - reflexivity.
Qed.

(* the lag characterisation is not vacuous: in the two-dataset transaction (pinned variant) the crash position right after
   the FIRST counter commit lags for dataset 2 and not for dataset 1 *)
Example C04_lag_nonvacuous :
  let fl := v_fl w_current in let dm := v_dm w_current in
  let ci := commit_index CounterSeparate fl dm w_c0 x_txn in
  cnt_of w_c0 x_txn = [(1, 1); (2, 2)]
  /\ assoc 2 (firstn (S (S ci) - S ci) (cnt_of w_c0 x_txn)) = None
  /\ assoc 1 (firstn (S (S ci) - S ci) (cnt_of w_c0 x_txn)) = Some 1
  /\ items_of (crash_at CounterSeparate fl dm (S (S ci)) w_c0 x_txn) 2 = 0
  /\ items_of (exec_op CounterSeparate fl dm w_c0 x_txn) 2 = 2.
Proof. vm_compute. repeat split. Qed.
