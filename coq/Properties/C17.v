(** * C17 - Per-entity error handling isolates failing entities.
    Only statements, each closed by [exact <lemma>], with [Print Assumptions]. *)
From Coq Require Import List ZArith NArith Bool Arith Lia.
From DH Require Import Model.ErrorHandler Proofs.ErrorHandlerProofs Check.C17Check Proofs.C17CheckProofs.
Import ListNotations.
Open Scope nat_scope.

(** The recursive bisection of wrappedSink.processEntities, for EVERY inner sink (an arbitrary
    oracle call number x batch -> error: permanent, transient, anything), every batch, every state
    of lastError / recursionDepth / handler counter, every MaxItems, both clearing policies:
    the call returns nil and every entity of the batch was either delivered in an accepted sub-batch
    or reported to the handler after being rejected alone - exactly once, in order ([flat new = l]);
    or it returns MaxItemsExceededError and that holds for a prefix of the batch that ends with the
    reported entity at which the limit was reached (nothing after it is delivered or reported, the
    limit was not reached before).  The handler counter counts the reports, and an error is
    remembered whenever something was reported. *)
Theorem C17_bisection : forall (E : Type) (inner : nat -> list E -> option Z) sc k fuel l st,
  length l <= fuel ->
  wpost inner sc k l st (fst (wsink inner sc k fuel l st)) (snd (wsink inner sc k fuel l st)).
Proof. exact @wsink_post. Qed.
Print Assumptions C17_bisection.

(** Permanently failing sink (rejects exactly the batches containing a [bad] entity), all batches,
    all failing subsets: delivered = the non-failing entities in order, reported = the failing ones
    once each, or - when the limit is reached - the same for the prefix that ends with the
    MaxItems-th rejected entity. *)
Theorem C17_delivery : forall (E : Type) (bad : E -> bool) (code : E -> Z) sc k (l : list E) (st : wstate E),
  let r := fst (wsink (perm bad code) sc k (length l) l st) in
  let st' := snd (wsink (perm bad code) sc k (length l) l st) in
  exists new,
    ws_log st' = ws_log st ++ new
    /\ ws_count st' = ws_count st + length (reported new)
    /\ (reported new <> [] -> ws_last st' <> None)
    /\ match r with
       | WNil => delivered new = filter (fun x => negb (bad x)) l /\ reported new = filter bad l
                 /\ (limit_hit k (ws_count st) = false ->
                     limit_hit k (ws_count st + length (filter bad l)) = false)
       | WMax => exists pre x rest,
                 l = pre ++ x :: rest /\ bad x = true
                 /\ delivered new = filter (fun x => negb (bad x)) pre /\ reported new = filter bad pre ++ [x]
                 /\ limit_hit k (ws_count st + length (filter bad pre) + 1) = true
                 /\ (limit_hit k (ws_count st) = false ->
                     limit_hit k (ws_count st + length (filter bad pre)) = false)
       end.
Proof. exact @wsink_perm. Qed.
Print Assumptions C17_delivery.

(** One whole run of a job with a log handler (repaired variant), for every inner sink, source,
    batch size >= 1, MaxItems, token and state left by earlier runs: the recorded outcome is ok iff
    nothing was rejected in THIS run, otherwise it carries a sink error; below the limit the whole
    feed from the token on was delivered-or-reported and the token is at the end; at the limit the
    run stopped with the reported entity that reached it and the token is not beyond it. *)
Theorem C17_run_outcome : forall (E : Type) (inner : nat -> list E -> option Z) cfg src (st : jstate E),
  c_log cfg = true -> c_kill cfg = None -> 1 <= c_batch cfg -> j_tok st <= length src -> clean st ->
  let r := fst (run inner VFixed cfg src st) in
  let st' := snd (run inner VFixed cfg src st) in
  let log := r_log r in
  let k := c_maxItems cfg in
  Forall (ev_just inner) log
  /\ (r_err r = POk <-> reported log = [])
  /\ (r_err r = POk \/ exists c, r_err r = PInner c)
  /\ (limit_hit k (length (reported log)) = false ->
      flat log = skipn (j_tok st) src /\ r_tok r = length src)
  /\ (limit_hit k (length (reported log)) = true ->
      exists new0 x rest, log = new0 ++ [ERep x] /\ flat log ++ rest = skipn (j_tok st) src
                          /\ limit_hit k (length (reported new0)) = false
                          /\ j_tok st <= r_tok r <= j_tok st + length (flat new0))
  /\ j_tok st' = r_tok r /\ j_tok st' <= length src /\ j_wrapped st' = true /\ clean st'.
Proof. exact @run_fixed. Qed.
Print Assumptions C17_run_outcome.

(** true of every variant: the run delivers-or-reports a prefix of the feed from the token on *)
Theorem C17_run_partition : forall (E : Type) (inner : nat -> list E -> option Z) v cfg src (st : jstate E),
  c_log cfg = true -> c_kill cfg = None -> 1 <= c_batch cfg -> j_tok st <= length src ->
  let r := fst (run inner v cfg src st) in
  exists rest, flat (r_log r) ++ rest = skipn (j_tok st) src
               /\ Forall (ev_just inner) (r_log r)
               /\ (r_tok r = length src -> rest = []).
Proof. exact @run_partition. Qed.
Print Assumptions C17_run_partition.

(** reRun as a counter machine (every variant, sink, kill point, appended entities, cron firings):
    a re-run is scheduled only by a run recorded as failed with a sink error (never after success or
    a kill), needs a reRun handler with retries left and consumes one ... *)
Theorem C17_rerun_step : forall (E : Type) (inner : nat -> list E -> option Z) v cfg src (st : jstate E),
  let r := fst (run inner v cfg src st) in
  let st' := snd (run inner v cfg src st) in
  j_retries st' = r_retries r
  /\ (r_pending r = true ->
      c_rerun cfg = true /\ (0 < j_retries st)%Z /\ r_retries r = (j_retries st - 1)%Z
      /\ exists c, r_err r = PInner c)
  /\ (r_pending r = false -> r_retries r = j_retries st).
Proof. exact @run_pending. Qed.
Print Assumptions C17_rerun_step.

(** ... so along any chain of runs of the job at most maxRetries re-runs happen *)
Theorem C17_rerun_bound : forall inner v cfg fuel n adds crons (st : jstate Z),
  forall full, (Z.of_nat (pendings (chain inner v cfg full fuel n adds crons st)) <= Z.max 0 (j_retries st))%Z.
Proof. intros. apply chain_pending_bound. Qed.
Print Assumptions C17_rerun_bound.

Theorem C17_rerun_only_after_failure : forall inner v cfg fuel n adds crons (st : jstate Z),
  Forall (fun r => r_pending r = true -> c_rerun cfg = true /\ exists c, r_err r = PInner c)
         (chain inner v cfg false fuel n adds crons st)
  /\ Forall (fun r => r_pending r = true -> c_rerun cfg = true /\ exists c, r_err r = PInner c)
         (chain inner v cfg true fuel n adds crons st).
Proof. intros. split; apply chain_pending_failed. Qed.
Print Assumptions C17_rerun_only_after_failure.

(** refutations for the pinned tree.
    F17a: log + reRun(2), 10 entities in one page, entities 1, 4, 7 rejected.  Run 1 reports them and
    fails; the re-runs start at the stored token, reject nothing, and are still recorded with run 1's
    error, each consuming a retry.  Repaired: one re-run, recorded ok. *)
Theorem C17_refuted_stale_error :
  let cfg := {| c_batch := 100; c_log := true; c_maxItems := 0; c_rerun := true; c_kill := None |} in
  let obs v := map (fun r => (r_err r, reported (r_log r), r_pending r))
                   (chain (scripted [1;4;7]%Z []) v cfg false 60 10 [] 0 (j_init 2)) in
  obs VCurrent = [(PInner 7, [1;4;7], true); (PInner 7, [], true); (PInner 7, [], false)]%Z
  /\ obs VFixed = [(PInner 7, [1;4;7], true); (POk, [], false)]%Z.
Proof. exact refuted_stale_error. Qed.
Print Assumptions C17_refuted_stale_error.

(** F17b: batch size 1, entity 0 rejected, entities 1 and 2 healthy: the rejection is reported but
    the run is recorded as ok and no re-run is scheduled (also with [reset] repaired). *)
Theorem C17_refuted_cleared_error :
  let cfg := {| c_batch := 1; c_log := true; c_maxItems := 0; c_rerun := true; c_kill := None |} in
  let obs v := map (fun r => (r_err r, reported (r_log r), r_pending r))
                   (chain (scripted [0]%Z []) v cfg false 60 3 [] 0 (j_init 2)) in
  obs VCurrent = [(POk, [0], false)]%Z
  /\ obs VResetClears = [(POk, [0], false)]%Z
  /\ obs VFixed = [(PInner 0, [0], true); (POk, [], false)]%Z.
Proof. exact refuted_cleared_error. Qed.
Print Assumptions C17_refuted_cleared_error.

(** ... also when further failing runs (cron ticks, manual runs) arrive while re-runs are still pending:
    the executions on top of the [ext] external ones and the [queued] pending ones are bounded by the retries *)
Theorem C17_rerun_bound_burst : forall inner v cfg fuel n ext queued (st : jstate Z),
  forall full, (Z.of_nat (length (burst inner v cfg full fuel n ext queued st))
   <= Z.of_nat ext + Z.of_nat queued + Z.max 0 (j_retries st))%Z.
Proof. intros. apply burst_len_bound. Qed.
Print Assumptions C17_rerun_bound_burst.

(** tie to the correspondence check: agreement with the repaired model on a case implies the executable
    spec on the implementation's observation.  Sink-level cases (full): *)
Theorem C17_agree_implies_spec_sink : forall c,
  t_job c = false -> (0 <= t_preCount c)%Z ->
  limit_hit (Z.to_nat (t_maxItems c)) (Z.to_nat (t_preCount c)) = false ->
  agree VFixed c = true -> spec_ok c = true.
Proof. exact agree_fixed_spec_sink. Qed.
Print Assumptions C17_agree_implies_spec_sink.

(** Job-level cases (chains of runs with re-runs, cron firings and appended entities) in the scope where the
    full per-run spec applies: log handler, permanently failing sink, no kill.
    PARTIAL with respect to all job-level cases: for cases with a kill, a transient sink or without a log
    handler the statement
      [forall c, t_job c = true -> agree VFixed c = true -> spec_ok c = true]
    is not proved (gap: the general clauses of [spec_run] - prefix of the feed, kill => interrupted and no
    re-run - need the page-loop lemma [sync_pages_post] generalised to [c_kill <> None] and [c_log = false]);
    those cases are checked by [evaluate] on every run of the check. *)
Theorem C17_agree_implies_spec_job_partial : forall c,
  t_job c = true -> (0 <? t_burst c)%Z = false ->
  t_log c = true -> t_failcalls c = [] -> (t_killAt c <? 0)%Z = true -> forallb (Z.leb 0) (t_bad c) = true ->
  t_full c = false ->
  (Z.of_nat (Z.to_nat (t_crons c)) + Z.max 0 (retries0 c) < 60)%Z ->
  agree VFixed c = true -> spec_ok c = true.
Proof. exact agree_fixed_spec_job. Qed.
Print Assumptions C17_agree_implies_spec_job_partial.

(** burst cases (any variant of the model) *)
Theorem C17_agree_implies_spec_burst : forall v c,
  t_job c = true -> (0 <? t_burst c)%Z = true -> agree v c = true -> spec_ok c = true.
Proof. exact agree_spec_burst. Qed.
Print Assumptions C17_agree_implies_spec_burst.

(** non-vacuity *)
Example C17_nonvacuous_1 :
  let '(r, st) := wsink (scripted [2;5]%Z []) true 2 8 (zseq 0 8) ws_init in
  (r, ws_log st, ws_last st, ws_count st)
  = (WMax, [EDeliv [0;1]; ERep 2; EDeliv [3]; EDeliv [4]; ERep 5]%Z, Some 2%Z, 2).
Proof. vm_compute. reflexivity. Qed.
Example C17_nonvacuous_2 :
  let cfg := {| c_batch := 4; c_log := true; c_maxItems := 0; c_rerun := false; c_kill := None |} in
  let r := fst (run (scripted [1;6]%Z []) VFixed cfg (zseq 0 10) (j_init 0)) in
  (r_err r, delivered (r_log r), reported (r_log r), r_tok r) = (PInner 6, [0;2;3;4;5;7;8;9]%Z, [1;6]%Z, 10).
Proof. vm_compute. reflexivity. Qed.
