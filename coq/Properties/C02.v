(** * C02 - Change feed is the complete ordered version history; tokens resume exactly.
    Only statements, each closed by [exact <lemma>] (or a short wrapper), with [Print Assumptions]. *)
From Coq Require Import List ZArith NArith Bool Lia.
From DH Require Import Lib.CheckLib Model.Store Model.FeedSpec Model.ReverseReader Proofs.StoreProofs Proofs.StoreReaders
     Proofs.FeedSpecProofs Proofs.ReverseProofs Check.StoreCheck Proofs.C02CheckProofs.
Import ListNotations.
Open Scope Z_scope.

(** One dataset's share of a batch or transaction, decided against the pre-batch snapshot plus the
    in-batch predecessors (repaired duplicate handling), appends exactly what the sequential spec
    appends - for ANY write-time equality [content_eqb fl] - and keeps the invariant. *)
Theorem C02_batch_refines : forall fl clk t ents d,
  dinv clk d -> clk < t ->
  feed_of (store_batch_ds fl DupLocalElseStored t ents d)
  = fold_left (spec_write (content_eqb fl)) ents (feed_of d)
  /\ dinv t (store_batch_ds fl DupLocalElseStored t ents d).
Proof. exact store_batch_refines. Qed.
Print Assumptions C02_batch_refines.

(** Every history of batches and multi-dataset transactions from the empty store: the change feed
    of every dataset is the fold of [spec_write] over what was written to it, in commit order:
    a write identical to the entity's current version adds nothing, any other adds exactly one. *)
Theorem C02_feed_refines : forall ops ds,
  Forall wf_wop ops ->
  feed_of (get_ds (run_wops eq_full DupLocalElseStored ops store0) ds)
  = fold_left (fapply identical) ops (fun _ => []) ds.
Proof.
  intros ops ds Hwf.
  destruct (run_wops_refines eq_full ops store0 (fun _ => []) Hwf sinv0 (fun _ => eq_refl)) as [_ H].
  exact (H ds).
Qed.
Print Assumptions C02_feed_refines.

(** ... and the invariant (latest pointers name the last version; versions strictly ordered by
    (time, batch index); sequence numbers contiguous) holds in every reachable state. *)
Theorem C02_reachable_inv : forall fl ops, Forall wf_wop ops ->
  sinv (run_wops fl DupLocalElseStored ops store0).
Proof.
  intros fl ops Hwf.
  destruct (run_wops_refines fl ops store0 (fun _ => []) Hwf sinv0 (fun _ => eq_refl)) as [H _]. exact H.
Qed.
Print Assumptions C02_reachable_inv.

(** "identical" = same deleted flag, same properties, same references *)
Theorem C02_identical_iff : forall a b,
  identical a b = true <->
  c_del a = c_del b /\ proj_props a = proj_props b /\ proj_refs a = proj_refs b.
Proof. exact identical_iff. Qed.
Print Assumptions C02_identical_iff.

(** The reader (ProcessChangesRaw) returns exactly the spec's page and next token, for every
    since >= 0, every limit and with or without latest-only, in every state satisfying the invariant. *)
Theorem C02_reader_refines : forall clk d since limit lo,
  dinv clk d -> 0 <= since ->
  let '(out, next) := changes d since limit lo in
  (map StoreReaders.entry_oent out, next) = spec_changes (feed_of d) since limit lo.
Proof. exact changes_refines. Qed.
Print Assumptions C02_reader_refines.

(** Reading from the start without limit: every version once, in commit order (latest-only: exactly
    the newest version of each entity); the token is the feed length. *)
Theorem C02_read_all : forall f latest,
  spec_changes f 0 0 latest = ((if latest then view_of f else f), Z.of_nat (length f)).
Proof. exact read_all. Qed.
Print Assumptions C02_read_all.

(** Any sequence of limits, following the returned tokens: what was read plus what is still to be
    read from the final token is exactly what was to be read from the first one - nothing skipped,
    nothing repeated; tokens never move backwards. *)
Theorem C02_paging : forall f latest limits since,
  0 <= since ->
  let '(outs, final) := read_pages f latest since limits in
  concat outs ++ sel (skipz final (flags latest f)) = sel (skipz since (flags latest f))
  /\ since <= final.
Proof. exact pages_partition. Qed.
Print Assumptions C02_paging.

(** a page never holds more than [limit] entities *)
Theorem C02_page_size : forall l limit, 0 < limit -> Z.of_nat (length (sel (take_sel limit l))) <= limit.
Proof. exact take_sel_count. Qed.
Print Assumptions C02_page_size.

(** A token at or beyond the end returns nothing and is returned unchanged ... *)
Theorem C02_at_end : forall f since limit latest,
  Z.of_nat (length f) <= since -> spec_changes f since limit latest = ([], since).
Proof. exact read_at_end. Qed.
Print Assumptions C02_at_end.

(** ... and after further writes it returns exactly the new entries (a prefix of them under a limit). *)
Theorem C02_resume : forall f g limit,
  let '(out, next) := spec_changes (f ++ g) (Z.of_nat (length f)) limit false in
  exists r, g = out ++ r /\ (limit <= 0 -> r = []) /\ next = Z.of_nat (length f) + Z.of_nat (length out).
Proof. exact resume_after_writes. Qed.
Print Assumptions C02_resume.

(** The reverse reader (iterator.Inverse as the HTTP handler drives it) returns exactly the spec's page and token ... *)
Theorem C02_reverse_refines : forall clk d since limit,
  dinv clk d -> 0 <= since \/ since = from_end ->
  let '(out, tok) := changes_rev d since limit in
  (map StoreReaders.entry_oent out, tok) = spec_changes_rev (feed_of d) since limit.
Proof. exact changes_rev_refines. Qed.
Print Assumptions C02_reverse_refines.

(** ... and a non-empty reverse page is the top of the versions below [since], in descending order; its token is the
    position of its last entry, so the next page continues exactly below it: nothing skipped, nothing repeated *)
Theorem C02_reverse_paging : forall f since limit, 0 < since ->
  let '(out, tok) := spec_changes_rev f since limit in
  out <> [] ->
  exists rest, rev (takez since f) = out ++ rest /\ rest = rev (takez tok f) /\ 0 <= tok < since.
Proof. exact rev_page_partition. Qed.
Print Assumptions C02_reverse_paging.

(** ** the pinned tree: refutations by computation *)
Definition cA : content := {| c_del := false; c_props := [(1, {| pv_code := 1; pv_obj := false |})]; c_refs := []; c_len := 50 |}.
Definition cNested : content := {| c_del := false; c_props := [(2, {| pv_code := 9; pv_obj := true |})]; c_refs := []; c_len := 90 |}.
Definition cDel : content := {| c_del := true; c_props := [(1, {| pv_code := 1; pv_obj := false |})]; c_refs := []; c_len := 65 |}.
Definition cUndel : content := {| c_del := false; c_props := [(1, {| pv_code := 1; pv_obj := false |}); (4, {| pv_code := 4; pv_obj := false |})]; c_refs := []; c_len := 65 |}.
Definition ent_of (c : content) : ent := {| e_id := 1; e_c := c |}.

(** F02a: the same element twice in one batch is stored twice *)
Theorem C02_refuted_batchdup :
  feed_of (store_batch_ds eq_full DupStoredAndLocal 1 [ent_of cA; ent_of cA] dstate0)
  <> fold_left (spec_write identical) [ent_of cA; ent_of cA] [].
Proof. vm_compute. discriminate. Qed.
Print Assumptions C02_refuted_batchdup.

(** F02b: a property holding a nested entity never compares equal: re-posting adds a version each time *)
Theorem C02_refuted_nested :
  let fl := {| f_lenkeys := false; f_objneq := true |} in
  let ops := [WBatch 1 [ent_of cNested]; WBatch 1 [ent_of cNested]; WBatch 1 [ent_of cNested]] in
  length (feed_of (get_ds (run_wops fl DupLocalElseStored ops store0) 1)) = 3%nat
  /\ length (fold_left (fapply identical) ops (fun _ => []) 1) = 1%nat.
Proof. vm_compute. split; reflexivity. Qed.
Print Assumptions C02_refuted_nested.

(** F01a seen from the feed: an un-delete whose extra property makes the serialized length equal is dropped *)
Theorem C02_refuted_lenkeys :
  let fl := {| f_lenkeys := true; f_objneq := false |} in
  let ops := [WBatch 1 [ent_of cDel]; WBatch 1 [ent_of cUndel]] in
  length (feed_of (get_ds (run_wops fl DupLocalElseStored ops store0) 1)) = 1%nat
  /\ length (fold_left (fapply identical) ops (fun _ => []) 1) = 2%nat.
Proof. vm_compute. split; reflexivity. Qed.
Print Assumptions C02_refuted_lenkeys.

(** tie to the correspondence check: on well-formed cases agreement with the repaired model
    is exactly the executable spec evaluated on the implementation's observations *)
Theorem C02_agree_is_spec : forall c,
  Forall wf_sop c -> agree v_fixed false proj_c02 c = spec_ok proj_c02 c.
Proof. exact agree_is_spec_c02. Qed.
Print Assumptions C02_agree_is_spec.

(** non-vacuity: a concrete two-dataset history with a transaction, an identical re-post, a change and a delete *)
Example C02_nonvacuous :
  let ops := [WBatch 1 [ent_of cA; ent_of cNested]; WTxn [(1, [ent_of cNested]); (2, [ent_of cA])];
              WBatch 1 [ent_of cDel]; WBatch 2 [ent_of cA]] in
  Forall wf_wop ops /\
  map fst (feed_of (get_ds (run_wops eq_full DupLocalElseStored ops store0) 1)) = [1; 1; 1] /\
  length (feed_of (get_ds (run_wops eq_full DupLocalElseStored ops store0) 2)) = 1%nat.
Proof.
  split; [|vm_compute; split; reflexivity].
  repeat constructor; cbn; try tauto. intros [H|[]]; discriminate.
Qed.
Example C02_nonvacuous_paging :
  let f := [(1, cA); (2, cA); (1, cDel); (3, cA); (2, cDel)] in
  read_pages f true 0 [1; 1; 5] = ([[(1, cDel)]; [(3, cA)]; [(2, cDel)]], 5).
Proof. vm_compute. reflexivity. Qed.
