(** * C15 - What is POSTed is what is GET back; malformed payloads are rejected, not fatal.
    Only statements, each closed by [exact <lemma>] (or a 2-3 line wrapper), with [Print Assumptions]. *)
From Coq Require Import List String NArith Bool Lia.
From DH Require Import Model.Parser Proofs.ParserProofs Proofs.ParserFuel Proofs.ParserPanic Proofs.ParserProxy Check.C15Check Proofs.C15CheckProofs.
Import ListNotations.
Open Scope string_scope.

(** Totality: for ALL token streams, all fuel and both kinds of stream end, a parser whose
    type assertions are checked never panics - in ParseStream and in ParseTransaction. *)
Theorem C15_total : forall v, chk_types v = true -> forall fuel eof ts,
  snd (fst (parse_stream v fuel eof ts)) <> OPanic /\ parse_txn v fuel ts <> Panic.
Proof. intros v H fuel eof ts. split; [apply parse_stream_nopanic | apply parse_txn_nopanic]; exact H. Qed.
Print Assumptions C15_total.

(** The repaired parser consumes, for every entity / property object / value / array it
    accepts, exactly one bracket-matched JSON value: nothing of the following element is
    read and nothing of the element is left over. *)
Theorem C15_consumes_one_element : forall v ns, strict v = true -> skip_unknown v = true -> forall fuel,
  (forall e isc ts e' rest, parse_entity v ns fuel e isc ts = Ok (e', rest) -> skip_n 1 ts = Some rest) /\
  (forall acc ts ps rest, parse_props v ns fuel acc ts = Ok (ps, rest) -> skip_n 1 ts = Some rest) /\
  (forall ts x rest, parse_value v ns fuel ts = Ok (x, rest) -> skip_n 0 ts = Some rest) /\
  (forall acc ts l rest, parse_array v ns fuel acc ts = Ok (l, rest) -> skip_n 1 ts = Some rest).
Proof. exact mutual_bal. Qed.
Print Assumptions C15_consumes_one_element.

(** ParseStream (repaired) IS the element-wise specification, for all token streams:
    outcome Ok or Err; the entities handed to the callback are exactly the denotations of the
    complete bracket-matched elements preceding the first bad position - an Err never emits an
    entity assembled from the bad element. *)
Theorem C15_stream_is_spec : forall fuel eof ts, (List.length ts < fuel)%nat ->
  parse_stream fixed fuel eof ts = spec_stream fuel eof ts.
Proof. exact parse_stream_fixed_spec. Qed.
Print Assumptions C15_stream_is_spec.

(** Round trip, for ALL contexts, ALL entity collections over the value grammar (strings, numbers,
    booleans, nested arrays, nested entities, null property values, single and array references,
    entities without id, any recorded / deleted / internal id) and EVERY variant of the parser
    (the pinned tree included): parsing the token stream of what the handlers serialise -
    "[" context ("," entity)* ", {"id":"@continuation","token":tok}]" - hands the callback exactly
    the entities, with null properties dropped, then the continuation element; outcome Ok; the
    parser's namespace context is the serialised one. *)
Theorem C15_roundtrip : forall v ctx es tok fuel, wf_ctx ctx -> Forall (fun ei => wf_ent ctx (fst ei)) es ->
  (List.length (ser_stream ctx es tok) < fuel)%nat ->
  parse_stream v fuel true (ser_stream ctx es tok)
  = ((map (fun ei => clean_ent (fst ei)) es ++ [cont_ent tok])%list, OOk, ctx).
Proof. exact stream_roundtrip_fuel. Qed.
Print Assumptions C15_roundtrip.
(** in particular with the fuel the check uses, [S (length tokens)] *)
Theorem C15_roundtrip_check_fuel : forall v ctx es tok, wf_ctx ctx -> Forall (fun ei => wf_ent ctx (fst ei)) es ->
  parse_stream v (S (List.length (ser_stream ctx es tok))) true (ser_stream ctx es tok)
  = ((map (fun ei => clean_ent (fst ei)) es ++ [cont_ent tok])%list, OOk, ctx).
Proof. intros v ctx es tok Hc He. apply stream_roundtrip_fuel; [exact Hc|exact He|lia]. Qed.
Print Assumptions C15_roundtrip_check_fuel.

(** Fuel: every parser function consumes at least one token per unit of fuel it spends (two units
    per token inside the generic context value), so with more fuel than tokens - for EVERY variant
    and EVERY token list - the result is never the artefact [Fuel] and no longer depends on the fuel. *)
Theorem C15_fuel_enough : forall v fuel eof ts, (List.length ts < fuel)%nat ->
  snd (fst (parse_stream v fuel eof ts)) <> OFuel /\ parse_txn v fuel ts <> Fuel.
Proof. intros v fuel eof ts H. split; [now apply parse_stream_enough | now apply parse_txn_enough]. Qed.
Print Assumptions C15_fuel_enough.
Theorem C15_fuel_independent : forall v fuel k eof ts, (List.length ts < fuel)%nat ->
  parse_stream v (fuel + k) eof ts = parse_stream v fuel eof ts /\ parse_txn v (fuel + k) ts = parse_txn v fuel ts.
Proof. intros v fuel k eof ts H. split; [now apply parse_stream_stable | now apply parse_txn_stable]. Qed.
Print Assumptions C15_fuel_independent.
Theorem C15_consumes_a_token : forall v ns fuel,
  (forall e isc ts e' rest, parse_entity v ns fuel e isc ts = Ok (e', rest) -> (List.length rest < List.length ts)%nat) /\
  (forall acc ts ps rest, parse_props v ns fuel acc ts = Ok (ps, rest) -> (List.length rest < List.length ts)%nat) /\
  (forall ts x rest, parse_value v ns fuel ts = Ok (x, rest) -> (List.length rest < List.length ts)%nat) /\
  (forall acc ts l rest, parse_array v ns fuel acc ts = Ok (l, rest) -> (List.length rest < List.length ts)%nat).
Proof. exact mutual_shorter. Qed.
Print Assumptions C15_consumes_a_token.
(** no prediction the correspondence evaluator computes is the artefact (outcome code 7) *)
Theorem C15_check_fuel_enough : forall v ts eof,
  fst (fst (run_stream v ts eof)) <> 7%N /\ fst (fst (run_txn v ts)) <> 7%N.
Proof. intros v ts eof. split; [apply run_stream_no_fuel | apply run_txn_no_fuel]. Qed.
Print Assumptions C15_check_fuel_enough.

(** the same for a single value: every array body and every (nested) entity body parses back *)
Theorem C15_value_roundtrip : forall v ctx, wf_ctx ctx -> forall x, wf_val ctx x ->
  exists n, forall fuel, (n <= fuel)%nat -> core v ctx x fuel.
Proof. intros v ctx H x. exact (rt_all v ctx H x). Qed.
Print Assumptions C15_value_roundtrip.

(** what a posted identifier denotes: an absolute URI denotes itself, a name without ':' lives in
    the default namespace "_", "p:l" in the namespace of p *)
Theorem C15_denotes : forall ns val q, resolve ns val = Some q ->
  uri_of q = if is_url val then val
             else match split_colon val with
                  | None => match ns_get ns "_" with Some e => e ++ val | None => "" end
                  | Some (p, l) => match ns_get ns p with Some e => e ++ l | None => "" end
                  end.
Proof. exact resolve_denotes. Qed.
Print Assumptions C15_denotes.

(** A context prefix that merely BEGINS with "http" (httpbin, https-api, ...) is a prefix like any
    other: "p:l" is resolved through the payload's context unless p is exactly http / https. *)
Theorem C15_http_like_prefix : forall ns p l, split_colon p = None -> p <> "http" -> p <> "https" ->
  resolve ns (p ++ ":" ++ l) = match ns_get ns p with Some e => Some (NQ e l) | None => None end.
Proof. exact resolve_http_like_prefix. Qed.
Print Assumptions C15_http_like_prefix.

(** The parser's key cache never changes what a key denotes, as long as entries are keyed by the
    payload key they were resolved from (the invariant is preserved by every lookup). *)
Theorem C15_cache_transparent : forall ns c k, cache_ok ns c ->
  fst (resolve_cached ns c k) = resolve ns k /\ cache_ok ns (snd (resolve_cached ns c k)).
Proof. exact cache_transparent. Qed.
Print Assumptions C15_cache_transparent.

(** Where the pinned parser panics, exactly.  [with_chk v] = v with the type assertions checked.
    On EVERY input the checked parser returns what the unchecked one returns except that a panic
    becomes an error: same entities handed to the callback before it, same namespaces.  Hence the
    pinned tree panics on precisely the inputs on which it differs from its types-checked version. *)
Theorem C15_checked_simulates : forall v fuel eof ts,
  parse_stream (with_chk v) fuel eof ts = demote_s (parse_stream v fuel eof ts)
  /\ parse_txn (with_chk v) fuel ts = demote (parse_txn v fuel ts).
Proof. intros. split; [apply parse_stream_sim | apply parse_txn_sim]. Qed.
Print Assumptions C15_checked_simulates.
Theorem C15_panics_iff : forall v fuel eof ts,
  (snd (fst (parse_stream v fuel eof ts)) = OPanic <->
   parse_stream (with_chk v) fuel eof ts <> parse_stream v fuel eof ts) /\
  (parse_txn v fuel ts = Panic <-> parse_txn (with_chk v) fuel ts <> parse_txn v fuel ts).
Proof. intros. split; [apply stream_panics_iff | apply txn_panics_iff]. Qed.
Print Assumptions C15_panics_iff.
(** the context classes in closed form, and the three assertion sites of parseEntity *)
Theorem C15_context_panic_iff : forall ctx,
  namespaces_of current ctx = Panic <->
  match lookup "namespaces" ctx with Some (JObj l) => all_strings l = None | _ => True end.
Proof. exact namespaces_panic_iff. Qed.
Print Assumptions C15_context_panic_iff.
Theorem C15_entity_assertion_sites : forall ns f e isc t rest,
  (is_str t = false -> parse_entity current ns (S f) e isc (TStr "id" :: t :: rest) = Panic) /\
  (is_num t = false -> parse_entity current ns (S f) e isc (TStr "recorded" :: t :: rest) = Panic) /\
  (is_bool t = false -> parse_entity current ns (S f) e isc (TStr "deleted" :: t :: rest) = Panic).
Proof. exact entity_assertion_sites. Qed.
Print Assumptions C15_entity_assertion_sites.

(** Refutations on the pinned tree: one witness per panic class (F15a) *)
Theorem C15_refuted_panic_deleted_string : exists ts, snd (fst (parse_stream current 40 true ts)) = OPanic.
Proof. exists w_deleted. exact refuted_deleted. Qed.
Print Assumptions C15_refuted_panic_deleted_string.
Theorem C15_refuted_panic_classes :
  snd (fst (parse_stream current 40 true w_id)) = OPanic /\
  snd (fst (parse_stream current 40 true w_recorded)) = OPanic /\
  snd (fst (parse_stream current 40 true w_nons)) = OPanic /\
  snd (fst (parse_stream current 40 true w_nsval)) = OPanic /\
  snd (fst (parse_stream current 40 true w_nstype)) = OPanic /\
  parse_txn current 40 w_txn_eof = Panic /\
  parse_txn current 40 w_txn_null = Panic.
Proof.
  exact (conj refuted_id (conj refuted_recorded (conj refuted_nons (conj refuted_nsval
         (conj refuted_nstype (conj refuted_txn_eof refuted_txn_null)))))).
Qed.
Print Assumptions C15_refuted_panic_classes.

(** F15b: an unknown key whose value is an object re-enters the entity parser: an entity with the
    INNER id is emitted and only then the error is raised; the spec emits the outer entity *)
Theorem C15_refuted_unknown_key_object : exists ts es es',
  fst (parse_stream current 40 true ts) = (es, OErr) /\ es <> [] /\
  fst (spec_stream 40 true ts) = (es', OOk) /\ es <> es'.
Proof.
  exists w_unknown_obj. eexists. eexists.
  split; [exact refuted_unknown_obj|]. split; [discriminate|]. split; [exact spec_unknown_obj|discriminate].
Qed.
Print Assumptions C15_refuted_unknown_key_object.
Theorem C15_refuted_unknown_key_array :
  fst (parse_stream current 40 true w_unknown_arr) = ([w_ent "3"], OOk)
  /\ fst (spec_stream 40 true w_unknown_arr) = ([w_ent "1"], OOk).
Proof. exact refuted_unknown_arr. Qed.
Print Assumptions C15_refuted_unknown_key_array.

(** F15c: malformed structure accepted *)
Theorem C15_refuted_structure :
  (fst (parse_stream current 40 true w_props_scalar) = ([w_ent "2"], OOk)
   /\ fst (spec_stream 40 true w_props_scalar) = ([], OErr)) /\
  (fst (parse_stream current 40 true w_trailing) = ([w_ent "1"; w_ent "9"], OOk)
   /\ fst (spec_stream 40 true w_trailing) = ([w_ent "1"], OErr)) /\
  (parse_txn current 40 w_txn_object = Ok [("d1", [w_ent "1"])] /\ parse_txn fixed 40 w_txn_object = Err).
Proof. exact (conj refuted_props_scalar (conj refuted_trailing refuted_txn_object)). Qed.
Print Assumptions C15_refuted_structure.

(** Every entry point that parses a payload.  The page reader of a proxy dataset (StreamChangesRaw /
    StreamChanges / StreamEntitiesRaw / StreamEntities): its result is an error whenever ParseStream
    fails - wherever the continuation element sits -, a token is returned only after a successful
    parse, the callback gets exactly the non-continuation entities ParseStream emitted, and with
    checked assertions (parser and token) it never panics. *)
Theorem C15_proxy_error_propagates : forall v c fuel eof ts,
  (snd (fst (parse_stream v fuel eof ts)) = OErr -> fst (proxy_page v c fuel eof ts) = Err) /\
  (forall s, fst (proxy_page v c fuel eof ts) = Ok s -> snd (fst (parse_stream v fuel eof ts)) = OOk) /\
  snd (proxy_page v c fuel eof ts) = filter (fun e => negb (is_cont_ent e)) (fst (fst (parse_stream v fuel eof ts))).
Proof.
  intros. split; [apply proxy_err_propagates|]. split; [intros s; apply proxy_ok_needs_ok|apply proxy_passes_emitted].
Qed.
Print Assumptions C15_proxy_error_propagates.
Theorem C15_proxy_total : forall v fuel eof ts, chk_types v = true ->
  fst (proxy_page v true fuel eof ts) <> Panic.
Proof. exact proxy_total. Qed.
Print Assumptions C15_proxy_total.
Theorem C15_refuted_proxy_token :
  fst (proxy_page fixed false 40 true w_cont_num) = Panic /\ fst (proxy_page fixed false 40 true w_cont_none) = Panic
  /\ fst (proxy_page fixed true 40 true w_cont_num) = Err.
Proof. exact refuted_proxy_token. Qed.
Print Assumptions C15_refuted_proxy_token.

(** Several documents through one entry point (the pages an HTTPDatasetSource reads, the pages of a
    proxy dataset): with a fresh parser per document, reading the sequence IS mapping the
    single-document parser over it - every document is parsed against its own context only.  A
    parser object kept across documents leaks bindings (a page using a prefix it does not declare
    is accepted). *)
Theorem C15_documents_independent : forall v pages,
  read_pages false v [] pages
  = map (fun p => fst (parse_stream v (S (List.length (fst p))) (snd p) (fst p))) pages.
Proof. exact read_pages_fresh. Qed.
Print Assumptions C15_documents_independent.
Theorem C15_refuted_parser_reuse :
  read_pages false fixed [] [(w_page1, true); (w_page2, true)] = [([w_ent "1"], OOk); ([], OErr)]
  /\ read_pages true fixed [] [(w_page1, true); (w_page2, true)] = [([w_ent "1"], OOk); ([w_ent "2"], OOk)].
Proof. exact refuted_parser_reuse. Qed.
Print Assumptions C15_refuted_parser_reuse.

(** The namespace table behind the identifiers: insert-then-persist keeps persisted = in-memory over
    ALL sequences of assertions and restarts, so a restart changes nothing and a prefix, once
    assigned, denotes the same expansion for ever - what the hub wrote before a restart parses back
    to the same ids afterwards.  Persist-before-insert loses the last namespace at a restart and
    hands its prefix to the next new one. *)
Theorem C15_namespace_table_persistent : forall ops t, ns_consistent t ->
  ns_consistent (ns_run false t ops) /\ ns_step false (ns_run false t ops) NsRestart = ns_run false t ops /\
  forall e i, index_of e (nt_mem t) = Some i -> index_of e (nt_mem (ns_run false t ops)) = Some i.
Proof.
  intros ops t H. pose proof (ns_run_consistent ops t H) as C.
  split; [exact C|]. split; [now apply ns_restart_noop|]. intros e i. now apply ns_prefix_permanent.
Qed.
Print Assumptions C15_namespace_table_persistent.
Theorem C15_refuted_persist_before_insert :
  let t0 := {| nt_mem := ["core"]; nt_disk := ["core"] |} in
  index_of "b" (nt_mem (ns_run true t0 [NsAssert "b"])) = Some 1%nat
  /\ index_of "b" (nt_mem (ns_run true t0 [NsAssert "b"; NsRestart])) = None
  /\ index_of "c" (nt_mem (ns_run true t0 [NsAssert "b"; NsRestart; NsAssert "c"])) = Some 1%nat.
Proof. exact ns_persist_first_refuted. Qed.
Print Assumptions C15_refuted_persist_before_insert.

(** tie to the correspondence check: the repaired model's verdict on a case IS the executable
    spec's verdict; a case satisfying the spec is not a panic *)
Theorem C15_agree_implies_spec : forall c, agree fixed true c = true -> spec_ok c = true.
Proof. exact agree_fixed_spec. Qed.
Print Assumptions C15_agree_implies_spec.
Theorem C15_spec_excludes_panic : forall c, spec_ok c = true ->
  match c_mode c with
  | MSource => forallb (fun p => negb (N.eqb (po_outcome p) 2)) (c_pages c) = true
  | _ => o_outcome c <> 2%N
  end.
Proof. exact spec_ok_no_panic. Qed.
Print Assumptions C15_spec_excludes_panic.

(** non-vacuity: a concrete well-formed context and collection (nested entity, arrays, a null
    property, array refs) meets the hypotheses of C15_roundtrip, and both variants compute the
    stated result on it; the store's "ns<N>" prefixes satisfy the context condition *)
Example C15_nonvacuous_wf : wf_ctx ex_ctx /\ wf_ent ex_ctx ex_ent.
Proof. exact (conj ex_ctx_wf ex_ent_wf). Qed.
Example C15_nonvacuous_roundtrip :
  parse_stream current 200 true (ser_stream ex_ctx [(ex_ent, 7%N)] "MQ==")
  = ([clean_ent ex_ent; cont_ent "MQ=="], OOk, ex_ctx)
  /\ parse_stream fixed 200 true (ser_stream ex_ctx [(ex_ent, 7%N)] "MQ==")
  = ([clean_ent ex_ent; cont_ent "MQ=="], OOk, ex_ctx).
Proof. exact ex_roundtrip. Qed.
Example C15_nonvacuous_ns_prefix : forall d l, is_url (("ns" ++ d) ++ ":" ++ l) = false.
Proof. exact ns_prefix_not_url. Qed.
Example C15_nonvacuous_spec_differs :
  fst (spec_stream 40 true w_unknown_arr) <> fst (parse_stream current 40 true w_unknown_arr).
Proof. vm_compute. discriminate. Qed.
Example C15_nonvacuous_httpbin :
  resolve [("httpbin", "http://ex.org/a/"); ("https-api", "http://ex.org/b#")] "https-api:reports/2024"
  = Some (NQ "http://ex.org/b#" "reports/2024").
Proof. vm_compute. reflexivity. Qed.
Example C15_nonvacuous_fuel :
  List.length (ser_stream ex_ctx [(ex_ent, 7%N)] "MQ==") = 66%nat
  /\ parse_stream current 67 true (ser_stream ex_ctx [(ex_ent, 7%N)] "MQ==")
     = ([clean_ent ex_ent; cont_ent "MQ=="], OOk, ex_ctx).
Proof. vm_compute. split; reflexivity. Qed.
Example C15_nonvacuous_nstab : ns_consistent {| nt_mem := ["core"]; nt_disk := ["core"] |}.
Proof. reflexivity. Qed.
