(** * C14 - Stopping and starting the hub is observably a no-op.
    Only statements, each closed by [exact <lemma>], with [Print Assumptions], and non-vacuity examples.
    Model: Model/Restart.v (the hub as memory/disk pairs per subsystem; [reopen] = load of the disk side;
    security imported from Model/SecStore.v, entity data from Model/Store.v). *)
From Coq Require Import List ZArith Bool String.
From DH Require Import Model.Store Model.Acl Model.SecStore Model.Restart
     Proofs.SecStoreProofs Proofs.RestartProofs Proofs.RestartRefuted Check.C14Check Proofs.C14CheckProofs.
Import ListNotations.
Open Scope list_scope.
Open Scope Z_scope.

(** memory = load(disk) after every operation of every alphabet (data, dataset management, job management,
    security management, login providers, restarts and kills), for every history, with the five C14 flags repaired
    (the data-layer flags are free) *)
Theorem C14_synced : forall fl ops,
  sound fl -> hub_synced fl (fst (run fl ops hub_init)).
Proof. intros fl ops H. apply run_sync; [exact H | apply hub_init_sync]. Qed.
Print Assumptions C14_synced.

(** C14_reload: after ANY history a further stop/start changes no answer of any read API (dataset list with ids
    and public namespaces, listings, change feeds with their tokens, namespaces, URI ids, job definitions with
    paused flags / continuation tokens / schedule / last results, clients, ACLs, stored and live providers,
    full-sync state); the restart may sit at any position because the history before it is arbitrary *)
Theorem C14_reload : forall fl ops cl,
  sound fl -> let h := fst (run fl ops hub_init) in obs cl (reopen fl false h) = obs cl h.
Proof. exact reload_invisible. Qed.
Print Assumptions C14_reload.

(** C14_continue: stop/start after any [h1], then any [h2] (with further clean restarts anywhere): the results of
    [h2] and all final answers are those of the uninterrupted history - exactly, including every internal id,
    change position and token (a clean Close releases the unused part of the id lease: no gaps) *)
Theorem C14_continue : forall fl h1 h2 cl,
  sound fl -> Forall clean h2 ->
  let s1 := fst (run fl h1 hub_init) in
  let a := run fl h2 (reopen fl false s1) in
  let b := run fl (h1 ++ h2) hub_init in
  snd b = snd (run fl h1 hub_init) ++ snd a /\ obs cl (fst a) = obs cl (fst b).
Proof. exact continue_after_restart. Qed.
Print Assumptions C14_continue.

(** for EVERY variant of the flags (the pinned tree included) and every history with restarts and kills anywhere:
    no URI id and no dataset id is ever reused, ids of deleted datasets are never handed out again *)
Theorem C14_never_reused : forall fl ops,
  let s := h_dm (fst (run fl ops hub_init)) in
  NoDup (map fst (d_ids s)) /\ NoDup (map snd (d_ids s))
  /\ NoDup (map (fun p => r_id (snd p)) (m_reg s))
  /\ (forall n r, In (n, r) (m_reg s) -> r_id r < m_next s /\ ~ In (r_id r) (m_del s))
  /\ (forall d, In d (m_del s) -> d < m_next s).
Proof. exact never_reused. Qed.
Print Assumptions C14_never_reused.

(** ... the URI index only grows at its end (an assigned id never changes), deleted datasets stay deleted,
    the next dataset id never goes back *)
Theorem C14_only_grows : forall fl ops1 ops2,
  let s1 := h_dm (fst (run fl ops1 hub_init)) in
  let s2 := h_dm (fst (run fl (ops1 ++ ops2) hub_init)) in
  (exists l, d_ids s2 = d_ids s1 ++ l) /\ incl (m_del s1) (m_del s2) /\ m_next s1 <= m_next s2.
Proof. exact only_grows. Qed.
Print Assumptions C14_only_grows.

(** the persisted dataset record carries every field of the live one (id, public namespaces, kind, proxy / virtual
    configuration) after every operation, for every variant and every history *)
Theorem C14_record_complete : forall fl ops,
  let s := h_dm (fst (run fl ops hub_init)) in m_reg s = d_reg s.
Proof. exact record_complete. Qed.
Print Assumptions C14_record_complete.

(** correspondence link: a case (clean restarts) on which the implementation agrees with the repaired model
    satisfies the executable spec *)
Theorem C14_agree_implies_spec : forall fl c,
  sound fl -> Forall clean (c_ops c) -> agree fl c = true -> spec_ok c = true.
Proof. exact agree_implies_spec. Qed.
Print Assumptions C14_agree_implies_spec.

(** ** the pinned tree: one witness per deviation, every other flag repaired *)
Theorem C14_refuted_acl_clobber :
  visible only_acl [HSec (OpRegister "a"); HSec (OpSetAcl "a" acl1); HSec (OpRegister "b");
                    HSec (OpSetAcl "b" acl1); HSec (OpDelAcl "b")] ["a"%string].
Proof. exact refuted_acl_clobber. Qed.
Print Assumptions C14_refuted_acl_clobber.

Theorem C14_refuted_init_order : visible only_init [HSec (OpSetAcl "a" acl1)] ["a"%string].
Proof. exact refuted_init_order. Qed.
Print Assumptions C14_refuted_init_order.

Theorem C14_refuted_provider_delete : visible only_prov [HProv (PAdd 0 1); HProv (PDelete 10)] [].
Proof. exact refuted_provider_delete. Qed.
Print Assumptions C14_refuted_provider_delete.

Theorem C14_refuted_provider_case : visible only_prov [HProv (PAdd 10 1); HProv (PAdd 0 2)] [].
Proof. exact refuted_provider_case. Qed.
Print Assumptions C14_refuted_provider_case.

Theorem C14_refuted_fullsync_lost : visible only_fs fs_hist [].
Proof. exact refuted_fullsync_lost. Qed.
Print Assumptions C14_refuted_fullsync_lost.

Theorem C14_refuted_fullsync_continue :
  let fin := HDm (DPost 1 false 1 true []) in
  let a := run only_fs [fin] (reopen only_fs false (fst (run only_fs fs_hist hub_init))) in
  let b := run only_fs (fs_hist ++ [fin]) hub_init in
  snd a = [RGone] /\ snd b = [ROk; ROk; ROk; ROk] /\ obs [] (fst a) <> obs [] (fst b).
Proof. exact refuted_fullsync_continue. Qed.
Print Assumptions C14_refuted_fullsync_continue.

Theorem C14_refuted_delay_rescaled : visible only_delay [HJob (JAdd 0 cfg5)] [].
Proof. exact refuted_delay_rescaled. Qed.
Print Assumptions C14_refuted_delay_rescaled.

(** ** the pinned tree, exactly *)
(** once an ACL was deleted a restart leaves no ACL at all; while clients.json does not exist likewise *)
Theorem C14_pinned_delete_then_restart : forall im c s, mem_acls (restart im (del_acl AclFileClients c s)) = [].
Proof. exact pinned_delete_then_restart. Qed.
Print Assumptions C14_pinned_delete_then_restart.
Theorem C14_pinned_no_clients_file : forall s, disk_clients s = None -> mem_acls (restart InitAborts s) = [].
Proof. exact pinned_no_clients_file. Qed.
Print Assumptions C14_pinned_no_clients_file.

(** after a restart no dataset is in full-sync mode *)
Theorem C14_pinned_fullsync_forgotten : forall fl crash s, f_fs fl = FsVolatile -> m_fs (dm_reopen fl crash s) = [].
Proof. exact pinned_fullsync_forgotten. Qed.
Print Assumptions C14_pinned_fullsync_forgotten.

(** EVERY start changes the stored retryDelay of every reRun handler of a cron-triggered job: the rescaling has no
    fixed point in int64 (verify returns before the handlers of an onchange trigger) *)
Theorem C14_pinned_delay_always_moves : forall j c d s,
  j_trig c < 0 -> j_delay c = Some d -> - 2 ^ 63 <= d < 2 ^ 63 -> assoc j (d_jcfg s) = Some c ->
  In (j, verify_cfg DelayRescale c) (d_jcfg (job_reopen DelayRescale s))
  /\ j_delay (verify_cfg DelayRescale c) <> j_delay c.
Proof. exact pinned_delay_always_moves. Qed.
Print Assumptions C14_pinned_delay_always_moves.

(** ** non-vacuity *)
Example C14_nonvacuous_sound : sound fl_fixed.
Proof. repeat split. Qed.

Definition demo_hist : list hop :=
  [HDm (DCreate 1 plain_cfg); HDm (DCreate 2 {| g_pub := [1]; g_kind := 0; g_cfg := 0 |});
   HDm (DPost 1 false 0 false [{| w_e := 1; w_v := 10; w_t := -1; w_del := false |};
                               {| w_e := 2; w_v := 11; w_t := 1; w_del := false |}]);
   HJob (JAdd 0 {| j_paused := false; j_src := 1; j_sink := 2; j_delay := Some 5; j_trig := -1 |});
   HJob (JRun 0); HJob (JPause 0 true);
   HJob (JAdd 1 {| j_paused := false; j_src := 2; j_sink := 1; j_delay := None; j_trig := 2 |});
   HSec (OpRegister "a"); HSec (OpSetAcl "a" [ac_of_code 0; ac_of_code 5]); HSec (OpDelAcl "b");
   HProv (PAdd 0 1); HProv (PAdd 10 2);
   HDm (DPost 2 true 1 false [{| w_e := 1; w_v := 10; w_t := -1; w_del := false |}]);
   HDm (DCreate 5 {| g_pub := []; g_kind := 1; g_cfg := 7 |}); HDm (DRename 5 6);
   HDm (DDelete 1)].

(** the demo history really builds state in every subsystem (the copy job moved its token to 2, the onchange job 1 was run by the POST that opened
    the full sync on the dataset it monitors and copied two entities, the sink holds the
    two entities, a full sync is open on it, a proxy dataset was renamed and its stored record kept kind and configuration, ids 0..10 are assigned), and under the pinned flags a restart after it is visible *)
Example C14_nonvacuous_state :
  let h := fst (run fl_fixed demo_hist hub_init) in
  d_jtok (h_job h) = [(0, 2); (1, 2)] /\ d_jhist (h_job h) = [(0, (false, 2)); (1, (false, 2))] /\ map fst (m_reg (h_dm h)) = [-1; 2; 6] /\ m_del (h_dm h) = [2]
  /\ assoc 6 (d_reg (h_dm h)) = Some {| r_id := 4; r_pub := []; r_kind := 1; r_cfg := 7 |}
  /\ List.length (d_ids (h_dm h)) = 11%nat /\ amem 3 (m_fs (h_dm h)) = true
  /\ obs ["a"%string] (reopen fl_fixed false h) = obs ["a"%string] h
  /\ (let h' := fst (run fl_current demo_hist hub_init) in
      obs ["a"%string] (reopen fl_current false h') <> obs ["a"%string] h').
Proof. vm_compute. repeat split; discriminate. Qed.

(** a case built from the model's own predictions agrees with the repaired model and meets the spec *)
Definition demo_case : tcase :=
  let ops := demo_hist ++ [HRestart false; HDm (DCreate 1 plain_cfg); HJob (JRun 0); HRestart false] in
  let '(h, rs, ps) := run_obs fl_fixed ["a"%string] ops hub_init in
  let '(hr, rrs) := run fl_fixed (strip ops) hub_init in
  {| c_ops := ops; c_clients := ["a"%string]; o_res := rs; o_pairs := ps; o_full := map same ps;
     o_final := obs ["a"%string] h; o_refres := rrs; o_reffinal := obs ["a"%string] hr; o_reffull := true |}.
Example C14_nonvacuous_case :
  agree fl_fixed demo_case = true /\ spec_ok demo_case = true /\ agree fl_current demo_case = false
  /\ List.length (o_pairs demo_case) = 2%nat.
Proof. vm_compute. repeat split. Qed.

(** on the entity alphabet of the driver the write-time equality is the same under every setting of the data-layer
    flags: the C14 correspondence does not depend on the repairs of F01a / F02b *)
Theorem C14_alphabet_flag_free : forall fl v t d v' t' d',
  content_eqb fl (mkc v t d) (mkc v' t' d') = identical (mkc v t d) (mkc v' t' d').
Proof. exact mkc_eqb_flag_free. Qed.
Print Assumptions C14_alphabet_flag_free.
