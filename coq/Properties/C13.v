(** * C13 - Namespace prefixes and internal identifiers are one-to-one, permanent, race-free.
    Only statements, each closed by [exact <lemma>] (or a short wrapper), with [Print Assumptions]. *)
From Coq Require Import List NArith Bool Arith Lia.
From DH Require Import Model.Namespace Model.Ids Proofs.NamespaceProofs Proofs.IdsProofs Check.C13Check Proofs.C13CheckProofs.
Import ListNotations.
Open Scope N_scope.

(** strconv.Itoa is injective, so "ns<N>" names are pairwise distinct and contain no ':' *)
Theorem C13_prefix_names : forall a b, (ns_name a = ns_name b -> a = b) /\ ~ In c_colon (ns_name a).
Proof. intros a b. split; [apply ns_name_inj | apply ns_name_no_colon]. Qed.
Print Assumptions C13_prefix_names.

(** Round trip, for every reachable manager state (any op sequence incl. restarts, either accessor
    variant) and EVERY http(s) URI (hash or slash namespace, empty local part, colons anywhere):
    compaction succeeds, and the CURIE expands to exactly that URI at once and after any continuation. *)
Theorem C13_roundtrip : forall a ops u,
  is_http u = true ->
  let w := fst (ns_run a ops nsw_init) in
  exists c, snd (ns_step a (NCompact u) w) = OStr c
    /\ forall ops', expand_curie c (nst (fst (ns_run a ops' (fst (ns_step a (NCompact u) w))))) = Some u.
Proof.
  intros a ops u Hh w. apply ns_roundtrip; [|exact Hh].
  apply (ns_run_inv a ops nsw_init nsw_inv_init).
Qed.
Print Assumptions C13_roundtrip.

(** two URIs that were ever given the same CURIE are the same URI *)
Theorem C13_compact_injective : forall a ops1 ops2 u1 u2 c,
  let w1 := fst (ns_run a ops1 nsw_init) in
  let w2 := fst (ns_run a ops2 (fst (ns_step a (NCompact u1) w1))) in
  is_http u1 = true -> is_http u2 = true ->
  snd (ns_step a (NCompact u1) w1) = OStr c -> snd (ns_step a (NCompact u2) w2) = OStr c -> u1 = u2.
Proof. exact ns_compact_injective. Qed.
Print Assumptions C13_compact_injective.

(** Bijection: after any op sequence (assert / compact / GetNamespacedIdentifier / lookups / context
    fetches and reads / restart at any position) the prefix map and the expansion map are mutually
    inverse, the prefixes are exactly ns0..ns(n-1), and the persisted object equals the memory maps. *)
Theorem C13_bijection : forall a ops,
  let m := mem (nst (fst (ns_run a ops nsw_init))) in
  (forall p e, slookup p (p2e m) = Some e <-> slookup e (e2p m) = Some p)
  /\ map fst (p2e m) = map ns_name (seq 0 (length (p2e m)))
  /\ dsk (nst (fst (ns_run a ops nsw_init))) = m
  /\ (forall p1 p2 e, slookup p1 (p2e m) = Some e -> slookup p2 (p2e m) = Some e -> p1 = p2)
  /\ (forall e1 e2 p, slookup e1 (e2p m) = Some p -> slookup e2 (e2p m) = Some p -> e1 = e2).
Proof.
  intros a ops m. destruct (ns_bijection a ops) as [Hi Hd]. fold m in Hi.
  split; [apply Hi|]. split; [apply Hi|]. split; [exact Hd|].
  split; [intros p1 p2 e; apply nsinv_p2e_inj; exact Hi | intros e1 e2 p; apply nsinv_e2p_inj; exact Hi].
Qed.
Print Assumptions C13_bijection.

(** the maps only grow: a mapping handed out after [ops1] is unchanged after any continuation *)
Theorem C13_permanent : forall a ops1 ops2 p e,
  let w1 := fst (ns_run a ops1 nsw_init) in
  let w2 := fst (ns_run a ops2 w1) in
  (slookup p (p2e (mem (nst w1))) = Some e -> slookup p (p2e (mem (nst w2))) = Some e)
  /\ (slookup e (e2p (mem (nst w1))) = Some p -> slookup e (e2p (mem (nst w2))) = Some p).
Proof. exact ns_permanent. Qed.
Print Assumptions C13_permanent.

(** Snapshot (repaired accessor): whatever is asserted after a context was handed out, reading that
    context later shows exactly what it showed when it was fetched. *)
Theorem C13_snapshot : forall ops, snapshot_ok [] (combine ops (snd (ns_run AliasCopy ops nsw_init))) = true.
Proof. exact ns_snapshot. Qed.
Print Assumptions C13_snapshot.

(** F13a: the pinned accessor returns the live map - the earlier response grows (also the root cause
    of Go's fatal "concurrent map iteration and map write", which the model can only name) *)
Theorem C13_refuted_alias : exists ops, snapshot_ok [] (combine ops (snd (ns_run AliasLive ops nsw_init))) = false.
Proof. exists [NFetch; NCompact x_uri; NRead 0]. vm_compute. reflexivity. Qed.
Print Assumptions C13_refuted_alias.

(** Internal ids, for ALL interleavings of assertIDForURI / commitIDTxn (main and contextual stores) /
    NewContextualStore / clean restart / crash, every lease size >= 1, both variants:
    no id is ever returned for two different URIs (none reused after restart or crash), and the two
    persisted indexes are each other's inverse. *)
Theorem C13_ids_injective : forall L m ops, 1 <= L ->
  let st := fst (id_run m L ops (id_init L)) in
  (forall u u' i, In (u, i) (hist st) -> In (u', i) (hist st) -> u = u')
  /\ (forall u i, slookup u (disk st) = Some i <-> rlookup i (disk st) = Some u).
Proof.
  intros L m ops HL st. split.
  - exact (ids_injective L HL m ops).
  - intros u i. apply ids_tables_inverse. exact (ids_reachable_inv L HL m ops).
Qed.
Print Assumptions C13_ids_injective.

(** a committed (URI, id) pair stays committed and stays the answer for that URI for ever *)
Theorem C13_ids_committed_stable : forall L m ops ops' u i, 1 <= L -> u <> [] ->
  let st := fst (id_run m L ops (id_init L)) in
  In (u, i) (disk st) ->
  let st' := fst (id_run m L ops' st) in
  In (u, i) (disk st')
  /\ (snd (assert_id L u st') = RId i false \/ (snd (assert_id L u st') = RPanic /\ mref st' = MDead)).
Proof.
  intros L m ops ops' u i HL Hne st Hin. apply (ids_committed_stable L HL m st u i ops'); try assumption.
  exact (ids_reachable_inv L HL m ops).
Qed.
Print Assumptions C13_ids_committed_stable.

(** Repaired contextual store: a commit through ANY store makes every id the transaction has handed
    out durable; from then on that id is the answer for its URI for ever; no request ever panics or
    hits a discarded transaction. *)
Theorem C13_ids_stable_fixed : forall L ops k ops' u i, 1 <= L -> u <> [] ->
  let st := fst (id_run CtxShared L ops (id_init L)) in
  In (u, i) (view st) ->
  let st1 := fst (id_step CtxShared L (ICommitCtx k) st) in
  let st' := fst (id_run CtxShared L ops' st1) in
  snd (id_step CtxShared L (ICommitCtx k) st) = ROk /\ pend st1 = [] /\ In (u, i) (disk st')
  /\ snd (assert_id L u st') = RId i false.
Proof.
  intros L ops k ops' u i HL Hne st Hin.
  apply (ids_stable L HL k st u i ops'); try assumption.
  - exact (ids_reachable_inv L HL CtxShared ops).
  - apply (shared_run_alive L HL ops); [apply idinv_init | cbn; discriminate].
Qed.
Print Assumptions C13_ids_stable_fixed.

Theorem C13_ids_no_failure_fixed : forall L ops, 1 <= L ->
  Forall (fun o => o <> RPanic /\ o <> RErrDiscarded) (snd (id_run CtxShared L ops (id_init L))).
Proof. intros L ops HL. apply (ids_shared_no_failure L HL); [apply idinv_init | cbn; discriminate]. Qed.
Print Assumptions C13_ids_no_failure_fixed.

(** F13b, exact characterisation: a contextual store whose captured transaction had writes and is no
    longer the parent's open one fails EVERY commit, for every continuation without a restart. *)
Theorem C13_ctxstore_dead_forever : forall L k g ops st, 1 <= L ->
  idinv st -> ctx_dead k g st -> (forall c, ~ In (IRestart c) ops) ->
  commit_ctx CtxCopyPtr k (fst (id_run CtxCopyPtr L ops st)) = (fst (id_run CtxCopyPtr L ops st), RErrDiscarded).
Proof. intros L k g ops st HL. exact (ctx_dead_forever L HL k g ops st). Qed.
Print Assumptions C13_ctxstore_dead_forever.

Theorem C13_refuted_ctxstore :
  let st := fst (id_run CtxCopyPtr 1000 [IAssert u1; INewCtx; ICommitMain; IAssert u2] (id_init 1000)) in
  ctx_dead 0 1 st /\ snd (id_step CtxCopyPtr 1000 (ICommitCtx 0) st) = RErrDiscarded.
Proof. exact refuted_ctx_discarded. Qed.
Print Assumptions C13_refuted_ctxstore.

(** F13c: ids handed out through the pinned contextual store are not made durable by its commit:
    after a clean restart the same URI gets another id (0 before, 2 after) *)
Theorem C13_refuted_ctx_lost :
  snd (id_run CtxCopyPtr 1000 [INewCtx; IAssert u1; ICommitCtx 0; IRestart false; IAssert u2; IAssert u1] (id_init 1000))
  = [ROk; RId 0 true; ROk; ROk; RId 1 true; RId 2 true].
Proof. exact refuted_ctx_lost. Qed.
Print Assumptions C13_refuted_ctx_lost.

(** F13d: the pinned contextual store commits the transaction its parent still points to: the parent
    panics on the next assertion and cannot commit *)
Theorem C13_refuted_ctx_poison :
  snd (id_run CtxCopyPtr 1000 [IAssert u1; INewCtx; ICommitCtx 0; IAssert u2; ICommitMain] (id_init 1000))
  = [RId 0 true; ROk; ROk; RPanic; RErrDiscarded].
Proof. exact refuted_ctx_poison. Qed.
Print Assumptions C13_refuted_ctx_poison.

(** Tie to the correspondence check (partial): on a case where the implementation agrees with the
    repaired model, every op was answered, no write panicked or hit a discarded transaction and every
    context read shows what was fetched.
    Full statement, NOT proved here: [agree v_fixed c = true -> spec_ok c = true].  Gap: [spec_ok]
    additionally judges every handed-out prefix / CURIE / internal id against the last dump of the
    tables; at model level that is C13_permanent, C13_roundtrip, C13_ids_committed_stable and
    C13_ids_stable_fixed, but the lifting of those to the batch-level [wrun] (ids returned by
    [run_ents] are in the view that the following commit makes durable) is not mechanised.  The
    check evaluates [spec_ok] on every case and the engine reports a spec failure under the fixed
    variant as an oracle inconsistency. *)
Theorem C13_agree_implies_spec_partial : forall c, agree v_fixed c = true -> spec_core c = true.
Proof. exact agree_fixed_spec_core. Qed.
Print Assumptions C13_agree_implies_spec_partial.

(** non-vacuity / regression witnesses: the executable spec separates the variants on the witness
    histories that lib/props/c13.py replays on the real code *)
Example C13_nonvacuous_verdicts :
  map (fun w => (verdict v_current w, verdict v_fixed w)) [wit_alias; wit_discarded; wit_poison]
  = [(false, true); (false, true); (false, true)].
Proof. vm_compute. reflexivity. Qed.

Example C13_nonvacuous_roundtrip :
  let '(st, c) := compact x_uri (nst (wns (w_setup v_fixed L_go dss_ab))) in
  c = Some x_curie /\ expand_curie x_curie st = Some x_uri
  /\ url_parts x_nopath = Some x_nopath_parts /\ url_parts x_hashslash = Some x_hashslash_parts.
Proof. vm_compute. repeat split; reflexivity. Qed.

Example C13_nonvacuous_lease :
  snd (id_run CtxShared 1000 [IAssert u1; IRestart true; IAssert u2; ICommitMain; IRestart false; IAssert u3; IAssert u1]
              (id_init 1000))
  = [RId 0 true; ROk; RId 1000 true; ROk; ROk; RId 1001 true; RId 1002 true].
Proof. exact lease_example. Qed.
