(** * C13 - Namespace prefixes and internal identifiers are one-to-one, permanent, race-free.
    Only statements, each closed by [exact <lemma>] (or a short wrapper), with [Print Assumptions]. *)
From Coq Require Import List NArith Bool Arith Lia.
From DH Require Import Model.Namespace Model.Ids Proofs.NamespaceProofs Proofs.IdsProofs Check.C13Check Proofs.C13CheckProofs Proofs.C13LinkProofs.
Import ListNotations.
Open Scope N_scope.

(** strconv.Itoa is injective, so "ns<N>" names are pairwise distinct and contain no ':' *)
Theorem C13_prefix_names : forall a b, (ns_name a = ns_name b -> a = b) /\ ~ In c_colon (ns_name a).
Proof. intros a b. split; [apply ns_name_inj | apply ns_name_no_colon]. Qed.
Print Assumptions C13_prefix_names.

(** Round trip, for every reachable manager state (any op sequence incl. restarts, either accessor
    variant) and EVERY http(s) URI (hash or slash namespace, empty local part, colons anywhere):
    compaction succeeds, and the CURIE expands to exactly that URI at once and after any continuation. *)
Theorem C13_roundtrip : forall a ops u,
  is_http u = true ->
  let w := fst (ns_run a ops nsw_init) in
  exists c, snd (ns_step a (NCompact u) w) = OStr c
    /\ forall ops', expand_curie c (nst (fst (ns_run a ops' (fst (ns_step a (NCompact u) w))))) = Some u.
Proof.
  intros a ops u Hh w. apply ns_roundtrip; [|exact Hh].
  apply (ns_run_inv a ops nsw_init nsw_inv_init).
Qed.
Print Assumptions C13_roundtrip.

(** two URIs that were ever given the same CURIE are the same URI *)
Theorem C13_compact_injective : forall a ops1 ops2 u1 u2 c,
  let w1 := fst (ns_run a ops1 nsw_init) in
  let w2 := fst (ns_run a ops2 (fst (ns_step a (NCompact u1) w1))) in
  is_http u1 = true -> is_http u2 = true ->
  snd (ns_step a (NCompact u1) w1) = OStr c -> snd (ns_step a (NCompact u2) w2) = OStr c -> u1 = u2.
Proof. exact ns_compact_injective. Qed.
Print Assumptions C13_compact_injective.

(** Bijection: after any op sequence (assert / compact / GetNamespacedIdentifier / lookups / context
    fetches and reads / restart at any position) the prefix map and the expansion map are mutually
    inverse, the prefixes are exactly ns0..ns(n-1), and the persisted object equals the memory maps. *)
Theorem C13_bijection : forall a ops,
  let m := mem (nst (fst (ns_run a ops nsw_init))) in
  (forall p e, slookup p (p2e m) = Some e <-> slookup e (e2p m) = Some p)
  /\ map fst (p2e m) = map ns_name (seq 0 (length (p2e m)))
  /\ dsk (nst (fst (ns_run a ops nsw_init))) = m
  /\ (forall p1 p2 e, slookup p1 (p2e m) = Some e -> slookup p2 (p2e m) = Some e -> p1 = p2)
  /\ (forall e1 e2 p, slookup e1 (e2p m) = Some p -> slookup e2 (e2p m) = Some p -> e1 = e2).
Proof.
  intros a ops m. destruct (ns_bijection a ops) as [Hi Hd]. fold m in Hi.
  split; [apply Hi|]. split; [apply Hi|]. split; [exact Hd|].
  split; [intros p1 p2 e; apply nsinv_p2e_inj; exact Hi | intros e1 e2 p; apply nsinv_e2p_inj; exact Hi].
Qed.
Print Assumptions C13_bijection.

(** the maps only grow: a mapping handed out after [ops1] is unchanged after any continuation *)
Theorem C13_permanent : forall a ops1 ops2 p e,
  let w1 := fst (ns_run a ops1 nsw_init) in
  let w2 := fst (ns_run a ops2 w1) in
  (slookup p (p2e (mem (nst w1))) = Some e -> slookup p (p2e (mem (nst w2))) = Some e)
  /\ (slookup e (e2p (mem (nst w1))) = Some p -> slookup e (e2p (mem (nst w2))) = Some p).
Proof. exact ns_permanent. Qed.
Print Assumptions C13_permanent.

(** Snapshot (repaired accessor): whatever is asserted after a context was handed out, reading that
    context later shows exactly what it showed when it was fetched. *)
Theorem C13_snapshot : forall ops, snapshot_ok [] (combine ops (snd (ns_run AliasCopy ops nsw_init))) = true.
Proof. exact ns_snapshot. Qed.
Print Assumptions C13_snapshot.

(** F13a: the pinned accessor returns the live map - the earlier response grows (also the root cause
    of Go's fatal "concurrent map iteration and map write", which the model can only name) *)
Theorem C13_refuted_alias : exists ops, snapshot_ok [] (combine ops (snd (ns_run AliasLive ops nsw_init))) = false.
Proof. exists [NFetch; NCompact x_uri; NRead 0]. vm_compute. reflexivity. Qed.
Print Assumptions C13_refuted_alias.

(** Internal ids, for ALL interleavings of assertIDForURI / commitIDTxn (main and contextual stores) /
    NewContextualStore / clean restart / crash, every lease size >= 1, both variants:
    no id is ever returned for two different URIs (none reused after restart or crash), and the two
    persisted indexes are each other's inverse. *)
Theorem C13_ids_injective : forall L m ops, 1 <= L ->
  let st := fst (id_run m L ops (id_init L)) in
  (forall u u' i, In (u, i) (hist st) -> In (u', i) (hist st) -> u = u')
  /\ (forall u i, slookup u (disk st) = Some i <-> rlookup i (disk st) = Some u).
Proof.
  intros L m ops HL st. split.
  - exact (ids_injective L HL m ops).
  - intros u i. apply ids_tables_inverse. exact (ids_reachable_inv L HL m ops).
Qed.
Print Assumptions C13_ids_injective.

(** a committed (URI, id) pair stays committed and stays the answer for that URI for ever *)
Theorem C13_ids_committed_stable : forall L m ops ops' u i, 1 <= L -> u <> [] ->
  let st := fst (id_run m L ops (id_init L)) in
  In (u, i) (disk st) ->
  let st' := fst (id_run m L ops' st) in
  In (u, i) (disk st')
  /\ (snd (assert_id L u st') = RId i false \/ (snd (assert_id L u st') = RPanic /\ mref st' = MDead)).
Proof.
  intros L m ops ops' u i HL Hne st Hin. apply (ids_committed_stable L HL m st u i ops'); try assumption.
  exact (ids_reachable_inv L HL m ops).
Qed.
Print Assumptions C13_ids_committed_stable.

(** Repaired contextual store: a commit through ANY store makes every id the transaction has handed
    out durable; from then on that id is the answer for its URI for ever; no request ever panics or
    hits a discarded transaction. *)
Theorem C13_ids_stable_fixed : forall L ops k ops' u i, 1 <= L -> u <> [] ->
  let st := fst (id_run CtxShared L ops (id_init L)) in
  In (u, i) (view st) ->
  let st1 := fst (id_step CtxShared L (ICommitCtx k) st) in
  let st' := fst (id_run CtxShared L ops' st1) in
  snd (id_step CtxShared L (ICommitCtx k) st) = ROk /\ pend st1 = [] /\ In (u, i) (disk st')
  /\ snd (assert_id L u st') = RId i false.
Proof.
  intros L ops k ops' u i HL Hne st Hin.
  apply (ids_stable L HL k st u i ops'); try assumption.
  - exact (ids_reachable_inv L HL CtxShared ops).
  - apply (shared_run_alive L HL ops); [apply idinv_init | cbn; discriminate].
Qed.
Print Assumptions C13_ids_stable_fixed.

Theorem C13_ids_no_failure_fixed : forall L ops, 1 <= L ->
  Forall (fun o => o <> RPanic /\ o <> RErrDiscarded) (snd (id_run CtxShared L ops (id_init L))).
Proof. intros L ops HL. apply (ids_shared_no_failure L HL); [apply idinv_init | cbn; discriminate]. Qed.
Print Assumptions C13_ids_no_failure_fixed.

(** F13b, exact characterisation: a contextual store whose captured transaction had writes and is no
    longer the parent's open one fails EVERY commit, for every continuation without a restart. *)
Theorem C13_ctxstore_dead_forever : forall L k g ops st, 1 <= L ->
  idinv st -> ctx_dead k g st -> (forall c, ~ In (IRestart c) ops) ->
  commit_ctx CtxCopyPtr k (fst (id_run CtxCopyPtr L ops st)) = (fst (id_run CtxCopyPtr L ops st), RErrDiscarded).
Proof. intros L k g ops st HL. exact (ctx_dead_forever L HL k g ops st). Qed.
Print Assumptions C13_ctxstore_dead_forever.

Theorem C13_refuted_ctxstore :
  let st := fst (id_run CtxCopyPtr 1000 [IAssert u1; INewCtx; ICommitMain; IAssert u2] (id_init 1000)) in
  ctx_dead 0 1 st /\ snd (id_step CtxCopyPtr 1000 (ICommitCtx 0) st) = RErrDiscarded.
Proof. exact refuted_ctx_discarded. Qed.
Print Assumptions C13_refuted_ctxstore.

(** F13c: ids handed out through the pinned contextual store are not made durable by its commit:
    after a clean restart the same URI gets another id (0 before, 2 after) *)
Theorem C13_refuted_ctx_lost :
  snd (id_run CtxCopyPtr 1000 [INewCtx; IAssert u1; ICommitCtx 0; IRestart false; IAssert u2; IAssert u1] (id_init 1000))
  = [ROk; RId 0 true; ROk; ROk; RId 1 true; RId 2 true].
Proof. exact refuted_ctx_lost. Qed.
Print Assumptions C13_refuted_ctx_lost.

(** Read side: for every reachable state (all interleavings, restarts and crashes, both variants) every
    committed identifier is resolved to exactly the id the write side handed out - including the very
    first identifier of a store, whose id is 0 because the sequence starts there.  Reading "0" as "no id"
    is refuted: it loses the first identifier the driver's store ever asserts. *)
Theorem C13_read_side_agrees : forall L m ops u i, 1 <= L ->
  let st := fst (id_run m L ops (id_init L)) in
  In (u, i) (disk st) -> read_id st u = Some i.
Proof. intros L m ops u i HL st. apply read_id_committed. exact (ids_reachable_inv L HL m ops). Qed.
Print Assumptions C13_read_side_agrees.

Theorem C13_refuted_read_nonzero :
  let st := wid (w_setup v_fixed L_go dss_ab) in
  read_id st (s_ns0c ++ s_core) = Some 0 /\ read_id_nz st (s_ns0c ++ s_core) = None
  /\ read_id_nz st s_type = read_id st s_type.
Proof. vm_compute. repeat split; reflexivity. Qed.
Print Assumptions C13_refuted_read_nonzero.

(** F13c, exact characterisation.  (1) A restart or crash loses exactly the pairs that were still
    pending in the id transaction: a committed pair stays the answer, a pending pair is gone and its
    URI is given a strictly larger id - for every reachable state, either variant.  (2) On the same
    state the pinned contextual store (created while its parent had no id transaction - the normal
    case) commits NOTHING and reports success, the repaired one makes the whole view durable. *)
Theorem C13_restart_loses_exactly_pending : forall L m ops crash u i, 1 <= L -> u <> [] ->
  let st := fst (id_run m L ops (id_init L)) in
  In (u, i) (view st) ->
  let st2 := id_restart L crash st in
  (In (u, i) (disk st) -> snd (assert_id L u st2) = RId i false)
  /\ (In (u, i) (pend st) -> exists j, snd (assert_id L u st2) = RId j true /\ i < j).
Proof.
  intros L m ops crash u i HL Hne st Hin.
  apply (restart_loses_exactly_pending L HL crash st u i); try assumption.
  exact (ids_reachable_inv L HL m ops).
Qed.
Print Assumptions C13_restart_loses_exactly_pending.

Theorem C13_ctx_commit_variants : forall k st,
  idinv st -> alive st -> nth_error (ctxs st) k = Some None ->
  (fst (commit_ctx CtxCopyPtr k st) = st /\ snd (commit_ctx CtxCopyPtr k st) = ROk)
  /\ (pend (fst (commit_ctx CtxShared k st)) = [] /\ disk (fst (commit_ctx CtxShared k st)) = view st
      /\ snd (commit_ctx CtxShared k st) = ROk).
Proof. exact ctx_commit_variants. Qed.
Print Assumptions C13_ctx_commit_variants.

(** the hypotheses of the two statements are met by a reachable state with a pending id *)
Example C13_lost_nonvacuous :
  let st := fst (id_run CtxCopyPtr 1000 [INewCtx; IAssert u1] (id_init 1000)) in
  nth_error (ctxs st) 0 = Some None /\ pend st = [(u1, 0)] /\ mref st = MOpen.
Proof. vm_compute. repeat split; reflexivity. Qed.

(** F13d: the pinned contextual store commits the transaction its parent still points to: the parent
    panics on the next assertion and cannot commit *)
Theorem C13_refuted_ctx_poison :
  snd (id_run CtxCopyPtr 1000 [IAssert u1; INewCtx; ICommitCtx 0; IAssert u2; ICommitMain] (id_init 1000))
  = [RId 0 true; ROk; ROk; RPanic; RErrDiscarded].
Proof. exact refuted_ctx_poison. Qed.
Print Assumptions C13_refuted_ctx_poison.

(** Tie to the correspondence check, FULL: on a case whose op sequence ends with a dump (every
    generated case does - [spec_ok] judges all events against the last dump, see
    C13_ends_dump_needed) and on which the implementation agrees with the repaired model, the whole
    executable spec holds on the implementation's observations: every handed-out prefix, CURIE and
    internal id still means the same in the last dump, all dumps are mutually inverse, snapshots hold,
    handed-out CURIEs stay expandable, nothing panicked or hit a discarded transaction. *)
Theorem C13_agree_implies_spec : forall c,
  ends_dump (c_ops c) = true -> agree v_fixed c = true -> spec_ok c = true.
Proof. exact agree_fixed_spec. Qed.
Print Assumptions C13_agree_implies_spec.

(** the trace-local part needs no hypothesis on the op sequence *)
Theorem C13_agree_implies_spec_partial : forall c, agree v_fixed c = true -> spec_core c = true.
Proof. exact agree_fixed_spec_core. Qed.
Print Assumptions C13_agree_implies_spec_partial.

(** the batch-level run of the repaired model, for every lease size >= 1 and every op sequence from
    the driver's initial store: invariants hold at the end, every dump is mutually inverse, and every
    event is consistent with the tables of the final world *)
Theorem C13_wrun_fixed : forall L dss ops, 1 <= L ->
  let w0 := w_setup v_fixed L dss in
  let w' := fst (wrun v_fixed L ops w0) in
  winv w' /\ wext w0 w' /\ forallb dump_ok (snd (wrun v_fixed L ops w0)) = true
  /\ forallb (spec_event (tables_of w')) (combine ops (snd (wrun v_fixed L ops w0))) = true.
Proof.
  intros L dss ops HL w0 w'.
  destruct (wrun_strong L HL ops w0 (winv_setup L HL dss)) as (A & B & C & D).
  split; [exact A|]. split; [exact B|]. split; [exact C|]. apply D, text_final, A.
Qed.
Print Assumptions C13_wrun_fixed.

(** Commit order, over ALL crash points: in the repaired model (id transaction committed before the
    entity transaction, as the code does) every (identifier, internal id) pair carried by a durable
    entity version or reference key has its durable URI<->id record - after every op sequence,
    including writes during which the process dies before the id commit, between the two commits or
    after both ([HCrashWrite _ _ _ _ pt] for every pt, through StoreEntities, ExecuteTransaction and
    contextual stores), clean restarts and crashes anywhere, every lease size >= 1. *)
Theorem C13_stored_ids_durable : forall L dss ops, 1 <= L ->
  let w := fst (wrun v_fixed L ops (w_setup v_fixed L dss)) in
  incl (wstored w) (disk (wid w)).
Proof.
  intros L dss ops HL w. destruct (wrun_strong L HL ops _ (winv_setup L HL dss)) as ((_ & _ & _ & H) & _). exact H.
Qed.
Print Assumptions C13_stored_ids_durable.

(** refutation of the swapped order (entity transaction first): a crash between the two commits
    leaves a stored entity whose internal id has no URI record; the identifier then gets a second id.
    With the code's order the same histories are fine at every crash point. *)
Theorem C13_refuted_swapped_commit_order :
  stored_durable (fst (wrun v_swapped L_go wit_crash_min (w_setup v_swapped L_go dss_ab))) = false
  /\ map (fun pt => (verdict v_fixed (wit_crash pt), verdict v_swapped (wit_crash pt))) [0; 1; 2]%nat
     = [(true, true); (true, false); (true, true)].
Proof. vm_compute. split; reflexivity. Qed.
Print Assumptions C13_refuted_swapped_commit_order.

(** Contexts served to readers are functions of the manager's table at that moment: whatever a
    request does with the context it was given (a JSON-LD page adds its fixed prefixes to its own copy),
    no other reader sees it; and there is no stale context - once a namespace has its prefix, every
    context of a dataset that declares it shows it under that prefix, for every reachable state. *)
Theorem C13_context_function_of_table : forall a w exps,
  ns_step a NCtxAll w = (w, OCtx (p2e (mem (nst w))))
  /\ ns_step a (NDsCtx exps) w = (w, OCtx (ctx_of exps (nst w)))
  /\ ns_step a NJsonLD w = (w, ONone).
Proof. intros. repeat split. Qed.
Print Assumptions C13_context_function_of_table.

Theorem C13_dataset_context_fresh : forall a ops exps p e,
  let st := nst (fst (ns_run a ops nsw_init)) in
  slookup p (p2e (mem st)) = Some e -> In e exps -> has_mapping (ctx_of exps st) p e = true.
Proof.
  intros a ops exps p e st Hp Hin. apply dsctx_fresh; try assumption.
  apply (ns_run_inv a ops nsw_init nsw_inv_init).
Qed.
Print Assumptions C13_dataset_context_fresh.

Example C13_dsctx_nonvacuous :
  verdict v_fixed wit_dsctx = true
  /\ nth 0 (snd (wrun v_fixed L_go wit_dsctx (w_setup v_fixed L_go dss_ab))) HOUnit = HONs (OCtx [([], x_pub)])
  /\ nth 4 (snd (wrun v_fixed L_go wit_dsctx (w_setup v_fixed L_go dss_ab))) HOUnit = HONs (OCtx [(ns_name 3, x_pub)]).
Proof. vm_compute. repeat split; reflexivity. Qed.

(** One split function for every entry point.  Store.GetNamespacedIdentifier*, the stream parser of
    POST /entities and of the HTTP dataset source, and the HttpTransform shim all compact a full URI the
    same way, so the model has ONE [compact]: the CURIE handed out for u is determined by [url_parts u]
    (a function of the URI only: after the last '#' if there is one, else after the last '/') and by the
    prefix of that expansion - hence, for every op sequence with restarts/crashes anywhere, compacting
    the same URI again (whenever, through whichever entry point) gives the same CURIE. *)
Theorem C13_split_function : forall a ops u c,
  let w := fst (ns_run a ops nsw_init) in
  snd (ns_step a (NCompact u) w) = OStr c ->
  exists e l p, url_parts u = Some (e, l) /\ c = p ++ c_colon :: l
                /\ slookup p (p2e (mem (nst (fst (ns_step a (NCompact u) w))))) = Some e.
Proof.
  intros a ops u c w. cbn [ns_step]. destruct (compact u (nst w)) as [st' r] eqn:E. cbn [fst snd nst with_st].
  destruct r as [c0|]; cbn [opt_out]; [|discriminate]. intros [= <-].
  apply (compact_shape u (nst w) st' c0); [|exact E]. apply (ns_run_inv a ops nsw_init nsw_inv_init).
Qed.
Print Assumptions C13_split_function.

Theorem C13_one_identifier_one_curie : forall L dss ops, 1 <= L ->
  compact_fun_ok [] (ns_events (combine ops (snd (wrun v_fixed L ops (w_setup v_fixed L dss))))) = true.
Proof.
  intros L dss ops HL. apply (compact_fun_run L HL); [apply (winv_setup L HL) | intros u c []].
Qed.
Print Assumptions C13_one_identifier_one_curie.

(** the other rule ("after the last '#' or '/'") is a different function: it disagrees exactly on URIs
    like this one, a hash namespace with a slash in the local part *)
Theorem C13_refuted_split_any :
  url_parts x_hash_slash <> url_parts_any x_hash_slash
  /\ url_parts x_nopath = url_parts_any x_nopath /\ url_parts x_uri = url_parts_any x_uri.
Proof. split; [vm_compute; discriminate | split; vm_compute; reflexivity]. Qed.
Print Assumptions C13_refuted_split_any.

(** the hypothesis of C13_agree_implies_spec is met by the witness histories and is needed: an
    assertion after the last dump is judged against tables that cannot contain it *)
Example C13_ends_dump_nonvacuous :
  map ends_dump [wit_alias; wit_discarded; wit_poison; wit_lost] = [true; true; true; true].
Proof. vm_compute. reflexivity. Qed.
Example C13_ends_dump_needed :
  let ops := [HDump; HNs (NCompact x_uri)] in
  ends_dump ops = false /\ verdict v_fixed ops = false /\ verdict v_fixed (ops ++ [HDump]) = true.
Proof. vm_compute. repeat split; reflexivity. Qed.

(** non-vacuity / regression witnesses: the executable spec separates the variants on the witness
    histories that lib/props/c13.py replays on the real code *)
Example C13_nonvacuous_verdicts :
  map (fun w => (verdict v_current w, verdict v_fixed w)) [wit_alias; wit_discarded; wit_poison; wit_lost]
  = [(false, true); (false, true); (false, true); (false, true)].
Proof. vm_compute. reflexivity. Qed.

Example C13_nonvacuous_roundtrip :
  let '(st, c) := compact x_uri (nst (wns (w_setup v_fixed L_go dss_ab))) in
  c = Some x_curie /\ expand_curie x_curie st = Some x_uri
  /\ url_parts x_nopath = Some x_nopath_parts /\ url_parts x_hashslash = Some x_hashslash_parts.
Proof. vm_compute. repeat split; reflexivity. Qed.

Example C13_nonvacuous_lease :
  snd (id_run CtxShared 1000 [IAssert u1; IRestart true; IAssert u2; ICommitMain; IRestart false; IAssert u3; IAssert u1]
              (id_init 1000))
  = [RId 0 true; ROk; RId 1000 true; ROk; ROk; RId 1001 true; RId 1002 true].
Proof. exact lease_example. Qed.
