(** * C13 - Namespace prefixes and internal identifiers are one-to-one, permanent, race-free. *)
From Coq Require Import List NArith Bool.
From DH Require Import Model.Namespace Model.Ids Check.C13Check.
Import ListNotations.
Open Scope N_scope.

Example C13_nonvacuous_dec : dec 1234 = [49; 50; 51; 52].
Proof. vm_compute. reflexivity. Qed.
