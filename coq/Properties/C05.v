(** * C05 - Concurrent writers serialize per dataset, are atomically visible, never deadlock.
    Only statements, each closed by [exact <lemma>], with [Print Assumptions]. *)
From Coq Require Import List NArith Bool Arith.
From DH Require Import Model.Locks Proofs.LocksProofs Proofs.LocksSerial Proofs.LocksOrder Check.C05Check Proofs.C05CheckProofs.
Import ListNotations.

(** Any finite set of threads whose programs respect the lock order
    #dsm < datasets by name < core.Dataset: every configuration reachable by ANY
    interleaving is terminal or can move (no deadlock) - any number of threads and locks. *)
Theorem C05_deadlock_free : forall ps c,
  Forall (ordered []) ps -> steps (init_config ps) c ->
  terminal c = true \/ exists c', step c c'.
Proof. exact deadlock_free. Qed.
Print Assumptions C05_deadlock_free.

(** ... in particular for any finite set of clients, each running any sequence of
    batches, transactions (locked in name order, core.Dataset not nameable), dataset
    create / rename / delete, exactly as the code nests its locks. *)
Theorem C05_deadlock_free_ops : forall v (clients : list (list op)) c,
  v_order v = Sorted -> forallb (forallb (op_safe v)) clients = true ->
  steps (init_config (map (prog_of_ops v) clients)) c ->
  terminal c = true \/ exists c', step c c'.
Proof. exact deadlock_free_ops. Qed.
Print Assumptions C05_deadlock_free_ops.

(** The same for ANY comparison of locks that is irreflexive and transitive and that every
    thread's acquisitions respect - nothing depends on the particular order chosen ... *)
Theorem C05_deadlock_free_any_order : forall (lt : lock -> lock -> bool),
  (forall a b c, lt a b = true -> lt b c = true -> lt a c = true) -> (forall a, lt a a = false) ->
  forall ps c, Forall (ordered_by lt []) ps -> steps (init_config ps) c ->
  terminal c = true \/ exists c', step c c'.
Proof. exact deadlock_free_any_order. Qed.
Print Assumptions C05_deadlock_free_any_order.

(** ... but the comparison a transaction sorts its dataset names with must be TOTAL on distinct
    names: then whatever the sort outputs (no element less than an earlier one) is the one strictly
    increasing arrangement and the transaction's program respects the order. *)
Theorem C05_sorted_txn_ordered : forall (lt : lock -> lock -> bool),
  (forall a, lt a a = false) -> (forall a b, a <> b -> lt a b = true \/ lt b a = true) ->
  forall ks ao uo, permb ao (part_keys ks) = true -> weak_sortedb lt ao = true ->
  (forall d, In d (part_keys ks) -> lt d LCore = true) ->
  ordered_by lt [] (txn_prog ks ao uo).
Proof. exact ordered_by_txn. Qed.
Print Assumptions C05_sorted_txn_ordered.

(** refutation for a comparison that is transitive and irreflexive but not total on distinct
    names (case-insensitive): dX01 / dx01 are unordered, both arrangements pass the sort, and two
    transactions that got opposite ones deadlock *)
Theorem C05_refuted_case_insensitive_order :
  (forall a b c, fold_ltb a b = true -> fold_ltb b c = true -> fold_ltb a c = true) /\
  (forall a, fold_ltb a a = false) /\
  (LDs 1001 <> LDs 2001 /\ fold_ltb (LDs 1001) (LDs 2001) = false /\ fold_ltb (LDs 2001) (LDs 1001) = false) /\
  weak_sortedb fold_ltb [LDs 1001; LDs 2001] = true /\ weak_sortedb fold_ltb [LDs 2001; LDs 1001] = true /\
  exists c, steps (init_config [prog_of_ops current [wit_twin_12]; prog_of_ops current [wit_twin_21]]) c
            /\ terminal c = false /\ forall c', ~ step c c'.
Proof.
  split; [exact fold_ltb_trans|]. split; [exact fold_ltb_irrefl|]. split; [exact fold_ltb_not_total|].
  exact refuted_case_insensitive_order.
Qed.
Print Assumptions C05_refuted_case_insensitive_order.

(** every client request completes: from every reachable configuration a terminal one is
    reachable, and every step consumes one instruction (no infinite run) *)
Theorem C05_always_completes : forall ps c,
  Forall (ordered []) ps -> steps (init_config ps) c -> exists c', steps c c' /\ terminal c' = true.
Proof. exact always_completes. Qed.
Print Assumptions C05_always_completes.
Theorem C05_step_consumes_work : forall c c', step c c' -> work c = S (work c').
Proof. exact step_work. Qed.
Print Assumptions C05_step_consumes_work.

(** Serializability for ANY interleaving of any finite set of threads that read and commit a
    dataset only under its lock: each feed is exactly the commits on it in the order they
    happened (no lost update, each commit's entries contiguous), and every client's commits
    occur in its program order; at the end each happened exactly once. *)
Theorem C05_serializable : forall ps c,
  Forall (guarded []) ps -> steps (init_config ps) c ->
  (forall d, feeds c d = log_feed d (clog c)) /\
  (forall i p0, nth_error ps i = Some p0 ->
     exists t, nth_error (threads c) i = Some t /\ my_commits i (clog c) ++ commits (prog t) = commits p0).
Proof. exact serializable. Qed.
Print Assumptions C05_serializable.

Theorem C05_serializable_terminal : forall ps c,
  Forall (guarded []) ps -> steps (init_config ps) c -> terminal c = true ->
  (forall d, feeds c d = log_feed d (clog c)) /\
  (forall i p0, nth_error ps i = Some p0 -> my_commits i (clog c) = commits p0).
Proof. exact serializable_terminal. Qed.
Print Assumptions C05_serializable_terminal.

(** ... for clients running operations, under EITHER lock order of the transaction
    (the pinned order can deadlock but never loses or tears a write) *)
Theorem C05_serializable_ops : forall v (clients : list (list op)) c,
  forallb (forallb (op_safe v)) clients = true ->
  steps (init_config (map (prog_of_ops v) clients)) c ->
  (forall d, feeds c d = log_feed d (clog c)) /\
  (forall i os, nth_error clients i = Some os ->
     exists t, nth_error (threads c) i = Some t /\
               my_commits i (clog c) ++ commits (prog t) = commits (prog_of_ops v os)).
Proof. exact serializable_ops. Qed.
Print Assumptions C05_serializable_ops.

(** refutations for the pinned tree (findings F05a, F05b): a reachable configuration with
    work left in which no thread can move *)
Theorem C05_refuted_txn_order :
  op_wf current wit_txn_12 = true /\ op_wf current wit_txn_21 = true /\
  op_no_core_txn wit_txn_12 = true /\ op_no_core_txn wit_txn_21 = true /\
  exists c, steps (init_config [prog_of_ops current [wit_txn_12]; prog_of_ops current [wit_txn_21]]) c
            /\ terminal c = false /\ forall c', ~ step c c'.
Proof. exact refuted_txn_order. Qed.
Print Assumptions C05_refuted_txn_order.

Theorem C05_refuted_core_in_txn :
  op_wf v_order_sorted_core_locks wit_txn_core = true /\
  exists c, steps (init_config [prog_of_ops v_order_sorted_core_locks [wit_txn_core]]) c
            /\ terminal c = false /\ forall c', ~ step c c'.
Proof. exact refuted_core_in_txn. Qed.
Print Assumptions C05_refuted_core_in_txn.

(** the order must be respected by EVERY lock site: a core.Dataset writer that takes the lock of the
    dataset its meta entity names (edge core.Dataset -> X) is not ordered and deadlocks with a batch into X *)
Theorem C05_refuted_core_then_dataset :
  ordered [] (batch_prog (wit_part (LDs 1) 1%N)) /\ ~ ordered [] (setns_locking_target 1) /\
  exists c, steps (init_config [batch_prog (wit_part (LDs 1) 1%N); setns_locking_target 1]) c
            /\ terminal c = false /\ forall c', ~ step c c'.
Proof. exact refuted_core_then_dataset. Qed.
Print Assumptions C05_refuted_core_then_dataset.

(** mutual exclusion is per dataset (internal id), not per Go object: a writer that commits to a dataset
    under another mutex (the lock of a stale / duplicate Dataset object) is not guarded, and a complete run
    exists in which the feed is NOT the commits in commit order (an update is lost) *)
Theorem C05_refuted_two_locks_one_dataset :
  (forall other d k, other <> d -> ~ guarded [] (batch_under_other_lock other d k)) /\
  exists c, steps (init_config [batch_under_other_lock (LDs 50) (LDs 51) 1%N;
                                batch_prog {| p_ds := LDs 51; p_ms := [1001%N]; p_new := false |}]) c
            /\ terminal c = true /\ feeds c (LDs 51) <> log_feed (LDs 51) (clog c).
Proof. split; [exact other_lock_not_guarded | exact refuted_two_locks_one_dataset]. Qed.
Print Assumptions C05_refuted_two_locks_one_dataset.

(** tie to the correspondence check: a run whose observed lock trace is a trace of the
    repaired model ending in the observed feeds satisfies the executable spec *)
Theorem C05_agree_implies_spec : forall c,
  case_wf c = true -> agree fixed c = true -> spec_ok c = true.
Proof. exact agree_fixed_spec. Qed.
Print Assumptions C05_agree_implies_spec.

(** non-vacuity: concrete clients meeting the hypotheses, a complete run, a well-formed case *)
Definition ex_part (d : lock) (k : marker) (n : bool) : part := {| p_ds := d; p_ms := [k; k]; p_new := n |}.
Definition ex_clients : list (list op) :=
  [ [OBatch (ex_part (LDs 1) 1%N true);
     OTxn [ex_part (LDs 1) 2%N false; ex_part (LDs 2) 2%N true] [LDs 1; LDs 2] [LDs 2; LDs 1]];
    [OCreate 7 true; OBatch (ex_part (LDs 7) 1002%N true); ORename 7 (RMove 8); ODelete 8 true];
    [OTxn [ex_part (LDs 1) 2001%N true; ex_part (LDs 2) 2001%N false] [LDs 1; LDs 2] [LDs 1; LDs 2]] ].
Example C05_nonvacuous_1 :
  forallb (forallb (op_safe fixed)) ex_clients = true /\ v_order fixed = Sorted.
Proof. vm_compute. split; reflexivity. Qed.
Example C05_nonvacuous_2 :
  let c := run_skip (concat (repeat [0; 2; 1; 2; 0] 40)) (init_config (map (prog_of_ops fixed) ex_clients)) in
  (terminal c, feeds c (LDs 1), feeds c (LDs 2), feeds c LCore, length (clog c))
  = (true, [1; 1; 2; 2; 2001; 2001]%N, [2; 2; 2001; 2001]%N, [7; 1; 7; 2; 7; 1; 8; 8]%N, 12).
Proof. vm_compute. reflexivity. Qed.
Definition ex_case : tcase :=
  {| c_forced := false; c_runs := [
     {| r_ops := [[OBatch (ex_part (LDs 1) 1%N true)]; [OBatch (ex_part (LDs 1) 1001%N false)]];
        r_outcome := 0%N;
        r_trace := [(0, EA (LDs 1)); (0, EA LCore); (0, ER LCore); (0, ER (LDs 1)); (1, EA (LDs 1)); (1, ER (LDs 1))];
        r_errs := [[false]; [false]];
        r_feeds := [(LCore, [1%N]); (LDs 1, [1; 1; 1001; 1001]%N)];
        r_snaps := [(LDs 1, 2%N)]; r_times := [(LDs 1, [0; 0; 1; 1]%N)]; r_lookups := [(1001, 1001)%N]; r_bad := 0%N |} ] |}.
Example C05_nonvacuous_3 : case_wf ex_case = true /\ agree fixed ex_case = true /\ spec_ok ex_case = true.
Proof. vm_compute. repeat split; reflexivity. Qed.
