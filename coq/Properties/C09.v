(** * C09 - A full sync deletes exactly what the completed sync did not contain.
    Only statements, each closed by [exact <lemma>], with [Print Assumptions].

    Vocabulary (Model/FullSync.v).  A history [h] is any list of events on one dataset:
    [EHttp start id end ents] (POST .../entities with the full-sync headers; id 0 = no
    sync-id header), [EJobStart n], [EJobBatch n ents], [EJobEnd n] (the sink calls of
    fullsync job run n), [ETxn ents] (a write through Store.ExecuteTransaction / POST
    /transactions) and [EExpire] (a lease timer fires) - in any order, at any point.
    [active_of h] is the sync that is alive after [h], read off the history alone: the most
    recent start that was not followed by another start (superseded), by [EExpire] (HTTP
    syncs; expired) or by its owner's end request (completed).  [completes (active_of h) e]
    says that [e] is the end request of exactly that sync.  [final v h] is the state of
    model variant [v] after [h]; [Fixed] is the repaired variant (a job's completion checks
    that the job still owns the active sync; a request without sync id does not lease a
    job's sync), [Current] is the pinned tree. *)
From Coq Require Import List NArith Bool.
From DH Require Import Model.FullSync Proofs.FullSyncProofs Check.C09Check Proofs.C09CheckProofs.
Import ListNotations.
Open Scope N_scope.

(** For every history the repaired model answers every request like the specification
    machine S (whose only sync state is "who holds the active sync, what was written since
    it started") and holds the same data. *)
Theorem C09_refines : forall h,
  fst (run Fixed h init) = fst (srun h sinit) /\ dat (final Fixed h) = g_data (spec_after h).
Proof. exact refines. Qed.
Print Assumptions C09_refines.

(** S's active sync is the last start that nothing ended (superseded / expired / completed). *)
Theorem C09_active_is_last_unended_start : forall h, g_active (spec_after h) = active_of h.
Proof. exact active_of_spec. Qed.
Print Assumptions C09_active_is_last_unended_start.

(** After any history, the end request of the active sync succeeds; everything written to
    the dataset since that sync started (by anyone and through any entry point - requests,
    job batches, transactions - the request's own entities included) has
    the written content and flag; every other live entity becomes a deleted version of the
    same content; deleted and absent ones stay; the change feed grows by exactly one entry
    per tombstoned entity (ids are unique in the view). *)
Theorem C09_complete_exact : forall h e, exact_at Fixed h e.
Proof. exact complete_exact. Qed.
Print Assumptions C09_complete_exact.

(** After any history, a request carrying a sync id other than the active sync's (any id
    but "" for a job's sync) is answered 409 and changes neither data nor sync state. *)
Theorem C09_foreign_rejected : forall h, foreign_rejected_at Fixed h.
Proof. exact foreign_rejected. Qed.
Print Assumptions C09_foreign_rejected.

(** the same, on any state of either variant: this part holds in the pinned tree *)
Theorem C09_foreign_rejected_any_state : forall v s id end_ ents,
  started s = true -> id <> sid s -> step v (EHttp false id end_ ents) s = (RConflict, s).
Proof. exact foreign_rejected_state. Qed.
Print Assumptions C09_foreign_rejected_any_state.

(** After any history, an event that is not the end request of the active sync - in
    particular the end request of a superseded, abandoned, expired or already completed
    sync, whenever it arrives - changes the data by its own writes at most: nothing is
    tombstoned, at completion time or later. *)
Theorem C09_superseded_harmless : forall h e, harmless_at Fixed h e.
Proof. exact superseded_harmless. Qed.
Print Assumptions C09_superseded_harmless.

(** the end call of a job run that does not own the active sync fails without any effect *)
Theorem C09_dead_job_end_rejected : forall h n,
  is_gjob (active_of h) n = false ->
  step Fixed (EJobEnd n) (final Fixed h) = (RJobErr, final Fixed h).
Proof. exact dead_job_end_rejected. Qed.
Print Assumptions C09_dead_job_end_rejected.

(** In the repaired variant at most one lease timer is alive, and it is the timer of the
    active sync: the timers of superseded, completed and expired syncs are dead whatever
    their sync ids. *)
Theorem C09_one_live_timer : forall h,
  map fst (timers (final Fixed h)) = if lease (final Fixed h) then [sid (final Fixed h)] else [].
Proof. exact one_live_timer. Qed.
Print Assumptions C09_one_live_timer.

(** Usage envelope of the pinned tree: on histories in which, while a job's sync runs, only
    that job's batches, transaction writes (and timer expiries) reach the dataset, the pinned tree and the
    repaired variant coincide - so all of the above holds for the tree as it is. *)
Theorem C09_current_ok_when_exclusive : forall h,
  job_exclusive None h = true -> run Current h init = run Fixed h init.
Proof. exact current_ok_when_exclusive. Qed.
Print Assumptions C09_current_ok_when_exclusive.

(** Refutations for the pinned tree (findings F09a-F09d), outside that envelope. *)

(** F09a: job sync; a request without sync id (leases id ""); the lease expires; the job
    ends: entity 1, written during the sync, is tombstoned. *)
Theorem C09_refuted_expiry : ~ exact_at Current (removelast h_F09a) (EJobEnd 1).
Proof. exact refuted_F09a. Qed.
Print Assumptions C09_refuted_expiry.

(** F09b: an HTTP start supersedes a running job sync; the superseded job's end completes
    the HTTP client's sync. *)
Theorem C09_refuted_supersede : ~ harmless_at Current (firstn 5 h_F09b) (EJobEnd 1).
Proof. exact refuted_F09b. Qed.
Print Assumptions C09_refuted_supersede.

(** F09c: an end request without sync id completes a job's running sync. *)
Theorem C09_refuted_foreign_end : ~ harmless_at Current (firstn 3 h_F09c) (EHttp false 0 true [E 4 1]).
Proof. exact refuted_F09c. Qed.
Print Assumptions C09_refuted_foreign_end.

(** F09d: the lease timer left behind by a completed job sync resets the next job's sync,
    whose end then tombstones what it wrote. *)
Theorem C09_refuted_dangling_timer : ~ exact_at Current (removelast h_F09d) (EJobEnd 2).
Proof. exact refuted_F09d. Qed.
Print Assumptions C09_refuted_dangling_timer.

(** tie to the correspondence check: agreement with the repaired model on a case implies
    the executable spec S on the implementation's observations *)
Theorem C09_agree_implies_spec : forall c, agree Fixed c = true -> spec_ok c = true.
Proof. exact agree_fixed_spec. Qed.
Print Assumptions C09_agree_implies_spec.

(** non-vacuity: concrete non-trivial instances meeting the hypotheses *)

(** a completing end request (hypothesis of C09_complete_exact) that tombstones entity 3 and
    keeps 1 and 2 (written since the start); the batch with the foreign id 2 wrote nothing *)
Example C09_nonvacuous_complete :
  let h := [plain [E 1 1; E 2 1; E 3 1]; EHttp true 1 false [E 1 2]; EHttp false 2 false [E 5 1]] in
  let e := EHttp false 1 true [E 2 1] in
  completes (active_of h) e = true
  /\ d_view (dat (snd (step Fixed e (final Fixed h)))) = [(1, (2, false)); (2, (1, false)); (3, (1, true))]
  /\ d_changes (dat (snd (step Fixed e (final Fixed h)))) = 5.
Proof. vm_compute. repeat split; reflexivity. Qed.

(** hypotheses of C09_foreign_rejected and C09_superseded_harmless: a foreign id during an
    HTTP sync; an expired sync and a superseded job whose end requests arrive later *)
Example C09_nonvacuous_foreign :
  accepted (active_of [EHttp true 1 false [E 1 1]]) 2 = false
  /\ accepted (active_of [EJobStart 1]) 3 = false.
Proof. vm_compute. split; reflexivity. Qed.
Example C09_nonvacuous_dead :
  completes (active_of [plain [E 1 1]; EHttp true 1 false []; EExpire]) (EHttp false 1 true []) = false
  /\ completes (active_of [plain [E 1 1]; EJobStart 1; EHttp true 7 false []]) (EJobEnd 1) = false
  /\ fst (step Fixed (EHttp false 1 true []) (final Fixed [plain [E 1 1]; EHttp true 1 false []; EExpire])) = RGone.
Proof. vm_compute. repeat split; reflexivity. Qed.

(** the envelope contains histories with job syncs, HTTP syncs, foreign ids and expiries *)
Example C09_nonvacuous_envelope :
  job_exclusive None [plain [E 1 1; E 2 1]; EJobStart 1; EJobBatch 1 [E 1 2]; EExpire; EJobEnd 1;
                      EHttp true 4 false [E 2 3]; EHttp false 5 false [E 9 9]; EExpire; EHttp false 4 true []] = true.
Proof. vm_compute. reflexivity. Qed.

(** a transaction write during a sync is a write since its start: entity 2 stays live *)
Example C09_nonvacuous_txn :
  let h := [plain [E 1 1; E 2 1; E 3 1]; EHttp true 1 false [E 1 2]; ETxn [E 2 5]] in
  let e := EHttp false 1 true [] in
  completes (active_of h) e = true
  /\ d_view (dat (snd (step Fixed e (final Fixed h)))) = [(1, (2, false)); (2, (5, false)); (3, (1, true))].
Proof. vm_compute. repeat split; reflexivity. Qed.

(** the repaired variant on the four witness histories: nothing written during a sync is lost *)
Example C09_fixed_on_witnesses :
  d_view (dat (final Fixed h_F09a)) = [(1, (2, false)); (2, (2, false)); (3, (1, true)); (4, (1, false))]
  /\ d_view (dat (final Current h_F09a)) = [(1, (2, true)); (2, (2, true)); (3, (1, true)); (4, (1, true))].
Proof. vm_compute. split; reflexivity. Qed.
