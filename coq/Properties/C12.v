(** * C12 - Compaction is invisible to readers.
    Only statements, each closed by [exact <lemma>] (or a short wrapper), with [Print Assumptions]. *)
From Coq Require Import List ZArith NArith Bool Lia.
From DH Require Import Lib.CheckLib Model.Store Model.FeedSpec Model.Compact Proofs.StoreProofs
     Proofs.C01Proofs Proofs.CompactProofs Proofs.CompactWitness Check.C12Check Proofs.CompactReaders Proofs.CompactRace Proofs.C12CheckProofs.
Import ListNotations.
Open Scope Z_scope.

(** ** flush batching *)

(** For EVERY variant of the strategy, every state and visiting order: the state after a compaction is the state
    after one single flush of the whole instruction stream ... *)
Theorem C12_one_flush : forall cf fl thr order d,
  compact_ds cf fl thr order d = apply_flush cf d (all_instrs cf (compact_eqb fl) d order).
Proof. exact compact_one_flush. Qed.
Print Assumptions C12_one_flush.

(** ... so the final state does not depend on the flush threshold. *)
Theorem C12_flush_indep : forall cf fl thr1 thr2 order d,
  compact_ds cf fl thr1 order d = compact_ds cf fl thr2 order d.
Proof. exact flush_threshold_irrelevant. Qed.
Print Assumptions C12_flush_indep.

(** Dying after [k] committed flushes leaves the state of one flush of a prefix of the instruction stream. *)
Theorem C12_crash_prefix : forall cf fl thr order k d,
  exists p rest, all_instrs cf (compact_eqb fl) d order = p ++ rest
                 /\ compact_crash cf fl thr order k d = apply_flush cf d p.
Proof. exact crash_is_prefix. Qed.
Print Assumptions C12_crash_prefix.

(** ** the repaired strategy (comparison base advanced after the reference-only branch, latest pointer moved
    only if it still names the removed version; equality = [identical]) *)

(** C12_crash: for every state satisfying the invariant (latest pointer = last version of the entity, versions
    strictly ordered), every visiting order without repetition, every threshold and every number [k] of flushes
    committed before the process dies: the state left behind satisfies the invariant, every entity's last
    version has identical content (none appears or disappears), and no version was added. *)
Theorem C12_crash : forall fl thr order k d,
  f_lenkeys fl = false -> cinv d -> NoDup order ->
  inv_rel d (compact_crash cf_fixed fl thr order k d).
Proof. exact crash_invisible. Qed.
Print Assumptions C12_crash.

(** the same for the complete run *)
Theorem C12_invisible_view : forall fl thr order d,
  f_lenkeys fl = false -> cinv d -> NoDup order ->
  inv_rel d (compact_ds cf_fixed fl thr order d).
Proof. exact compact_invisible. Qed.
Print Assumptions C12_invisible_view.

(** what [inv_rel] means for the readers that go through the latest pointer (listing, latest-only feed, the
    write path's comparison base): the version the pointer names has identical content, for every entity *)
Theorem C12_latest_pointer : forall d d', cinv d -> inv_rel d d' ->
  forall id, oc_same (stored_latest d' id) (stored_latest d id) = true.
Proof. exact inv_rel_latest. Qed.
Print Assumptions C12_latest_pointer.

(** every state reachable by writes (any equality flags, repaired in-batch handling) satisfies the hypothesis *)
Theorem C12_reachable_cinv : forall fl ops ds, Forall wf_wop ops ->
  cinv (get_ds (run_wops fl DupLocalElseStored ops store0) ds).
Proof.
  intros fl ops ds Hwf.
  destruct (run_wops_refines fl ops store0 (fun _ => []) Hwf sinv0 (fun _ => eq_refl)) as [H _].
  exact (dinv_cinv _ _ (H ds)).
Qed.
Print Assumptions C12_reachable_cinv.

(** C12_invisible: for every state satisfying the invariant, every threshold and every visiting order that
    contains each entity with a latest pointer exactly once, the complete run of the repaired strategy leaves
    - the change feed equal to the previous one minus exactly the versions [identical] (same deleted flag,
      properties and references) to their immediate predecessor of the same entity in the previous feed,
    - the invariant,
    - for every entity a latest pointer naming identical content (listing, latest-only feed), and
    - an identical last version (lookups). *)
Theorem C12_invisible : forall fl thr order d,
  f_lenkeys fl = false -> cinv d -> NoDup order ->
  (forall id, assoc id (d_latest d) <> None -> In id order) ->
  let d' := compact_ds cf_fixed fl thr order d in
  feed_of d' = spec_compact (feed_of d)
  /\ cinv d'
  /\ (forall id, oc_same (stored_latest d' id) (stored_latest d id) = true)
  /\ (forall id, oc_same (current_of (feed_of d') id) (current_of (feed_of d) id) = true).
Proof. exact compact_invisible_full. Qed.
Print Assumptions C12_invisible.

(** ** the pinned tree (cf_current): refutation witnesses *)

(** F12a: versions a, b, a of one entity with a reference kept across them.  The strategy schedules only the
    repeated reference keys of b and returns WITHOUT advancing its comparison base, so the third version is
    compared with the first, found equal and removed: the feed ends in b (the spec keeps all three versions),
    and the latest pointer is moved to the FIRST version: listing says a, the feed's last version says b. *)
Theorem C12_refuted_aba :
  feed_ids (feed_of d_aba) = [(1, 1); (1, 2); (1, 1)]
  /\ feed_ids (spec_compact (feed_of d_aba)) = [(1, 1); (1, 2); (1, 1)]
  /\ feed_ids (feed_of (after cf_current d_aba)) = [(1, 1); (1, 2)]
  /\ oc_same (stored_latest (after cf_current d_aba) 1) (current_of (feed_of (after cf_current d_aba)) 1) = false
  /\ feed_of (after cf_fixed d_aba) = spec_compact (feed_of d_aba).
Proof. vm_compute. repeat split; reflexivity. Qed.
Print Assumptions C12_refuted_aba.

(** F12a, other direction: a, b, b - the duplicate of b is compared with a and survives. *)
Theorem C12_refuted_dup_survives :
  feed_ids (feed_of d_abb) = [(1, 1); (1, 2); (1, 2)]
  /\ feed_ids (spec_compact (feed_of d_abb)) = [(1, 1); (1, 2)]
  /\ feed_of (after cf_current d_abb) = feed_of d_abb
  /\ feed_of (after cf_fixed d_abb) = spec_compact (feed_of d_abb).
Proof. vm_compute. repeat split; reflexivity. Qed.
Print Assumptions C12_refuted_dup_survives.

(** F12b: the snapshot holds a, a; a writer commits c before the flush; the flush blindly re-points the latest
    pointer to the first version: the pointer names a although the feed ends in c.  With the compare-and-set
    re-point of the repaired variant the pointer keeps naming c. *)
Theorem C12_refuted_race :
  let d := compact_race cf_current fl_pinned DupStoredAndLocal 1 [1] 0 5 race_c d_aa in
  let d' := compact_race cf_fixed fl_pinned DupStoredAndLocal 1 [1] 0 5 race_c d_aa in
  feed_ids (feed_of d) = [(1, 1); (1, 3)]
  /\ oc_same (stored_latest d 1) (current_of (feed_of d) 1) = false
  /\ feed_ids (feed_of d') = [(1, 1); (1, 3)]
  /\ oc_same (stored_latest d' 1) (current_of (feed_of d') 1) = true.
Proof. vm_compute. repeat split; reflexivity. Qed.
Print Assumptions C12_refuted_race.

(** F12c: the duplicate and the kept version were stored by the same batch (same recorded time, reference keys carry
    no batch index): the pinned strategy schedules the duplicate's reference keys - the kept version's only ones -
    for deletion (3 delete keys: version + outgoing + incoming); the repaired variant schedules the version key alone.
    (The reference index itself is not modelled; the effect on relationship queries is observed on the implementation.) *)
Theorem C12_refuted_shared_refs :
  map (fun i => (i_weight i, i_shared i)) (all_instrs cf_current (compact_eqb fl_pinned) d_aar [1]) = [(3, true)]
  /\ map (fun i => (i_weight i, i_shared i)) (all_instrs cf_fixed (compact_eqb fl_pinned) d_aar [1]) = [(1, false)].
Proof. vm_compute. split; reflexivity. Qed.
Print Assumptions C12_refuted_shared_refs.

(** The ORDER of the latest-only feed cannot be preserved together with "remove the later duplicate": after
    removing the duplicate last version of e1 its surviving version sits before e2's (spec-level remark,
    true of the repaired variant as well). *)
Theorem C12_latest_order_changes :
  map en_id (fst (changes d_nnn 0 0 true)) = [2; 1]
  /\ map en_id (fst (changes (compact_ds cf_fixed fl_fixed 1 [1; 2] d_nnn) 0 0 true)) = [1; 2].
Proof. vm_compute. split; reflexivity. Qed.
Print Assumptions C12_latest_order_changes.

(** C12_crash, feed clause: whatever number of flushes was committed before the process died, the feed left behind
    de-duplicates to the same feed as the one before: only versions identical to their immediate predecessor are missing. *)
Theorem C12_crash_feed : forall fl thr order k d,
  f_lenkeys fl = false -> cinv d -> NoDup order ->
  spec_compact (feed_of (compact_crash cf_fixed fl thr order k d)) = spec_compact (feed_of d).
Proof. exact crash_feed. Qed.
Print Assumptions C12_crash_feed.

(** Crash points are the boundaries between flush TRANSACTIONS (a kill at compact.beforeFlush #k leaves k-1, a kill at
    compact.afterFlush #k leaves k committed flushes; k ranges over all naturals here): the state left behind is a valid
    compaction-prefix state, in particular every latest pointer names an existing version. *)
Theorem C12_crash_no_dangling : forall fl thr order k d,
  f_lenkeys fl = false -> cinv d -> NoDup order ->
  forall id, dangling (compact_crash cf_fixed fl thr order k d) id = false.
Proof. exact crash_no_dangling. Qed.
Print Assumptions C12_crash_no_dangling.

(** This needs a flush to be ONE transaction: were the deletions committed and the pointer re-points written in a later
    transaction, a kill in between would leave a dangling latest pointer (history a, a; the last version is the duplicate). *)
Theorem C12_split_flush_dangles :
  let g := all_instrs cf_fixed identical d_aa [1] in
  dangling (apply_flush_deletes_only d_aa g) 1 = true /\ dangling (apply_flush cf_fixed d_aa g) 1 = false
  /\ dangling d_aa 1 = false.
Proof. vm_compute. repeat split; reflexivity. Qed.
Print Assumptions C12_split_flush_dangles.

(** ** reader level, in states whose sequence numbers may have gaps *)

(** The latest-only feed read from the start and the unpaged listing are both "one entry per entity that has a
    version, carrying the content of its last version" ... *)
Theorem C12_latest_only_is_view : forall d, cinv d -> seqs_nonneg d -> is_view d (m_latest d).
Proof. exact m_latest_view. Qed.
Print Assumptions C12_latest_only_is_view.
Theorem C12_listing_is_view : forall d, cinv d -> is_view d (m_listing d).
Proof. exact m_listing_view. Qed.
Print Assumptions C12_listing_is_view.

(** ... so after a complete or interrupted repaired compaction both return, sorted by entity, pointwise identical lists. *)
Theorem C12_views_unchanged : forall d d' l l', is_view d l -> is_view d' l' -> inv_rel d d' ->
  oents_eqb (osort l') (osort l) = true.
Proof. intros d d' l l' H H' Hr. exact (views_same d d' l l' H H' (ir_last _ _ Hr)). Qed.
Print Assumptions C12_views_unchanged.

(** A lookup scoped to the dataset, now or at ANY instant: same partials (identical content), same deleted flag. *)
Theorem C12_lookup_unchanged : forall st ds d' id at_,
  keys_sorted st -> cinv (get_ds st ds) -> inv_rel (get_ds st ds) d' ->
  let r' := entity_at (set_ds st ds d') id at_ [ds] in
  let r := entity_at st id at_ [ds] in
  list_eqb partial_eqb (fst r') (fst r) = true /\ snd r' = snd r.
Proof. exact lookup_same. Qed.
Print Assumptions C12_lookup_unchanged.

(** ** racing writer, repaired variant (compare-and-set re-point; write path with full equality, any in-batch mode) *)

(** A batch committed (at a time later than every stored version) after ANY number [k] of flushes commutes with the
    remaining flushes: the final state has exactly the versions, change log, next sequence number and per-entity
    latest pointer of "compact completely, then write" - so writes in flight are neither lost nor shadowed. *)
Theorem C12_race_commutes : forall dm thr order k t clk ents d,
  cinv d -> times_le clk (d_entries d) -> clk < t -> NoDup order ->
  deq (compact_race cf_fixed eq_full dm thr order k t ents d)
      (store_batch_ds eq_full dm t ents (compact_ds cf_fixed eq_full thr order d)).
Proof. exact race_commutes. Qed.
Print Assumptions C12_race_commutes.

Theorem C12_deq_observables : forall d1 d2, deq d1 d2 ->
  feed_of d1 = feed_of d2 /\ (forall id, stored_latest d1 id = stored_latest d2 id)
  /\ (forall id at_ best, best_version id at_ (d_entries d1) best = best_version id at_ (d_entries d2) best).
Proof. exact deq_observables. Qed.
Print Assumptions C12_deq_observables.

(** ** link to the evaluator *)

(** In any model state whose dataset satisfies the invariant: if the repaired model predicts the reads taken before
    and after an un-raced compaction - complete, or killed at any flush - the WHOLE executable spec holds on those
    observations (no failing read; latest-only feed as a set, listing, all lookups current and point in time and
    relations unchanged; full feed = previous one minus the versions identical to their immediate predecessor, resp.
    same de-duplicated feed after a kill). *)
Theorem C12_agree_implies_spec : forall st ds thr crash aft order o_fl o_cr o_rn before after,
  let d := get_ds st ds in
  cinv d -> seqs_nonneg d -> keys_sorted st -> NoDup order ->
  (forall id, assoc id (d_latest d) <> None -> In id order) ->
  map gkey (ro_gets after) = map gkey (ro_gets before) ->
  snd (fst (agree_op v_fixed false st (CCompact ds thr crash aft None order o_fl o_cr false o_rn before after))) = true ->
  spec_op_ok (CCompact ds thr crash aft None order o_fl o_cr false o_rn before after) = true.
Proof. exact agree_compact_spec. Qed.
Print Assumptions C12_agree_implies_spec.

(** the earlier, weaker statement (feed clause of a complete run) is kept *)
Theorem C12_agree_implies_spec_partial : forall st ds thr aft order o_fl o_rn before after,
  let d := get_ds st ds in
  cinv d -> Forall (fun e => 0 <= en_seq e) (d_entries d) -> NoDup order ->
  (forall id, assoc id (d_latest d) <> None -> In id order) ->
  snd (fst (agree_op v_fixed false st (CCompact ds thr 0 aft None order o_fl false false o_rn before after))) = true ->
  oents_eqb (ro_full after) (spec_compact (ro_full before)) = true.
Proof. exact agree_compact_feed. Qed.
Print Assumptions C12_agree_implies_spec_partial.

(** ** non-vacuity *)
Example C12_ex_hyps : cinv d_nnn /\ NoDup [1; 2] /\ (forall id, assoc id (d_latest d_nnn) <> None -> In id [1; 2]).
Proof.
  split; [|split].
  - apply C12_reachable_cinv. repeat constructor.
  - repeat constructor; cbn; intuition discriminate.
  - intros id H.
    assert (Hin : In id (map fst (d_latest d_nnn))).
    { revert H. generalize (d_latest d_nnn). intros l. induction l as [|[k v] l IH]; cbn [assoc map fst]; [congruence|].
      destruct (Z.eqb_spec id k); [now left | intros H; right; now apply IH]. }
    vm_compute in Hin. cbn. intuition.
Qed.
Example C12_ex_removes :
  length (feed_of d_nnn) = 5%nat
  /\ length (feed_of (compact_ds cf_fixed fl_fixed 1 [1; 2] d_nnn)) = 3%nat
  /\ length (plan cf_fixed fl_fixed 1 d_nnn [1; 2]) = 3%nat
  /\ length (feed_of (compact_crash cf_fixed fl_fixed 1 [1; 2] 1 d_nnn)) = 4%nat.
Proof. vm_compute. repeat split; reflexivity. Qed.

(** the additional hypotheses of the reader-level theorems hold in that state, and the evaluator link is not vacuous:
    the repaired model predicts its own reads around a compaction killed right after its first flush transaction *)
Example C12_ex_reader_hyps : seqs_nonneg d_nnn /\ keys_sorted st_nnn.
Proof.
  split.
  - unfold seqs_nonneg. apply Forall_forall. intros x Hx. vm_compute in Hx.
    repeat (destruct Hx as [<-|Hx]; [vm_compute; discriminate|]). destruct Hx.
  - vm_compute. repeat split; constructor.
Qed.
Example C12_ex_agree :
  let gets st := map (fun id => let r := entity_at st id (s_clock st) [1] in
                       {| g_id := id; g_at := None; g_found := true; g_parts := fst r;
                          g_del := match fst r with [] => snd r | _ => false end |}) [1; 2; 3] in
  let robs_of st := {| ro_full := m_full (get_ds st 1); ro_latest := m_latest (get_ds st 1); ro_listing := m_listing (get_ds st 1);
                       ro_gets := gets st; ro_rels := []; ro_merged := []; ro_bad := false |} in
  let st' := cr_store (compact_store v_fixed st_nnn 1 1 1 true None [1; 2]) in
  snd (fst (agree_op v_fixed false st_nnn (CCompact 1 1 1 true None [1; 2] 1 true false 0 (robs_of st_nnn) (robs_of st')))) = true
  /\ length (ro_full (robs_of st')) = 4%nat.
Proof. vm_compute. split; reflexivity. Qed.

(** the racing-writer theorem is not vacuous: three versions of e1 in the snapshot (two duplicates), the writer commits
    c after the first of two flushes; hypotheses hold and the feed ends N(e1), a(e2), c(e2), c(e1) and the latest pointer of e1 names c *)
Example C12_ex_race :
  times_le 5 (d_entries d_nnn) /\ 5 < 9
  /\ feed_ids (feed_of (compact_race cf_fixed eq_full DupLocalElseStored 1 [1; 2] 1 9 race_c d_nnn)) = [(1, 7); (2, 1); (2, 3); (1, 3)]
  /\ option_map (fun c => feed_ids [(1, c)]) (stored_latest (compact_race cf_fixed eq_full DupLocalElseStored 1 [1; 2] 1 9 race_c d_nnn) 1) = Some [(1, 3)].
Proof.
  split; [|split; [lia | vm_compute; split; reflexivity]].
  unfold times_le. apply Forall_forall. intros x Hx. vm_compute in Hx.
  repeat (destruct Hx as [<-|Hx]; [vm_compute; discriminate|]). destruct Hx.
Qed.
