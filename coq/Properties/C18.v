(** * C18 - Dependency tracking re-emits every affected main entity.
    Only statements, each closed by [exact <lemma>] or a short wrapper, with [Print Assumptions].
    Model: Model/MultiSource.v (MultiSource.ReadEntities / processDependency / findChanges / incrementalRead /
    grabWatermarks, DedupAndTrackImplicitDependencies, the pipeline loops that drive them) over an abstract
    graph store.  [sound v] = the three repairs F18a (shared token), F18b (previous-run view by feed position),
    F18c (watermark of an empty dataset); [v_cur] is the pinned tree.  Histories [ops] are arbitrary
    interleavings of write batches to any dataset (main, link, dependency; rewiring and deletion are just new
    versions) and job runs (incremental or full sync, any batch size >= 1, optionally with the sink failing at
    its k-th call; a full sync may have a foreign write to a non-main dataset land between two of its pages,
    [ORunMid]).  Join paths are arbitrary lists of hops (any length, any mix of directions, through any
    datasets); several dependencies may share a dataset.  C18_tokens_safe / C18_complete are stated for
    LatestOnly = false; C18_tokens_safe_latest / C18_complete_latest cover LatestOnly sources under the fourth
    repair (see C18_complete_refuted_latestonly: with LatestOnly the three repairs alone are not enough). *)
From Coq Require Import List ZArith NArith Bool Arith Lia.
From DH Require Import Model.MultiSource Proofs.MultiSourceProofs Proofs.MultiSourceWitness
     Check.C18Check Proofs.C18CheckProofs.
Import ListNotations.
Local Open Scope Z_scope.

(** Token safety.  At every moment of every history, for every declared or implicit dependency [dp] and every
    position [p] below the persisted token of [dp]'s dataset, the change at [p] has been handled ([covered]):
    at a moment when the change existed, with persisted position [since <= p], the job handed to the sink -
    before any further write - every live main entity connected to the changed entity through [dp]'s joins as
    the graph stood at that moment, and every one connected through a first outgoing hop as the dependency
    dataset stood at [since]; or it handed over every live main entity (full sync).  This holds after runs
    that were cut short by a failing sink as well. *)
Theorem C18_tokens_safe : forall v c n ops s tr tk,
  sound v -> c_latest c = false -> Forall (batch_ok c) ops ->
  exec v c (init_state n) ops = (s, tr) -> s_job s = Some tk ->
  forall dp, In dp (c_deps c) -> forall p, 0 <= p < dtok tk (d_ds dp) -> covered c n tr dp p.
Proof. exact tokens_safe. Qed.
Print Assumptions C18_tokens_safe.

(** Completeness.  Once the job has caught up (every dependency token is at the end of its feed), every change
    of every dependency dataset has been handled in the above sense - for all graphs, join shapes, histories,
    batch sizes and run schedules. *)
Theorem C18_complete : forall v c n ops s tr,
  sound v -> c_latest c = false -> Forall (batch_ok c) ops ->
  exec v c (init_state n) ops = (s, tr) -> caught_up c s ->
  forall dp, In dp (c_deps c) -> forall p, 0 <= p < lenz (feed_of (s_hub s) (d_ds dp)) -> covered c n tr dp p.
Proof. exact complete. Qed.
Print Assumptions C18_complete.

(** The same for LatestOnly sources, with the fourth repair ([sound_l]: SkipPrev when LatestOnly): [covered_l]
    asks, for a change that LatestOnly skips (a later change of the same entity exists at that moment), only for
    the main entities its entity was connected to through a first outgoing hop at the previous run; for every
    other change everything [covered] asks.  With LatestOnly = false the two notions coincide
    ([covered_l_plain]), so these statements contain C18_tokens_safe / C18_complete. *)
Theorem C18_tokens_safe_latest : forall v c n ops s tr tk,
  sound_l v c -> Forall (batch_ok c) ops ->
  exec v c (init_state n) ops = (s, tr) -> s_job s = Some tk ->
  forall dp, In dp (c_deps c) -> forall p, 0 <= p < dtok tk (d_ds dp) -> covered_l c n tr dp p.
Proof. exact tokens_safe_l. Qed.
Print Assumptions C18_tokens_safe_latest.

Theorem C18_complete_latest : forall v c n ops s tr,
  sound_l v c -> Forall (batch_ok c) ops ->
  exec v c (init_state n) ops = (s, tr) -> caught_up c s ->
  forall dp, In dp (c_deps c) -> forall p, 0 <= p < lenz (feed_of (s_hub s) (d_ds dp)) -> covered_l c n tr dp p.
Proof. exact complete_l. Qed.
Print Assumptions C18_complete_latest.

Theorem C18_fixpoint_caught_up_latest : forall v c h b core tk evs ok tk' dp,
  sound_l v c -> (1 <= b)%nat -> tok_ok tk -> tok_in c h tk -> In dp (c_deps c) ->
  run_events v c h (Some tk) false b None core = (evs, ok) -> last_tok evs (Some tk) = Some tk' ->
  dtok tk' (d_ds dp) = dtok tk (d_ds dp) ->
  dtok tk (d_ds dp) = lenz (feed_of h (d_ds dp)).
Proof. exact fixpoint_caught_up_l. Qed.
Print Assumptions C18_fixpoint_caught_up_latest.

(** "Its continuation tokens no longer advance" means caught up: a fault-free incremental run that leaves a
    dependency token where it was had nothing left to read in that dataset. *)
Theorem C18_fixpoint_caught_up : forall v c h b core tk evs ok tk' dp,
  sound v -> c_latest c = false -> (1 <= b)%nat -> tok_ok tk -> tok_in c h tk -> In dp (c_deps c) ->
  run_events v c h (Some tk) false b None core = (evs, ok) -> last_tok evs (Some tk) = Some tk' ->
  dtok tk' (d_ds dp) = dtok tk (d_ds dp) ->
  dtok tk (d_ds dp) = lenz (feed_of h (d_ds dp)).
Proof. exact fixpoint_caught_up. Qed.
Print Assumptions C18_fixpoint_caught_up.

(** One ReadEntities call, at the granularity of the pipeline's processEntities calls: whenever a call persists
    a token, everything the token moved past in this call has been handed over in this or an earlier call. *)
Theorem C18_page_safe : forall v c h tk0 b cs tk1 more,
  f_shared v = SharedSnapshot -> f_prev v = PrevFeed -> (c_latest c = true -> f_skip v = SkipPrev) -> (1 <= b)%nat ->
  (forall k, 0 <= dtok tk0 k) -> 0 <= t_main tk0 ->
  read_page v c h tk0 b = (cs, tk1, more) ->
  forall cs1 k cs2, cs = cs1 ++ k :: cs2 -> forall dp, In dp (c_deps c) -> forall p m,
    dtok tk0 (d_ds dp) <= p < dtok (k_tok k) (d_ds dp) -> req c h tk0 dp p m ->
    In m (ents (cs1 ++ [k])).
Proof.
  intros v c h tk0 b cs tk1 more Hs Hp Hk Hb H1 H2 H.
  destruct (page_safe v c h tk0 b Hs Hp Hk Hb H1 H2 _ _ _ H) as [Hsafe _]. exact Hsafe.
Qed.
Print Assumptions C18_page_safe.

(** Main only.  Under EVERY variant (the pinned tree included), whatever any run of any history hands to the
    sink is an entity id of the main dataset; what a dependency contributes is moreover live there. *)
Theorem C18_main_only : forall v c ops s0 s tr,
  exec v c s0 ops = (s, tr) -> forall m, In m (ents_of tr) -> In m (main_ids (s_hub s) c).
Proof. exact main_only. Qed.
Print Assumptions C18_main_only.

Theorem C18_main_only_live : forall v c h tk0 b d dp later cs d',
  dep_step v c h tk0 b d dp later = (cs, d') -> forall m, In m (ents cs) -> main_live h (c_main c) m = true.
Proof. exact dep_step_main. Qed.
Print Assumptions C18_main_only_live.

(** The graph queries of the model are the triple semantics of the spec, the join walk follows every
    declared path. *)
Theorem C18_related_spec : forall h scope t j x y, In y (related h scope t j x) <-> hop_rel h scope t j x y.
Proof. exact related_spec. Qed.
Print Assumptions C18_related_spec.

(** Implicit dependencies: every intermediate dataset of a declared join path (other than the main dataset) is
    tracked with the rest of the path, so a change in the middle of a path - e.g. a rewired link that is not the
    first hop - is a dependency change of its own and C18_complete applies to it. *)
Theorem C18_implicit_tracked : forall main declared d pre j post,
  In d declared -> d_joins d = pre ++ j :: post -> j_ds j <> main ->
  In (mkDep (j_ds j) post) (effective_deps main declared) /\ In d (effective_deps main declared).
Proof. exact implicit_tracked. Qed.
Print Assumptions C18_implicit_tracked.

(** ** Refutations for the pinned tree: witness histories, one flag of the tree at a time *)

(** F18a: two dependencies on one dataset - the second one's removed link is never followed *)
Theorem C18_complete_refuted_shared :
  exists c n ops b dp since x m after,
    refutes (mkVar SharedEager PrevFeed WmOwn SkipPrev) c n ops b dp since x m after.
Proof. do 9 eexists. exact refuted_shared_prev. Qed.
Print Assumptions C18_complete_refuted_shared.

(** F18a: ... and a sink failure while the second dependency delivers leaves the shared token advanced *)
Theorem C18_tokens_safe_refuted_shared :
  exists c n ops b dp since x m after,
    refutes (mkVar SharedEager PrevFeed WmOwn SkipPrev) c n ops b dp since x m after
    /\ exists full bb k core, In (ORun full bb (Some k) core) ops.
Proof. do 9 eexists. split; [exact refuted_shared_token|]. do 4 eexists. cbn. eauto 10. Qed.
Print Assumptions C18_tokens_safe_refuted_shared.

(** F18b: a page boundary inside one write batch *)
Theorem C18_complete_refuted_prevtime :
  exists c n ops b dp since x m after,
    refutes (mkVar SharedSnapshot PrevTime WmOwn SkipPrev) c n ops b dp since x m after.
Proof. do 9 eexists. exact refuted_prev_time. Qed.
Print Assumptions C18_complete_refuted_prevtime.

(** F18c: a dependency dataset that is empty when the full sync takes its watermark *)
Theorem C18_complete_refuted_watermark :
  exists c n ops b dp since x m after,
    refutes (mkVar SharedSnapshot PrevFeed WmNeighbour SkipPrev) c n ops b dp since x m after.
Proof. do 9 eexists. exact refuted_watermark. Qed.
Print Assumptions C18_complete_refuted_watermark.

(** F18d: LatestOnly - with all three repairs of [sound] in place *)
Theorem C18_complete_refuted_latestonly :
  exists c n ops b dp since x m after,
    c_latest c = true /\ refutes (mkVar SharedSnapshot PrevFeed WmOwn SkipDrop) c n ops b dp since x m after.
Proof. do 9 eexists. split; [|exact refuted_latest_only]. reflexivity. Qed.
Print Assumptions C18_complete_refuted_latestonly.

(** the pinned tree itself on the same histories *)
Theorem C18_complete_refuted_current :
  refutes v_cur c_a 2 ops_a 2 (mkDep 1 [mkJoin 0 2 false]) 1 11 2 6
  /\ refutes v_cur c_b 2 ops_b 1 (mkDep 1 [mkJoin 0 1 false]) 2 12 2 7.
Proof.
  split.
  - unfold refutes. split; [vm_compute; reflexivity|]. split; [cbn; tauto|]. split; [|not_in].
    split; [|vm_compute; reflexivity]. right. unfold connected_prev. cbn [d_joins c_a]. split; [reflexivity|]. split; [lia|].
    exists 2%N. split; [|reflexivity]. exists 1%nat. split; [now left|]. cbn [j_inv]. triple.
  - unfold refutes. split; [vm_compute; reflexivity|]. split; [cbn; tauto|]. split; [|not_in].
    split; [|vm_compute; reflexivity]. right. unfold connected_prev. cbn [d_joins c_b]. split; [reflexivity|]. split; [lia|].
    exists 2%N. split; [|reflexivity]. exists 1%nat. split; [now left|]. cbn [j_inv]. triple.
Qed.
Print Assumptions C18_complete_refuted_current.

(** ** Correspondence link *)
(** The repaired model meets the WHOLE executable spec ([spec_ok]: main-only, tokens in range, run-level coverage
    of every change a run's tokens moved past - also for runs cut short by a sink failure -, full-sync delivery,
    the write-during-full-sync clause) on its own observations, for every well-formed case: any graph, history,
    join list, batch size >= 1, LatestOnly flag, sink failures, writes during a full sync. *)
Theorem C18_model_meets_spec : forall v c,
  sound_l v (cfg_of c) -> wf_case c = true -> spec_ok (selfobs v c) = true.
Proof. exact model_meets_spec. Qed.
Print Assumptions C18_model_meets_spec.

(** Agreement of the implementation's observations with the repaired model implies the whole executable spec on
    those observations, the two things agreement cannot determine being taken from the model ([okobs]): the
    marker count (entity content is not modelled) and WHICH ids a run that ended with a sink failure had delivered
    (the order inside a dependency's result list is not modelled; [agree] compares their number). *)
Theorem C18_agree_implies_spec : forall v c,
  sound_l v (cfg_of c) -> wf_case c = true -> agree v c = true -> spec_ok (okobs v c) = true.
Proof. exact agree_implies_spec. Qed.
Print Assumptions C18_agree_implies_spec.

(** older, for EVERY variant: the main-only part on the implementation's own delivered ids *)
Theorem C18_agree_implies_spec_partial : forall v c, agree v c = true -> spec_main_only c = true.
Proof. exact agree_implies_main_only. Qed.
Print Assumptions C18_agree_implies_spec_partial.

(** ** Non-vacuity *)
(** the repaired variant delivers what the tree misses on the witness histories, and ends caught up *)
Example C18_fixed_shared :
  In 2%N (ents_of (skipn 6 (snd (exec v_fixed c_a (init_state 2) ops_a))))
  /\ In 2%N (ents_of (skipn 6 (snd (exec v_fixed c_a (init_state 2) ops_a2)))).
Proof. split; vm_compute; tauto. Qed.
Example C18_fixed_prevtime : In 2%N (ents_of (skipn 7 (snd (exec v_fixed c_b (init_state 2) ops_b)))).
Proof. vm_compute; tauto. Qed.
Example C18_fixed_watermark : In 1%N (ents_of (skipn 5 (snd (exec v_fixed c_c (init_state 2) ops_c)))).
Proof. vm_compute; tauto. Qed.
Example C18_fixed_latestonly : In 1%N (ents_of (skipn 7 (snd (exec v_fixed c_d (init_state 2) ops_d)))).
Proof. vm_compute; tauto. Qed.
(** the hypotheses of C18_complete are met by a concrete history: sound variant, caught up, a covered change *)
Example C18_complete_nonvacuous :
  sound v_fixed /\ c_latest c_a = false /\ Forall (batch_ok c_a) ops_a
  /\ caught_up c_a (fst (exec v_fixed c_a (init_state 2) ops_a))
  /\ required c_a (s_hub (fst (exec v_fixed c_a (init_state 2) ops_a))) (mkDep 1 [mkJoin 0 2 false]) 1 11 2.
Proof.
  split; [repeat split|]. split; [reflexivity|]. split; [repeat constructor|]. split.
  - eexists. split; [vm_compute; reflexivity|]. intros dp [<-|[<-|[]]]; vm_compute; reflexivity.
  - split; [|vm_compute; reflexivity]. right. unfold connected_prev. cbn [d_joins c_a]. split; [reflexivity|]. split; [lia|].
    exists 2%N. split; [|reflexivity]. exists 1%nat. split; [now left|]. cbn [j_inv]. triple.
Qed.
(** the hypotheses of C18_complete_latest are met by the LatestOnly witness history of F18d: the repaired variant
    ends caught up, position 3 of the dependency feed (entity 11's superseded change) is a skipped change, and
    the main entity 1 it pointed to at the previous run is required for it *)
Example C18_complete_latest_nonvacuous :
  sound_l v_fixed c_d /\ c_latest c_d = true /\ Forall (batch_ok c_d) ops_d
  /\ caught_up c_d (fst (exec v_fixed c_d (init_state 2) ops_d))
  /\ (let h := s_hub (fst (exec v_fixed c_d (init_state 2) ops_d)) in
      exists x, nthz (feed_of h 1) 3 = Some x /\ skipped c_d (feed_of h 1) 3 x = true
                /\ required_l c_d h (mkDep 1 [mkJoin 0 1 false]) 2 3 x 1).
Proof.
  split; [split; [repeat split|reflexivity]|]. split; [reflexivity|]. split; [repeat constructor|]. split.
  - eexists. split; [vm_compute; reflexivity|]. intros dp [<-|[]]; vm_compute; reflexivity.
  - cbn zeta. eexists. split; [vm_compute; reflexivity|]. split; [vm_compute; reflexivity|].
    split; [|vm_compute; reflexivity]. right. unfold connected_prev. cbn [d_joins]. split; [reflexivity|]. split; [lia|].
    exists 1%N. split; [|reflexivity]. exists 1%nat. split; [now left|]. cbn [j_inv]. triple.
Qed.
(** the hypotheses of C18_agree_implies_spec are met by a concrete case with a LatestOnly source, a sink failure
    in the middle of a fan-out, a write during a full sync and runs to the fixpoint (the observations are the
    repaired model's own, so they agree with it) *)
Definition ex_case : tcase :=
  let r full fail mid := TRun (mkTR full fail 0 mid true [] [] 0 0 [] false []) in
  mkTC 2 0 [mkDep 1 [mkJoin 0 1 true]] true 1
       [TW 0 [w 1 [(1, 11)] false; w 2 [(1, 11)] false; w 3 [(1, 11)] false]%N; TW 1 [w 11 [] false]%N;
        r false None None; TW 1 [w 11 [] false]%N; r false (Some 1%nat) None; r false None None; r false None None;
        r true None (Some (0%nat, 1%nat, [w 11 [] false]%N)); r false None None; r false None None]
       [mkDep 1 [mkJoin 0 1 true]].
Example C18_agree_implies_spec_nonvacuous :
  sound_l v_fixed (cfg_of ex_case) /\ wf_case (selfobs v_fixed ex_case) = true
  /\ agree v_fixed (selfobs v_fixed ex_case) = true
  /\ existsb (fun o => match o with TRun r => negb (tr_ok r) | _ => false end) (tc_ops (selfobs v_fixed ex_case)) = true
  /\ existsb (fun o => match o with TRun r => tr_middone r | _ => false end) (tc_ops (selfobs v_fixed ex_case)) = true.
Proof.
  split; [split; [repeat split|reflexivity]|]. repeat split; vm_compute; reflexivity.
Qed.
(** a dependency write that lands between two pages of a full sync is not jumped over: the watermark was taken
    when the full sync started, so the next incremental run re-emits the main entity the first page had
    already delivered *)
Example C18_write_during_fullsync :
  let c := mkCfg 0 [mkDep 1 [mkJoin 0 1 true]] false in
  let ops := [OAppend 0 [w 1 [(1, 11)] false; w 2 [] false; w 3 [] false]; OAppend 1 [w 11 [] false];
              ORunMid 1 None 0 0 1 [w 11 [] false]; run 1; run 1]%N in
  Forall (batch_ok c) ops
  /\ (exists tk, s_job (fst (exec v_fixed c (init_state 2) ops)) = Some tk /\ dtok tk 1 = 2)
  /\ In 1%N (ents_of (skipn 7 (snd (exec v_fixed c (init_state 2) ops)))).
Proof.
  cbn zeta. split; [repeat constructor; discriminate|]. split; [eexists; split; vm_compute; reflexivity|].
  vm_compute. tauto.
Qed.
(** a three-hop path with mixed directions is followed by the walk *)
Example C18_three_hops :
  let h := s_hub (fst (exec v_fixed (mkCfg 0 [] false) (init_state 4)
     [OAppend 3 [w 31 [] false]; OAppend 2 [w 21 [(1, 31); (2, 11)] false]; OAppend 1 [w 11 [] false];
      OAppend 0 [w 1 [(3, 11)] false]]%N)) in
  path h (h_clock h) 3 [mkJoin 2 1 true; mkJoin 1 2 false; mkJoin 0 3 true] 31 1.
Proof.
  cbn zeta. exists 21%N. split; [exists 2%nat; split; [right; now left|cbn [j_inv]; triple]|].
  exists 11%N. split; [exists 2%nat; split; [now left|cbn [j_inv]; triple]|].
  exists 1%N. split; [exists 0%nat; split; [right; now left|cbn [j_inv]; triple]|]. reflexivity.
Qed.
