(** * C16 - No request is served beyond what the caller's token and ACL grant.
    Only statements, each closed by [exact <lemma>], with [Print Assumptions]. *)
From Coq Require Import List String Bool NArith.
From DH Require Import Model.Acl Model.Jwt Model.Gate Model.SecStore Model.GateSeq Model.IdCodec Model.SecApi
     Proofs.AclProofs Proofs.JwtProofs Proofs.GateProofs Proofs.SecStoreProofs Proofs.GateSeqProofs Proofs.IdCodecProofs Check.C16Check Proofs.C16CheckProofs.
Import ListNotations.
Open Scope string_scope.

(** The whole gate, repaired flags: for every configuration, token oracle, ACL store, route table whose
    unguarded routes are static and among {GET /health, POST /security/token, GET /}, every Authorization
    header, method and path - if a handler runs, the request was one of the two open ones, or it carried a
    token the hub may trust (signed by the node key or a configured JWKS key, time window open, RS256, accepted
    audience and issuer present) and is the service-info document, or comes from an admin, or the caller's ACL
    grants the path (exactly or by trailing-* prefix) for the needed action with no matching deny entry. *)
Theorem C16_sound : forall w auth method path,
  table_ok (w_routes w) -> gate_spec w auth method path (fst (decide fixed w auth method path)).
Proof. exact gate_sound. Qed.
Print Assumptions C16_sound.

(** the route table NewWebService registers satisfies the hypothesis (checked against e.Routes() on every run) *)
Theorem C16_registered_table_ok : table_ok routes_compiled /\ routes_compiled = compile routes_current.
Proof. exact (conj routes_compiled_ok routes_compiled_is_compile). Qed.
Print Assumptions C16_registered_table_ok.

(** the ACL decision alone, all methods / paths / role lists / ACL lists (unbounded): exact characterisation
    of the repaired decision ... *)
Theorem C16_acl_fixed_iff : forall method path roles acl,
  acl_check MapSafeOnly DenyWins method path roles acl = true <->
  In "admin" roles \/
  exists l, acl = Some l
    /\ (exists a, In a l /\ ac_deny a = false /\ res_matches (ac_resource a) path
                  /\ covers (ac_action a) (spec_needed method))
    /\ (forall d, In d l -> ac_deny d = true -> res_matches (ac_resource d) path
                  -> covers (ac_action d) (spec_needed method) -> False).
Proof. exact acl_check_fixed_iff. Qed.
Print Assumptions C16_acl_fixed_iff.

(** ... which refines the spec *)
Theorem C16_acl_sound : forall method path roles acl,
  acl_check MapSafeOnly DenyWins method path roles acl = true -> authorized method path roles acl.
Proof. exact acl_check_fixed_sound. Qed.
Print Assumptions C16_acl_sound.

(** every state-changing method needs a write grant: read never suffices for a mutation *)
Theorem C16_mutation_needs_write : forall w auth method path t,
  table_ok (w_routes w) -> fst (decide fixed w auth method path) = Served ->
  ~ open_request method path -> extract_token auth = Some t ->
  method <> "GET" -> method <> "HEAD" -> ~ In "admin" (f_roles (w_oracle w t)) ->
  exists l a, w_acls w (f_sub (w_oracle w t)) = Some l /\ In a l /\ ac_deny a = false
              /\ res_matches (ac_resource a) path /\ ac_action a = "write".
Proof. exact mutation_needs_write. Qed.
Print Assumptions C16_mutation_needs_write.

(** no route except the two open ones answers without a trusted token *)
Theorem C16_served_needs_token : forall w auth method path,
  table_ok (w_routes w) -> fst (decide fixed w auth method path) = Served -> ~ open_request method path ->
  exists t, extract_token auth = Some t /\ token_ok (w_cfg w) (w_oracle w t).
Proof. exact served_needs_token. Qed.
Print Assumptions C16_served_needs_token.

(** the token check alone *)
Theorem C16_token_sound : forall cfg f, validate ClaimsRequired cfg f = true -> token_ok cfg f.
Proof. exact validate_fixed_sound. Qed.
Print Assumptions C16_token_sound.

(** the string functions of CheckGranted compute exact-or-trailing-* matching *)
Theorem C16_matching : forall a path need,
  entry_applies a path need = true <-> res_matches (ac_resource a) path /\ covers (ac_action a) need.
Proof. exact entry_applies_spec. Qed.
Print Assumptions C16_matching.

(** the dataset list a non-admin sees (repaired filter): only datasets its ACL grants for read *)
Theorem C16_dataset_filter : forall acl names d,
  In d (filter_datasets DenyWins acl names) -> In d names /\ acl_grants acl ("/datasets/" ++ d) "read".
Proof. exact filter_datasets_fixed_sound. Qed.
Print Assumptions C16_dataset_filter.

(** the pinned filter lists a dataset as soon as any non-deny entry covers it: deny entries are dead here too *)
Theorem C16_dataset_filter_pinned : forall acl names d,
  In d (filter_datasets DenySkip acl names) <->
  In d names /\ exists a, In a acl /\ ac_deny a = false /\ res_matches (ac_resource a) ("/datasets/" ++ d)
                          /\ covers (ac_action a) "read".
Proof. exact filter_datasets_pinned_iff. Qed.
Print Assumptions C16_dataset_filter_pinned.

(** ** the pinned tree: exact characterisation, relation to the repaired decision, refutations *)

(** what the pinned loop decides (either method map): some non-deny entry covers the map's action - deny entries
    elsewhere in the list play no role *)
Theorem C16_acl_pinned_iff : forall mm method path roles acl,
  acl_check mm DenySkip method path roles acl = true <->
  In "admin" roles \/
  exists l, acl = Some l
    /\ exists a, In a l /\ ac_deny a = false /\ res_matches (ac_resource a) path
                 /\ covers (ac_action a) (needed mm method).
Proof. exact acl_check_skip_iff. Qed.
Print Assumptions C16_acl_pinned_iff.

Theorem C16_deny_entries_dead : forall mm method path roles l,
  acl_check mm DenySkip method path roles (Some l)
  = acl_check mm DenySkip method path roles (Some (filter (fun a => negb (ac_deny a)) l)).
Proof. exact deny_entries_dead. Qed.
Print Assumptions C16_deny_entries_dead.

(** the repair only takes away ... *)
Theorem C16_fixed_implies_pinned : forall method path roles acl,
  acl_check MapSafeOnly DenyWins method path roles acl = true ->
  acl_check MapPostDelete DenySkip method path roles acl = true.
Proof. exact fixed_implies_pinned. Qed.
Print Assumptions C16_fixed_implies_pinned.

(** ... and exactly two things: overridden denies (F16b) and non-GET/HEAD/POST/DELETE methods passing on a
    grant that does not cover write (F16a) *)
Theorem C16_pinned_beyond_fixed : forall method path roles acl,
  acl_check MapPostDelete DenySkip method path roles acl = true ->
  acl_check MapSafeOnly DenyWins method path roles acl = false ->
  exists l, acl = Some l /\ ~ In "admin" roles /\
    ((exists d, In d l /\ ac_deny d = true /\ res_matches (ac_resource d) path
                /\ covers (ac_action d) (spec_needed method))
     \/ (spec_needed method = "write" /\ needed MapPostDelete method = "read"
         /\ forall a, In a l -> ac_deny a = false -> res_matches (ac_resource a) path
                      -> covers (ac_action a) "write" -> False)).
Proof. exact pinned_beyond_fixed. Qed.
Print Assumptions C16_pinned_beyond_fixed.

(** the pinned token check accepts more than the repaired one exactly on tokens lacking aud or iss (F16d) *)
Theorem C16_token_pinned_beyond : forall cfg f,
  validate ClaimsOptional cfg f = true -> validate ClaimsRequired cfg f = false ->
  String.concat "" (f_aud f) = "" \/ f_iss f = "".
Proof. exact validate_optional_beyond. Qed.
Print Assumptions C16_token_pinned_beyond.

Theorem C16_refuted_put_read :
  let w := w_demo [{| ac_resource := "/datasets/a"; ac_action := "read"; ac_deny := false |}] good_token in
  ~ gate_spec w "Bearer tok" "PATCH" "/datasets/a" (fst (decide current w "Bearer tok" "PATCH" "/datasets/a")).
Proof. exact gate_refuted_put_read. Qed.
Print Assumptions C16_refuted_put_read.

Theorem C16_refuted_deny_overridden :
  let allow := {| ac_resource := "/datasets/*"; ac_action := "write"; ac_deny := false |} in
  let deny := {| ac_resource := "/datasets/secret"; ac_action := "write"; ac_deny := true |} in
  (acl_check MapPostDelete DenySkip "POST" "/datasets/secret" client_roles (Some [allow; deny]) = true
   /\ ~ authorized "POST" "/datasets/secret" client_roles (Some [allow; deny]))
  /\ (acl_check MapPostDelete DenySkip "POST" "/datasets/secret" client_roles (Some [deny; allow]) = true
      /\ ~ authorized "POST" "/datasets/secret" client_roles (Some [deny; allow])).
Proof. exact refuted_deny_overridden. Qed.
Print Assumptions C16_refuted_deny_overridden.

Theorem C16_refuted_deny_overridden_gate :
  let w := w_demo [{| ac_resource := "/datasets/secret"; ac_action := "write"; ac_deny := true |};
                   {| ac_resource := "/datasets/*"; ac_action := "write"; ac_deny := false |}] good_token in
  ~ gate_spec w "Bearer tok" "POST" "/datasets/secret" (fst (decide current w "Bearer tok" "POST" "/datasets/secret")).
Proof. exact gate_refuted_deny_overridden. Qed.
Print Assumptions C16_refuted_deny_overridden_gate.

Theorem C16_refuted_missing_claims :
  let w := w_demo [{| ac_resource := "/*"; ac_action := "read"; ac_deny := false |}] bare_token in
  ~ gate_spec w "Bearer tok" "GET" "/datasets" (fst (decide current w "Bearer tok" "GET" "/datasets")).
Proof. exact gate_refuted_missing_claims. Qed.
Print Assumptions C16_refuted_missing_claims.

(** design lead F16c (a route registered without the authorizer): not present in the pinned table; if one were
    added the table hypothesis fails and so does the property, even with the repaired flags *)
Theorem C16_unguarded_route_refutes :
  let rt := compile (Ropen "GET" "/statistics" :: routes_current) in
  let w := {| w_cfg := w_cfg (w_demo [] good_token); w_routes := rt; w_oracle := fun _ => good_token;
              w_acls := fun _ => None |} in
  table_ok_b rt = false
  /\ ~ gate_spec w "Bearer tok" "GET" "/statistics" (fst (decide fixed w "Bearer tok" "GET" "/statistics")).
Proof. exact unguarded_route_refutes. Qed.
Print Assumptions C16_unguarded_route_refutes.

(** ** sequences of requests through one process: the gate keeps nothing between requests *)

(** for every list of requests, arriving at any instants in any order, the answers of a run through a fresh
    process are the per-request decisions at the instant of each request - nothing asked earlier matters *)
Theorem C16_stateless : forall v tw rs, gate_run CacheNone v tw rs = stateless_answers v tw rs.
Proof. exact gate_run_stateless. Qed.
Print Assumptions C16_stateless.

(** hence every answer of a run satisfies the gate spec at its own instant (repaired flags) ... *)
Theorem C16_run_sound : forall tw rs i r o,
  table_ok (tw_routes tw) ->
  nth_error rs i = Some r -> nth_error (gate_run CacheNone fixed tw rs) i = Some o ->
  gate_spec (world_at tw (rq_time r)) (rq_auth r) (rq_method r) (rq_path r) (fst o).
Proof. exact gate_run_sound. Qed.
Print Assumptions C16_run_sound.

(** ... and a token is never served at or after its exp (or before its nbf), however often it was accepted before;
    this part holds under every combination of the gate flags, the pinned ones included *)
Theorem C16_no_expired_served : forall v tw rs i r o,
  nth_error rs i = Some r -> nth_error (gate_run CacheNone v tw rs) i = Some o -> fst o = Served ->
  skipper (rq_path r) = false ->
  exists t, extract_token (rq_auth r) = Some t
    /\ (forall e, tt_exp (tw_tokens tw t) = Some e -> (rq_time r < e)%N)
    /\ (forall n, tt_nbf (tw_tokens tw t) = Some n -> (n <= rq_time r)%N).
Proof. exact no_expired_served_any_variant. Qed.
Print Assumptions C16_no_expired_served.

(** a handler that remembers the bearer strings it accepted is not stateless: the same string is served after its
    exp if (and only if, here) it was presented before *)
Theorem C16_refuted_verified_cache :
  map fst (gate_run CacheVerified fixed demo_tw [demo_rq 0; demo_rq 10]) = [Served; Served]
  /\ map fst (gate_run CacheNone fixed demo_tw [demo_rq 0; demo_rq 10]) = [Served; Unauth]
  /\ map fst (gate_run CacheVerified fixed demo_tw [demo_rq 10]) = [Unauth].
Proof. exact cache_refuted. Qed.
Print Assumptions C16_refuted_verified_cache.

(** ** the ACL routes address a client by the spelling of its id in the URL *)

(** if the three handlers of /security/clients/:clientid/acl read the id the same way, then for every history and
    every spelling that the POST handler accepts: DELETE through the same spelling removes exactly what POST stored,
    and GET through it shows nothing *)
Theorem C16_revocation_effective : forall d fm im ops sp l id,
  uniform d -> resolve (d_set d) sp = Some id ->
  let s := api_run d fm im (ops ++ [SpSetAcl sp l; SpDelAcl sp]) in
  lookup id (mem_acls s) = None /\ api_get d s sp = None.
Proof. exact revocation_effective. Qed.
Print Assumptions C16_revocation_effective.

Theorem C16_grant_visible : forall d fm im ops sp l id,
  uniform d -> resolve (d_set d) sp = Some id ->
  api_get d (api_run d fm im (ops ++ [SpSetAcl sp l])) sp = Some l.
Proof. exact grant_visible. Qed.
Print Assumptions C16_grant_visible.

(** ids made of letters, digits and - _ . ~ are their own spelling, for either way of reading the parameter *)
Theorem C16_unreserved_ids : forall m s, all_chars unreserved s = true -> resolve m s = Some s.
Proof. exact unreserved_resolves_to_itself. Qed.
Print Assumptions C16_unreserved_ids.

(** the repaired store is what the history denotes (set / delete / unregister as a map; restarts denote nothing) *)
Theorem C16_store_denotes : forall ops,
  let s := sec_run AclFileAcls InitIndependent ops in
  mem_clients s = fst (spec_store ops) /\ mem_acls s = snd (spec_store ops).
Proof. exact run_matches_spec. Qed.
Print Assumptions C16_store_denotes.

(** a DELETE handler that takes the raw parameter while POST and GET decode it revokes nothing for an id the caller
    escaped more eagerly than Go would (bob%40clients): the entry stays, also across a restart *)
Theorem C16_refuted_raw_delete :
  let d := {| d_set := IdUnescape; d_get := IdUnescape; d_del := IdRaw |} in
  let l := [{| ac_resource := "/datasets/*"; ac_action := "read"; ac_deny := false |}] in
  let s := api_run d AclFileAcls InitIndependent [SpSetAcl "bob%40clients" l; SpDelAcl "bob%40clients"] in
  ~ uniform d /\ lookup "bob@clients" (mem_acls s) = Some l /\ api_get d s "bob%40clients" = Some l
  /\ lookup "bob@clients" (mem_acls (restart InitIndependent s)) = Some l.
Proof. exact refuted_raw_delete. Qed.
Print Assumptions C16_refuted_raw_delete.

(** ** persistence *)

(** for all histories of register / unregister / set-ACL / delete-ACL / restart, a restart is the identity on
    the security state (registry and ACL store), repaired flags *)
Theorem C16_persist : forall ops,
  let s := sec_run AclFileAcls InitIndependent ops in restart InitIndependent s = s.
Proof. exact persist_fixed. Qed.
Print Assumptions C16_persist.

Theorem C16_persist_same : forall ops,
  same_security (sec_run AclFileAcls InitIndependent ops)
                (restart InitIndependent (sec_run AclFileAcls InitIndependent ops)).
Proof. exact persist_fixed_same. Qed.
Print Assumptions C16_persist_same.

(** pinned: after any DeleteClientAccessControls a restart leaves no ACL at all (F16e); without clients.json a
    restart leaves no ACL at all (F16f) *)
Theorem C16_pinned_delete_then_restart : forall im c s,
  mem_acls (restart im (del_acl AclFileClients c s)) = [].
Proof. exact pinned_delete_then_restart. Qed.
Print Assumptions C16_pinned_delete_then_restart.

Theorem C16_pinned_no_clients_file : forall s, disk_clients s = None -> mem_acls (restart InitAborts s) = [].
Proof. exact pinned_no_clients_file. Qed.
Print Assumptions C16_pinned_no_clients_file.

Theorem C16_refuted_acl_clobber :
  let ops := [OpRegister "a"; OpSetAcl "a" demo_acl; OpRegister "b"; OpSetAcl "b" demo_acl; OpDelAcl "b"] in
  let s := sec_run AclFileClients InitAborts ops in
  lookup "a" (mem_acls s) = Some demo_acl /\ lookup "a" (mem_acls (restart InitAborts s)) = None.
Proof. exact refuted_acl_clobber. Qed.
Print Assumptions C16_refuted_acl_clobber.

Theorem C16_refuted_init_order :
  let s := sec_run AclFileAcls InitAborts [OpSetAcl "a" demo_acl] in
  lookup "a" (mem_acls s) = Some demo_acl /\ lookup "a" (mem_acls (restart InitAborts s)) = None.
Proof. exact refuted_init_order. Qed.
Print Assumptions C16_refuted_init_order.

(** ** tie to the correspondence check *)
Theorem C16_agree_implies_spec : forall c, agree cfixed c = true -> spec_ok c = true.
Proof. exact agree_fixed_spec. Qed.
Print Assumptions C16_agree_implies_spec.

(** ** non-vacuity: the repaired gate does serve what the spec allows, and blocks the witnesses *)
Example C16_nonvacuous_served :
  let w := w_demo [{| ac_resource := "/datasets/*"; ac_action := "write"; ac_deny := false |}] good_token in
  map (fun mp => decide fixed w "Bearer tok" (fst mp) (snd mp))
      [("GET", "/datasets/a/changes"); ("PATCH", "/datasets/a"); ("POST", "/jobs"); ("GET", "/"); ("GET", "/health");
       ("OPTIONS", "/x"); ("GET", "/nope"); ("GET", "/jobs/a/b")]
  = [(Served, "/datasets/:dataset/changes"); (Served, "/datasets/:dataset"); (Forbidden, "/jobs"); (Served, "/");
     (Served, "/health"); (Preflight, ""); (NoRoute, ""); (Forbidden, "/jobs/:jobid")].
Proof. vm_compute. reflexivity. Qed.

Example C16_nonvacuous_blocked :
  let deny := {| ac_resource := "/datasets/secret"; ac_action := "write"; ac_deny := true |} in
  let allow := {| ac_resource := "/datasets/*"; ac_action := "write"; ac_deny := false |} in
  let ro := {| ac_resource := "/datasets/a"; ac_action := "read"; ac_deny := false |} in
  (fst (decide fixed (w_demo [allow; deny] good_token) "Bearer tok" "POST" "/datasets/secret"),
   fst (decide fixed (w_demo [allow; deny] good_token) "Bearer tok" "POST" "/datasets/open"),
   fst (decide fixed (w_demo [ro] good_token) "Bearer tok" "PATCH" "/datasets/a"),
   fst (decide fixed (w_demo [ro] good_token) "Bearer tok" "GET" "/datasets/a"),
   fst (decide fixed (w_demo [allow] bare_token) "Bearer tok" "GET" "/datasets/a"),
   fst (decide fixed (w_demo [allow] good_token) "Basic tok" "GET" "/datasets/a"))
  = (Forbidden, Served, Forbidden, Served, Unauth, Unauth).
Proof. vm_compute. reflexivity. Qed.

Example C16_nonvacuous_table : List.length routes_compiled = 50%nat /\ table_ok_b routes_compiled = true.
Proof. vm_compute. split; reflexivity. Qed.

Example C16_nonvacuous_persist :
  let ops := [OpRegister "a"; OpSetAcl "a" demo_acl; OpRegister "b"; OpSetAcl "b" demo_acl; OpDelAcl "b"; OpRestart] in
  lookup "a" (mem_acls (sec_run AclFileAcls InitIndependent ops)) = Some demo_acl
  /\ lookup "b" (mem_acls (sec_run AclFileAcls InitIndependent ops)) = None.
Proof. vm_compute. split; reflexivity. Qed.

(** the text before the final * is a literal prefix: a dot is a dot *)
Example C16_nonvacuous_literal_prefix :
  let e := {| ac_resource := "/datasets/sdb.*"; ac_action := "write"; ac_deny := false |} in
  (entry_applies e "/datasets/sdb.Animal/entities" "write", entry_applies e "/datasets/sdb2.Secret/entities" "write",
   entry_applies e "/datasets/sdbx" "read",
   entry_applies {| ac_resource := "/datasets/*/changes*"; ac_action := "read"; ac_deny := false |} "/datasets/x/changes" "read",
   filter_datasets DenySkip [e] ["sdb.Animal"; "sdb2.Secret"; "sdbx"])
  = (true, false, false, false, ["sdb.Animal"]).
Proof. vm_compute. reflexivity. Qed.

(** what the pinned handlers make of a spelling: eager escapes decode, a canonical spelling is decoded by net/http and
    then once more by the handler ('+' becomes a space, a decoded '%' is refused) *)
Example C16_nonvacuous_spellings :
  map (resolve IdUnescape) ["bob%40clients"; "bob@clients"; "urn%3Aclient%3A7"; "team%2Freporting"; "a%20b"; "a+b"; "a%2Bb"; "x%3ay"; "100%25"]
  = [Some "bob@clients"; Some "bob@clients"; Some "urn:client:7"; Some "team/reporting"; Some "a b"; Some "a b"; Some "a+b"; Some "x:y"; None].
Proof. vm_compute. reflexivity. Qed.
