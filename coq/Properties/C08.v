(** * C08 - Incremental jobs converge and tokens never run ahead of delivered data.
    Only statements, each closed by [exact <lemma>] or a short wrapper, with [Print Assumptions].
    Model: Model/Pipeline.v (IncrementalPipeline.sync / FullSyncPipeline.sync, DatasetSource,
    UnionDatasetSource, datasetSink, the dataset's batch write and change-feed read).
    [mkVar EqFull FsReset dm] (any in-batch duplicate rule dm) is the repaired variant,
    [mkVar EqLen FsKeep DupStoredAndLocal] the pinned tree. *)
From Coq Require Import List ZArith NArith Bool Arith Lia.
From DH Require Import Model.Pipeline Proofs.PipelineProofs Proofs.PipelineProofs2 Check.C08Check Proofs.C08CheckProofs.
Import ListNotations.

(** Token safety.  For every number of member datasets [n], every ownership of entity ids by
    members (union members hold disjoint id sets), every history of source batches, foreign
    writes to the sink and job runs - incremental or fullsync, DatasetSource or
    UnionDatasetSource, LatestOnly or not, any batch size >= 1, with ANY fault (sink error,
    sink commit + death, kill after a page, death before / after the token store) at ANY page
    index - started on the empty hub: after every operation, for every member dataset, every
    entity whose sink version is not the one the source prefix [0, token) ends with still has
    a change at or after the persisted token. *)
Theorem C08_token_safe : forall owner n dm h,
  Forall (wf_op owner n) h ->
  Forall (fun so => token_safe (fst so)) (exec (mkVar EqFull FsReset dm) (init_state n) h).
Proof.
  intros owner n dm h Hwf.
  eapply Forall_impl; [|apply (exec_safe owner n (mkVar EqFull FsReset dm) eq_refl eq_refl h _ (init_good owner n) Hwf)].
  intros so H. apply H.
Qed.
Print Assumptions C08_token_safe.

(** the same from any state satisfying the invariant (one step, so that it composes) *)
Theorem C08_token_safe_step : forall owner n dm st o st' out,
  good owner n st -> wf_op owner n o -> step (mkVar EqFull FsReset dm) st o = (st', out) ->
  good owner n st'.
Proof. intros owner n dm. intros. eapply (step_good owner n (mkVar EqFull FsReset dm) eq_refl); eauto. Qed.
Print Assumptions C08_token_safe_step.

(** A tree that keeps the old token during a fullsync (as the pinned one does) is token-safe
    on every history in which no fullsync run fails. *)
Theorem C08_token_safe_keep_partial : forall owner n dm h,
  Forall (wf_op owner n) h ->
  no_failed_full (mkVar EqFull FsKeep dm) (init_state n) h ->
  Forall (fun so => token_safe (fst so)) (exec (mkVar EqFull FsKeep dm) (init_state n) h).
Proof.
  intros owner n dm h Hwf Hnf.
  eapply Forall_impl; [|apply (exec_safe_keep owner n (mkVar EqFull FsKeep dm) eq_refl h _ (init_good owner n) Hwf Hnf)].
  intros so H. apply H.
Qed.
Print Assumptions C08_token_safe_keep_partial.

(** Convergence.  From any state satisfying the invariant (in particular after any faulty
    history), a fault-free incremental run with no concurrent source writes ends OK with every
    token at the end of its feed and the sink's latest version of every source entity equal to
    the source's, for every batch size >= 1 and LatestOnly setting. *)
Theorem C08_converge : forall owner n fs dm st r,
  good owner n st -> wf_op owner n (ORun r) -> r_full r = false -> r_flt r = FNone ->
  exists st', run_job (mkVar EqFull fs dm) st r = (st', OOk)
              /\ st_srcs st' = st_srcs st /\ converged st' /\ good owner n st'.
Proof. intros owner n fs dm. exact (run_inc_converge owner n (mkVar EqFull fs dm) eq_refl). Qed.
Print Assumptions C08_converge.

(** Idempotence: with every token at the end of its feed, a further incremental run changes
    neither the sink's change feed nor the token (any variant - nothing is written). *)
Theorem C08_idempotent : forall owner n v st r,
  converged st -> length (st_srcs st) = n -> wf_op owner n (ORun r) ->
  r_full r = false -> r_flt r = FNone ->
  run_job v st r = (st, OOk).
Proof.
  intros owner n v st r [Hl Hc] Hn Hwf Hfull Hflt. apply (run_idem owner n); auto.
  split; [assumption|]. intros k Hk. apply Hc. assumption.
Qed.
Print Assumptions C08_idempotent.

(** Fullsync.  From ANY sink content and ANY persisted token: a fullsync run that completes
    leaves every token at the end, the sink equal to the source on every source entity, every
    other entity of the sink deleted, and the invariant re-established. *)
Theorem C08_fullsync_complete : forall owner n fs dm st r st',
  length (st_srcs st) = n -> length (st_tok st) = n -> owned owner (st_srcs st) ->
  wf_op owner n (ORun r) -> r_full r = true ->
  run_job (mkVar EqFull fs dm) st r = (st', OOk) ->
  st_srcs st' = st_srcs st /\ converged st' /\ foreign_deleted st' /\ good owner n st'.
Proof. intros owner n fs dm. exact (run_full_ok owner n (mkVar EqFull fs dm) eq_refl). Qed.
Print Assumptions C08_fullsync_complete.

(** The fullsync token is stored only on completion: a run that fails, is killed or dies
    leaves the token it found (pinned tree) / the empty token (repaired). *)
Theorem C08_fullsync_token : forall v st r st' o,
  r_full r = true -> run_job v st r = (st', o) -> o <> OOk ->
  st_srcs st' = st_srcs st /\
  st_tok st' = match vm_fs v with FsKeep => st_tok st | FsReset => none_tokens (st_srcs st) end.
Proof. exact run_full_token. Qed.
Print Assumptions C08_fullsync_token.

(** refutations for the pinned tree (findings F08a, F08b) *)
Theorem C08_converge_refuted_eqlen :
  Forall (wf_op own0 1) h_eqlen
  /\ map snd (exec (mkVar EqLen FsReset DupStoredAndLocal) (init_state 1) h_eqlen)
     = [None; Some OOk; None; None; Some OOk; Some OOk]
  /\ (let st := final (mkVar EqLen FsReset DupStoredAndLocal) (init_state 1) h_eqlen in
      st_tok st = [Some 3]
      /\ cur (nth 0 (st_srcs st) []) 1%Z = Some (mkV 1 13 0 false)
      /\ cur (st_sink st) 1%Z = Some (mkV 1 0 0 true)).
Proof. exact refuted_eqlen. Qed.
Print Assumptions C08_converge_refuted_eqlen.

Theorem C08_token_safe_refuted_fullsync :
  Forall (wf_op own0 1) h_fskeep
  /\ map snd (exec (mkVar EqFull FsKeep DupStoredAndLocal) (init_state 1) h_fskeep)
     = [None; None; Some OOk; Some OFailed; Some OOk]
  /\ (let st := final (mkVar EqFull FsKeep DupStoredAndLocal) (init_state 1) h_fskeep in
      st_tok st = [Some 2]
      /\ cur (nth 0 (st_srcs st) []) 1%Z = Some (mkV 1 2 0 false)
      /\ cur (st_sink st) 1%Z = Some (mkV 1 1 0 false)
      /\ ~ token_safe st /\ ~ converged st).
Proof. exact refuted_fskeep. Qed.
Print Assumptions C08_token_safe_refuted_fullsync.

(** Every run that ends OK - incremental or fullsync, with whatever fault armed (it did not
    fire) - has every token at the end and sink = source on every source entity; a fullsync has
    also deleted the entities no source member contains. *)
Theorem C08_ok_run_converged : forall owner n fs dm st r st',
  good owner n st -> wf_op owner n (ORun r) -> run_job (mkVar EqFull fs dm) st r = (st', OOk) ->
  converged st' /\ good owner n st' /\ (r_full r = true -> foreign_deleted st').
Proof. intros owner n fs dm. exact (run_ok_converged owner n (mkVar EqFull fs dm) eq_refl). Qed.
Print Assumptions C08_ok_run_converged.

(** A fault-free fullsync with no concurrent source writes ends OK, from ANY sink content and
    ANY persisted token, and then everything of C08_fullsync_complete holds. *)
Theorem C08_fullsync_converge : forall owner n fs dm st r,
  length (st_srcs st) = n -> length (st_tok st) = n -> owned owner (st_srcs st) ->
  wf_op owner n (ORun r) -> r_full r = true -> r_flt r = FNone ->
  exists st', run_job (mkVar EqFull fs dm) st r = (st', OOk)
              /\ st_srcs st' = st_srcs st /\ converged st' /\ foreign_deleted st' /\ good owner n st'.
Proof.
  intros owner n fs dm st r Hn Hnt Hown Hwf Hfull Hflt.
  destruct (run_full_nofault owner n (mkVar EqFull fs dm) eq_refl st r Hn Hown Hwf Hfull Hflt) as (st' & H).
  exists st'. split; [exact H|].
  exact (run_full_ok owner n (mkVar EqFull fs dm) eq_refl st r st' Hn Hnt Hown Hwf Hfull H).
Qed.
Print Assumptions C08_fullsync_converge.

(** Idempotence with a fault armed: with every token at the end, an incremental run leaves the
    persisted state exactly as it was, whatever its fault and outcome (any variant). *)
Theorem C08_idempotent_any_fault : forall owner n v st r,
  converged st -> length (st_srcs st) = n -> wf_op owner n (ORun r) -> r_full r = false ->
  exists o, run_job v st r = (st, o).
Proof.
  intros owner n v st r [Hl Hc] Hn Hwf Hfull. apply (run_idem_any owner n); auto.
  split; [assumption|]. intros k Hk. apply Hc. assumption.
Qed.
Print Assumptions C08_idempotent_any_fault.

(** A job only copies: along every well-formed history the sink's version of an entity owned by
    a source member is a version of that member's feed (so a failed fullsync deletes nothing). *)
Theorem C08_sink_only_copies_step : forall owner n fs dm st o st' out,
  good owner n st -> orig owner (st_srcs st) (st_sink st) -> wf_op owner n o ->
  step (mkVar EqFull fs dm) st o = (st', out) -> orig owner (st_srcs st') (st_sink st').
Proof. intros owner n fs dm. exact (step_orig owner n (mkVar EqFull fs dm) eq_refl). Qed.
Print Assumptions C08_sink_only_copies_step.

(** Exact characterisation of the pinned fullsync-token behaviour (FsKeep): after a fullsync
    that did not complete, source feeds and token are unchanged, and the state is token-safe
    IFF the sink still has the source's latest version of every entity the token has passed;
    whatever it has instead is a version of that source's feed, i.e. a historical one the
    fullsync re-wrote.  (With [C08_token_safe_keep_partial]: the pinned tree is unsafe exactly
    after such a fullsync.) *)
Theorem C08_keep_failed_fullsync_char : forall owner n dm st r st' o,
  good owner n st -> orig owner (st_srcs st) (st_sink st) -> wf_op owner n (ORun r) ->
  r_full r = true -> run_job (mkVar EqFull FsKeep dm) st r = (st', o) -> o <> OOk ->
  st_srcs st' = st_srcs st /\ st_tok st' = st_tok st
  /\ (token_safe st' <->
      forall k i, k < length (st_srcs st) -> In i (ids (nth k (st_srcs st) [])) ->
                  ~ pending (nth k (st_srcs st) []) (asincr (nth k (st_tok st) None)) i ->
                  cur (st_sink st') i = cur (nth k (st_srcs st) []) i)
  /\ (forall k i w, k < length (st_srcs st) -> In i (ids (nth k (st_srcs st) [])) ->
                    cur (st_sink st') i = Some w -> In w (nth k (st_srcs st) [])).
Proof.
  intros owner n dm st r st' o. exact (keep_failed_full_char owner n (mkVar EqFull FsKeep dm) st r st' o eq_refl eq_refl).
Qed.
Print Assumptions C08_keep_failed_fullsync_char.

(** The sink is resolved by NAME at every run: while the sink dataset does not exist a run
    (any variant, any source shape, incremental or fullsync) writes nothing and moves no token
    forward - it never "succeeds" into a dataset object kept from an earlier run. *)
Theorem C08_no_sink_no_progress : forall v st r st' o,
  r_flt r = FNoSink -> length (st_tok st) = length (st_srcs st) -> 1 <= length (st_srcs st) ->
  run_job v st r = (st', o) ->
  st_sink st' = st_sink st /\ st_srcs st' = st_srcs st /\ length (st_tok st') = length (st_tok st)
  /\ forall k, asincr (nth k (st_tok st') None) <= asincr (nth k (st_tok st) None).
Proof. exact run_nosink. Qed.
Print Assumptions C08_no_sink_no_progress.

(** A run whose sink rejects an entity keeps the token behind it, whatever onError handlers
    other than log the trigger carries (reQueue is inert, reRun only schedules another run):
    the run does not even look at the handlers, and token safety holds with [FSinkReject]. *)
Theorem C08_rejected_entity_stays_ahead : forall owner n fs dm st r st' o x,
  good owner n st -> wf_op owner n (ORun r) -> r_flt r = FSinkReject x ->
  fs = FsReset \/ r_full r = false ->
  run_job (mkVar EqFull fs dm) st r = (st', o) -> good owner n st'.
Proof.
  intros owner n fs dm st r st' o x Hg Hwf _ Hc H.
  apply (run_safe owner n (mkVar EqFull fs dm) eq_refl st r st' o Hg Hwf H).
  destruct Hc; auto.
Qed.
Print Assumptions C08_rejected_entity_stays_ahead.

Theorem C08_handlers_inert : forall v st full union b los flt hs hs' sh,
  run_job v st (mkR full union b los flt hs sh) = run_job v st (mkR full union b los flt hs' sh).
Proof. reflexivity. Qed.
Print Assumptions C08_handlers_inert.

(** Fullsync to an HttpDatasetSink ("entities mode": the source is paged through its latest
    entities, the receiving hub gets full-sync-start / full-sync-end, the job's token is not
    stored): a run that reaches the end without a refused entity leaves the receiver with the
    source's latest version of every source entity and every other entity deleted, from ANY
    previous content - for a single source or a union of members with disjoint ids. *)
Theorem C08_entities_fullsync_converges : forall owner fs dm st r st' o,
  owned owner (st_srcs st) -> rejected r = None ->
  run_entities (mkVar EqFull fs dm) st r = (st', o) ->
  o = OOk /\ st_srcs st' = st_srcs st
  /\ st_tok st' = match fs with FsKeep => st_tok st | FsReset => none_tokens (st_srcs st) end
  /\ (forall k i, k < length (st_srcs st) -> In i (ids (nth k (st_srcs st) [])) ->
        cur (st_sink st') i = cur (nth k (st_srcs st) []) i)
  /\ foreign_deleted st'.
Proof. intros owner fs dm st r st' o. exact (run_entities_converges owner (mkVar EqFull fs dm) st r st' o eq_refl). Qed.
Print Assumptions C08_entities_fullsync_converges.

(** tie to the correspondence check: on a well-formed case, agreement of the implementation
    with the repaired model implies the WHOLE executable spec (token safety after every run,
    convergence after every run that ends OK, incremental re-run changes nothing, the sink only
    holds versions of its sources) evaluated on the implementation's own observations. *)
Theorem C08_agree_implies_spec : forall c,
  wf_case c -> agree v_fixed c = true -> spec_ok c = true.
Proof. exact agree_fixed_spec. Qed.
Print Assumptions C08_agree_implies_spec.

(** non-vacuity: concrete non-trivial instances meeting the hypotheses *)
Definition h_demo : list op :=
  [ OWrite 0 [mkV 1 1 0 false; mkV 2 2 0 false; mkV 1 3 0 false];
    OWrite 1 [mkV 11 1 0 false; mkV 12 1 0 true];
    OSinkWrite [mkV 100 1 1 false];
    ORun (mkR false true 2 [false; true] (FDieBefore 1) [] false);
    ORun (mkR false true 2 [false; true] (FSinkFail 0) [] false);
    ORun (mkR true true 1 [false; true] (FKill 2) [] false);
    ORun (mkR false true 2 [false; true] FNone [] false);
    ORun (mkR true true 2 [false; true] FNone [] false) ].
Definition own_demo (i : Z) : nat := if (i <? 10)%Z then 0 else if (i <? 100)%Z then 1 else 2.

Example C08_nonvacuous_1 :
  Forall (wf_op own_demo 2) h_demo
  /\ map (fun so => (snd so, st_tok (fst so))) (exec (mkVar EqFull FsReset DupLocalElseStored) (init_state 2) h_demo)
     = [ (None, [None; None]); (None, [None; None]); (None, [None; None]);
         (Some ODied, [Some 2; None]); (Some OFailed, [Some 2; None]);
         (Some OFailed, [None; None]); (Some OOk, [Some 3; Some 2]); (Some OOk, [Some 3; Some 2]) ].
Proof.
  split.
  - unfold h_demo. repeat constructor; cbn; try lia; try discriminate;
      intros x Hx; repeat (destruct Hx as [<-|Hx]; [vm_compute; try reflexivity; lia|]); destruct Hx.
  - vm_compute. reflexivity.
Qed.
Example C08_nonvacuous_2 :
  let st := final (mkVar EqFull FsReset DupLocalElseStored) (init_state 2) h_demo in
  cur (st_sink st) 1%Z = Some (mkV 1 3 0 false) /\ cur (st_sink st) 12%Z = Some (mkV 12 1 0 true)
  /\ cur (st_sink st) 100%Z = Some (mkV 100 1 1 true).
Proof. vm_compute. auto. Qed.

(** the hypotheses of C08_agree_implies_spec are met by a concrete case *)
Definition c_demo : tcase :=
  mkTC 1 false [false] 1 [HReQueue; HReRun] false
    [ TW 0 [mkV 1 1 0 false; mkV 1 2 0 false];
      TRun (mkTR false (FDieBefore 0) 2%N [(-1)%Z] [mkV 1 1 0 false] 1 [2%Z] [mkV 1 1 0 false]);
      TRun (mkTR false FNone 0%N [2%Z] [mkV 1 2 0 false] 2 [2%Z] [mkV 1 2 0 false]);
      TRun (mkTR false (FDieAfter 0) 2%N [2%Z] [mkV 1 2 0 false] 2 [2%Z] []) ]
    [[mkV 1 1 0 false; mkV 1 2 0 false]].
Example C08_nonvacuous_3 : wf_case c_demo /\ agree v_fixed c_demo = true /\ spec_ok c_demo = true.
Proof.
  split; [|split; vm_compute; reflexivity].
  exists (fun _ => 0). unfold c_demo. cbn. repeat apply Forall_cons; try apply Forall_nil; cbn.
  - split; [lia|]. intros x Hx. repeat (destruct Hx as [<-|Hx]; [reflexivity|]). destruct Hx.
  - repeat split; try lia. intros [H|[H|[]]]; discriminate.
  - repeat split; try lia. intros [H|[H|[]]]; discriminate.
  - repeat split; try lia. intros [H|[H|[]]]; discriminate.
Qed.
(** ... and those of C08_keep_failed_fullsync_char by the state reached in h_fskeep before its
    failed fullsync (the characterisation then says: unsafe, entity 1 is behind) *)
Example C08_nonvacuous_4 :
  let st := final (mkVar EqFull FsKeep DupStoredAndLocal) (init_state 1) (firstn 3 h_fskeep) in
  good own0 1 st /\ orig own0 (st_srcs st) (st_sink st).
Proof.
  cbn zeta. set (st := final _ _ _). vm_compute in st. subst st. split.
  - split; [reflexivity|]. split.
    + intros k x Hx. destruct k as [|k]; [reflexivity|]. cbn in Hx. destruct k; destruct Hx.
    + split; [reflexivity|]. intros k Hk. cbn in Hk. assert (k = 0) by lia. subst k.
      split; [cbn; lia|]. intros i Hi. right. reflexivity.
  - intros i w Hc _. apply cur_some in Hc. destruct Hc as [_ Hin]. exact Hin.
Qed.
