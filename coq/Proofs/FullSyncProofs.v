(** Proofs for Model/FullSync.v (property C09): data lemmas, the repaired model refines the
    specification machine S for every history, invariants of S, the three statements of
    C09 at every point of every history, the usage envelope of the pinned tree, refutations. *)
From Coq Require Import List NArith Bool Lia.
From DH Require Import Model.FullSync.
Import ListNotations.
Open Scope N_scope.

(** ** data lemmas *)

Lemma cd_eqb_eq a b : cd_eqb a b = true <-> a = b.
Proof.
  destruct a as [c d], b as [c' d']; unfold cd_eqb; cbn.
  rewrite andb_true_iff, N.eqb_eq, Bool.eqb_true_iff. split; [intros [-> ->]; reflexivity | intros [= -> ->]; auto].
Qed.

Lemma lookup_upsert v x cd y :
  lookup (upsert v x cd) y = if N.eqb y x then Some cd else lookup v y.
Proof.
  induction v as [|[z cz] v IH]; cbn.
  - destruct (N.eqb y x); reflexivity.
  - destruct (N.eqb x z) eqn:Hxz; cbn.
    + apply N.eqb_eq in Hxz; subst z. destruct (N.eqb y x); reflexivity.
    + rewrite IH. destruct (N.eqb y z) eqn:Hyz; [|reflexivity].
      apply N.eqb_eq in Hyz; subst z. destruct (N.eqb y x) eqn:Hyx; [|reflexivity].
      apply N.eqb_eq in Hyx; subst. rewrite N.eqb_refl in Hxz; discriminate.
Qed.

Lemma keys_upsert v x cd :
  map fst (upsert v x cd) = if mem x (map fst v) then map fst v else map fst v ++ [x].
Proof.
  induction v as [|[z cz] v IH]; cbn; [reflexivity|].
  destruct (N.eqb x z) eqn:Hxz; cbn; [reflexivity|].
  rewrite IH. unfold mem. destruct (existsb (N.eqb x) (map fst v)); reflexivity.
Qed.

Lemma mem_In x l : mem x l = true <-> In x l.
Proof.
  unfold mem. rewrite existsb_exists. split.
  - intros (y & Hy & He). apply N.eqb_eq in He; subst; assumption.
  - intros H; exists x; split; [assumption | apply N.eqb_refl].
Qed.

Lemma nodup_snoc (l : list N) x : NoDup l -> ~ In x l -> NoDup (l ++ [x]).
Proof.
  induction l as [|a l IH]; cbn; intros H Hx.
  - constructor; [intros []|constructor].
  - inversion H; subst. constructor.
    + rewrite in_app_iff; cbn. intros [?|[?|[]]]; [contradiction|subst; apply Hx; left; reflexivity].
    + apply IH; [assumption| intros ?; apply Hx; right; assumption].
Qed.

Lemma nodup_upsert v x cd : NoDup (map fst v) -> NoDup (map fst (upsert v x cd)).
Proof.
  intros H. rewrite keys_upsert. destruct (mem x (map fst v)) eqn:Hm; [assumption|].
  apply nodup_snoc; [assumption|]. rewrite <- mem_In, Hm; discriminate.
Qed.

Lemma lookup_store1 d e y :
  lookup (d_view (store1 d e)) y = if N.eqb y (e_id e) then Some (ecd e) else lookup (d_view d) y.
Proof.
  unfold store1, ecd. destruct (lookup (d_view d) (e_id e)) as [old|] eqn:Hl.
  - destruct (cd_eqb old (e_c e, e_del e)) eqn:Heq; cbn.
    + apply cd_eqb_eq in Heq; subst old. destruct (N.eqb y (e_id e)) eqn:Hy; [|reflexivity].
      apply N.eqb_eq in Hy; subst; assumption.
    + apply lookup_upsert.
  - cbn. apply lookup_upsert.
Qed.

Lemma nodup_store1 d e : NoDup (map fst (d_view d)) -> NoDup (map fst (d_view (store1 d e))).
Proof.
  intros H. unfold store1. destruct (lookup (d_view d) (e_id e)) as [old|].
  - destruct (cd_eqb old (e_c e, e_del e)); cbn; [assumption | now apply nodup_upsert].
  - cbn. now apply nodup_upsert.
Qed.

Lemma wlookup_app w1 w2 y :
  wlookup (w1 ++ w2) y = match wlookup w1 y with Some cd => Some cd | None => wlookup w2 y end.
Proof. induction w1 as [|e w1 IH]; cbn; [reflexivity|]. destruct (N.eqb y (e_id e)); auto. Qed.

Lemma lookup_store_data ents : forall d y,
  lookup (d_view (store_data ents d)) y =
  match wlookup (rev ents) y with Some cd => Some cd | None => lookup (d_view d) y end.
Proof.
  unfold store_data. induction ents as [|e ents IH]; intros d y; cbn; [reflexivity|].
  rewrite IH, wlookup_app, lookup_store1. cbn.
  destruct (wlookup (rev ents) y); [reflexivity|]. destruct (N.eqb y (e_id e)); reflexivity.
Qed.

Lemma nodup_store_data ents : forall d,
  NoDup (map fst (d_view d)) -> NoDup (map fst (d_view (store_data ents d))).
Proof.
  unfold store_data. induction ents as [|e ents IH]; intros d H; cbn; [assumption|].
  apply IH. now apply nodup_store1.
Qed.

Lemma wlookup_none_mem w y : wlookup w y = None <-> mem y (map e_id w) = false.
Proof.
  induction w as [|e w IH]; cbn; [tauto|].
  destruct (N.eqb y (e_id e)); cbn; [split; discriminate | exact IH].
Qed.

(** the sweep of CompleteFullSync, as a map *)
Definition swept (seen : list N) (y : N) (o : option (N * bool)) : option (N * bool) :=
  match o with
  | Some (c, false) => if mem y seen then Some (c, false) else Some (c, true)
  | o => o
  end.

Lemma lookup_sweep_view seen v y : lookup (sweep_view seen v) y = swept seen y (lookup v y).
Proof.
  induction v as [|[z [c d]] v IH]; [reflexivity|].
  cbn [sweep_view map lookup]. fold (sweep_view seen v).
  unfold unseen_live at 1. cbn [fst snd].
  destruct (negb d && negb (mem z seen)) eqn:Hu; cbn [lookup fst snd].
  - destruct (N.eqb y z) eqn:Hyz; [|exact IH].
    apply N.eqb_eq in Hyz; subst z. apply andb_true_iff in Hu as [Hd Hm].
    destruct d; [discriminate|]. cbn. destruct (mem y seen); [discriminate|reflexivity].
  - destruct (N.eqb y z) eqn:Hyz; [|exact IH].
    apply N.eqb_eq in Hyz; subst z. cbn. destruct d; [reflexivity|].
    cbn in Hu. destruct (mem y seen); [reflexivity|discriminate].
Qed.

Lemma keys_sweep_view seen v : map fst (sweep_view seen v) = map fst v.
Proof.
  unfold sweep_view. rewrite map_map. apply map_ext. intros p. destruct (unseen_live seen p); reflexivity.
Qed.

Lemma fold_seen ents : forall sn,
  fold_left (fun sn e => e_id e :: sn) ents sn = map e_id (rev ents) ++ sn.
Proof.
  induction ents as [|e ents IH]; intros sn; cbn; [reflexivity|].
  rewrite IH, map_app, <- app_assoc. reflexivity.
Qed.

(** ** The repaired model refines the specification machine *)

Definition sync_rel (s : state) (a : option sowner) : Prop :=
  match a with
  | None => started s = false /\ sid s = 0 /\ lease s = false /\ timers s = [] /\ own s = None
  | Some (GHttp x) => started s = true /\ sid s = x /\ lease s = true /\ (exists b, timers s = [(x, b)]) /\ own s = Some OHttp
  | Some (GJob n) => started s = true /\ sid s = 0 /\ lease s = false /\ timers s = [] /\ own s = Some (OJob n)
  end.

Definition R (s : state) (g : spec) : Prop :=
  dat s = g_data g /\ seen s = map e_id (g_written g) /\ sync_rel s (g_active g)
  /\ (g_active g = None -> g_written g = []).

Lemma R_init : R init sinit.
Proof. repeat split. Qed.

Ltac destr_R H :=
  let Hd := fresh "Hd" in let Hs := fresh "Hs" in let Hr := fresh "Hr" in let Hw := fresh "Hw" in
  destruct H as (Hd & Hs & Hr & Hw).

Ltac unf := unfold step, http, start_with_lease, start_full_sync, refresh, store, complete, release, cancelled_timers,
  job_end, expire, owner_eqb, is_job, sstep, scomplete, swrite, accepted, is_ghttp, is_gjob; cbn.
Ltac fin := unfold R, sync_rel; cbn; rewrite ?fold_seen, ?map_app, ?app_nil_r; repeat split; eauto; try discriminate.

Lemma sim_step e s g : R s g ->
  fst (step Fixed e s) = fst (sstep e g) /\ R (snd (step Fixed e s)) (snd (sstep e g)).
Proof.
  intros HR. destruct s as [sd st si le ti se ow], g as [a w d]. destr_R HR. cbn in *. subst sd se.
  destruct a as [[x|n]|]; cbn in Hr; [destruct Hr as (-> & -> & -> & (b & ->) & ->) | destruct Hr as (-> & -> & -> & -> & ->) ..].
  - (* an HTTP sync x is active *)
    destruct e as [start id end_ ents|n|n ents|n|ents|]; unf.
    + destruct start; cbn.
      * rewrite N.eqb_refl. cbn. destruct end_; cbn; fin.
      * destruct (N.eqb id x) eqn:Hid; cbn.
        -- apply N.eqb_eq in Hid; subst id. destruct end_; cbn; fin.
        -- fin.
    + fin.
    + fin.
    + fin.
    + fin.
    + rewrite N.eqb_refl. fin.
  - (* a job sync n is active *)
    destruct e as [start id end_ ents|m|m ents|m|ents|]; unf.
    + destruct start; cbn.
      * rewrite N.eqb_refl. cbn. destruct end_; cbn; fin.
      * destruct (N.eqb id 0) eqn:Hid; cbn.
        -- destruct end_; cbn; fin.
        -- fin.
    + fin.
    + fin.
    + destruct (N.eqb n m) eqn:Hnm; cbn; fin.
    + fin.
    + fin.
  - (* no sync is active *)
    rewrite (Hw eq_refl) in *. clear Hw.
    destruct e as [start id end_ ents|m|m ents|m|ents|]; unf.
    + destruct start; cbn.
      * rewrite N.eqb_refl. cbn. destruct end_; cbn; fin.
      * destruct end_; cbn; fin.
    + fin.
    + fin.
    + fin.
    + fin.
    + fin.
Qed.

Lemma sim_run h : forall s g, R s g ->
  fst (run Fixed h s) = fst (srun h g) /\ R (snd (run Fixed h s)) (snd (srun h g)).
Proof.
  induction h as [|e h IH]; intros s g HR; cbn; [split; [reflexivity|assumption]|].
  destruct (sim_step e s g HR) as [Hr HR'].
  destruct (step Fixed e s) as [r s1], (sstep e g) as [r' g1]. cbn in Hr, HR'. subst r'.
  destruct (IH s1 g1 HR') as [Hrs HR''].
  destruct (run Fixed h s1) as [rs s2], (srun h g1) as [rs' g2]. cbn in *. subst rs'. split; [reflexivity|assumption].
Qed.

Lemma R_final h : R (final Fixed h) (spec_after h).
Proof. apply (sim_run h init sinit R_init). Qed.

Theorem refines h :
  fst (run Fixed h init) = fst (srun h sinit) /\ dat (final Fixed h) = g_data (spec_after h).
Proof.
  destruct (sim_run h init sinit R_init) as [H1 H2]. split; [assumption|]. apply H2.
Qed.

(** ** The active sync of S is the one read off the history *)

Lemma active_from_srun h : forall g, g_active (snd (srun h g)) = active_from (g_active g) h.
Proof.
  induction h as [|e h IH]; intros g; cbn; [reflexivity|].
  destruct (sstep e g) as [r g1] eqn:Hs. specialize (IH g1).
  destruct (srun h g1) as [rs g2]. cbn in *. rewrite IH. f_equal.
  destruct g as [a w d]. cbn.
  destruct e as [start id end_ ents|n|n ents|n|tents|]; cbn in Hs.
  - destruct start; cbn in Hs.
    + destruct end_; injection Hs as _ <-; reflexivity.
    + destruct a as [[x|n]|]; cbn in *.
      * destruct (N.eqb id x) eqn:Hid; cbn in Hs.
        -- destruct end_; injection Hs as _ <-; cbn; rewrite ?Hid; reflexivity.
        -- injection Hs as _ <-. cbn. destruct end_; cbn; rewrite ?Hid; reflexivity.
      * destruct (N.eqb id 0); cbn in Hs; destruct end_; injection Hs as _ <-; reflexivity.
      * destruct end_; injection Hs as _ <-; reflexivity.
  - injection Hs as _ <-. reflexivity.
  - injection Hs as _ <-. cbn. destruct a as [[x|m]|]; reflexivity.
  - destruct a as [[x|m]|]; cbn in *.
    + injection Hs as _ <-; reflexivity.
    + rewrite (N.eqb_sym n m). destruct (N.eqb m n); injection Hs as _ <-; reflexivity.
    + injection Hs as _ <-; reflexivity.
  - injection Hs as _ <-. cbn. destruct a as [[x|m]|]; reflexivity.
  - injection Hs as _ <-. destruct a as [[x|m]|]; reflexivity.
Qed.

Lemma active_of_spec h : g_active (spec_after h) = active_of h.
Proof. apply (active_from_srun h sinit). Qed.

(** ** Invariant of S: what was written since the start is what the data says *)

Definition SInv (g : spec) : Prop :=
  NoDup (map fst (d_view (g_data g)))
  /\ (g_active g = None -> g_written g = [])
  /\ (forall y cd, wlookup (g_written g) y = Some cd -> lookup (d_view (g_data g)) y = Some cd).

Lemma SInv_init : SInv sinit.
Proof. repeat split; cbn; [constructor|discriminate]. Qed.

Lemma SInv_swrite ents g : SInv g -> SInv (swrite ents g).
Proof.
  intros (Hn & Hw & Hl). unfold swrite. repeat split; cbn.
  - now apply nodup_store_data.
  - intros Ha. rewrite Ha. auto.
  - intros y cd. rewrite lookup_store_data. destruct (g_active g) eqn:Ha.
    + rewrite wlookup_app. destruct (wlookup (rev ents) y); [auto|]. apply Hl.
    + rewrite (Hw eq_refl). discriminate.
Qed.

Lemma SInv_fresh a g : SInv g -> SInv (mkSpec a [] (g_data g)).
Proof. intros (Hn & _ & _). repeat split; cbn; [assumption|discriminate]. Qed.

Lemma SInv_scomplete g : SInv g -> SInv (scomplete g).
Proof.
  intros (Hn & _ & _). unfold scomplete. repeat split; cbn; [|discriminate].
  rewrite keys_sweep_view. assumption.
Qed.

Lemma SInv_sstep e g : SInv g -> SInv (snd (sstep e g)).
Proof.
  intros HI. destruct e as [start id end_ ents|n|n ents|n|tents|]; cbn.
  - destruct (negb start && negb (accepted (g_active g) id)); cbn; [assumption|].
    set (g1 := if start then _ else g).
    assert (SInv g1) by (subst g1; destruct start; [apply (SInv_fresh _ g HI)|assumption]).
    destruct end_; [destruct (is_ghttp _)|]; cbn; auto using SInv_swrite, SInv_scomplete.
  - apply (SInv_fresh _ g HI).
  - now apply SInv_swrite.
  - destruct (is_gjob _ _); cbn; auto using SInv_scomplete.
  - now apply SInv_swrite.
  - destruct (is_ghttp _); [apply (SInv_fresh _ g HI)|assumption].
Qed.

Lemma SInv_srun h : forall g, SInv g -> SInv (snd (srun h g)).
Proof.
  induction h as [|e h IH]; intros g HI; cbn; [assumption|].
  pose proof (SInv_sstep e g HI) as H1. destruct (sstep e g) as [r g1]. cbn in H1.
  specialize (IH g1 H1). destruct (srun h g1). assumption.
Qed.

Lemma SInv_after h : SInv (spec_after h).
Proof. apply SInv_srun, SInv_init. Qed.

(** ** Shape of one step of S *)

Lemma sstep_completes e g :
  completes (g_active g) e = true ->
  fst (sstep e g) = ROk /\
  g_data (snd (sstep e g)) =
    sweep (map e_id (written_by g e)) (store_data (ents_of e) (g_data g)).
Proof.
  destruct g as [a w d]. destruct e as [start id end_ ents|n|n ents|n|tents|]; cbn; try discriminate.
  - destruct start, end_; cbn; try discriminate.
    + intros _. rewrite app_nil_r. split; reflexivity.
    + destruct a as [[x|m]|]; try discriminate. cbn. intros ->. cbn. split; reflexivity.
  - intros ->. cbn. split; reflexivity.
Qed.

Lemma sstep_no_completion e g :
  completes (g_active g) e = false ->
  g_data (snd (sstep e g)) = g_data g \/ g_data (snd (sstep e g)) = store_data (ents_of e) (g_data g).
Proof.
  destruct g as [a w d]. destruct e as [start id end_ ents|n|n ents|n|tents|]; cbn.
  - destruct start; cbn.
    + destruct end_; [discriminate|]. intros _. right; reflexivity.
    + destruct a as [[x|m]|]; cbn.
      * destruct (N.eqb id x); cbn; [|left; reflexivity].
        destruct end_; [discriminate|]. right; reflexivity.
      * destruct (N.eqb id 0); cbn; [|left; reflexivity]. destruct end_; right; reflexivity.
      * destruct end_; right; reflexivity.
  - left; reflexivity.
  - right; reflexivity.
  - intros ->. left; reflexivity.
  - right; reflexivity.
  - destruct (is_ghttp a); left; reflexivity.
Qed.

(** the written-since-start map of a completing request agrees with the data it sweeps *)
Lemma written_by_agrees e g : SInv g -> completes (g_active g) e = true ->
  forall y cd, wlookup (written_by g e) y = Some cd ->
  lookup (d_view (store_data (ents_of e) (g_data g))) y = Some cd.
Proof.
  intros (Hn & Hw & Hl) Hc y cd. rewrite lookup_store_data.
  destruct e as [start id end_ ents|n|n ents|n|tents|]; cbn in *; try discriminate.
  - destruct start.
    + intros ->. reflexivity.
    + rewrite wlookup_app. destruct (wlookup (rev ents) y); [auto|]. apply Hl.
  - apply Hl.
Qed.

(** exactness of a sweep whose [seen] set is the key set of a map [w] that agrees with the data *)
Lemma sweep_exact w d :
  (forall y cd, wlookup w y = Some cd -> lookup (d_view d) y = Some cd) ->
  let d' := sweep (map e_id w) d in
  (forall y cd, wlookup w y = Some cd -> lookup (d_view d') y = Some cd)
  /\ (forall y, wlookup w y = None -> lookup (d_view d') y = tomb (lookup (d_view d) y))
  /\ d_changes d' = d_changes d + N.of_nat (length (filter (unseen_live (map e_id w)) (d_view d)))
  /\ map fst (d_view d') = map fst (d_view d).
Proof.
  intros Hag. cbn. repeat split.
  - intros y cd Hy. rewrite lookup_sweep_view, (Hag y cd Hy). unfold swept.
    destruct cd as [c [|]]; [reflexivity|].
    destruct (mem y (map e_id w)) eqn:Hm; [reflexivity|].
    apply wlookup_none_mem in Hm. congruence.
  - intros y Hy. rewrite lookup_sweep_view. apply wlookup_none_mem in Hy. unfold swept, tomb.
    destruct (lookup (d_view d) y) as [[c [|]]|]; try reflexivity. now rewrite Hy.
  - apply keys_sweep_view.
Qed.

(** ** The three statements of C09 for the repaired variant, at every point of every history *)

Lemma step_refines h e :
  fst (step Fixed e (final Fixed h)) = fst (sstep e (spec_after h)) /\
  dat (snd (step Fixed e (final Fixed h))) = g_data (snd (sstep e (spec_after h))).
Proof. destruct (sim_step e _ _ (R_final h)) as [H1 H2]. split; [exact H1 | apply H2]. Qed.

Lemma dat_final h : dat (final Fixed h) = g_data (spec_after h).
Proof. apply (R_final h). Qed.

Theorem complete_exact h e : exact_at Fixed h e.
Proof.
  unfold exact_at. rewrite <- active_of_spec. intros Hc. cbn zeta.
  destruct (step_refines h e) as [Hr Hd]. rewrite Hr, Hd, dat_final.
  destruct (sstep_completes e _ Hc) as [Hok Hsw]. rewrite Hok, Hsw.
  pose proof (SInv_after h) as HI.
  destruct (sweep_exact (written_by (spec_after h) e) _ (written_by_agrees e _ HI Hc)) as (H1 & H2 & H3 & H4).
  repeat split; try assumption.
  rewrite H4. apply nodup_store_data. apply HI.
Qed.

Theorem superseded_harmless h e : harmless_at Fixed h e.
Proof.
  unfold harmless_at. rewrite <- active_of_spec. intros Hc. cbn zeta.
  destruct (step_refines h e) as [_ Hd]. rewrite Hd, dat_final.
  now apply sstep_no_completion.
Qed.

Theorem foreign_rejected h : foreign_rejected_at Fixed h.
Proof.
  unfold foreign_rejected_at. rewrite <- active_of_spec. intros id end_ ents Ha.
  destruct (R_final h) as (_ & _ & Hr & _).
  destruct (final Fixed h) as [sd st si le ti se ow]. 
  destruct (g_active (spec_after h)) as [[x|n]|]; cbn in *; try discriminate;
    [destruct Hr as (-> & -> & -> & (b & ->) & ->) | destruct Hr as (-> & -> & -> & -> & ->)];
    unfold http, refresh; cbn; rewrite Ha; reflexivity.
Qed.

(** the same at the level of the state, for both variants: a sync is started and the id differs *)
Lemma foreign_rejected_state v s id end_ ents :
  started s = true -> id <> sid s ->
  step v (EHttp false id end_ ents) s = (RConflict, s).
Proof.
  intros Hs Hid. cbn. unfold http, refresh. rewrite Hs.
  destruct (N.eqb id (sid s)) eqn:He; [apply N.eqb_eq in He; contradiction|reflexivity].
Qed.

(** the end call of a job run that does not own the active sync fails and changes nothing *)
Lemma dead_job_end_rejected h n :
  is_gjob (active_of h) n = false ->
  step Fixed (EJobEnd n) (final Fixed h) = (RJobErr, final Fixed h).
Proof.
  rewrite <- active_of_spec. intros Ha.
  destruct (R_final h) as (_ & _ & Hr & _).
  destruct (final Fixed h) as [sd st si le ti se ow].
  destruct (g_active (spec_after h)) as [[x|m]|]; cbn in *;
    [destruct Hr as (-> & -> & -> & (b & ->) & ->) | destruct Hr as (-> & -> & -> & -> & ->) ..];
    cbn; rewrite ?Ha; reflexivity.
Qed.

(** at most one lease timer is alive, and it is the one of the active sync: whatever superseded,
    completed or expired syncs there were (and whatever their ids), their timers are dead *)
Lemma one_live_timer h :
  map fst (timers (final Fixed h)) = if lease (final Fixed h) then [sid (final Fixed h)] else [].
Proof.
  destruct (R_final h) as (_ & _ & Hr & _).
  destruct (g_active (spec_after h)) as [[x|n]|]; cbn in Hr.
  - destruct Hr as (_ & -> & -> & (b & ->) & _). reflexivity.
  - destruct Hr as (_ & _ & -> & -> & _). reflexivity.
  - destruct Hr as (_ & _ & -> & -> & _). reflexivity.
Qed.

(** ** The pinned tree inside its usage envelope *)

Lemma http_same s start id end_ ents :
  is_job (own s) = false -> http Current start id end_ ents s = http Fixed start id end_ ents s.
Proof.
  intros Hj. unfold http, start_with_lease, refresh, start_full_sync. destruct start; cbn.
  - destruct (started s); cbn; reflexivity.
  - rewrite Hj. reflexivity.
Qed.

Definition cur_ok (cur : option N) (a : option sowner) : Prop :=
  match cur with
  | Some n => a = Some (GJob n)
  | None => forall n, a <> Some (GJob n)
  end.

Lemma exclusive_run h : forall s g cur, R s g -> cur_ok cur (g_active g) ->
  job_exclusive cur h = true -> run Current h s = run Fixed h s.
Proof.
  induction h as [|e h IH]; intros s g cur HR Hc Hx; [reflexivity|].
  pose proof (sim_step e s g HR) as [_ HR'].
  assert (Hstep : step Current e s = step Fixed e s /\
                  exists cur', cur_ok cur' (g_active (snd (sstep e g))) /\ job_exclusive cur' h = true).
  { destruct HR as (_ & _ & Hr & _). destruct g as [a w d]. cbn in Hc, Hr.
    destruct cur as [n|]; cbn in Hc.
    - subst a. cbn in Hr. destruct Hr as (Hst & _ & _ & Hti & How).
      destruct e as [start id end_ ents|m|m ents|m|tents|]; cbn in Hx; try discriminate.
      + apply andb_true_iff in Hx as [Hm Hx]. split; [reflexivity|]. exists (Some n). split; [reflexivity|assumption].
      + apply andb_true_iff in Hx as [Hm Hx]. apply N.eqb_eq in Hm; subst m. split.
        * cbn. rewrite Hst, How. cbn. rewrite N.eqb_refl. reflexivity.
        * exists None. cbn. rewrite N.eqb_refl. cbn. split; [discriminate|assumption].
      + split; [reflexivity|]. exists (Some n). split; [reflexivity|assumption].
      + split; [reflexivity|]. exists (Some n). split; [reflexivity|assumption].
    - destruct e as [start id end_ ents|m|m ents|m|tents|]; cbn in Hx; try discriminate.
      + split.
        * cbn. apply http_same. destruct a as [[x|m]|]; cbn in Hr.
          -- destruct Hr as (_ & _ & _ & _ & ->). reflexivity.
          -- exfalso. now apply (Hc m).
          -- destruct Hr as (_ & _ & _ & _ & ->). reflexivity.
        * exists None. split; [|assumption]. cbn.
          destruct (negb start && negb (accepted a id)); cbn; [assumption|].
          destruct start; cbn.
          -- destruct end_; cbn; discriminate.
          -- destruct end_; [destruct (is_ghttp a)|]; cbn; try assumption; discriminate.
      + split; [reflexivity|]. exists (Some m). split; [reflexivity|assumption].
      + split; [reflexivity|]. exists None. split; [|assumption]. cbn. destruct a; assumption.
      + split; [reflexivity|]. exists None. split; [|assumption]. cbn.
        destruct (is_ghttp a); cbn; [discriminate|assumption]. }
  destruct Hstep as [He (cur' & Hc' & Hx')].
  cbn. rewrite He. destruct (step Fixed e s) as [r s1]. destruct (sstep e g) as [r' g1]. cbn in *.
  rewrite (IH s1 g1 cur' HR' Hc' Hx'). reflexivity.
Qed.

Theorem current_ok_when_exclusive h :
  job_exclusive None h = true -> run Current h init = run Fixed h init.
Proof. intros H. apply (exclusive_run h init sinit None R_init); [discriminate|assumption]. Qed.

(** ** Refutations: the pinned tree on the four witness histories *)

Lemma refuted_F09a : ~ exact_at Current (removelast h_F09a) (EJobEnd 1).
Proof.
  intros H. destruct (H eq_refl) as (_ & H2 & _).
  specialize (H2 1 (2, false) eq_refl). vm_compute in H2. discriminate.
Qed.

Lemma refuted_F09b : ~ harmless_at Current (firstn 5 h_F09b) (EJobEnd 1).
Proof. intros H. destruct (H eq_refl) as [H1|H1]; vm_compute in H1; discriminate. Qed.

Lemma refuted_F09c : ~ harmless_at Current (firstn 3 h_F09c) (EHttp false 0 true [E 4 1]).
Proof. intros H. destruct (H eq_refl) as [H1|H1]; vm_compute in H1; discriminate. Qed.

Lemma refuted_F09d : ~ exact_at Current (removelast h_F09d) (EJobEnd 2).
Proof.
  intros H. destruct (H eq_refl) as (_ & H2 & _).
  specialize (H2 1 (2, false) eq_refl). vm_compute in H2. discriminate.
Qed.
