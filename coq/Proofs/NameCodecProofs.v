(** Proofs about Model/NameCodec.v: one decoding step addresses the name; a second one addresses another name. *)
From Coq Require Import List ZArith Bool Lia.
From DH Require Import Model.NameCodec.
Import ListNotations.
Open Scope Z_scope.

Fixpoint zrange (a : Z) (n : nat) : list Z := match n with O => [] | S n' => a :: zrange (a + 1) n' end.
Lemma zrange_In n : forall a x, a <= x < a + Z.of_nat n -> In x (zrange a n).
Proof.
  induction n as [|n IH]; intros a x H; [lia|]. cbn. destruct (Z.eq_dec a x); [now left | right]. apply IH. lia.
Qed.

Definition byte_ok (c : Z) : bool :=
  if plain_char c then negb (Z.eqb c 37)
  else match hexval (hexdigit (c / 16)), hexval (hexdigit (c mod 16)) with
       | Some x, Some y => Z.eqb (16 * x + y) c
       | _, _ => false
       end.
Lemma all_bytes_ok : forallb byte_ok (zrange 0 256) = true.
Proof. vm_compute. reflexivity. Qed.
Lemma byte_ok_all c : 0 <= c < 256 -> byte_ok c = true.
Proof.
  intros H. pose proof all_bytes_ok as A. rewrite forallb_forall in A. apply A. apply zrange_In. cbn. lia.
Qed.

(** a name is addressed by its escaped form: one decoding step gives the name back, for EVERY byte string *)
Theorem decode_escape s : Forall (fun c => 0 <= c < 256) s -> pct_decode (escape s) = Some s.
Proof.
  induction s as [|c s IH]; intros F; [reflexivity|]. inversion F as [|? ? Hc Hs]; subst.
  pose proof (byte_ok_all c Hc) as B. unfold byte_ok in B. unfold escape. cbn [flat_map]. fold (escape s).
  destruct (plain_char c) eqn:P.
  - cbn [app]. apply negb_true_iff in B. apply Z.eqb_neq in B.
    assert (E : pct_decode (c :: escape s) = option_map (cons c) (pct_decode (escape s))).
    { cbn [pct_decode]. destruct c as [|p|p]; try reflexivity.
      repeat (destruct p as [p|p|]; try reflexivity); contradiction. }
    rewrite E, IH by assumption. reflexivity.
  - cbn [app pct_decode].
    destruct (hexval (hexdigit (c / 16))) as [x|]; [|discriminate].
    destruct (hexval (hexdigit (c mod 16))) as [y|]; [|discriminate].
    apply Z.eqb_eq in B. rewrite IH by assumption. now rewrite B.
Qed.

(** a segment without '%' is its own name: in particular '+' is NOT a space in a path *)
Theorem decode_no_percent s : ~ In 37 s -> pct_decode s = Some s.
Proof.
  induction s as [|c s IH]; intros H; [reflexivity|].
  assert (Hc : c <> 37) by (intros ->; apply H; now left).
  assert (E : pct_decode (c :: s) = option_map (cons c) (pct_decode s)).
  { cbn [pct_decode]. destruct c as [|p|p]; try reflexivity.
    repeat (destruct p as [p|p|]; try reflexivity); contradiction. }
  rewrite E, IH; [reflexivity|]. intros Hin. apply H. now right.
Qed.

(** decoding twice addresses a DIFFERENT name: "s+e" -> "s e", and the escaped form of "s%2Be" -> "s+e" *)
Theorem decode_twice_differs :
  pct_decode [115; 43; 101] = Some [115; 43; 101] /\ decode_twice [115; 43; 101] = Some [115; 32; 101]
  /\ pct_decode (escape [115; 37; 50; 66; 101]) = Some [115; 37; 50; 66; 101]
  /\ decode_twice (escape [115; 37; 50; 66; 101]) = Some [115; 43; 101].
Proof. vm_compute. auto. Qed.
