(** The link between the correspondence evaluator and the theorems: on a case where the
    implementation agrees with the repaired model, the trace-local part of the spec holds on
    the implementation's observations (nothing panicked or hit a discarded transaction, every
    context read shows what was fetched). *)
From Coq Require Import List NArith Bool Arith Lia.
From DH Require Import Lib.CheckLib Model.Namespace Model.Ids Proofs.NamespaceProofs Proofs.IdsProofs Check.C13Check.
Import ListNotations.
Open Scope N_scope.

(** ** boolean equalities decide equality *)
Lemma pair_eqb_eq {A B} (ea : A -> A -> bool) (eb : B -> B -> bool) :
  (forall x y, ea x y = true <-> x = y) -> (forall x y, eb x y = true <-> x = y) ->
  forall x y, pair_eqb ea eb x y = true <-> x = y.
Proof.
  intros Ha Hb [a b] [a' b']. unfold pair_eqb. cbn. rewrite andb_true_iff, Ha, Hb.
  split; [intros [-> ->]; reflexivity | intros [= -> ->]; auto].
Qed.

Lemma ss_eqb_eq x y : ss_eqb x y = true <-> x = y.
Proof. apply list_eqb_eq, pair_eqb_eq; apply str_eqb_eq. Qed.
Lemma sn_eqb_eq x y : sn_eqb x y = true <-> x = y.
Proof. apply list_eqb_eq, pair_eqb_eq; [apply str_eqb_eq | apply N.eqb_eq]. Qed.
Lemma ns_eqb_eq x y : ns_eqb x y = true <-> x = y.
Proof. apply list_eqb_eq, pair_eqb_eq; [apply N.eqb_eq | apply str_eqb_eq]. Qed.

Lemma nsout_eqb_eq a b : nsout_eqb a b = true -> a = b.
Proof.
  destruct a, b; cbn; try discriminate; try reflexivity.
  - intros H. apply str_eqb_eq in H. now subst.
  - intros H. apply ss_eqb_eq in H. now subst.
Qed.

Lemma hout_eqb_eq a b : hout_eqb a b = true -> a = b.
Proof.
  destruct a, b; cbn; try discriminate; try reflexivity.
  - intros H. apply nsout_eqb_eq in H. now subst.
  - rewrite andb_true_iff. intros [H1 H2]. apply (list_eqb_eq N.eqb N.eqb_eq) in H2. subst.
    destruct oc, oc0; try discriminate; reflexivity.
  - rewrite !andb_true_iff. intros [[[[H1 H2] H3] H4] H5].
    apply ss_eqb_eq in H1. apply ss_eqb_eq in H2. apply sn_eqb_eq in H3. apply ns_eqb_eq in H4. apply sn_eqb_eq in H5. now subst.
Qed.

Lemma houts_eqb_eq a b : list_eqb hout_eqb a b = true -> a = b.
Proof.
  revert b. induction a as [|x a IH]; destruct b as [|y b]; cbn; try discriminate; [reflexivity|].
  rewrite andb_true_iff. intros [H1 H2]. apply hout_eqb_eq in H1. apply IH in H2. now subst.
Qed.

(** ** the repaired world: ids invariant + nothing dead *)
Section Fixed.
  Variable L : N.
  Hypothesis HL : 1 <= L.

  Definition good (st : idstate) : Prop := idinv st /\ alive st.
  Definition oc_ok (oc : outcome) : Prop := oc = OcOk \/ oc = OcErrEmpty.

  Lemma assert_id_good u st :
    good st -> good (fst (assert_id L u st)) /\ snd (assert_id L u st) <> RPanic
               /\ snd (assert_id L u st) <> ROk /\ snd (assert_id L u st) <> RErrDiscarded.
  Proof.
    intros [Hinv Ha]. pose proof (assert_id_spec L HL u st Hinv) as H.
    destruct (assert_id L u st) as [st' o]. cbn [fst snd].
    destruct H as (Hi & _ & _ & _ & _ & Ho). unfold good, alive in *.
    destruct o; try contradiction.
    - destruct Ho as (_ & _ & Hm & _). split; [split; [exact Hi | congruence]|]. repeat split; discriminate.
    - destruct Ho as [_ ->]. split; [split; assumption|]. repeat split; discriminate.
    - destruct Ho as [Ho _]. contradiction.
  Qed.

  Lemma assert_all_good us : forall st,
    good st -> good (fst (assert_all L us st)) /\ oc_ok (snd (assert_all L us st)).
  Proof.
    induction us as [|u us IH]; intros st Hg; cbn [assert_all].
    - split; [assumption | now left].
    - destruct (assert_id_good u st Hg) as (Hg1 & Hp & Hk & Hd).
      destruct (assert_id L u st) as [s1 o]. cbn [fst snd] in *.
      destruct o; try (exfalso; congruence); [apply IH; assumption|].
      split; [assumption | now right].
  Qed.

  Lemma run_ents_good ds data ents : forall st,
    good st ->
    let '(s, oc, ids, n, pd) := run_ents L ds data ents st in good s /\ oc_ok oc.
  Proof.
    induction ents as [|[id r] ents IH]; intros st Hg; cbn [run_ents].
    - split; [assumption | now left].
    - destruct (assert_id_good id st Hg) as (Hg1 & Hp & Hk & Hd).
      destruct (assert_id L id st) as [s1 o]. cbn [fst snd] in *.
      destruct o; try (exfalso; congruence); [ | split; [assumption | now right]].
      match goal with |- context [assert_all L ?us s1] =>
        destruct (assert_all_good us s1 Hg1) as [Hg2 Ho2]; destruct (assert_all L us s1) as [s2 oc2] end.
      cbn [fst snd] in *.
      destruct oc2; try (split; assumption).
      specialize (IH s2 Hg2). destruct (run_ents L ds data ents s2) as [[[[s3 oc3] ids3] n3] pd3]. exact IH.
  Qed.

  Lemma commit_main_good st : good st -> good (fst (commit_main st)) /\ snd (commit_main st) = ROk.
  Proof.
    intros [Hinv Ha]. pose proof (commit_main_spec st Hinv) as H. destruct (commit_main st) as [st' o]. cbn [fst snd].
    destruct H as (Hi & _ & _ & _ & Ho). unfold good, alive in *. destruct o; try contradiction.
    - destruct Ho as (_ & Hm & _). split; [split; [exact Hi | congruence] | reflexivity].
    - destruct Ho as [Ho _]. contradiction.
  Qed.

  Lemma nested_update_good ds st : good st -> good (fst (nested_update L ds st)) /\ oc_ok (snd (nested_update L ds st)).
  Proof.
    intros Hg. unfold nested_update.
    match goal with |- context [assert_all L ?us st] =>
      destruct (assert_all_good us st Hg) as [Hg1 Ho1]; destruct (assert_all L us st) as [s1 oc1] end.
    cbn [fst snd] in *. destruct oc1; cbn [fst snd]; try (split; assumption).
    split; [apply commit_main_good; assumption | now left].
  Qed.

  Definition wgood (w : world) : Prop := good (wid w).
  Definition hout_good (o : hout) : Prop := out_ok o = true.

  Lemma oc_ok_out oc ids : oc_ok oc -> hout_good (HOBatch oc ids).
  Proof. intros [-> | ->]; reflexivity. Qed.

  Lemma write_path_good k ds ents w :
    wgood w ->
    wgood (fst (write_path v_fixed L k ds ents w)) /\ hout_good (snd (write_path v_fixed L k ds ents w))
    /\ wns (fst (write_path v_fixed L k ds ents w)) = wns w.
  Proof.
    intros Hg. unfold write_path. destruct ents as [|e ents]; [split; [exact Hg|]; split; reflexivity|].
    pose proof (run_ents_good ds (wdata w) (e :: ents) (wid w) Hg) as H.
    destruct (run_ents L ds (wdata w) (e :: ents) (wid w)) as [[[[s1 oc] ids] ni] pd].
    destruct H as [Hg1 Ho].
    destruct oc; try (cbn [fst snd wns]; split; [exact Hg1|]; split; [now apply oc_ok_out | reflexivity]).
    assert (Hc : good (fst (match k with None => commit_main s1 | Some k0 => commit_ctx (v_ctx v_fixed) k0 s1 end))
                 /\ snd (match k with None => commit_main s1 | Some k0 => commit_ctx (v_ctx v_fixed) k0 s1 end) = ROk).
    { destruct k; cbn [v_ctx v_fixed commit_ctx]; apply commit_main_good; assumption. }
    destruct (match k with None => commit_main s1 | Some k0 => commit_ctx (v_ctx v_fixed) k0 s1 end) as [s2 r].
    cbn [fst snd] in Hc. destruct Hc as [Hg2 ->].
    destruct ((0 <? ni)%nat && negb (str_eqb ds s_core)).
    - destruct (nested_update_good ds s2 Hg2) as [Hg3 Ho3]. destruct (nested_update L ds s2) as [s3 oc3].
      cbn [fst snd wns] in *. split; [exact Hg3|]. split; [now apply oc_ok_out | reflexivity].
    - cbn [fst snd wns]. split; [exact Hg2|]. split; reflexivity.
  Qed.

  Lemma restart_good crash st : good st -> good (id_restart L crash st).
  Proof.
    intros [Hi Ha]. split; [apply (id_restart_spec L HL crash _ Hi)|]. unfold alive. cbn. discriminate.
  Qed.

  Lemma crash_write_good tp k ds ents pt w :
    wgood w ->
    wgood (fst (crash_write v_fixed L tp k ds ents pt w)) /\ hout_good (snd (crash_write v_fixed L tp k ds ents pt w))
    /\ handles (wns (fst (crash_write v_fixed L tp k ds ents pt w))) = handles (wns w)
    /\ exists oc ids, snd (crash_write v_fixed L tp k ds ents pt w) = HOBatch oc ids.
  Proof.
    intros Hg. unfold crash_write. destruct ents as [|e ents]; [cbn; split; [exact Hg|]; split; [reflexivity|]; split; [reflexivity | eauto]|].
    pose proof (run_ents_good ds (wdata w) (e :: ents) (wid w) Hg) as H.
    destruct (run_ents L ds (wdata w) (e :: ents) (wid w)) as [[[[s1 oc] ids] ni] pd].
    destruct H as [Hg1 Ho].
    destruct oc; try (cbn [fst snd wns wid]; split; [exact Hg1|]; split; [now apply oc_ok_out|]; split; [reflexivity | eauto]).
    assert (Hc : match k with None => commit_main s1 | Some k0 => commit_ctx (v_ctx v_fixed) k0 s1 end = commit_main s1)
      by (destruct k; reflexivity).
    destruct pt as [|pt'].
    - cbn [fst snd wns wid]. split; [now apply restart_good|]. split; [reflexivity|]. split; [reflexivity | eauto].
    - cbn [v_order v_fixed]. rewrite Hc. destruct (commit_main_good s1 Hg1) as [Hg2 Hr].
      destruct (commit_main s1) as [s2 r]. cbn [fst snd] in Hg2, Hr. subst r.
      destruct pt'; cbn [fst snd wns wid]; (split; [now apply restart_good|]; split; [reflexivity|]; split; [reflexivity | eauto]).
  Qed.

  Lemma wstep_good op w :
    wgood w -> wgood (fst (wstep v_fixed L op w)) /\ hout_good (snd (wstep v_fixed L op w)).
  Proof.
    intros Hg. destruct op; cbn [wstep].
    - destruct (ns_step (v_alias v_fixed) o (wns w)) as [n r]. cbn. split; [exact Hg | reflexivity].
    - destruct (write_path_good None ds ents w Hg) as (H1 & H2 & _). split; assumption.
    - cbn. split; [|reflexivity]. destruct Hg as [Hi Ha]. split; [|exact Ha]. destruct Hi. constructor; auto.
    - destruct (write_path_good (Some k) ds ents w Hg) as (H1 & H2 & _). split; assumption.
    - cbn. split; [|reflexivity]. destruct Hg as [Hi Ha]. split; [apply (id_restart_spec L HL crash _ Hi)|].
      unfold alive. cbn. discriminate.
    - destruct (crash_write_good txn_path k ds ents pt w Hg) as (H1 & H2 & _). split; assumption.
    - cbn. split; [exact Hg | reflexivity].
  Qed.

  Lemma wrun_good ops : forall w,
    wgood w -> wgood (fst (wrun v_fixed L ops w)) /\ forallb out_ok (snd (wrun v_fixed L ops w)) = true
               /\ length (snd (wrun v_fixed L ops w)) = length ops.
  Proof.
    induction ops as [|op ops IH]; intros w Hg; cbn [wrun]; [split; [exact Hg|]; split; reflexivity|].
    destruct (wstep_good op w Hg) as [H1 H2]. destruct (wstep v_fixed L op w) as [w1 o]. cbn [fst snd] in *.
    destruct (IH w1 H1) as (H3 & H4 & H5). destruct (wrun v_fixed L ops w1) as [w2 os]. cbn [fst snd forallb length] in *.
    split; [exact H3|]. split; [unfold hout_good in H2; now rewrite H2, H4 | now rewrite H5].
  Qed.

  Lemma wgood_empty : wgood (w_empty L).
  Proof. split; [apply idinv_init | cbn; discriminate]. Qed.

  Lemma wgood_setup dss : wgood (w_setup v_fixed L dss).
  Proof. unfold w_setup. apply wrun_good, wgood_empty. Qed.

  (** ** snapshots at the level of the whole store *)
  Lemma wstep_handles op w :
    match op with HNs _ => True | _ => handles (wns (fst (wstep v_fixed L op w))) = handles (wns w) end.
  Proof.
    destruct op; cbn [wstep]; try exact I; try reflexivity.
    - unfold write_path. destruct ents; [reflexivity|].
      destruct (run_ents L ds (wdata w) (e :: ents) (wid w)) as [[[[s1 oc] ids] ni] pd].
      destruct oc; try reflexivity. destruct (commit_main s1) as [s2 r]. destruct r; try reflexivity.
      destruct ((0 <? ni)%nat && negb (str_eqb ds s_core)); [destruct (nested_update L ds s2)|]; reflexivity.
    - unfold write_path. destruct ents; [reflexivity|].
      destruct (run_ents L ds (wdata w) (e :: ents) (wid w)) as [[[[s1 oc] ids] ni] pd].
      destruct oc; try reflexivity. destruct (commit_ctx (v_ctx v_fixed) k s1) as [s2 r]. destruct r; try reflexivity.
      destruct ((0 <? ni)%nat && negb (str_eqb ds s_core)); [destruct (nested_update L ds s2)|]; reflexivity.
    - unfold crash_write. destruct ents; [reflexivity|].
      destruct (run_ents L ds (wdata w) (e :: ents) (wid w)) as [[[[s1 oc] ids] ni] pd].
      destruct oc; try reflexivity. destruct pt as [|pt']; [reflexivity|]. cbn [v_order v_fixed].
      destruct (match k with None => commit_main s1 | Some k0 => commit_ctx (v_ctx v_fixed) k0 s1 end) as [s2 r].
      destruct r; destruct pt'; reflexivity.
  Qed.

  Lemma write_path_out v k ds ents w : exists oc ids, snd (write_path v L k ds ents w) = HOBatch oc ids.
  Proof.
    unfold write_path. destruct ents; [cbn; eauto|].
    destruct (run_ents L ds (wdata w) (e :: ents) (wid w)) as [[[[s1 oc] ids] ni] pd].
    destruct oc; try (cbn; eauto; fail).
    destruct (match k with None => commit_main s1 | Some k0 => commit_ctx (v_ctx v) k0 s1 end) as [s2 r].
    destruct r; try (cbn; eauto; fail).
    destruct ((0 <? ni)%nat && negb (str_eqb ds s_core)); [destruct (nested_update L ds s2)|]; cbn; eauto.
  Qed.

  Lemma wstep_out_shape op w :
    match op with HNs _ => True | _ => match snd (wstep v_fixed L op w) with HONs _ => False | _ => True end end.
  Proof.
    destruct op; cbn [wstep]; try exact I.
    - destruct (write_path_out v_fixed None ds ents w) as (oc & ids & ->). exact I.
    - destruct (write_path_out v_fixed (Some k) ds ents w) as (oc & ids & ->). exact I.
    - unfold crash_write. destruct ents; [exact I|].
      destruct (run_ents L ds (wdata w) (e :: ents) (wid w)) as [[[[s1 oc] ids] ni] pd].
      destruct oc; try exact I. destruct pt as [|pt']; [exact I|]. cbn [v_order v_fixed].
      destruct (match k with None => commit_main s1 | Some k0 => commit_ctx (v_ctx v_fixed) k0 s1 end) as [s2 r].
      destruct r; destruct pt'; exact I.
  Qed.

  Lemma snapshot_wrun ops : forall w fetched,
    handles (wns w) = hs_of fetched -> all_ctx fetched ->
    snapshot_ok fetched (ns_events (combine ops (snd (wrun v_fixed L ops w)))) = true.
  Proof.
    induction ops as [|op ops IH]; intros w fetched Hh Hall; cbn [wrun]; [reflexivity|].
    pose proof (wstep_handles op w) as Hsame. pose proof (wstep_out_shape op w) as Hshape.
    destruct (wstep v_fixed L op w) as [w1 o] eqn:Es.
    destruct (wrun v_fixed L ops w1) as [w2 os] eqn:Er. cbn [snd combine ns_events flat_map fst] in *.
    assert (Hos : os = snd (wrun v_fixed L ops w1)) by now rewrite Er.
    destruct op.
    all: try (destruct o; try contradiction; cbn [app]; rewrite Hos; apply IH; first [rewrite Hsame; exact Hh | exact Hall]; fail).
    cbn [wstep] in Es.
    (* HNs *)
    destruct (ns_step (v_alias v_fixed) o0 (wns w)) as [n r] eqn:En. injection Es as <- <-.
    cbn [app wns]. clear Hsame.
    pose proof (snapshot_run [o0] (wns w) fetched Hh Hall) as H1. cbn [ns_run] in H1.
    change (v_alias v_fixed) with AliasCopy in En. rewrite En in H1. cbn [snd combine] in H1.
    destruct o0; cbn [ns_step] in En.
    - destruct (assert_prefix e (nst (wns w))). injection En as <- <-. cbn [snapshot_ok]. rewrite Hos. apply IH; assumption.
    - destruct (compact u (nst (wns w))). injection En as <- <-. cbn [snapshot_ok]. rewrite Hos. apply IH; assumption.
    - destruct (ns_identifier v locals (nst (wns w))). injection En as <- <-. cbn [snapshot_ok]. rewrite Hos. apply IH; assumption.
    - injection En as <- <-. cbn [snapshot_ok]. rewrite Hos. apply IH; assumption.
    - injection En as <- <-. cbn [snapshot_ok]. rewrite Hos. apply IH; assumption.
    - injection En as <- <-. cbn [snapshot_ok]. rewrite Hos. apply IH.
      + cbn [handles wns]. rewrite Hh. unfold hs_of. now rewrite map_app.
      + apply Forall_app. split; [assumption|]. constructor; [eauto | constructor].
    - injection En as <- <-. cbn [snapshot_ok] in *. rewrite andb_true_r in H1. rewrite H1. cbn [andb].
      rewrite Hos. apply IH; assumption.
    - injection En as <- <-. cbn [snapshot_ok]. rewrite Hos. apply IH; assumption.
    - injection En as <- <-. cbn [snapshot_ok]. rewrite Hos. apply IH; assumption.
    - injection En as <- <-. cbn [snapshot_ok]. rewrite Hos. apply IH; assumption.
    - injection En as <- <-. cbn [snapshot_ok]. rewrite Hos. apply IH; assumption.
  Qed.
End Fixed.

Lemma setup_handles dss : handles (wns (w_setup v_fixed L_go dss)) = [].
Proof.
  unfold w_setup, setup_ops.
  assert (H : forall ops w, (forall op, In op ops -> match op with HNs NFetch => False | _ => True end) ->
              handles (wns (fst (wrun v_fixed L_go ops w))) = handles (wns w)).
  { induction ops as [|op ops IH]; intros w Hops; cbn [wrun]; [reflexivity|].
    pose proof (wstep_handles L_go op w) as Hs.
    assert (Hop := Hops op (or_introl eq_refl)).
    destruct (wstep v_fixed L_go op w) as [w1 o] eqn:Es.
    assert (IH' := IH w1 (fun op' Hin => Hops op' (or_intror Hin))).
    destruct (wrun v_fixed L_go ops w1) as [w2 os]. cbn [fst] in *. rewrite IH'.
    destruct op; try exact Hs.
    cbn [wstep] in Es. destruct (ns_step (v_alias v_fixed) o0 (wns w)) as [n r] eqn:En. injection Es as <- <-. cbn [wns].
    destruct o0; cbn [ns_step] in En; try contradiction.
    - destruct (assert_prefix e (nst (wns w))). now injection En as <- <-.
    - destruct (compact u (nst (wns w))). now injection En as <- <-.
    - destruct (ns_identifier v locals (nst (wns w))). now injection En as <- <-.
    - now injection En as <- <-.
    - now injection En as <- <-.
    - now injection En as <- <-.
    - now injection En as <- <-.
    - now injection En as <- <-.
    - now injection En as <- <-.
    - now injection En as <- <-. }
  rewrite H; [reflexivity|].
  intros op Hin. apply in_app_or in Hin. destruct Hin as [Hin|Hin].
  - cbn in Hin. destruct Hin as [<-|[<-|[<-|[]]]]; exact I.
  - apply in_map_iff in Hin. destruct Hin as (ds & <- & _). exact I.
Qed.

Theorem agree_fixed_spec_core c : agree v_fixed c = true -> spec_core c = true.
Proof.
  unfold agree, spec_core. destruct (c_conc c).
  - destruct (o_conc c) as [|[p|[p|p|]|]]; cbn; try discriminate; try reflexivity.
  - intros H. apply houts_eqb_eq in H. rewrite <- H. unfold predict.
    assert (HL : 1 <= L_go) by (unfold L_go; lia).
    destruct (wrun_good L_go HL (c_ops c) _ (wgood_setup L_go HL (c_dss c))) as (_ & H2 & H3).
    rewrite H3, Nat.eqb_refl, H2. cbn [andb].
    apply snapshot_wrun; [rewrite setup_handles; reflexivity | constructor].
Qed.
